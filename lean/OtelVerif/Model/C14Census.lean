import OtelVerif.Model.C14
import OtelVerif.Model.C14CensusTypes
import OtelVerif.Gen.OpaqueCensus
/-!
# C14 model: the regenerated census of opaque-typed fields, connected to the value trees of the fmt / encoder model

`GV.inhab v sh`: the value tree `v` is a value of a Go type of shape `sh`.  `OShape.safe sh`: every value of such a type
is `plainIn` (the hypothesis of the fmt non-interference theorem below the top level): pointers point directly at an
opaque string, maps are not keyed by an opaque string.  `Props/C14.lean` proves that and evaluates `safe` on every
regenerated field.
-/
namespace OtelVerif.C14

mutual
def GV.inhab : GV → OShape → Bool
  | .opq _, t => t == .opq
  | .str _, t => t == .other
  | .num _, t => t == .other
  | .nilv, t => (match t with | .ptr _ => true | _ => false)
  | .ptr v, t => (match t with | .ptr s => v.inhab s | _ => false)
  | .nilSlice, t => (match t with | .slice _ => true | _ => false)
  | .slice vs, t => (match t with | .slice s => GV.inhabL vs s | _ => false)
  | .array vs, t => (match t with | .array s => GV.inhabL vs s | _ => false)
  | .nilMap, t => (match t with | .map _ _ => true | _ => false)
  | .map kvs, t => (match t with | .map k v => GV.inhabKV kvs k v | _ => false)
  | .iface _, _ => false      -- no census field is an interface
  | .struct _, _ => false     -- … or a struct by value (a struct's own fields are census entries of their own)
  | .tm _ _ _, _ => false
  | .sh _ _, _ => false
def GV.inhabL : List GV → OShape → Bool
  | [], _ => true
  | v :: vs, s => v.inhab s && GV.inhabL vs s
def GV.inhabKV : List (GV × GV) → OShape → OShape → Bool
  | [], _, _ => true
  | (a, b) :: kvs, k, v => a.inhab k && b.inhab v && GV.inhabKV kvs k v
end

def OShape.safe : OShape → Bool
  | .opq => true
  | .other => true
  | .ptr s => s == .opq
  | .slice s => s.safe
  | .array s => s.safe
  | .map k v => k == .other && v.safe

/-- the struct field as the value-tree model sees it -/
def CField.info (f : CField) : FieldInfo := { name := f.key, exported := f.exported, omitEmpty := f.omitEmpty }

def censusLookup (pkg owner field : String) : Option CField :=
  OtelVerif.Gen.OpaqueCensus.fields.find? (fun f => f.pkg == pkg && f.owner == owner && f.field == field)

def OShape.show : OShape → String
  | .opq => "O"
  | .other => "x"
  | .ptr s => "P" ++ s.show
  | .slice s => "L" ++ s.show
  | .array s => "A" ++ s.show
  | .map k v => "M" ++ k.show ++ v.show

end OtelVerif.C14
