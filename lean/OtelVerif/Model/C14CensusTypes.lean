/-!
# C14 — types of the regenerated census `Gen/OpaqueCensus.lean` (`translators/cmd/opaquecensus`)
-/
namespace OtelVerif.C14

/-- the shape of a field type that mentions `configopaque.String` -/
inductive OShape
  | opq                       -- configopaque.String
  | other                     -- any type that does not mention it (string, int, …)
  | ptr (s : OShape)
  | slice (s : OShape)
  | array (s : OShape)
  | map (k v : OShape)
deriving DecidableEq, Repr

/-- one struct field of the repository whose type mentions the opaque type -/
structure CField where
  pkg : String
  owner : String
  field : String
  exported : Bool
  key : String          -- mapstructure key ("" if untagged)
  omitEmpty : Bool
  shape : OShape
deriving DecidableEq, Repr

/-- a place in the source where an opaque value is converted (`conversions`) or handed on still typed (`passes`) -/
structure Site where
  file : String
  fn : String
  kind : String
  expr : String
  ctx : String
deriving DecidableEq, Repr

end OtelVerif.C14
