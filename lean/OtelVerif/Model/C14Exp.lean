import OtelVerif.Model.C14
/-!
# C14 model: "exported-only" operand trees — the shape class of the built-in configuration types

`GV.plainIn` (hypothesis of `C14_fmt_noninterference`) allows a pointer only directly to an opaque string, because a
pointer to anything else below the top level leaks under verbs that are not valid for pointers (`fmtPointer → badVerb`,
finding `nested-pointer-badverb-raw`).  The built-in configuration types DO hold pointers to structs below the top
(`tls`, `auth`, `keepalive`, `protocols::grpc` …).  `GV.expIn` drops that restriction — any pointee — and keeps the rest
(every struct field that can reach an opaque string is exported, maps with several entries keyed by plain values); the matching theorem
(`C14_fmt_pointer_verbs_noninterference`) is restricted to the verbs `fmtPointer` accepts: `v d x X b o` (so `%v`, `%+v`,
`%#v` — what logging and error wrapping use), where such a pointer prints as an address.
-/
namespace OtelVerif.C14

mutual
/-- the tree holds no opaque string at all -/
def GV.noOpq : GV → Bool
  | .opq _ => false
  | .str _ | .num _ | .nilv | .nilSlice | .nilMap => true
  | .ptr v => v.noOpq
  | .iface v => v.noOpq
  | .slice vs => GV.noOpqL vs
  | .array vs => GV.noOpqL vs
  | .map kvs => GV.noOpqKV kvs
  | .struct fs => GV.noOpqF fs
  | .tm _ _ fs => GV.noOpqF fs
  | .sh _ fs => GV.noOpqF fs
def GV.noOpqL : List GV → Bool
  | [] => true
  | v :: vs => v.noOpq && GV.noOpqL vs
def GV.noOpqKV : List (GV × GV) → Bool
  | [] => true
  | (k, v) :: kvs => k.noOpq && v.noOpq && GV.noOpqKV kvs
def GV.noOpqF : List (FieldInfo × GV) → Bool
  | [] => true
  | (_, v) :: fs => v.noOpq && GV.noOpqF fs
end

mutual
def GV.expIn : GV → Bool
  | .opq _ | .str _ | .num _ | .nilv | .nilSlice | .nilMap => true
  | .ptr v => v.expIn
  | .iface v => v.expIn
  | .slice vs => GV.expInL vs
  | .array vs => GV.expInL vs
  | .map kvs =>
    (kvs.length ≤ 1 || kvs.all (fun p => match p.1 with | .str _ | .num _ => true | _ => false)) && GV.expInKV kvs
  | .struct fs => GV.expInF fs
  | .tm _ _ fs => GV.expInF fs
  | .sh _ fs => GV.expInF fs
def GV.expInL : List GV → Bool
  | [] => true
  | v :: vs => v.expIn && GV.expInL vs
def GV.expInKV : List (GV × GV) → Bool
  | [] => true
  | (k, v) :: kvs => k.expIn && v.expIn && GV.expInKV kvs
def GV.expInF : List (FieldInfo × GV) → Bool
  | [] => true
  | (fi, v) :: fs => ((fi.exported && v.expIn) || v.noOpq) && GV.expInF fs   -- an unexported field may hold anything but an opaque string
end

/-- verbs `fmtPointer` accepts, without `p` (handled before any method, finding `verb-p-badverb-raw`) -/
def ptrSafeVerbs : List Char := ['v', 'b', 'o', 'd', 'x', 'X']

end OtelVerif.C14
