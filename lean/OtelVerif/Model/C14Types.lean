/-!
# C14 — types shared by the regenerated `Gen/Opaque.lean` and the model

`MExpr` is the tiny expression language into which the translator puts what a method of
`configopaque.String` returns: the receiver, a string constant, the Go-syntax quotation of an
expression (`fmt.Sprintf("%#v", e)`), a concatenation.  Conversions (`string(e)`, `[]byte(e)`) are
dropped by the translator (they do not change the bytes).
-/
namespace OtelVerif.C14

inductive MExpr
  | recv
  | lit (s : String)
  | goQuote (e : MExpr)
  | cat (a b : MExpr)
deriving DecidableEq, Repr

inductive MKind
  | ret             -- `return e[, nil]`
  | formatDelegate  -- `fmt.Fprintf(f, fmt.FormatString(f, verb), e)`
deriving DecidableEq, Repr

structure Method where
  name : String
  valueRecv : Bool
  kind : MKind
  result : MExpr
deriving DecidableEq, Repr

end OtelVerif.C14
