import OtelVerif.Gen.OtlpTables
/-!
# C15 model — what a failure means on both sides of the OTLP hop

Receiver side (`receiver/otlpreceiver`): `internal/*/otlp.go Export` (zero items → acknowledged without the
consumer; error → `GetStatusFromError`), `internal/errors/errors.go` (`GetStatusFromError`,
`GetHTTPStatusCodeFromStatus`), `otlphttp.go` (`readContentType`, `readAndCloseBody`, `handleX`, `writeError`,
`writeStatusResponse` with `Retry-After` in whole seconds). In front of it: the server-side authenticator
(confighttp `authInterceptor` → 401, configgrpc `authUnaryServerInterceptor` → Unauthenticated), the
decompressor (C16 → 400), the mux (404).
Sender side: `exporter/otlpexporter/otlp.go` (`processError`, `shouldRetry`),
`exporter/otlphttpexporter/otlp.go` (`export`, `isRetryableStatusCode`, `Retry-After` parsing).

Every table is regenerated (`Gen/OtlpTables.lean`). Core Lean only. Durations are nanoseconds (`Nat`).
-/
namespace OtelVerif.C15
open OtelVerif.Gen

/-- switch-with-default as an association list -/
def lookupD : List (Nat × Nat) → Nat → Nat → Nat
  | [], d, _ => d
  | (k, v) :: r, d, x => if x = k then v else lookupD r d x

/-- what the consumer behind the receiver returned -/
inductive Outcome
  | ok
  | plain (permanent : Bool)                     -- an error without gRPC status (`consumererror.NewPermanent` or not)
  | status (code : Nat) (retry : Option Nat)     -- an error carrying a gRPC status (possibly wrapped), optional RetryInfo delay (ns)
deriving DecidableEq, Repr

/-- `status.New(codes.OK, …).Err()` is nil: an error never carries code 0 -/
def Outcome.wf : Outcome → Prop
  | .status c _ => c ≠ 0
  | _ => True

instance : DecidablePred Outcome.wf := fun o => by cases o <;> unfold Outcome.wf <;> infer_instance

/-- `GetStatusFromError`: `none` = no error -/
def recvStatus : Outcome → Option (Nat × Option Nat)
  | .ok => none
  | .plain p => some (if p then OtlpTables.permanentCode else OtlpTables.plainCode, none)
  | .status c ri => some (c, ri)

structure WireGrpc where
  code : Nat
  retry : Option Nat          -- RetryInfo detail, ns
deriving DecidableEq, Repr

structure WireHttp where
  status : Nat
  retryAfter : Option Nat     -- `Retry-After` header, whole seconds
  bodyCode : Nat              -- `code` of the Status message in the body (0 on success)
deriving DecidableEq, Repr

def nsPerSec : Nat := 1000000000

/-- the `Retry-After` value `writeStatusResponse` writes for a RetryInfo delay -/
def secondsOf (ns : Nat) : Nat :=
  if OtlpTables.retryAfterRoundsUp then (ns + (nsPerSec - 1)) / nsPerSec else ns / nsPerSec

/-- `GetHTTPStatusCodeFromStatus` -/
def httpOf (c : Nat) : Nat := lookupD OtlpTables.httpOfGrpc OtlpTables.httpOfGrpcDefault c

/-- gRPC: the status error returned by `Export` is what grpc-go puts on the wire -/
def recvGrpc (o : Outcome) : WireGrpc :=
  match recvStatus o with
  | none => ⟨0, none⟩
  | some (c, ri) => ⟨c, ri⟩

/-- HTTP: `writeError` (the error always carries a status after `GetStatusFromError`) + `writeStatusResponse` -/
def recvHttp (o : Outcome) : WireHttp :=
  match recvStatus o with
  | none => ⟨200, none, 0⟩
  | some (c, ri) =>
    let st := httpOf c
    ⟨st, if OtlpTables.recvThrottleStatuses.contains st then ri.map secondsOf else none, c⟩

inductive Verdict
  | success
  | permanent
  | retryable
  | throttle (ns : Nat)
deriving DecidableEq, Repr

/-- otlpexporter `shouldRetry` -/
def shouldRetry (c : Nat) (ri : Option Nat) : Bool :=
  OtlpTables.grpcRetryAlways.contains c || (OtlpTables.grpcRetryIfInfo.contains c && ri.isSome)

/-- otlpexporter `processError` -/
def expGrpc (w : WireGrpc) : Verdict :=
  if w.code = 0 then .success
  else if !shouldRetry w.code w.retry then .permanent
  else match w.retry with
    | some d => if d ≠ 0 then .throttle d else .retryable
    | none => .retryable

/-- otlphttpexporter `export` (status part) -/
def expHttp (w : WireHttp) : Verdict :=
  if OtlpTables.successLo ≤ w.status ∧ w.status ≤ OtlpTables.successHi then .success
  else if !OtlpTables.httpRetryable.contains w.status then .permanent
  else if OtlpTables.expThrottleStatuses.contains w.status then
    match w.retryAfter with
    | some s => .throttle (s * nsPerSec)
    | none => .retryable
  else .retryable

/-- gRPC code carried by the error `export` RETURNS: `statusutil.NewStatusFromMsgAndHTTPCode(msg, resp.StatusCode).Err()`, wrapped
(Permanent / ThrottleRetry) or not; 0 = nil -/
def expHttpErrCode (w : WireHttp) : Nat :=
  if OtlpTables.successLo ≤ w.status ∧ w.status ≤ OtlpTables.successHi then 0
  else lookupD OtlpTables.grpcOfHttp OtlpTables.grpcOfHttpDefault w.status

/-- gRPC code carried by the error `processError` returns: the status error itself, wrapped or not -/
def expGrpcErrCode (w : WireGrpc) : Nat := w.code

/-- `Export`: zero items are acknowledged without invoking the consumer. Returns (outcome, consumer calls). -/
def receive (items : Nat) (sink : Outcome) : Outcome × Nat :=
  if items = 0 then (.ok, 0) else (sink, 1)

inductive CType | proto | json | other
deriving DecidableEq, Repr

/-- an HTTP request as the receiver's stack sees it, stage by stage -/
structure HttpReq where
  authOk : Option Bool     -- `none`: no authenticator configured
  encodingOk : Bool        -- Content-Encoding enabled and the reader opens (C16)
  pathKnown : Bool
  isPost : Bool
  ctype : CType
  bodyReads : Bool         -- `io.ReadAll(req.Body)` succeeds: not cut short, the compressed stream is intact, and the
                           -- body (before and after decompression) fits `max_request_body_size`
  bodyDecodes : Bool       -- the (decompressed) body unmarshals as an export request
  items : Nat
deriving DecidableEq, Repr

def authStatusHttp : Nat := OtlpTables.authStatusHttp   -- regenerated: confighttp authInterceptor (http.StatusUnauthorized)
def encodingStatus : Nat := OtlpTables.encodingStatus   -- regenerated: confighttp decompressor.ServeHTTP (C16: `Compression.rejectStatus`)
def pathStatus : Nat := 404          -- http.ServeMux (library; hand constant)
def authCodeGrpc : Nat := OtlpTables.authCodeGrpc       -- regenerated: configgrpc auth interceptors (codes.Unauthenticated)
def undecodableCodeGrpc : Nat := 13  -- grpc-go: "error unmarshalling request" → codes.Internal

/-- receiver `errorHandler` (what confighttp calls for auth / decompressor rejections): answers in the
request's content type; without a usable one it either keeps the decided status (JSON body) or, on a tree
where `errorHandlerKeepsStatus = false`, answers the fixed 500 fallback -/
def errorHandlerStatus (ct : CType) (st : Nat) : Nat :=
  if ct = .other ∧ !OtlpTables.errorHandlerKeepsStatus then 500 else st

/-- the HTTP server stack in order: auth → decompressor → mux → method → content type → read body → unmarshal → Export.
Returns (status line facts, consumer calls). Statuses of rejected requests carry no Retry-After. -/
def httpFront (r : HttpReq) (sink : Outcome) : WireHttp × Nat :=
  if r.authOk = some false then (⟨errorHandlerStatus r.ctype authStatusHttp, none, 16⟩, 0)
  else if !r.encodingOk then (⟨errorHandlerStatus r.ctype encodingStatus, none, 3⟩, 0)
  else if !r.pathKnown then (⟨pathStatus, none, 0⟩, 0)
  else if !r.isPost then (⟨OtlpTables.methodStatus, none, 0⟩, 0)
  else if r.ctype = .other then (⟨OtlpTables.contentTypeStatus, none, 0⟩, 0)
  else if !r.bodyReads then
    (⟨OtlpTables.readBodyStatus, none, lookupD OtlpTables.grpcOfHttp OtlpTables.grpcOfHttpDefault OtlpTables.readBodyStatus⟩, 0)
  else if !r.bodyDecodes then
    (⟨OtlpTables.unmarshalStatus, none, lookupD OtlpTables.grpcOfHttp OtlpTables.grpcOfHttpDefault OtlpTables.unmarshalStatus⟩, 0)
  else
    let (o, calls) := receive r.items sink
    (recvHttp o, calls)

structure GrpcReq where
  authOk : Option Bool
  bodyDecodes : Bool
  items : Nat
  methodKnown : Bool       -- the `/service/method` path is one the receiver registered
  encodingKnown : Bool     -- `grpc-encoding` names a compressor the server has installed (or none)
  fitsMaxRecv : Bool       -- the (decompressed) message is not larger than `max_recv_msg_size_mib` (default 4 MiB)
deriving DecidableEq, Repr

def unknownMethodCodeGrpc : Nat := 12    -- grpc-go `handleStream`: codes.Unimplemented ("unknown service / unknown method")
def unknownEncodingCodeGrpc : Nat := 12  -- grpc-go `processUnaryRPC`: codes.Unimplemented ("Decompressor is not installed for grpc-encoding")
def oversizeCodeGrpc : Nat := 8          -- grpc-go `recvAndDecompress`: codes.ResourceExhausted ("received message larger than max")

/-- grpc-go decodes the request inside the generated method handler *before* it calls the interceptor chain,
so an undecodable frame is answered before the authenticator is consulted -/
def grpcFront (r : GrpcReq) (sink : Outcome) : WireGrpc × Nat :=
  -- grpc-go's own stages, in its order: method lookup, compressor lookup, size check, decode; then the interceptor chain
  if !r.methodKnown then (⟨unknownMethodCodeGrpc, none⟩, 0)
  else if !r.encodingKnown then (⟨unknownEncodingCodeGrpc, none⟩, 0)
  else if !r.fitsMaxRecv then (⟨oversizeCodeGrpc, none⟩, 0)
  else if !r.bodyDecodes then (⟨undecodableCodeGrpc, none⟩, 0)
  else if r.authOk = some false then (⟨authCodeGrpc, none⟩, 0)
  else
    let (o, calls) := receive r.items sink
    (recvGrpc o, calls)

/-! ## the OTLP specification's tables (hand-written; trusted transcription)

OTLP spec, "OTLP/gRPC — Failures": retryable: CANCELLED, DEADLINE_EXCEEDED, ABORTED, OUT_OF_RANGE, UNAVAILABLE,
DATA_LOSS; RESOURCE_EXHAUSTED "only if the server signals that the recovery from resource exhaustion is
possible" (RetryInfo); every other code is not retryable. "OTLP/gRPC Throttling": the client SHOULD honour
`RetryInfo.retry_delay`.
"OTLP/HTTP — Failures / Retryable Response Codes": 429, 502, 503, 504 are retryable; all other 4xx/5xx MUST NOT
be retried. "OTLP/HTTP Throttling": 429/503 MAY carry `Retry-After`, which the client SHOULD honour. -/

def specGrpcRetryable (c : Nat) (hasRetryInfo : Bool) : Bool :=
  c = 1 || c = 4 || c = 10 || c = 11 || c = 14 || c = 15 || (c = 8 && hasRetryInfo)

def specHttpRetryable (st : Nat) : Bool := st = 429 || st = 502 || st = 503 || st = 504

def specGrpc (w : WireGrpc) : Verdict :=
  if w.code = 0 then .success
  else if !specGrpcRetryable w.code w.retry.isSome then .permanent
  else match w.retry with
    | some d => if d = 0 then .retryable else .throttle d
    | none => .retryable

def specHttp (w : WireHttp) : Verdict :=
  if 200 ≤ w.status ∧ w.status ≤ 299 then .success
  else if !specHttpRetryable w.status then .permanent
  else if w.status = 429 ∨ w.status = 503 then
    match w.retryAfter with
    | some s => .throttle (s * nsPerSec)
    | none => .retryable
  else .retryable

/-- the collector's documented gRPC→HTTP mapping for explicit statuses (receiver README / spec note) -/
def specHttpOf (c : Nat) : Nat :=
  if c = 1 ∨ c = 4 ∨ c = 10 ∨ c = 11 ∨ c = 14 ∨ c = 15 then 503
  else if c = 8 then 429
  else if c = 3 then 400
  else if c = 16 then 401
  else if c = 7 then 403
  else if c = 12 then 404
  else 500

def Verdict.isRetry : Verdict → Bool
  | .retryable => true
  | .throttle _ => true
  | _ => false

/-! ## the senders against ANY server (scripted fake servers): every status, header and body

The real receiver only ever produces the wires above. A sender, however, classifies whatever comes back; these
functions model `otlphttpexporter.export` and `otlpexporter.processError` on the full input space: signed delays
(`time.Duration` arithmetic wraps at 64 bits), `Retry-After` as delay-seconds / HTTP-date / garbage / empty,
response bodies that are or are not what the protocol says. -/

inductive VerdictI
  | success
  | permanent
  | retryable
  | throttle (ns : Int)
deriving DecidableEq, Repr

/-- two's-complement wrap of `time.Duration` (int64) arithmetic -/
def wrap64 (x : Int) : Int := (x + 9223372036854775808) % 18446744073709551616 - 9223372036854775808

/-- the first `Retry-After` value as the exporter parses it: `strconv.Atoi`, else `time.Parse(time.RFC1123, …)`
(`deltaNs` = `time.Until(date)` when the response is processed), else unusable (incl. the empty string) -/
inductive RetryAfter
  | absent
  | seconds (s : Int)
  | date (deltaNs : Int)
  | unusable
deriving DecidableEq, Repr

/-- what the exporter makes of the body of a 2xx response (`handlePartialSuccessResponse` + `xPartialSuccessHandler`) -/
inductive SuccessBody
  | empty                 -- no body (Content-Length 0 / EOF)
  | response              -- a decodable Export*ServiceResponse in the declared content type (with or without partial_success)
  | otherContentType      -- Content-Type is neither exactly protobuf nor exactly JSON: ignored
  | undecodable           -- declared protobuf/JSON but does not decode (garbage, truncated at 64 KiB, …)
deriving DecidableEq, Repr

structure HttpResp where
  status : Nat
  ra : RetryAfter
  body : SuccessBody        -- only looked at for 2xx; for other statuses the body only feeds the error *message*
deriving DecidableEq, Repr

/-- otlphttpexporter `export`, complete -/
def expHttpX (r : HttpResp) : VerdictI :=
  if OtlpTables.successLo ≤ r.status ∧ r.status ≤ OtlpTables.successHi then
    (match r.body with
     | .undecodable => .retryable      -- "error parsing … response": a plain error, i.e. retried
     | _ => .success)                  -- partial success is logged, never an error
  else if !OtlpTables.httpRetryable.contains r.status then .permanent
  else if OtlpTables.expThrottleStatuses.contains r.status then
    match r.ra with
    | .absent => .retryable
    | .seconds s => .throttle (wrap64 (s * nsPerSec))
    | .date d => .throttle d
    | .unusable => .retryable
  else .retryable

/-- otlpexporter `processError`, complete: any code, RetryInfo with a signed delay; a partial-success response
(no error) is success -/
def expGrpcX (code : Nat) (ri : Option Int) : VerdictI :=
  if code = 0 then .success
  else if !shouldRetry code (ri.map Int.toNat) then .permanent
  else match ri with
    | some d => if d ≠ 0 then .throttle d else .retryable
    | none => .retryable

/-- the SPECIFICATION on the full input space, free of any implementation trait (hand-written): every 2xx is success
whatever the body; 429/502/503/504 retryable, all else permanent; 429/503 with a usable `Retry-After` → wait exactly that
long, for EVERY integer number of seconds -/
def specHttpXPure (r : HttpResp) : VerdictI :=
  if 200 ≤ r.status ∧ r.status ≤ 299 then .success
  else if !specHttpRetryable r.status then .permanent
  else if r.status = 429 ∨ r.status = 503 then
    match r.ra with
    | .seconds s => .throttle (s * nsPerSec)
    | .date d => .throttle d
    | _ => .retryable
  else .retryable

/-- where the exporter is claimed to follow `specHttpXPure`: a 2xx body that decodes (or is ignorable), and a delay-seconds value
whose nanoseconds fit a `time.Duration` -/
def HttpResp.inDomain (r : HttpResp) : Bool :=
  (!(decide (200 ≤ r.status) && decide (r.status ≤ 299)) || r.body != .undecodable) &&
  (match r.ra with
   | .seconds s => decide (-9223372036 ≤ s) && decide (s ≤ 9223372036)
   | _ => true)

/-- the exporter's behaviour written in the notation of the spec tables — it carries the two implementation traits
(64-bit wrap of delay-seconds, an undecodable 2xx body is a plain error); NOT a specification: a normal form used in proofs and,
outside `inDomain`, as the recorded behaviour -/
def specHttpX (r : HttpResp) : VerdictI :=
  if 200 ≤ r.status ∧ r.status ≤ 299 then (if r.body = .undecodable then .retryable else .success)
  else if !specHttpRetryable r.status then .permanent
  else if r.status = 429 ∨ r.status = 503 then
    match r.ra with
    | .seconds s => .throttle (wrap64 (s * nsPerSec))
    | .date d => .throttle d
    | _ => .retryable
  else .retryable

/-- the specification for a gRPC sender on the full input space (hand-written) -/
def specGrpcX (c : Nat) (ri : Option Int) : VerdictI :=
  if c = 0 then .success
  else if !specGrpcRetryable c ri.isSome then .permanent
  else match ri with
    | some d => if d = 0 then .retryable else .throttle d
    | none => .retryable

def Verdict.toI : Verdict → VerdictI
  | .success => .success
  | .permanent => .permanent
  | .retryable => .retryable
  | .throttle d => .throttle d

/-! ## the property on one observed hop (search oracle) -/

inductive Transport | grpc | http
deriving DecidableEq, Repr

/-- what the harness sees of one export through the hop -/
structure Hop where
  transport : Transport
  items : Nat
  sink : Outcome               -- what the scripted consumer returns when invoked
  wireCode : Nat               -- gRPC: status code; HTTP: code in the Status body (0 on success)
  httpStatus : Nat             -- HTTP only (0 for gRPC)
  wireRetry : Option Nat       -- gRPC: RetryInfo ns; HTTP: Retry-After seconds
  verdict : Verdict            -- the exporter's classification of its own returned error
  calls : Nat                  -- consumer invocations caused by the exporter's request
  payloadEq : Bool             -- the consumer saw exactly what was sent (vacuously true if not invoked)
  authFail : Bool := false     -- an authenticator is configured and the request does not satisfy it

def Hop.effective (x : Hop) : Outcome := if x.items = 0 then .ok else x.sink

/-- first failing clause of a list of (violated?, signature) pairs -/
def firstFail : List (Bool × String) → Option String
  | [] => none
  | (c, s) :: r => if c then some s else firstFail r

def Hop.wireRetryable (x : Hop) : Bool :=
  match x.transport with
  | .grpc => specGrpcRetryable x.wireCode x.wireRetry.isSome
  | .http => specHttpRetryable x.httpStatus

/-- the specification's classification of what is on the wire -/
def Hop.want (x : Hop) : Verdict :=
  match x.transport with
  | .grpc => specGrpc ⟨x.wireCode, x.wireRetry⟩
  | .http => specHttp ⟨x.httpStatus, x.wireRetry, x.wireCode⟩

def Hop.tname (x : Hop) : String := match x.transport with | .grpc => "grpc" | .http => "http"

/-- the clauses of the property on one hop, each as (violated?, signature) -/
def hopClauses (x : Hop) : List (Bool × String) :=
  let o := x.effective
  let t := x.tname
  if x.authFail then
    -- unauthenticated: the protocol's client-error status, never reaches the consumer, not retried
    [ (x.calls != 0, "C15/" ++ t ++ "/unauthenticated-reached-consumer"),
      -- the two ways this goes badly wrong get their own signatures (both are also instances of the clauses below)
      (x.verdict == .success, "C15/" ++ t ++ "/unauthenticated-acknowledged-as-success"),
      (x.verdict.isRetry, "C15/" ++ t ++ "/unauthenticated-looks-retryable-to-the-sender"),
      ((match x.transport with
        | .grpc => x.wireCode != 16
        | .http => decide (x.httpStatus < 400) || decide (499 < x.httpStatus)), "C15/" ++ t ++ "/unauthenticated-not-client-error"),
      (x.verdict != .permanent, "C15/" ++ t ++ "/unauthenticated-not-permanent") ]
  else
    [ (x.calls != (if x.items = 0 then 0 else 1), "C15/" ++ t ++ "/consumer-call-count"),
      (!x.payloadEq, "C15/" ++ t ++ "/payload-differs"),
      (decide (x.verdict = .success) != decide (o = .ok), "C15/" ++ t ++ "/success-iff-accepted"),
      -- what the wire carries
      ((match o with | .status c _ => x.wireCode != c | _ => false), "C15/" ++ t ++ "/explicit-status-not-reported"),
      ((match o with | .status c _ => x.transport == .http && x.httpStatus != specHttpOf c | _ => false),
        "C15/http/explicit-status-http-mapping"),
      ((match o with | .status _ ri => x.transport == .grpc && x.wireRetry != ri | _ => false), "C15/grpc/retry-info-altered"),
      ((match o with | .plain true => x.wireRetryable | _ => false), "C15/" ++ t ++ "/permanent-reported-retryable"),
      ((match o with | .plain false => !x.wireRetryable | _ => false), "C15/" ++ t ++ "/transient-reported-permanent"),
      -- the sender classifies what it received as the specification's tables prescribe
      (x.verdict != x.want, "C15/" ++ t ++ "/sender-classification-differs-from-spec"),
      -- a requested delay is honoured: never shorter than asked, never dropped
      ((match o, x.verdict with | .status _ (some d), .throttle d' => decide (d' < d) | _, _ => false),
        "C15/" ++ t ++ "/retry-after-truncated"),
      ((match o, x.verdict with | .status _ (some d), .retryable => d != 0 | _, _ => false),
        "C15/" ++ t ++ "/requested-delay-dropped") ]

/-- executable check of the property's clauses on one hop; `none` = fine, `some sig` = violated -/
def hopCheck (x : Hop) : Option String := firstFail (hopClauses x)

end OtelVerif.C15
