/-! C15 model (stub) -/
namespace OtelVerif.C15
end OtelVerif.C15
