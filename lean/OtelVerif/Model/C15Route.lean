import OtelVerif.Gen.OtlpRoutes
/-!
# C15 model, part 2 — ADDRESSING: which consumer does a signal sent by an exporter reach?

Everything here is glue the Go type system does not check: the URL the OTLP/HTTP exporter posts a signal to
(`otlphttpexporter/factory.go composeSignalURL` and its four call sites, the URL field each `pushX` hands to `export`, the
partial-success handler it passes), the path → handler → consumer registration of the receiver (`otlpreceiver/otlp.go
startHTTPServer`, `factory.go` defaults, `config.go sanitizeURLPath`), the gRPC service ↔ consumer registration
(`startGRPCServer`) and client ↔ service choice of the gRPC exporter, and the gRPC compression names (`configgrpc
getGRPCCompressionName` + the compressor packages the package links). All tables are regenerated (`Gen/OtlpRoutes.lean`);
the only hand tables are the Go-identifier → signal dictionaries below and the OTLP specification's default paths.
Core Lean only.
-/
namespace OtelVerif.C15
open OtelVerif.Gen

inductive Signal | traces | metrics | logs | profiles
deriving DecidableEq, Repr

def Signal.all : List Signal := [.traces, .metrics, .logs, .profiles]

def Signal.name : Signal → String
  | .traces => "traces" | .metrics => "metrics" | .logs => "logs" | .profiles => "profiles"

def Signal.ofName? (s : String) : Option Signal := Signal.all.find? (fun g => g.name = s)

/-- OTLP/HTTP specification: default URL paths (`/v1/traces`, `/v1/metrics`, `/v1/logs`; profiles is in development:
`/v1development/profiles`). Hand transcription. -/
def specPath : Signal → String
  | .traces => "/v1/traces" | .metrics => "/v1/metrics" | .logs => "/v1/logs" | .profiles => "/v1development/profiles"

/-! ## dictionaries: Go identifier ↦ the signal it belongs to (hand; fixed names of the pdata / consumer API) -/

def rAssoc {β : Type} : List (String × β) → String → Option β
  | [], _ => none
  | (k, v) :: r, x => if x = k then some v else rAssoc r x

/-- `consumer.Traces`, … (the interface a `next*` field holds) -/
def sigOfIface (s : String) : Option Signal :=
  rAssoc [("Traces", .traces), ("Metrics", .metrics), ("Logs", .logs), ("Profiles", .profiles)] s
/-- `ConsumeTraces`, … -/
def sigOfConsume (s : String) : Option Signal :=
  rAssoc [("ConsumeTraces", .traces), ("ConsumeMetrics", .metrics), ("ConsumeLogs", .logs), ("ConsumeProfiles", .profiles)] s
/-- pdata OTLP packages (request / response / gRPC service of one signal) -/
def sigOfOtlp (s : String) : Option Signal :=
  rAssoc [("ptraceotlp", .traces), ("pmetricotlp", .metrics), ("plogotlp", .logs), ("pprofileotlp", .profiles)] s
/-- `NewExportRequestFromTraces`, … : the signal of the DATA wrapped into the request -/
def sigOfCtor (s : String) : Option Signal :=
  rAssoc [("NewExportRequestFromTraces", .traces), ("NewExportRequestFromMetrics", .metrics),
          ("NewExportRequestFromLogs", .logs), ("NewExportRequestFromProfiles", .profiles)] s

/-! ## receiver -/

/-- HTTPConfig: field ↦ configured path -/
abbrev RecvCfg := List (String × String)

def recvDefaultCfg : RecvCfg := OtlpRoutes.recvDefaultCfg

/-- `sanitizeURLPath` on a plain path (no query / fragment / escapes: then `url.Parse(p).Path = p`) -/
def sanitizeURLPath (p : String) : String :=
  if p.toList.head? = some '/' then p else if OtlpRoutes.sanitizePrependsSlash then "/" ++ p else p

def pathOfSrc (cfg : RecvCfg) : String × String → Option String
  | (kind, v) => if kind = "cfg" then rAssoc cfg v else if kind = "lit" then some v else none

/-- the signal a receiver-side consumer FIELD stands for (type of the field in `otlpReceiver`) -/
def fieldSignal (f : String) : Option Signal := (rAssoc OtlpRoutes.recvConsumerFields f).bind sigOfIface

/-- the signal an `internal/<pkg>` receiver delivers as: the `ConsumeX` method its `Export` calls -/
def pkgSignal (pkg : String) : Option Signal := (rAssoc OtlpRoutes.recvExportConsume pkg).bind sigOfConsume

/-- what a registration does with a request: (signal the body is decoded and delivered AS, signal of the consumer field that gets it).
`none` when the block is not self-consistent for the Go compiler's eyes either (guard ≠ consumer is legal Go, so it is kept) -/
def regEffect (pkg consumer : String) : Option (Signal × Signal) :=
  match pkgSignal pkg, fieldSignal consumer with
  | some a, some b => some (a, b)
  | _, _ => none

/-- `startHTTPServer` + ServeMux exact-path match: POST `path` → the first registration whose path is `path` (the guard of the
block is the field it tests for nil: only registered when that consumer is configured; all four are in the harness) -/
def routeHttp (cfg : RecvCfg) (path : String) : Option (Signal × Signal) :=
  match OtlpRoutes.recvHttpRoutes.find? (fun r => pathOfSrc cfg r.2.2.2.1 = some path) with
  | some (guard, pkg, consumer, _, handler) =>
    -- the handler must drive a receiver of the package built in the block, and the guard must test the consumer used
    if rAssoc OtlpRoutes.recvHandlerPkg handler = some pkg ∧ guard = consumer then regEffect pkg consumer else none
  | none => none

/-- `startGRPCServer`: the service of otlp package `svc` → registration -/
def routeGrpc (svc : String) : Option (Signal × Signal) :=
  match OtlpRoutes.recvGrpcRoutes.find? (fun r => r.2.1 = svc) with
  | some (guard, _, pkg, consumer) => if guard = consumer then regEffect pkg consumer else none
  | none => none

/-! ## OTLP/HTTP exporter -/

structure ExpCfg where
  endpoint : String
  overrides : List (String × String)     -- config field (`TracesEndpoint`, …) ↦ value; absent = ""
deriving Repr

def interp (o e v n : String) : List (String × String) → String
  | [] => ""
  | (k, x) :: r =>
    (if k = "O" then o else if k = "E" then e else if k = "V" then v else if k = "N" then n else if k = "lit" then x else "")
      ++ interp o e v n r

def hasSuffix (s sfx : String) : Bool := sfx.toList.isSuffixOf s.toList

/-- `composeSignalURL`; `none` = the error branch -/
def composeSignalURL (endpoint override name version : String) : Option String :=
  if override ≠ "" then some (interp override endpoint version name OtlpRoutes.composeOverride)
  else if endpoint = "" then none
  else if hasSuffix endpoint OtlpRoutes.composeSuffix then some (interp override endpoint version name OtlpRoutes.composeWithSuffix)
  else some (interp override endpoint version name OtlpRoutes.composeWithoutSuffix)

/-- the `pushX` that carries data of signal `g` (decided by the request constructor it calls) -/
def httpPushOf (g : Signal) : Option (String × String × String × String × String) :=
  OtlpRoutes.expHttpPush.find? (fun r => sigOfCtor r.2.2.1 = some g)

/-- the URL the exporter posts signal `g` to: the URL field its `pushX` reads, as assigned by the create function -/
def exportUrl (g : Signal) (c : ExpCfg) : Option String :=
  match httpPushOf g with
  | some (_, _, _, urlField, _) =>
    match OtlpRoutes.expComposeCalls.find? (fun r => r.2.1 = urlField) with
    | some (_, _, ovField, name, version) =>
      composeSignalURL c.endpoint (if ovField = "" then "" else (rAssoc c.overrides ovField).getD "") name version
    | none => none
  | none => none

/-- request type marshalled by the push function and response type decoded by the partial-success handler it passes -/
def httpPushTypes (g : Signal) : Option (Signal × Signal) :=
  match httpPushOf g with
  | some (_, reqPkg, _, _, handler) =>
    match sigOfOtlp reqPkg, (rAssoc OtlpRoutes.expHttpPsHandlers handler).bind sigOfOtlp with
    | some a, some b => some (a, b)
    | _, _ => none
  | none => none

/-! ## OTLP/gRPC exporter -/

/-- the gRPC service signal `g` is sent to: `pushX` (by request constructor) → client field → package of `NewGRPCClient` -/
def grpcServiceOf (g : Signal) : Option String :=
  match OtlpRoutes.expGrpcPush.find? (fun r => sigOfCtor r.2.2.1 = some g) with
  | some (_, _, _, client) => rAssoc OtlpRoutes.expGrpcClients client
  | none => none

/-- configgrpc `sanitizedEndpoint`: the target the OTLP/gRPC exporter dials (`strings.HasPrefix` / `strings.TrimPrefix`) -/
def hasPrefix (s p : String) : Bool := p.toList.isPrefixOf s.toList
def trimPrefix (s p : String) : String := if hasPrefix s p then String.ofList (s.toList.drop p.toList.length) else s
def grpcDialTarget (e : String) : String :=
  match OtlpRoutes.grpcEndpointPrefixes.find? (fun r => hasPrefix e r.1) with
  | some (_, tp) => trimPrefix e tp
  | none => if OtlpRoutes.grpcEndpointDefaultKeeps then e else ""

/-! ## gRPC compression -/

/-- `getGRPCCompressionName`: `some (some p)` = compressor of package `p`; `some none` = error (exporter does not start);
not called at all for uncompressed types -/
def grpcCompressor (t : String) : Option String := rAssoc OtlpRoutes.grpcCompressionNames t

/-! ## the hop, as the driver replays it -/

/-- `path` of `url` relative to the receiver's base `http://host:port` (the harness passes the base) -/
def stripBase (base url : String) : Option String :=
  if base.toList.isPrefixOf url.toList then some (String.ofList (url.toList.drop base.toList.length)) else none

inductive RouteResult
  | refused                       -- the exporter cannot be created (composeSignalURL errors)
  | elsewhere                     -- the URL is not on this receiver
  | notFound                      -- ServeMux: 404 (the sender's verdict is permanent)
  | delivered (as to : Signal)
deriving DecidableEq, Repr

def hopRoute (g : Signal) (c : ExpCfg) (base : String) (rc : RecvCfg) : RouteResult :=
  match exportUrl g c with
  | none => .refused
  | some url =>
    match stripBase base url with
    | none => .elsewhere
    | some p =>
      match routeHttp rc p with
      | some (a, b) => .delivered a b
      | none => .notFound

/-- SPEC side (no regenerated table): signal `g` must arrive at ITS consumer iff the URL the operator configured — the override,
else the endpoint (one trailing "/" ignored) followed by the OTLP default path — is the path the receiver serves `g` on -/
def specUrl (g : Signal) (endpoint override : String) : Option String :=
  if override ≠ "" then some override
  else if endpoint = "" then none
  else if hasSuffix endpoint "/" then some (String.ofList endpoint.toList.dropLast ++ specPath g)
  else some (endpoint ++ specPath g)

/-- the override option of a signal in the exporter's Config (`traces_endpoint`, …; profiles has none). Hand. -/
def specOverrideField : Signal → String
  | .traces => "TracesEndpoint" | .metrics => "MetricsEndpoint" | .logs => "LogsEndpoint" | .profiles => ""

def ExpCfg.overrideOf (c : ExpCfg) (g : Signal) : String :=
  if specOverrideField g = "" then "" else (rAssoc c.overrides (specOverrideField g)).getD ""

/-- the path the receiver is configured to serve a signal on (`traces_url_path`, …; profiles is fixed). Hand. -/
def specRecvPath (rc : RecvCfg) : Signal → Option String
  | .traces => rAssoc rc "TracesURLPath" | .metrics => rAssoc rc "MetricsURLPath" | .logs => rAssoc rc "LogsURLPath"
  | .profiles => some (specPath .profiles)

/-- SPEC: where the data must end up, from the two configurations alone -/
def specRoute (g : Signal) (c : ExpCfg) (base : String) (rc : RecvCfg) : RouteResult :=
  match specUrl g c.endpoint (c.overrideOf g) with
  | none => .refused
  | some u =>
    match stripBase base u with
    | none => .elsewhere
    | some p =>
      match Signal.all.find? (fun s => specRecvPath rc s = some p) with
      | some s => .delivered s s
      | none => .notFound

/-- the gRPC hop: the exporter dials `grpcDialTarget endpoint`; on the receiver listening on `addr` the service of the signal's
client is looked up in the registration table -/
def hopRouteGrpc (g : Signal) (endpoint addr : String) : RouteResult :=
  if grpcDialTarget endpoint = addr then
    match (grpcServiceOf g).bind routeGrpc with
    | some (a, b) => .delivered a b
    | none => .notFound
  else .elsewhere

/-- SPEC (hand): `host:port`, optionally written with an `http://` or `https://` scheme, is where signal `g` must arrive at its own consumer -/
def specRouteGrpc (g : Signal) (endpoint addr : String) : RouteResult :=
  if endpoint = addr ∨ endpoint = "http://" ++ addr ∨ endpoint = "https://" ++ addr then .delivered g g else .elsewhere

end OtelVerif.C15
