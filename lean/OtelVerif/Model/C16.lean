/-! C16 model (stub) -/
namespace OtelVerif.C16
end OtelVerif.C16
