import OtelVerif.Gen.Compression
/-!
# C16 model — confighttp body compression: client round-tripper, server decompressor, body-size limit

Mirrors, branch by branch,
* `config/confighttp/compression.go`: `compressRoundTripper.RoundTrip`, `httpContentDecompressor` (the enable
  loop that builds the `enabled` map), `decompressor.ServeHTTP` / `newBodyReader`;
* `config/confighttp/confighttp.go`: `ToServer` (defaults, `maxRequestBodySizeInterceptor` outside the
  decompressor), `ToClient` (compress only if `IsCompressed`);
* `config/configcompression/compressiontype.go`: `IsCompressed`.

All tables (`availableDecoders`, alias, defaults, writer switch, type constants, reject status, wrapper order,
whether the enable loop installs a nil func for an unknown name) come from `Gen/Compression.lean`, which the
translator regenerates from the Go sources on every run.

The compression libraries are a parameter: `Codec` = what the writer produces (`enc`) and what the reader
yields from a byte stream (`dec`, which may fail in its constructor → `none`).  Core Lean only.
-/
namespace OtelVerif.C16
open OtelVerif.Gen

abbrev Bytes := List UInt8

/-- What an `io.Reader` yields when read to the end: `data`, then a clean EOF (`ok = true`) or an error. -/
structure Stream where
  data : Bytes
  ok : Bool
deriving DecidableEq, Repr

/-- `http.MaxBytesReader(w, r, n)` read to the end: at most `n` bytes; an error iff the source had more.
A source that itself fails within the first `n` bytes passes its error through. -/
def limitRead (n : Nat) (s : Stream) : Stream :=
  if s.data.length ≤ n then s else ⟨s.data.take n, false⟩

/-- A compression library, abstractly. `dec` takes the (possibly failing) compressed stream and returns
`none` if the reader's constructor fails (`gzip.NewReader` reads the header eagerly), else the stream the
reader yields. -/
structure Codec where
  enc : Bytes → Bytes
  dec : Stream → Option Stream

/-- The round-trip law of a compression library (hypothesis of `C16_roundtrip`; validated by the differential). -/
def Codec.Lawful (c : Codec) : Prop := ∀ b, c.dec ⟨c.enc b, true⟩ = some ⟨b, true⟩

/-- association-list lookup with decidable equality (easier to reason about than `List.lookup`) -/
def assoc {β : Type} : List (String × β) → String → Option β
  | [], _ => none
  | (k, v) :: rest, x => if x = k then some v else assoc rest x

/-- value stored in the server's `enabled` map -/
inductive Entry
  | identity            -- the `""` decoder: returns `nil, nil`, body left untouched
  | lib (l : String)    -- a reader of package `l`
  | nilFunc             -- `availableDecoders[unknown]`: the zero value of a func type
deriving DecidableEq, Repr

/-- `availableDecoders[name]` (Go map read: zero value for a missing key) -/
def avail (name : String) : Entry :=
  match assoc Compression.availableDecoders name with
  | some none => .identity
  | some (some l) => .lib l
  | none => .nilFunc

def availHas (name : String) : Bool := (assoc Compression.availableDecoders name).isSome

abbrev EMap := List (String × Entry)

/-- one iteration of `for _, dec := range enableDecoders` (a map write = cons; lookup finds the latest) -/
def enableOne (m : EMap) (dec : String) : EMap :=
  let m1 := if Compression.installsNilForUnknown || availHas dec then (dec, avail dec) :: m else m
  match assoc Compression.aliases dec with
  | some to => (dec, avail to) :: m1
  | none => m1

def buildEnabled (l : List String) : EMap := l.foldl enableOne []

/-- what the loop leaves under `name` if `name` is in the list -/
def resolve (name : String) : Option Entry :=
  match assoc Compression.aliases name with
  | some to => some (avail to)
  | none => if Compression.installsNilForUnknown || availHas name then some (avail name) else none

/-- server settings as written (`compression_algorithms` may be absent = nil; `max_request_body_size` may be ≤ 0) -/
structure ServerConfig where
  algorithms : Option (List String)
  maxBody : Int

/-- effective settings after the defaulting at the top of `ToServer` -/
structure Cfg where
  enabled : List String
  limit : Nat

def ServerConfig.eff (sc : ServerConfig) : Cfg :=
  { enabled := match sc.algorithms with
      | none => Compression.defaultCompressionAlgorithms
      | some l => l,
    limit := if sc.maxBody ≤ 0 then Compression.defaultMaxRequestBodySize else sc.maxBody.toNat }

structure Request where
  encoding : String      -- first `Content-Encoding` value, `""` if absent
  wire : Stream          -- the body as it arrives
deriving DecidableEq, Repr

inductive Outcome
  | rejected (status : Nat)   -- `errHandler` called, base handler NOT run
  | panicked                  -- nil decoder func called (net/http recovers and drops the connection); handler NOT run
  | handled (read : Stream)   -- base handler ran; this is everything it can read from `r.Body`
deriving DecidableEq, Repr

/-- `maxRequestBodySizeInterceptor` ∘ `decompressor.ServeHTTP` -/
def serve (codec : String → Codec) (cfg : Cfg) (r : Request) : Outcome :=
  let outer := if Compression.outerLimitOnWire then limitRead cfg.limit r.wire else r.wire
  match assoc (buildEnabled cfg.enabled) r.encoding with
  | none => .rejected Compression.rejectStatus                 -- "unsupported Content-Encoding"
  | some .nilFunc => .panicked
  | some .identity => .handled outer                            -- newBody == nil: body not re-wrapped
  | some (.lib l) =>
    match (codec l).dec outer with
    | none => .rejected Compression.rejectStatus               -- reader constructor failed
    | some s => .handled (limitRead cfg.limit s)                -- MaxBytesReader over the decoded stream

/-! ## compression levels -/

/-- `configcompression.Type.ValidateParams` (what `ClientConfig.Validate` accepts), for every integer level -/
def levelAccepted (t : String) (l : Int) : Bool :=
  if Compression.anyLevelTypes.contains t then true
  else match assoc Compression.levelRules t with
    | some (singles, ranges) =>
      singles.contains l || ranges.any (fun r => decide (r.1 ≤ l) && decide (l ≤ r.2)) || decide (l = Compression.fallbackLevel)
    | none => decide (l = Compression.fallbackLevel)

/-- `ToClient`: the level the writer factory is given -/
def effLevel (l : Int) : Int := if l = 0 then Compression.unsetLevelBecomes else l

/-- library fact (trusted, `compress/flate`): `gzip/zlib.NewWriterLevel` succeed exactly for `HuffmanOnly (-2) … BestCompression (9)`;
zstd maps any integer to one of its levels; snappy and lz4 take no level. A level outside the range yields a nil writer
(`newWriteCloserResetFunc` drops the constructor's error) and the first request panics. -/
def libLevelOk (lib : String) (l : Int) : Bool :=
  if lib = "gzip" ∨ lib = "zlib" then decide (-2 ≤ l) && decide (l ≤ 9) else true

/-- does the writer of client type `t` come into existence for level `l`? -/
def writerLevelOk (t : String) (l : Int) : Bool :=
  match assoc Compression.writers t with
  | none => false
  | some lib =>
    match assoc Compression.writerPassesLevel t with
    | some true => libLevelOk lib l
    | _ => true

/-! ## how a handler consumes the body -/

/-- the handler's way of reading `r.Body` -/
inductive ReadMode
  | all                 -- to the end (in one go or in chunks of any size: same bytes)
  | upTo (k : Nat)      -- at most `k` bytes (`io.ReadFull` into a `k`-byte buffer)
  | none                -- not at all
deriving DecidableEq, Repr

/-- what the handler has in hand afterwards: a prefix of what the body yields; an error only if it was reached -/
def handlerReads (m : ReadMode) (s : Stream) : Stream :=
  match m with
  | .all => s
  | .upTo k => if k ≤ s.data.length then ⟨s.data.take k, true⟩ else s
  | .none => ⟨[], true⟩

def Outcome.read (m : ReadMode) : Outcome → Outcome
  | .handled s => .handled (handlerReads m s)
  | o => o

/-! ## `WithDecoder` and process-level state -/

/-- a server as `ToServer` builds it: effective settings + the decoders registered with `WithDecoder`
(header name ↦ an identifier of the caller's decoder; a Go map, so names are unique) -/
structure Server extends Cfg where
  custom : List (String × String)

/-- the library name under which a caller-supplied decoder is looked up in the codec family -/
def customLib (id : String) : String := "custom:" ++ id

/-- identifier of a caller-supplied decoder that returns `nil, nil` ("nothing to decode", the convention of the
built-in `""` entry): `ServeHTTP` then leaves `r.Body` alone — only the wire-side wrapper limits it -/
def passThroughId : String := "nil"

/-- `d.decoders` after `for key, dec := range decoders { d.decoders[key] = dec }`: a custom decoder overrides
whatever the enable loop stored under that name, and is present whether or not the name is listed -/
def decoderFor (s : Server) (name : String) : Option Entry :=
  match assoc s.custom name with
  | some id => some (if id = passThroughId then .identity else .lib (customLib id))
  | none => assoc (buildEnabled s.enabled) name

/-- `serve` with custom decoders (same wrappers, same dispatch) -/
def serveS (codec : String → Codec) (s : Server) (r : Request) : Outcome :=
  let outer := if Compression.outerLimitOnWire then limitRead s.limit r.wire else r.wire
  match decoderFor s r.encoding with
  | none => .rejected Compression.rejectStatus
  | some .nilFunc => .panicked
  | some .identity => .handled outer
  | some (.lib l) =>
    match (codec l).dec outer with
    | none => .rejected Compression.rejectStatus
    | some st => .handled (limitRead s.limit st)

/-- `WithErrorHandler`: the caller's handler replaces `defaultErrorHandler`; it is only ever invoked on the
rejection path of `ServeHTTP`, with the message and `Compression.rejectStatus`. `eh = some f`: the status the
caller's handler answers when handed status `st` is `f st`. -/
def Outcome.answeredBy (eh : Option (Nat → Nat)) : Outcome → Outcome
  | .rejected st => .rejected (match eh with | some f => f st | none => st)
  | o => o

def serveE (eh : Option (Nat → Nat)) (codec : String → Codec) (s : Server) (r : Request) : Outcome :=
  (serveS codec s r).answeredBy eh

/-- What earlier server constructions have written into the package-level `availableDecoders`.
The code as it is only reads that map (`Compression.availableDecodersOnlyRead`, checked by the translator over
the whole package), so this stays empty; if it were written (aliasing `enabled`/`d.decoders` with the global),
the custom entries of one server would show through every later lookup of `availableDecoders[name]`. -/
structure Proc where
  overrides : List (String × String)
deriving DecidableEq, Repr

def Proc.clean : Proc := ⟨[]⟩

def Proc.construct (p : Proc) (s : Server) : Proc :=
  if Compression.availableDecodersOnlyRead then p else ⟨s.custom ++ p.overrides⟩

/-- the server as it behaves inside a process: polluted global entries are seen for every name the server enables -/
def Proc.server (p : Proc) (s : Server) : Server :=
  { s with custom := s.custom ++ p.overrides.filter (fun kv => s.enabled.contains kv.1) }

def serveP (p : Proc) (codec : String → Codec) (s : Server) (r : Request) : Outcome :=
  serveS codec (p.server s) r

/-- what the request *looks like* to the base handler (`ServeHTTP`'s rewrites): for a decoded body `Content-Encoding` and
`Content-Length` are deleted and `r.ContentLength = -1` (a handler must not size its read by the compressed length); for an
identity / pass-through body nothing is touched -/
structure ReqView where
  contentLength : Option Nat      -- `none` = -1 (unknown)
  hasEncodingHeader : Bool
deriving DecidableEq, Repr

def handlerView (s : Server) (r : Request) (knownLength : Bool) : ReqView :=
  match decoderFor s r.encoding with
  | some (.lib _) => ⟨none, false⟩
  | _ => ⟨if knownLength then some r.wire.data.length else none, r.encoding != ""⟩

/-- `configcompression.Type.IsCompressed` -/
def isCompressed (t : String) : Bool := !(Compression.uncompressedTypes.contains t)

/-- `ToClient` + `compressRoundTripper.RoundTrip`: `hdr` is a `Content-Encoding` the caller already set
(`""` = none). `none` = `ToClient` fails (unsupported compression type). -/
def clientSend (codec : String → Codec) (compression : String) (hdr : String) (b : Bytes) : Option Request :=
  if !isCompressed compression then some ⟨hdr, ⟨b, true⟩⟩          -- no compressRoundTripper installed
  else match assoc Compression.writers compression with
    | none => none
    | some l =>
      if hdr ≠ "" then some ⟨hdr, ⟨b, true⟩⟩                       -- already encoded: skip
      else some ⟨compression, ⟨(codec l).enc b, true⟩⟩

/-! ## the property, stated on one observed exchange (used by the driver as search oracle) -/

/-- what the harness can see of one exchange -/
structure Exchange where
  enabled : List String        -- effective decoder list
  limit : Nat                  -- effective limit
  encoding : String            -- Content-Encoding on the wire
  sent : Option Bytes          -- the bytes the client was given, when the wire is a lawful encoding of them
                               -- (or the raw body when there is no encoding); `none` for hostile streams
  wireLen : Nat
  outcome : Outcome
  custom : List String         -- names this server registered with `WithDecoder`

/-- names for which some decoder exists at all (a listed but unknown name enables nothing) -/
def decodable (name : String) : Bool :=
  availHas name || (assoc Compression.aliases name).isSome

/-- is the request's encoding one the handler must get to see decoded?  No encoding: always (the property
says such a request passes through untouched); otherwise: registered with `WithDecoder` by THIS server, or listed and decodable. -/
def Exchange.on (x : Exchange) : Bool :=
  x.encoding == "" || x.custom.contains x.encoding || (x.enabled.contains x.encoding && decodable x.encoding)

/-- Executable check of the property's clauses on one exchange, independent of `serve`;
`none` = fine, `some sig` = violated, with a structural signature. -/
def exchangeCheck (x : Exchange) : Option String :=
  match x.outcome with
  | .handled s =>
    if x.limit < s.data.length then some "C16/limit/handler-read-beyond-limit"
    else if !x.on then some "C16/reject/disabled-encoding-reached-handler"
    else match x.sent with
      | some b =>
        if b.length ≤ x.limit && s != ⟨b, true⟩ then
          some (if x.limit < x.wireLen then "C16/roundtrip/wire-exceeds-limit-body-within-limit"
                else if x.encoding == "" then "C16/identity/body-altered"
                else "C16/roundtrip/body-differs")
        else none
      | none => none
  | .rejected st =>
    if x.on then
      match x.sent with
      | some b =>
        if b.length ≤ x.limit then
          some (if x.encoding == "" then
                  (if x.enabled.contains "" then "C16/identity/rejected" else "C16/decoder-list-without-identity")
                else if x.limit < x.wireLen then "C16/roundtrip/wire-exceeds-limit-body-within-limit"
                else "C16/roundtrip/rejected")
        else none
      | none => none
    else if 400 ≤ st && st < 500 then none
    else some "C16/reject/not-a-client-error"
  | .panicked =>
    if x.enabled.contains x.encoding && !decodable x.encoding then some "C16/reject/unknown-name-in-list-nil-decoder-panic"
    else some "C16/panic"

/-- The property on one exchange, declaratively:
1. a handler never reads more than `limit` bytes;
2. an encoding that is not enabled (not listed, or listed with no decoder behind it) is answered with a
   client error and the handler does not run;
3. otherwise (no encoding, or an enabled one) a body within the limit is read by the handler exactly. -/
def PropOn (x : Exchange) : Prop :=
  (∀ s, x.outcome = .handled s → s.data.length ≤ x.limit) ∧
  (x.on = false → ∃ st, x.outcome = .rejected st ∧ 400 ≤ st ∧ st < 500) ∧
  (x.on = true → ∀ b, x.sent = some b → b.length ≤ x.limit → x.outcome = .handled ⟨b, true⟩)

end OtelVerif.C16
