import OtelVerif.Model.C16
/-!
# C16 model, part 2 — the CLIENT-SIDE writer pools (`config/confighttp/compressor.go`)

`compressorPools` maps `compressionMapKey{compressionType, compressionParams}` to one `compressor` (a `sync.Pool` of library
writers built by the closure `newWriteCloserResetFunc` returned for THAT key); every `compressRoundTripper` of that key shares
it. `compressor.compress(buf, body)` runs, per request and on any number of goroutines at once:

    writer := pool.Get()          -- any idle writer of this pool, or a new one from the key's constructor
    defer pool.Put(writer)        -- on EVERY return path, also after a failed copy (the writer goes back DIRTY)
    writer.Reset(buf)
    if body != nil { copy body into writer (may fail: return); body.Close() (may fail: return) }
    return writer.Close()

Here this is a labelled transition system: one label per statement and goroutine, `sync.Pool`'s freedom (`get` may return any
idle writer or a new one; `drop` = the GC emptying the pool) is nondeterminism of the labels. OWNERSHIP is linear by
construction: a writer record sits either in one pool or inside the one call that took it — this is the Get / deferred-Put pairing of
`compress` (one `Get`, one `defer Put` of the same variable, nothing else touches the pool: regenerated `Compression.compressSteps`,
pinned by `C16_pool_gen_shape`); a double `Put` is not expressible here and is a translator shape failure. The theorems in `Props/C16.lean`
are invariants over ALL label sequences. The compression library is a parameter: a writer remembers the key it was built
with, the buffer `Reset` pointed it to and the input since that `Reset`; `Close` leaves `enc key input` in that buffer
(LIBRARY LAW, trusted: a Reset writer behaves as a new one; a writer touches no buffer other than its current target).
Buffers are identified with the call that allocated them (`RoundTrip` passes a fresh `bytes.NewBuffer` per request — regenerated
flag `Compression.roundTripFreshBuffer`). Core Lean only.
-/
namespace OtelVerif.C16
open OtelVerif.Gen

structure PKey where
  typ : String
  level : Int
deriving DecidableEq, Repr

structure PWriter where
  key : PKey                 -- the (type, level) its constructor closure was made for
  target : Option Nat        -- buffer (= call id) set by the last `Reset`; `none` right after construction (`NewWriter(nil)`)
  acc : Bytes                -- input written since the last `Reset`
deriving DecidableEq, Repr

inductive PC
  | start | got | reset | copied | bodyClosed | closed | failed | done
deriving DecidableEq, Repr

/-- the call holds a writer taken from the pool and not yet put back -/
def PC.holding : PC → Bool
  | .start | .done => false
  | _ => true

structure PCall where
  key : PKey                 -- key of the compressor the round-tripper was built with
  body : Option Bytes        -- `none` = `req.Body == nil`
  failAt : Option Nat        -- the body reader fails after that many bytes (`copyErr`)
  closeFails : Bool          -- `body.Close()` returns an error
  pc : PC
  writer : Option PWriter    -- the writer it took from the pool (moved out of the pool, moved back by `put`)
  result : Option Bool       -- `some true` = returned nil, `some false` = returned an error
deriving DecidableEq, Repr

def PCall.input (c : PCall) : Bytes := c.body.getD []

structure PState where
  pool : PKey → List PWriter -- `compressorPools[key].pool`: the idle writers of each compressor
  calls : Nat → Option PCall
  bufs : Nat → Option Bytes  -- buffer of call t: what the last `Close` of a writer targeting it left there

def PState.init : PState := ⟨fun _ => [], fun _ => none, fun _ => none⟩

def upd {α : Type} (f : Nat → α) (i : Nat) (v : α) : Nat → α := fun j => if j = i then v else f j
def updK {α : Type} (f : PKey → α) (k : PKey) (v : α) : PKey → α := fun j => if j = k then v else f j

inductive PLabel
  | call (t : Nat) (key : PKey) (body : Option Bytes) (failAt : Option Nat) (closeFails : Bool)   -- RoundTrip enters compress with a fresh buffer
  | get (t i : Nat)          -- pool.Get(): the i-th idle writer of this key's pool, or (i out of range) a new one from the key's constructor
  | reset (t : Nat)          -- writer.Reset(buf)
  | copy (t : Nat)           -- io.Copy (skipped with the whole block when body == nil)
  | closeBody (t : Nat)
  | closeWriter (t : Nat)    -- return writer.Close()
  | put (t : Nat)            -- the deferred pool.Put(writer)
  | drop (k : PKey) (i : Nat)  -- sync.Pool forgets an idle writer (GC)
deriving Repr

variable (enc : PKey → Bytes → Bytes)

/-- `Close` of a writer: its current target buffer receives `enc key input` -/
def closeInto (bufs : Nat → Option Bytes) (wr : PWriter) : Nat → Option Bytes :=
  match wr.target with
  | some b => upd bufs b (some (enc wr.key wr.acc))
  | none => bufs

/-- what happens to call record `c` of goroutine `t` (and the shared state) at its next statement -/
def fire (s : PState) : PLabel → Option PState
  | .call t key body failAt closeFails =>
    match s.calls t with
    | some _ => none
    | none => some { s with calls := upd s.calls t (some ⟨key, body, failAt, closeFails, .start, none, none⟩) }
  | .get t i =>
    match s.calls t with
    | some c =>
      if c.pc = .start then
        match (s.pool c.key)[i]? with
        | some wr => some { s with pool := updK s.pool c.key ((s.pool c.key).eraseIdx i),
                                   calls := upd s.calls t (some { c with pc := .got, writer := some wr }) }
        | none => some { s with calls := upd s.calls t (some { c with pc := .got, writer := some ⟨c.key, none, []⟩ }) }
      else none
    | none => none
  | .reset t =>
    match s.calls t with
    | some c =>
      match c.pc, c.writer with
      | .got, some wr => some { s with calls := upd s.calls t (some { c with pc := .reset, writer := some { wr with target := some t, acc := [] } }) }
      | _, _ => none
    | none => none
  | .copy t =>
    match s.calls t with
    | some c =>
      match c.pc, c.writer with
      | .reset, some wr =>
        match c.body with
        | none => some { s with calls := upd s.calls t (some { c with pc := .bodyClosed }) }     -- `if body != nil` not taken
        | some b =>
          match c.failAt with
          | some k => some { s with calls := upd s.calls t (some { c with pc := .failed, result := some false,
                                                                          writer := some { wr with acc := wr.acc ++ b.take k } }) }
          | none => some { s with calls := upd s.calls t (some { c with pc := .copied, writer := some { wr with acc := wr.acc ++ b } }) }
      | _, _ => none
    | none => none
  | .closeBody t =>
    match s.calls t with
    | some c =>
      if c.pc = .copied then
        if c.closeFails then some { s with calls := upd s.calls t (some { c with pc := .failed, result := some false }) }
        else some { s with calls := upd s.calls t (some { c with pc := .bodyClosed }) }
      else none
    | none => none
  | .closeWriter t =>
    match s.calls t with
    | some c =>
      match c.pc, c.writer with
      | .bodyClosed, some wr =>
        some { s with bufs := closeInto enc s.bufs wr, calls := upd s.calls t (some { c with pc := .closed, result := some true }) }
      | _, _ => none
    | none => none
  | .put t =>
    match s.calls t with
    | some c =>
      match c.writer with
      | some wr =>
        if c.pc = .closed ∨ c.pc = .failed then
          some { s with pool := updK s.pool c.key (wr :: s.pool c.key), calls := upd s.calls t (some { c with pc := .done, writer := none }) }
        else none
      | none => none
    | none => none
  | .drop k i => some { s with pool := updK s.pool k ((s.pool k).eraseIdx i) }

/-- the program the transition system follows, in the vocabulary of the translator (`Gen.Compression.compressSteps`): Get, deferred
Put, Reset, then — only for a non-nil body — copy, close the body, return the copy error first, then the close error; finally
return `writer.Close()`. Pinned to the regenerated list by `C16_pool_gen_shape`. -/
def modelProgram : List String :=
  ["get", "deferPut", "reset", "ifBody[", "copy", "closeBody", "retCopyErr", "retCloseErr", "]", "retCloseWriter"]

/-- run a label sequence; labels that are not enabled are skipped (so EVERY list is a history) -/
def runLabels (s : PState) (ls : List PLabel) : PState :=
  ls.foldl (fun s l => (fire enc s l).getD s) s

/-- a whole `compress` call of goroutine `t` run without interleaving, taking the i-th idle writer -/
def seqCall (t i : Nat) (key : PKey) (body : Option Bytes) (failAt : Option Nat) (closeFails : Bool) : List PLabel :=
  [.call t key body failAt closeFails, .get t i, .reset t, .copy t, .closeBody t, .closeWriter t, .put t]

end OtelVerif.C16
