import OtelVerif.Model.Payload
/-!
# C17 — batch processor (processor/batchprocessor)

* `splitLogs` (= `splitTraces`, same code modulo renaming) and `splitMetrics`, closure by closure, on
  `Model/Payload` trees: `RemoveIf` passes with the shared counter `totalCopied…` as the closure state.
  The model is of the repaired code (`fix:` commit in /tmp/wt-C17): the split-off resource / scope keeps
  its schema URL and the split-off metric keeps its metadata.
* `Batch.add` / `Batch.split` (`batchLogs`, `batchTraces`, `batchMetrics`).
* the shard loop (`startLoop` / `processItem` / `sendItems` / timer) as a labelled transition system in
  virtual time, and the metadata sharder (`multiShardBatcher.consume`).
-/
namespace OtelVerif.C17
open OtelVerif.Payload

/-! ## splitLogs / splitTraces -/

/-- innermost closure: `if total == size {return false}; move; total++; return true` -/
def splitItems (size : Nat) (total : Nat) (items : List Item) : Walk Item Nat :=
  walk (fun t => t == size) (fun t _ => some (t + 1)) (fun t c => (none, some c, t)) total items

/-- scope that does not fit: `destIll := AppendEmpty(); Scope().CopyTo; SetSchemaUrl` (repaired), inner `RemoveIf`,
`return false` (the source scope always stays) -/
def cutScope (size : Nat) (t : Nat) (s : Scope) : Option Scope × Option Scope × Nat :=
  let w := splitItems size t s.items
  (some { smeta := s.smeta, items := w.dest }, some { s with items := w.rem }, w.st)

def fitsScope (size : Nat) (t : Nat) (s : Scope) : Option Nat :=
  if size ≥ s.items.length + t then some (t + s.items.length) else none

def splitScopes (size : Nat) (total : Nat) (scopes : List Scope) : Walk Scope Nat :=
  walk (fun t => t == size) (fitsScope size) (cutScope size) total scopes

/-- resource that does not fit: `destRl := AppendEmpty(); Resource().CopyTo; SetSchemaUrl` (repaired), inner
`RemoveIf`, `return srcRl.ScopeLogs().Len() == 0` -/
def cutRes (size : Nat) (t : Nat) (r : Res) : Option Res × Option Res × Nat :=
  let w := splitScopes size t r.scopes
  (some { rmeta := r.rmeta, scopes := w.dest },
   if w.rem.length == 0 then none else some { r with scopes := w.rem }, w.st)

def fitsRes (size : Nat) (t : Nat) (r : Res) : Option Nat :=
  if t + r.count ≤ size then some (t + r.count) else none

def splitRes (size : Nat) (total : Nat) (p : List Res) : Walk Res Nat :=
  walk (fun t => t == size) (fitsRes size) (cutRes size) total p

/-- `splitLogs(size, src)`: `(returned value, src afterwards)`.  When `src` has at most `size` records the
function returns `src` itself (the same object). -/
def splitLogs (size : Nat) (src : List Res) : List Res × List Res :=
  if count src ≤ size then (src, src)
  else
    let w := splitRes size 0 src
    (w.dest, w.rem)

/-! ## splitMetrics -/

/-- `split*DataPoints(src, dst, size)`: `i := 0; RemoveIf(if i < size {move; i++; return true}; return false)` -/
def splitPoints (size : Nat) (pts : List Item) : Walk Item Nat :=
  walk (fun _ => false) (fun i _ => if i < size then some (i + 1) else none) (fun i c => (none, some c, i)) 0 pts

/-- identity of the split-off metric: name, description, unit, metadata (repaired), type, temporality, monotonicity -/
def fragMeta (m : MMeta) : MMeta := m

/-- metric that does not fit: `splitMetric(srcMetric, dest.AppendEmpty(), size-total)` returns `(size-total, false)` -/
def cutMetric (size : Nat) (t : Nat) (m : Metric) : Option Metric × Option Metric × Nat :=
  let w := splitPoints (size - t) m.points
  (some { mmeta := fragMeta m.mmeta, points := w.dest }, some { m with points := w.rem }, t + (size - t))

def fitsMetric (size : Nat) (t : Nat) (m : Metric) : Option Nat :=
  if m.count + t ≤ size then some (t + m.count) else none

def splitMetricsIn (size : Nat) (total : Nat) (ms : List Metric) : Walk Metric Nat :=
  walk (fun t => t == size) (fitsMetric size) (cutMetric size) total ms

def cutMScope (size : Nat) (t : Nat) (s : MScope) : Option MScope × Option MScope × Nat :=
  let w := splitMetricsIn size t s.metrics
  (some { smeta := s.smeta, metrics := w.dest }, some { s with metrics := w.rem }, w.st)

def fitsMScope (size : Nat) (t : Nat) (s : MScope) : Option Nat :=
  if s.count + t ≤ size then some (t + s.count) else none

def splitMScopes (size : Nat) (total : Nat) (scopes : List MScope) : Walk MScope Nat :=
  walk (fun t => t == size) (fitsMScope size) (cutMScope size) total scopes

def cutMRes (size : Nat) (t : Nat) (r : MRes) : Option MRes × Option MRes × Nat :=
  let w := splitMScopes size t r.scopes
  (some { rmeta := r.rmeta, scopes := w.dest },
   if w.rem.length == 0 then none else some { r with scopes := w.rem }, w.st)

def fitsMRes (size : Nat) (t : Nat) (r : MRes) : Option Nat :=
  if t + r.count ≤ size then some (t + r.count) else none

def splitMRes (size : Nat) (total : Nat) (p : List MRes) : Walk MRes Nat :=
  walk (fun t => t == size) (fitsMRes size) (cutMRes size) total p

def splitMetrics (size : Nat) (src : List MRes) : List MRes × List MRes :=
  if mcount src ≤ size then (src, src)
  else
    let w := splitMRes size 0 src
    (w.dest, w.rem)


/-! ## batch, shard loop, sharder (batch_processor.go) — generic in the signal -/

structure BatchOps (P : Type) where
  count : P → Nat
  empty : P
  append : P → P → P
  split : Nat → P → P × P

def logsBatch : BatchOps (List Res) := { count := count, empty := [], append := (· ++ ·), split := splitLogs }
def metricsBatch : BatchOps (List MRes) := { count := mcount, empty := [], append := (· ++ ·), split := splitMetrics }

/-- validated configuration: `max = 0 ∨ sbs ≤ max`; times in microseconds of virtual time -/
structure Cfg where
  sbs : Nat
  max : Nat
  timeout : Nat
  /-- number of configured metadata keys (0 = single shard) -/
  nkeys : Nat := 0
  /-- metadata_cardinality_limit (0 = unlimited) -/
  limit : Nat := 0
deriving Repr

/-- a configuration as written (`Config`), before validation; timeout in microseconds, possibly negative -/
structure RawCfg where
  sbs : Nat
  max : Nat
  timeout : Int
  keys : List String
  limit : Nat
deriving Repr

def nodupB : List String → Bool
  | [] => true
  | a :: l => !l.contains a && nodupB l

/-- `Config.Validate()`: `send_batch_max_size` is 0 or at least `send_batch_size`; no metadata key twice (compared
case-insensitively); `timeout` not negative.  Every theorem about the processor takes the configuration's validity as a
hypothesis; this definition is tied to the real `Validate()` by exact differential on configurations drawn from the RAW
space on every run. -/
def validCfg (r : RawCfg) : Bool :=
  !(decide (r.max > 0) && decide (r.max < r.sbs)) && nodupB (r.keys.map String.toLower) && decide (r.timeout ≥ 0)

def RawCfg.toCfg (r : RawCfg) : Cfg :=
  { sbs := r.sbs, max := r.max, timeout := r.timeout.toNat, nkeys := r.keys.length, limit := r.limit }

/-- `startLoop` creates the timer only `if timeout != 0 && sendBatchSize != 0` -/
def hasTimer (c : Cfg) : Bool := c.timeout != 0 && c.sbs != 0

/-- metadata values of the configured keys (sorted lower-cased keys), each value abstracted to a number -/
abbrev Key := List (List Nat)

structure Shard (P : Type) where
  key : Key
  data : P
  cnt : Nat
  /-- when the timer fires next (meaningful iff `hasTimer`) -/
  deadline : Nat

structure Emit (P : Type) where
  key : Key
  t : Nat
  p : P

/-- `batch.add` -/
def Shard.add {P : Type} (o : BatchOps P) (s : Shard P) (p : P) : Shard P :=
  if o.count p == 0 then s else { s with data := o.append s.data p, cnt := s.cnt + o.count p }

/-- `sendItems`: `batch.split(sendBatchMaxSize)` then export (downstream accepts) -/
def Shard.send {P : Type} (o : BatchOps P) (c : Cfg) (now : Nat) (s : Shard P) : Shard P × Emit P :=
  if c.max > 0 && s.cnt > c.max then
    let r := o.split c.max s.data
    ({ s with data := r.2, cnt := s.cnt - c.max }, ⟨s.key, now, r.1⟩)
  else ({ s with data := o.empty, cnt := 0 }, ⟨s.key, now, s.data⟩)

/-- `for itemCount > 0 && (!hasTimer || itemCount >= sendBatchSize) { sendItems }`; every send lowers `cnt`,
so `cnt + 1` rounds suffice -/
def sendLoop {P : Type} (o : BatchOps P) (c : Cfg) (now : Nat) : Nat → Shard P → List (Emit P) → Shard P × List (Emit P)
  | 0, s, acc => (s, acc)
  | fuel + 1, s, acc =>
    if s.cnt > 0 && (!hasTimer c || s.cnt ≥ c.sbs) then
      let r := s.send o c now
      sendLoop o c now fuel r.1 (acc ++ [r.2])
    else (s, acc)

/-- `processItem`: add, send while due, `if sent { stopTimer; resetTimer }` -/
def Shard.process {P : Type} (o : BatchOps P) (c : Cfg) (now : Nat) (s : Shard P) (p : P) : Shard P × List (Emit P) :=
  let s := s.add o p
  let r := sendLoop o c now (s.cnt + 1) s []
  if r.2.isEmpty then r else ({ r.1 with deadline := now + c.timeout }, r.2)

/-- `case <-timerCh: if itemCount > 0 { sendItems }; resetTimer` at time `s.deadline` -/
def Shard.tick {P : Type} (o : BatchOps P) (c : Cfg) (s : Shard P) : Shard P × List (Emit P) :=
  let now := s.deadline
  if s.cnt > 0 then
    let r := s.send o c now
    ({ r.1 with deadline := now + c.timeout }, [r.2])
  else ({ s with deadline := now + c.timeout }, [])

/-- shutdown after the channel was drained: `if itemCount > 0 { sendItems }` (one send) -/
def Shard.shutdown {P : Type} (o : BatchOps P) (c : Cfg) (now : Nat) (s : Shard P) : Shard P × List (Emit P) :=
  if s.cnt > 0 then
    let r := s.send o c now
    (r.1, [r.2])
  else (s, [])

structure Proc (P : Type) where
  shards : List (Shard P)
  now : Nat := 0

def Proc.init {P : Type} (o : BatchOps P) (c : Cfg) : Proc P :=
  { shards := if c.nkeys == 0 then [{ key := [], data := o.empty, cnt := 0, deadline := c.timeout }] else [] }

def replaceShard {P : Type} (s : Shard P) : List (Shard P) → List (Shard P)
  | [] => []
  | x :: xs => if x.key = s.key then s :: xs else x :: replaceShard s xs

/-- `consume`: look the shard up by its metadata values, create it unless the cardinality limit is reached -/
def Proc.arrive {P : Type} (o : BatchOps P) (c : Cfg) (pr : Proc P) (key : Key) (p : P) : Option (Proc P × List (Emit P)) :=
  match pr.shards.find? (fun s => s.key = key) with
  | some s =>
    let r := s.process o c pr.now p
    some ({ pr with shards := replaceShard r.1 pr.shards }, r.2)
  | none =>
    if c.limit != 0 && pr.shards.length ≥ c.limit then none
    else
      let s : Shard P := { key := key, data := o.empty, cnt := 0, deadline := pr.now + c.timeout }
      let r := s.process o c pr.now p
      some ({ pr with shards := pr.shards ++ [r.1] }, r.2)

/-- let virtual time pass: every timer that comes due fires at its deadline -/
def Proc.advance {P : Type} (o : BatchOps P) (c : Cfg) (dt : Nat) (pr : Proc P) : Proc P × List (Emit P) :=
  let target := pr.now + dt
  if !hasTimer c then ({ pr with now := target }, [])
  else
    let rec go : Nat → List (Shard P) → List (Emit P) → List (Shard P) × List (Emit P)
      | 0, ss, acc => (ss, acc)
      | fuel + 1, ss, acc =>
        match ss.find? (fun s => s.deadline ≤ target) with
        | none => (ss, acc)
        | some s =>
          let r := s.tick o c
          go fuel (replaceShard r.1 ss) (acc ++ r.2)
    let r := go ((dt / c.timeout + 2) * (pr.shards.length + 1)) pr.shards []
    ({ shards := r.1, now := target }, r.2)

def Proc.shutdown {P : Type} (o : BatchOps P) (c : Cfg) (pr : Proc P) : Proc P × List (Emit P) :=
  let rs := pr.shards.map (fun s => s.shutdown o c pr.now)
  ({ pr with shards := rs.map (·.1) }, rs.flatMap (·.2))

end OtelVerif.C17
