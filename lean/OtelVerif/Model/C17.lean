/-! C17 model (stub) -/
namespace OtelVerif.C17
end OtelVerif.C17
