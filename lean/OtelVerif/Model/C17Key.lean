import OtelVerif.Model.C17
import OtelVerif.Gen.C17Config
/-!
# C17 — the metadata group of an arrival (`batch_processor.go`, `client/client.go`)

`newBatchProcessor` (configured keys: lower-cased, sorted; none ⇒ single shard), `client.NewMetadata` (incoming header names
lower-cased), `client.Metadata.Get` (case-insensitive; absent and empty list both give nil), `multiShardBatcher.consume`
(per configured key `attribute.String` for exactly one value, `attribute.StringSlice` otherwise; the `attribute.Set` of those
is the shard map's key; `md[k] = vs` is what `newShard` builds the export context from).  Values are abstracted to numbers
(interned byte-exactly by the harness).  `attribute.NewSet` itself is third-party: its law (two sets are equal iff their
sorted, distinctly-keyed attribute lists are equal) is the equality of `attrSet` below.

Core Lean only.
-/
namespace OtelVerif.C17

/-- client metadata as written by a caller: header name (any case) ↦ values -/
abbrev Md := List (String × List Nat)

/-- `strings.ToLower` on ASCII (header names; structural, so that the kernel evaluates it) -/
def lowerC (c : Char) : Char := if 'A' ≤ c ∧ c ≤ 'Z' then Char.ofNat (c.toNat + 32) else c
def lower (s : String) : String := String.ofList (s.toList.map lowerC)

/-- `sort.Strings` (insertion sort: same result, structural) -/
def insertStr (a : String) : List String → List String
  | [] => [a]
  | b :: l => if a ≤ b then a :: b :: l else b :: insertStr a l
def sortStrs : List String → List String
  | [] => []
  | a :: l => insertStr a (sortStrs l)

/-- `newBatchProcessor`: `mks[i] = strings.ToLower(k)`, `sort.Strings(mks)` -/
def configuredKeys (raw : List String) : List String := sortStrs (raw.map lower)

/-- `client.NewMetadata(md)`: `c[strings.ToLower(k)] = v` (a map: a later entry with the same lower-cased name replaces) -/
def newMetadata (md : Md) : Md :=
  md.foldl (fun acc kv => acc.filter (fun x => x.1 != lower kv.1) ++ [(lower kv.1, kv.2)]) []

/-- `Metadata.Get(key)`: `m.data[strings.ToLower(key)]`; absent and empty both give nil -/
def mdGet (m : Md) (k : String) : List Nat :=
  match m.find? (fun x => x.1 == lower k) with
  | some x => x.2
  | none => []

/-- `attribute.String(k, vs[0])` / `attribute.StringSlice(k, vs)` -/
inductive AttrVal where
  | str (v : Nat)
  | slice (vs : List Nat)
deriving DecidableEq, Repr

/-- `if len(vs) == 1 { String } else { StringSlice }` -/
def attrOf : List Nat → AttrVal
  | [v] => .str v
  | vs => .slice vs

/-- the attributes `consume` hands to `attribute.NewSet` (keys sorted and distinct: the set's canonical form) -/
def attrSet (keys : List String) (m : Md) : List (String × AttrVal) := keys.map (fun k => (k, attrOf (mdGet m k)))

/-- the group of an arrival as the processor model sees it: the value lists of the configured keys -/
def keyOf (keys : List String) (m : Md) : Key := keys.map (mdGet m)

/-- the group of a `Consume` call: configured keys as written in the configuration, client metadata as written by the caller -/
def groupOf (rawKeys : List String) (md : Md) : Key := keyOf (configuredKeys rawKeys) (newMetadata md)

/-! ### `Config.Validate()` and `createDefaultConfig()` from the regenerated data (`Gen/C17Config.lean`) -/

/-- the numeric fields of a raw configuration under their Go names (Timeout: only its sign matters to `Validate`) -/
def RawCfg.env (r : RawCfg) : OtelVerif.C04.Config.Env := fun n =>
  if n = "SendBatchSize" then r.sbs else if n = "SendBatchMaxSize" then r.max else if n = "Timeout" then r.timeout
  else if n = "MetadataCardinalityLimit" then r.limit else 0

def cfgEnvFields : List String := ["SendBatchSize", "SendBatchMaxSize", "Timeout", "MetadataCardinalityLimit"]

/-- `Config.Validate()` as regenerated: the straight-line checks (rule list) and the metadata_keys loop (flag).  The driver
prints THIS verdict; `C17_validCfg_matches_source` proves it equal to the hand-written `validCfg` the theorems use. -/
def validCfgGen (r : RawCfg) : Bool :=
  OtelVerif.C04.Config.runRules r.env OtelVerif.Gen.C17Config.validateRules &&
    (!OtelVerif.Gen.C17Config.validateHasKeyLoop || nodupB (r.keys.map String.toLower))

/-- `createDefaultConfig()` as a raw configuration (timeout in µs like every `RawCfg`) -/
def defaultRawCfg : RawCfg :=
  let d := OtelVerif.Gen.C17Config.defaults
  { sbs := (OtelVerif.C04.Config.lookupField d "SendBatchSize").toNat, max := (OtelVerif.C04.Config.lookupField d "SendBatchMaxSize").toNat,
    timeout := OtelVerif.C04.Config.lookupField d "Timeout" / 1000, keys := [],
    limit := (OtelVerif.C04.Config.lookupField d "MetadataCardinalityLimit").toNat }

end OtelVerif.C17
