/-! C18 model (stub) -/
namespace OtelVerif.C18
end OtelVerif.C18
