/-!
# C18 model: memory limiter

Mirrors `internal/memorylimiter/memorylimiter.go` (`getMemUsageChecker`, `newFixedMemUsageChecker`,
`newPercentageMemUsageChecker`, `memUsageChecker.aboveSoftLimit/aboveHardLimit`, `CheckMemLimits`,
`doGCandReadMemStats`, `Start`, `Shutdown` — with the repair `fix: memory limiter re-arms its ticker when
started again after a full shutdown`), `config.go Validate`, the processor's `process*` functions under
`processorhelper.New*` and the extension's `MustRefuse`.

`uint64` values are `Nat`s below `2^64`; every `uint64` operation of the code is written with its
wrap-around (`u64`, `wsub`, `wmul`), so that "no underflow" is a theorem and not an assumption.
Times are `Int` nanoseconds (virtual clock), durations may be negative like `time.Duration`.
-/
namespace OtelVerif.C18

def W : Nat := 18446744073709551616  -- 2^64

def u64 (n : Nat) : Nat := n % W
/-- `a - b` on `uint64` (for `a < 2^64`): `(a + 2^64 − b mod 2^64) mod 2^64`, written by cases so that
no term `x + 2^64` with an open `x` ever has to be normalised (the kernel would peel the literal
successor by successor) -/
def wsub (a b : Nat) : Nat := if b % W ≤ a then a - b % W else W - (b % W - a)
/-- `a * b` on `uint64` -/
def wmul (a b : Nat) : Nat := (a * b) % W

def mib : Nat := 1048576

/-! ## configuration -/

structure Config where
  checkInterval : Int
  gcSoft : Int           -- min_gc_interval_when_soft_limited
  gcHard : Int           -- min_gc_interval_when_hard_limited
  limitMiB : Nat         -- uint32
  spikeMiB : Nat         -- uint32
  limitPct : Nat         -- uint32
  spikePct : Nat         -- uint32
deriving Repr, DecidableEq

/-- `Config.Validate`: 0 = accepted, else the index of the error returned -/
def validate (c : Config) : Nat :=
  if c.checkInterval ≤ 0 then 1
  else if c.gcSoft < c.gcHard then 2
  else if c.limitMiB = 0 ∧ c.limitPct = 0 then 3
  else if c.limitPct > 100 ∨ c.spikePct > 100 then 4
  else if c.limitMiB > 0 ∧ c.limitMiB ≤ c.spikeMiB then 5
  else if c.limitPct > 0 ∧ c.limitPct ≤ c.spikePct then 6
  else 0

/-- the `uint32` fields really are below `2^32` -/
def Config.wf (c : Config) : Prop := c.limitMiB < 4294967296 ∧ c.spikeMiB < 4294967296 ∧ c.limitPct < 4294967296 ∧ c.spikePct < 4294967296

structure Checker where
  limit : Nat   -- memAllocLimit
  spike : Nat   -- memSpikeLimit
deriving Repr, DecidableEq

/-- `newFixedMemUsageChecker` -/
def newFixed (limit spike : Nat) : Checker :=
  if spike = 0 then ⟨limit, limit / 5⟩ else ⟨limit, spike⟩

/-- `newPercentageMemUsageChecker` -/
def newPct (total pl ps : Nat) : Checker :=
  newFixed (wmul pl total / 100) (wmul ps total / 100)

/-- `getMemUsageChecker` (`total` = what `GetMemoryFn` returns; only read on the percentage path) -/
def mkChecker (c : Config) (total : Nat) : Checker :=
  if c.limitMiB ≠ 0 then newFixed (wmul c.limitMiB mib) (wmul c.spikeMiB mib)
  else newPct total c.limitPct c.spikePct

/-- `ms.Alloc >= d.memAllocLimit - d.memSpikeLimit` with the `uint64` subtraction of the code -/
def Checker.aboveSoft (k : Checker) (alloc : Nat) : Bool := alloc ≥ wsub k.limit k.spike
def Checker.aboveHard (k : Checker) (alloc : Nat) : Bool := alloc ≥ k.limit

/-! ## `CheckMemLimits` -/

structure LState where
  mustRefuse : Bool := false
  /-- `lastGCDone`, ns on the virtual clock (construction = 0) -/
  lastGC : Int := 0
deriving Repr, DecidableEq

/-- the inputs of one check: instant, the reading, what a forced GC would take and leave -/
structure Reading where
  now : Int
  alloc : Nat
  gcDur : Nat := 0
  allocAfterGC : Nat
deriving Repr, DecidableEq

structure CheckOut where
  st : LState
  gcRan : Bool
  /-- the measurement the decision is based on -/
  latest : Nat
deriving Repr, DecidableEq

/-- `CheckMemLimits` -/
def check (k : Checker) (gcSoft gcHard : Int) (s : LState) (r : Reading) : CheckOut :=
  if !k.aboveSoft r.alloc then
    { st := { s with mustRefuse := false }, gcRan := false, latest := r.alloc }
  else
    let minInt := if k.aboveHard r.alloc then gcHard else gcSoft
    if r.now - s.lastGC > minInt then
      -- doGCandReadMemStats: runGC, lastGCDone = time.Now(), re-read
      { st := { mustRefuse := k.aboveSoft r.allocAfterGC, lastGC := r.now + r.gcDur }, gcRan := true, latest := r.allocAfterGC }
    else
      { st := { s with mustRefuse := true }, gcRan := false, latest := r.alloc }

/-- a history of checks; outputs in order -/
def runChecks (k : Checker) (gcSoft gcHard : Int) : LState → List Reading → List CheckOut
  | _, [] => []
  | s, r :: rs => check k gcSoft gcHard s r :: runChecks k gcSoft gcHard (check k gcSoft gcHard s r).st rs

def finalState (k : Checker) (gcSoft gcHard : Int) : LState → List Reading → LState
  | s, [] => s
  | s, r :: rs => finalState k gcSoft gcHard (check k gcSoft gcHard s r).st rs

/-! ## search oracle: the property's clauses on ONE observed check, with true integer arithmetic
(no reference to the control flow of `check`) -/

structure ObsCheck where
  refuse : Bool
  gcRan : Bool
  lastGC : Int
deriving Repr, DecidableEq

def obsLatest (r : Reading) (o : ObsCheck) : Int := if o.gcRan then r.allocAfterGC else r.alloc

def checkObs (k : Checker) (gcSoft gcHard : Int) (prevLastGC : Int) (r : Reading) (o : ObsCheck) : List String :=
  let soft : Int := (k.limit : Int) - (k.spike : Int)
  let sev : Int := if (r.alloc : Int) ≥ k.limit then gcHard else gcSoft
  (if soft < 0 then ["C18/config/spike-above-limit-accepted"] else []) ++
  (if o.refuse != decide (obsLatest r o ≥ soft) then ["C18/check/refuse-not-iff-latest-above-soft"] else []) ++
  (if o.gcRan && !(decide ((r.alloc : Int) ≥ soft) && decide (r.now - prevLastGC > sev)) then ["C18/check/gc-when-not-due"] else []) ++
  (if !o.gcRan && o.lastGC != prevLastGC then ["C18/check/lastgc-moved-without-gc"] else [])

/-! ## processor / extension -/

inductive Res
  | ok
  | refused          -- memorylimiter.ErrDataRefused (errors.New: not permanent)
  | downstream (code : Nat) (permanent : Bool)
deriving Repr, DecidableEq

def Res.isPermanent : Res → Bool
  | .downstream _ p => p
  | _ => false

/-- `process*` under `processorhelper.New*`: what reaches the next consumer and what the caller gets.
`next` is the downstream consumer's answer for a payload. -/
def consume {α : Type} (refusing : Bool) (payload : α) (next : α → Res) : Option α × Res :=
  if refusing then (none, .refused) else (some payload, next payload)

/-! ## reference-counted start / stop -/

structure RC where
  ref : Nat := 0
  /-- the monitoring goroutine exists -/
  goroutine : Bool := false
  /-- the ticker is armed (`NewTicker` in the constructor) -/
  ticker : Bool := true
deriving Repr, DecidableEq

inductive RCOp | start | shutdown
deriving Repr, DecidableEq

/-- `Start` / `Shutdown`; the `Bool` is "returned `ErrShutdownNotStarted`" -/
def RC.step (s : RC) : RCOp → RC × Bool
  | .start =>
    if s.ref + 1 = 1 then ({ ref := 1, goroutine := true, ticker := true }, false)   -- ticker.Reset (repair), go func
    else ({ s with ref := s.ref + 1 }, false)
  | .shutdown =>
    match s.ref with
    | 0 => (s, true)
    | 1 => ({ ref := 0, goroutine := false, ticker := false }, false)               -- ticker.Stop, close, Wait
    | n + 2 => ({ s with ref := n + 1 }, false)

/-- the unrepaired `Start`: the ticker stays as `Shutdown` left it -/
def RC.stepPinned (s : RC) : RCOp → RC × Bool
  | .start =>
    if s.ref + 1 = 1 then ({ s with ref := 1, goroutine := true }, false)
    else ({ s with ref := s.ref + 1 }, false)
  | .shutdown => s.step .shutdown

def RC.run (s : RC) (ops : List RCOp) : RC := ops.foldl (fun s o => (s.step o).1) s
def RC.runPinned (s : RC) (ops : List RCOp) : RC := ops.foldl (fun s o => (s.stepPinned o).1) s

/-- memory is being checked periodically -/
def RC.checking (s : RC) : Bool := s.goroutine && s.ticker


/-! ## the processor in full: `process*` + its obsreport, under `processorhelper.New*` (+ its obsreport) -/

inductive Sig | logs | traces | metrics | profiles
deriving Repr, DecidableEq

/-- what a `ProcessXFunc` may return besides the data -/
inductive PErr
  | dataRefused        -- memorylimiter.ErrDataRefused
  | skipProcessing     -- processorhelper.ErrSkipProcessingData (swallowed by the helper)
deriving Repr, DecidableEq

/-- counter increments of one consume call: the limiter processor's own `accepted` / `refused`
(no instrument exists for profiles: `obsReport.accepted/refused` have no case for that signal) and the
helper's `incoming` / `outgoing` items -/
structure Counts where
  accepted : Nat := 0
  refused : Nat := 0
  incoming : Nat := 0
  outgoing : Nat := 0
deriving Repr, DecidableEq

structure ConsumeOut (α : Type) where
  forwarded : Option α
  res : Res
  counts : Counts

/-- `memoryLimiterProcessor.process{Traces,Metrics,Logs,Profiles}`: data unchanged; refusing → `ErrDataRefused` -/
def processML {α : Type} (sig : Sig) (refusing : Bool) (n : Nat) (payload : α) : α × Option PErr × Counts :=
  let counted := if sig = .profiles then 0 else n
  if refusing then (payload, some .dataRefused, { refused := counted })
  else (payload, none, { accepted := counted })

/-- `processorhelper.New{Logs,Traces,Metrics}` consume closure around a process function (`obs = true`: it
records incoming / outgoing items); `xprocessorhelper.NewProfiles` is the same closure without an
obsreport (`obs = false`) -/
def helperWrap {α : Type} (obs : Bool) (items : α → Nat) (proc : α → α × Option PErr × Counts) (next : α → Res) (payload : α) : ConsumeOut α :=
  let nIn := if obs then items payload else 0
  match proc payload with
  | (_, some .skipProcessing, k) => { forwarded := none, res := .ok, counts := { k with incoming := nIn, outgoing := 0 } }
  | (_, some .dataRefused, k) => { forwarded := none, res := .refused, counts := { k with incoming := nIn, outgoing := 0 } }
  | (ld, none, k) => { forwarded := some ld, res := next ld, counts := { k with incoming := nIn, outgoing := if obs then items ld else 0 } }

/-- a consume call of the memory-limiter processor as the pipeline sees it -/
def consumeFull {α : Type} (sig : Sig) (items : α → Nat) (refusing : Bool) (payload : α) (next : α → Res) : ConsumeOut α :=
  helperWrap (sig != .profiles) items (processML sig refusing (items payload)) next payload

/-- the extension: `memoryLimiterExtension.MustRefuse` is the limiter's mode -/
def extMustRefuse (s : LState) : Bool := s.mustRefuse

/-- oracle for one observed consume call (`fwd` = downstream was called, `same` = with the very payload,
`isRefused` = `errors.Is(err, ErrDataRefused)`, `isNil`, `isPerm`, `eqNext` = the error is downstream's) -/
structure ObsConsume where
  refusing : Bool
  fwd : Bool
  same : Bool
  isNil : Bool
  isRefused : Bool
  isPerm : Bool
  eqNext : Bool
deriving Repr, DecidableEq

def checkConsume (o : ObsConsume) : List String :=
  (if o.refusing && o.fwd then ["C18/processor/forwarded-while-refusing"] else []) ++
  (if o.refusing && !o.isRefused then ["C18/processor/refusing-without-data-refused-error"] else []) ++
  (if o.refusing && o.isPerm then ["C18/processor/refused-error-is-permanent"] else []) ++
  (if !o.refusing && !(o.fwd && o.same) then ["C18/processor/payload-not-forwarded-unmodified"] else []) ++
  (if !o.refusing && !o.eqNext then ["C18/processor/downstream-result-not-returned"] else [])

/-! ## the monitoring loop: ticker → `CheckMemLimits`, interleaved with start / shutdown of the sharers -/

inductive Lbl
  | start
  | shutdown
  /-- one check interval elapses; `r` is what memory looks like then -/
  | tick (r : Reading)
deriving Repr, DecidableEq

structure Sys where
  rc : RC := {}
  st : LState := {}
  /-- number of `CheckMemLimits` calls made by the monitoring goroutine -/
  checks : Nat := 0
deriving Repr, DecidableEq

/-- `for { select { case <-ticker.C: case <-closed: return }; CheckMemLimits() }`: a tick reaches
`CheckMemLimits` only while the goroutine lives and the ticker is armed -/
def Sys.step (k : Checker) (gcSoft gcHard : Int) (s : Sys) : Lbl → Sys
  | .start => { s with rc := (s.rc.step .start).1 }
  | .shutdown => { s with rc := (s.rc.step .shutdown).1 }
  | .tick r => if s.rc.checking then { s with st := (check k gcSoft gcHard s.st r).st, checks := s.checks + 1 } else s

def Sys.run (k : Checker) (gcSoft gcHard : Int) (s : Sys) (ls : List Lbl) : Sys := ls.foldl (Sys.step k gcSoft gcHard) s

def usersStep (n : Nat) : Lbl → Nat
  | .start => n + 1
  | .shutdown => n - 1
  | .tick _ => n

/-- users after a label sequence: starts − accepted shutdowns -/
def usersL : List Lbl → Nat := List.foldl usersStep 0

def tickStep (uc : Nat × Nat) : Lbl → Nat × Nat
  | .start => (uc.1 + 1, uc.2)
  | .shutdown => (uc.1 - 1, uc.2)
  | .tick _ => (uc.1, if 0 < uc.1 then uc.2 + 1 else uc.2)

/-- ticks that fell while at least one user was present -/
def tickCount (ls : List Lbl) : Nat := (ls.foldl tickStep (0, 0)).2

/-- oracle for the ref-count harness, on the implementation's own observations: `users` before the op -/
def checkRC (users : Int) (op : String) (err checked : Bool) : List String :=
  (if op = "shutdown" && (err != decide (users ≤ 0)) then ["C18/refcount/shutdown-error-mismatch"] else []) ++
  (if op = "start" && err then ["C18/refcount/start-error"] else []) ++
  (if op = "tick" && checked && decide (users ≤ 0) then ["C18/refcount/checking-after-last-shutdown"] else []) ++
  (if op = "tick" && !checked && decide (users > 0) then ["C18/refcount/not-checking-while-users-remain"] else [])


/-- oracle for "the mode is determined solely by the most recent measurement": across a step in which
`measured` readings were taken, the observed mode went from `before` to `after` -/
def checkMode (before after : Bool) (measured : Nat) : List String :=
  if measured = 0 && before != after then ["C18/shared/refusal-changed-without-a-measurement"] else []


/-! ## the loop on the clock: which ticks fall into a window of virtual time -/

/-- instants in `(a, b]` at which a ticker armed at `armedAt` with period `ci` fires (`a ≥ armedAt`) -/
def tickInstants (armedAt ci a b : Int) : List Int :=
  if ci ≤ 0 then [] else
    (List.range ((b - armedAt) / ci - (a - armedAt) / ci).toNat).map (fun (j : Nat) => armedAt + ((a - armedAt) / ci + 1 + (j : Int)) * ci)

structure Timed where
  sys : Sys := {}
  /-- instant of the last arming of the ticker by a `Start` that found no user (`ticker.Reset(check_interval)`) -/
  armedAt : Option Int := none
deriving Repr, DecidableEq

def Timed.start (k : Checker) (gs gh : Int) (t : Timed) (now : Int) : Timed :=
  { sys := t.sys.step k gs gh .start, armedAt := if t.sys.rc.ref = 0 then some now else t.armedAt }

def Timed.shutdown (k : Checker) (gs gh : Int) (t : Timed) : Timed :=
  { t with sys := t.sys.step k gs gh .shutdown }

/-- the readings the monitoring goroutine takes in the window `(a, b]` while memory is at `alloc` (a forced GC leaves `after`) -/
def Timed.readings (t : Timed) (ci a b : Int) (alloc after : Nat) : List Reading :=
  match t.armedAt with
  | some r => (tickInstants r ci a b).map (fun i => { now := i, alloc := alloc, allocAfterGC := after })
  | none => []

structure WindowOut where
  t : Timed
  checks : Nat
  gcs : Nat
deriving Repr, DecidableEq

/-- virtual time passes from `a` to `b` -/
def Timed.window (k : Checker) (gs gh : Int) (t : Timed) (ci a b : Int) (alloc after : Nat) : WindowOut :=
  let rs := t.readings ci a b alloc after
  let sys' := Sys.run k gs gh t.sys (rs.map .tick)
  { t := { t with sys := sys' }, checks := sys'.checks - t.sys.checks,
    gcs := if t.sys.rc.checking then ((runChecks k gs gh t.sys.st rs).filter (·.gcRan)).length else 0 }


/-! ## the context handed to `Start` / `Shutdown` -/

/-- the `context.Context` a caller passes: live, already cancelled, or with a deadline that has already expired
(a service shutting down with a timed-out context is realistic) -/
inductive Ctx | live | cancelled | expired
deriving Repr, DecidableEq

/-- labels with the context as a parameter -/
inductive LblC
  | start (c : Ctx)
  | shutdown (c : Ctx)
  | tick (r : Reading)
deriving Repr, DecidableEq

/-- `Start(_ context.Context, _)` and `Shutdown(context.Context)` ignore their context: a user that leaves with a dead
context has left — it is not "still counted" -/
def LblC.erase : LblC → Lbl
  | .start _ => .start
  | .shutdown _ => .shutdown
  | .tick r => .tick r

def Sys.stepC (k : Checker) (gcSoft gcHard : Int) (s : Sys) (l : LblC) : Sys := s.step k gcSoft gcHard l.erase

def Ctx.ofKind : Nat → Option Ctx
  | 0 => some .live | 1 => some .cancelled | 2 => some .expired | _ => none

end OtelVerif.C18
