import OtelVerif.Model.C18
import OtelVerif.Gen.MemLimiter
/-!
# C18: the bridge between the hand-written model and the definitions REGENERATED from /repo

`Gen/MemLimiter.lean` is written by `translators/cmd/gofunlean` on every run: `Config`, `NewDefaultConfig`,
`Config.Validate`, `memUsageChecker.aboveSoftLimit/aboveHardLimit`, `newFixedMemUsageChecker`,
`newPercentageMemUsageChecker`, `getMemUsageChecker`, `MemoryLimiter.doGCandReadMemStats`,
`MemoryLimiter.CheckMemLimits` (compiled statement by statement from the Go source), the decision of
`iruntime.TotalMemory`, the shape table of the four `process*` functions.  This file maps the model's types onto
the generated ones and adds the code around the core that round 1 left out: construction with its error path
(`NewMemoryLimiter`), total memory (`TotalMemory`), the factory's limiter cache.  `Props/C18.lean` proves the model
equal to the generated definitions (`C18_src_*`), so a change of the Go source re-checks every theorem.
-/
namespace OtelVerif.C18
open OtelVerif.Gen

def Config.toGo (c : Config) : MemLimiter.Config :=
  { CheckInterval := c.checkInterval, MinGCIntervalWhenSoftLimited := c.gcSoft, MinGCIntervalWhenHardLimited := c.gcHard,
    MemoryLimitMiB := c.limitMiB, MemorySpikeLimitMiB := c.spikeMiB, MemoryLimitPercentage := c.limitPct,
    MemorySpikePercentage := c.spikePct }

def Config.ofGo (g : MemLimiter.Config) : Config :=
  { checkInterval := g.CheckInterval, gcSoft := g.MinGCIntervalWhenSoftLimited, gcHard := g.MinGCIntervalWhenHardLimited,
    limitMiB := g.MemoryLimitMiB, spikeMiB := g.MemorySpikeLimitMiB, limitPct := g.MemoryLimitPercentage,
    spikePct := g.MemorySpikePercentage }

def Checker.toGo (k : Checker) : MemLimiter.memUsageChecker := { memAllocLimit := k.limit, memSpikeLimit := k.spike }

/-- the error variable `Validate` returns for the model's index (order of the checks) -/
def validateErrName : Nat → Option String
  | 1 => some "errCheckIntervalOutOfRange"
  | 2 => some "errInconsistentGCMinInterval"
  | 3 => some "errLimitOutOfRange"
  | 4 => some "errLimitPercentageOutOfRange"
  | 5 => some "errSpikeLimitOutOfRange"
  | 6 => some "errSpikeLimitPercentageOutOfRange"
  | _ => none

/-- name of the error the generated `Validate` returns (index into the declaration order of config.go) -/
def srcErrName (i : Nat) : Option String := if i = 0 then none else MemLimiter.errNames[i - 1]?

def Checker.ofGo (g : MemLimiter.memUsageChecker) : Checker := ⟨g.memAllocLimit, g.memSpikeLimit⟩

/-- `getMemUsageChecker` parametric in the percentage function (`newPercentageMemUsageChecker`) -/
def mkCheckerG (pct : Nat → Nat → Nat → Checker) (c : Config) (total : Nat) : Checker :=
  if c.limitMiB ≠ 0 then newFixed (wmul c.limitMiB mib) (wmul c.spikeMiB mib)
  else pct total c.limitPct c.spikePct

/-- the REPAIRED percentage computation (`percentOf`, fix "memory limiter computes percentage limits without overflowing
uint64"): `pct·(total/100) + pct·(total%100)/100`, every `uint64` operation with its wrap-around -/
def pctOf (total p : Nat) : Nat := (wmul p (total / 100) + wmul p (total % 100) / 100) % W
def newPctSafe (total pl ps : Nat) : Checker := newFixed (pctOf total pl) (pctOf total ps)
def mkCheckerSafe (c : Config) (total : Nat) : Checker := mkCheckerG newPctSafe c total

/-- the percentage function of the source AS IT IS (the regenerated `newPercentageMemUsageChecker`) -/
def srcPct (total pl ps : Nat) : Checker := Checker.ofGo (MemLimiter.newPercentageMemUsageChecker total pl ps)
def mkCheckerSrc (c : Config) (total : Nat) : Checker := mkCheckerG srcPct c total

/-- the source computes percentages the unrepaired way (`pct*total/100`, product in `uint64`) -/
def SrcPctPinned : Prop := ∀ T pl ps, srcPct T pl ps = newPct T pl ps
/-- the source computes percentages the repaired way -/
def SrcPctSafe : Prop := ∀ T pl ps, srcPct T pl ps = newPctSafe T pl ps

/-- `getMemUsageChecker` with its error path: `mem` = what `GetMemoryFn()` returned (`none` = an error);
only consulted on the percentage path -/
def mkCheckerGE (pct : Nat → Nat → Nat → Checker) (c : Config) (mem : Option Nat) : Option Checker :=
  if c.limitMiB ≠ 0 then some (mkCheckerG pct c 0)
  else match mem with
    | none => none
    | some total => some (mkCheckerG pct c total)

def mkCheckerE (c : Config) (mem : Option Nat) : Option Checker := mkCheckerGE newPct c mem

/-- what `NewMemoryLimiter` builds (`none` = it returned the error of `getMemUsageChecker`): the checker, the
two GC intervals and the check interval copied from the config; `mustRefuse = false`, `lastGCDone = now` -/
structure Limiter where
  k : Checker
  gcSoft : Int
  gcHard : Int
  checkInterval : Int
  st : LState
deriving Repr, DecidableEq

def newLimiterG (pct : Nat → Nat → Nat → Checker) (c : Config) (mem : Option Nat) (now : Int) : Option Limiter :=
  (mkCheckerGE pct c mem).map fun k => { k := k, gcSoft := c.gcSoft, gcHard := c.gcHard, checkInterval := c.checkInterval,
                                          st := { mustRefuse := false, lastGC := now } }

def newLimiter (c : Config) (mem : Option Nat) (now : Int) : Option Limiter := newLimiterG newPct c mem now
/-- construction with the percentage function of the source as it is (what the driver runs) -/
def newLimiterSrc (c : Config) (mem : Option Nat) (now : Int) : Option Limiter := newLimiterG srcPct c mem now

def Limiter.toGo (l : Limiter) : MemLimiter.MemoryLimiter :=
  { usageChecker := l.k.toGo, minGCIntervalWhenSoftLimited := l.gcSoft, minGCIntervalWhenHardLimited := l.gcHard }

/-- the world a check of the model's `Reading` runs in: first reading `alloc`, a second one (only taken after a
forced GC) `allocAfterGC` -/
def worldOf (s : LState) (r : Reading) (rest : List Nat) : MemLimiter.World :=
  { mustRefuse := s.mustRefuse, lastGCDone := s.lastGC, now := r.now, reads := r.alloc :: r.allocAfterGC :: rest, gcDur := r.gcDur }

/-! ## `iruntime.TotalMemory` (linux) -/

/-- results of the cgroup reads `TotalMemory` makes: `none` = `IsCGroupV2` / `MemoryQuotaV2` /
`NewCGroupsForCurrentProcess` / `MemoryQuota` returned an error; else `(memoryQuota, defined)` -/
abbrev Quota := Option (Int × Bool)

/-- `TotalMemory`: an error of a cgroup call is returned; a quota that is undefined or the v1 "unlimited"
value falls back to `/proc/meminfo` (`memInfo`, `none` = its error); otherwise `uint64(memoryQuota)` -/
def totalMemory (q : Quota) (memInfo : Option Nat) : Option Nat :=
  match q with
  | none => none
  | some (quota, defined) =>
    if quota = 9223372036854771712 ∨ defined = false then memInfo
    else some (quota % 18446744073709551616).toNat

/-! ## cgroup v2: `cgroups.memoryQuotaV2` (reads `<mount>/memory.max`) -/

/-- ASCII white space as `strings.TrimSpace` sees it -/
def isSpaceCh (c : Char) : Bool := c = ' ' || c = '\t' || c = '\n' || c = '\r' || c.toNat = 11 || c.toNat = 12
def trimSpace (s : List Char) : List Char := ((s.dropWhile isSpaceCh).reverse.dropWhile isSpaceCh).reverse

/-- first token of `bufio.Scanner` with `ScanLines`: up to the first `\n` (dropped), one trailing `\r` dropped;
`none` = empty input (`Scan` returns false) -/
def firstLine (s : List Char) : Option (List Char) :=
  if s.isEmpty then none else
    let l := s.takeWhile (· != '\n')
    some (if l.getLast? = some '\r' then l.dropLast else l)

def digitsVal (ds : List Char) : Nat := ds.foldl (fun a c => a * 10 + (c.toNat - 48)) 0

def parseDigits (neg : Bool) (ds : List Char) : Option Int :=
  if ds.isEmpty || !ds.all Char.isDigit then none
  else if neg then (if digitsVal ds ≤ 9223372036854775808 then some (-(digitsVal ds : Int)) else none)
  else (if digitsVal ds < 9223372036854775808 then some (digitsVal ds : Int) else none)

/-- `strconv.ParseInt(s, 10, 64)`: optional sign, at least one decimal digit and nothing else, `int64` range -/
def parseInt64 : List Char → Option Int
  | '-' :: r => parseDigits true r
  | '+' :: r => parseDigits false r
  | r => parseDigits false r

inductive V2File
  | absent                      -- os.Open: not exist
  | unreadable                  -- os.Open / the read fails otherwise
  | content (s : List Char)
deriving Repr, DecidableEq

/-- `memoryQuotaV2`: no file or `max` → quota undefined; a decimal `int64` → that quota; anything else (empty file,
garbage, out of range, I/O error) → error (`none`) -/
def memoryQuotaV2 : V2File → Quota
  | .absent => some (-1, false)
  | .unreadable => none
  | .content s =>
    match firstLine s with
    | none => none
    | some l =>
      let v := trimSpace l
      if v = ['m', 'a', 'x'] then some (-1, false) else (parseInt64 v).map (fun n => (n, true))

/-- cgroup v1: `CGroups.MemoryQuota` — `mem` = state of `memory.limit_in_bytes` of the process's memory cgroup (`none` = the
process has no memory subsystem entry). `readInt` parses the first line WITHOUT trimming; a value ≤ 0 means "not set" -/
def memoryQuotaV1 : Option V2File → Quota
  | none => some (-1, false)
  | some .absent => none            -- os.Open fails: readInt returns the error
  | some .unreadable => none
  | some (.content s) =>
    match firstLine s with
    | none => none
    | some l =>
      match parseInt64 l with
      | none => none
      | some n => if n > 0 then some (n, true) else some (-1, false)

/-- construction from the machine's state, percentage path included: `GetMemoryFn = iruntime.TotalMemory` -/
def newLimiterOnHost (c : Config) (q : Quota) (memInfo : Option Nat) (now : Int) : Option Limiter :=
  newLimiterSrc c (totalMemory q memInfo) now

/-! ## the factory's cache of limiters (`factory.getMemoryLimiter`): one limiter per configuration KEY
(`map[component.Config]…` — the key is the `*Config` pointer, not its value) -/

structure Factory where
  /-- (config key, id of the limiter) in creation order -/
  cache : List (Nat × Nat) := []
deriving Repr, DecidableEq

def Factory.lookup (f : Factory) (key : Nat) : Option Nat := (f.cache.find? (·.1 = key)).map (·.2)

/-- `getMemoryLimiter`: the cached limiter of this key, else a new one (`ok = false`: `newMemoryLimiterProcessor`
failed — nothing is cached) -/
def Factory.get (f : Factory) (key : Nat) (ok : Bool) : Factory × Option Nat :=
  match f.lookup key with
  | some id => (f, some id)
  | none => if ok then ({ cache := f.cache ++ [(key, f.cache.length)] }, some f.cache.length) else (f, none)

/-- create a sequence of processors `(key, construction succeeds)`; the limiter each one got -/
def Factory.creates : Factory → List (Nat × Bool) → List (Option Nat)
  | _, [] => []
  | f, (k, ok) :: rest => (f.get k ok).2 :: Factory.creates (f.get k ok).1 rest

/-! ## the processor's `process*` functions and their obsreport, read off the regenerated tables -/

def Sig.processFn : Sig → String
  | .logs => "processLogs" | .traces => "processTraces" | .metrics => "processMetrics" | .profiles => "processProfiles"

/-- what `process<sig>` records for `n` items according to the regenerated tables: the row of the function names the signal
it hands to `obsrep.refused` / `obsrep.accepted`; the count lands on an instrument only if `obsReport.<m>` has a case for
that signal -/
def countsFromTables (sig : Sig) (refusing : Bool) (n : Nat) : Counts :=
  match MemLimiter.processTable.find? (·.1 = sig.processFn) with
  | none => {}
  | some (_, _, rsig, asig) =>
    if refusing then { refused := if (MemLimiter.obs_refused.any (·.1 = rsig)) then n else 0 }
    else { accepted := if (MemLimiter.obs_accepted.any (·.1 = asig)) then n else 0 }

/-! ## source pins: the statements (tracing / logging removed) of the functions the hand-written model was written from and
that are outside the compiled subset (loops, select, channels, goroutines; for C05 also the three functions of the back-off
library the model idealises). `Props` proves the regenerated skeletons equal to these, so any edit of those functions stops the
build until the model has been re-examined. -/

def pin_start : List String := [
  "ml.refCounterLock.Lock()",
  "defer ml.refCounterLock.Unlock()",
  "ml.refCounter++",
  "if ml.refCounter == 1 { ml.ticker.Reset(ml.memCheckWait); ml.closed = make(chan struct{}); ml.waitGroup.Add(1); go func() { defer ml.waitGroup.Done(); for { select { case <-ml.ticker.C:  | case <-ml.closed: return }; ml.CheckMemLimits() } }() }",
  "return nil"
]

def pin_shutdown : List String := [
  "ml.refCounterLock.Lock()",
  "defer ml.refCounterLock.Unlock()",
  "switch ml.refCounter { case 0: return ErrShutdownNotStarted | case 1: ml.ticker.Stop(); close(ml.closed); ml.waitGroup.Wait() }",
  "ml.refCounter--",
  "return nil"
]

def pin_mustRefuse : List String := [
  "return ml.mustRefuse.Load()"
]

def pin_extStart : List String := [
  "return ml.memLimiter.Start(ctx, host)"
]

def pin_extShutdown : List String := [
  "return ml.memLimiter.Shutdown(ctx)"
]

def pin_extMustRefuse : List String := [
  "return ml.memLimiter.MustRefuse()"
]

def pin_memoryQuotaV2 : List String := [
  "memoryMaxParams, err := os.Open(filepath.Clean(filepath.Join(cgroupv2MountPoint, cgroupv2MemoryMax)))",
  "if err != nil { if os.IsNotExist(err) { return -1, false, nil }; return -1, false, err }",
  "scanner := bufio.NewScanner(memoryMaxParams)",
  "if scanner.Scan() { value := strings.TrimSpace(scanner.Text()); if value == \"max\" { return -1, false, nil }; maxVal, err := strconv.ParseInt(value, 10, 64); if err != nil { return -1, false, err }; return maxVal, true, nil }",
  "if err := scanner.Err(); err != nil { return -1, false, err }",
  "return -1, false, io.ErrUnexpectedEOF"
]

def pin_memoryQuotaV1 : List String := [
  "memCGroup, exists := cg[_cgroupSubsysMemory]",
  "if !exists { return -1, false, nil }",
  "memLimitBytes, err := memCGroup.readInt(_cgroupMemoryLimitBytes)",
  "if defined := memLimitBytes > 0; err != nil || !defined { return -1, defined, err }",
  "return memLimitBytes, true, nil"
]

def pin_readFirstLine : List String := [
  "paramFile, err := os.Open(cg.ParamPath(param))",
  "if err != nil { return \"\", err }",
  "defer paramFile.Close()",
  "scanner := bufio.NewScanner(paramFile)",
  "if scanner.Scan() { return scanner.Text(), nil }",
  "if err := scanner.Err(); err != nil { return \"\", err }",
  "return \"\", io.ErrUnexpectedEOF"
]

def pin_readInt : List String := [
  "text, err := cg.readFirstLine(param)",
  "if err != nil { return 0, err }",
  "return strconv.ParseInt(text, 10, 64)"
]

def pin_getMemoryLimiter : List String := [
  "f.lock.Lock()",
  "defer f.lock.Unlock()",
  "if memLimiter, ok := f.memoryLimiters[cfg]; ok { return memLimiter, nil }",
  "set.TelemetrySettings = telemetry.WithoutAttributes(set.TelemetrySettings, componentattribute.SignalKey, componentattribute.PipelineIDKey, componentattribute.ComponentIDKey)",
  "set.Logger.Debug(\"created singleton logger\")",
  "memLimiter, err := newMemoryLimiterProcessor(set, cfg.(*Config))",
  "if err != nil { return nil, err }",
  "f.memoryLimiters[cfg] = memLimiter",
  "return memLimiter, nil"
]

/-- all pins at once -/
def SrcPinned : Prop :=
    MemLimiter.skel_start = pin_start ∧
    MemLimiter.skel_shutdown = pin_shutdown ∧
    MemLimiter.skel_mustRefuse = pin_mustRefuse ∧
    MemLimiter.skel_extStart = pin_extStart ∧
    MemLimiter.skel_extShutdown = pin_extShutdown ∧
    MemLimiter.skel_extMustRefuse = pin_extMustRefuse ∧
    MemLimiter.skel_memoryQuotaV2 = pin_memoryQuotaV2 ∧
    MemLimiter.skel_memoryQuotaV1 = pin_memoryQuotaV1 ∧
    MemLimiter.skel_readFirstLine = pin_readFirstLine ∧
    MemLimiter.skel_readInt = pin_readInt ∧
    MemLimiter.skel_getMemoryLimiter = pin_getMemoryLimiter

end OtelVerif.C18
