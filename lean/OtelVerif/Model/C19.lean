import OtelVerif.Gen.ScrapeSignal
/-!
# C19 model (receiver / scraper / processor clauses): self-telemetry item counters

Counter algebra mirroring, branch by branch,

* `receiver/receiverhelper/obsreport.go` — `endOp` (accepted/refused split by error) and `recordMetrics`
  (the per-signal instrument pair),
* `scraper/scraperhelper/controller.go` — `scrapeMetrics` / `scrapeLogs` (results of the scrapers are
  concatenated, a scraper that failed with a non-partial error is skipped, the total is reported through
  the receiver operation **the code names**), `obs_metrics.go` / `obs_logs.go` (`wrapObsMetrics` /
  `wrapObsLogs`: per-scraper scraped / errored counters),
* `processor/processorhelper/{logs,metrics,traces}.go` + `obsreport.go` (`recordInOut`).

Which receiver operation `scrapeLogs` / `scrapeMetrics` end is **regenerated** from the source
(`Gen.ScrapeSignal`), so the same model covers the pinned code (`scrapeLogs` ends a *metrics* operation)
and the repaired code.  The exporter clause lives in `Model/C19Exp.lean`.
-/
namespace OtelVerif.C19
open OtelVerif.Gen

inductive Signal | traces | metrics | logs
deriving DecidableEq, Repr

def Signal.all : List Signal := [.traces, .metrics, .logs]

theorem Signal.mem_all (s : Signal) : s ∈ Signal.all := by cases s <;> simp [Signal.all]

/-- signal codes of `Gen.ScrapeSignal` -/
def Signal.code : Signal → Nat
  | .traces => 0
  | .metrics => 1
  | .logs => 2

def Signal.ofCode? : Nat → Option Signal
  | 0 => some .traces
  | 1 => some .metrics
  | 2 => some .logs
  | _ => none

/-- `instrument.Add(ctx, n, attrs)` on the instrument of signal `s` in a per-signal family of counters -/
def add (f : Signal → Nat) (s : Signal) (n : Nat) : Signal → Nat :=
  fun t => if t = s then f t + n else f t

def sumBy {α : Type} (f : α → Nat) : List α → Nat
  | [] => 0
  | x :: xs => f x + sumBy f xs

/-! ## receiver: `ObsReport.endOp` / `recordMetrics` -/

/-- `otelcol_receiver_accepted_{spans,metric_points,log_records}` and `…_refused_…` of one attribute set
(receiver id, transport) -/
structure Recv where
  accepted : Signal → Nat := fun _ => 0
  refused : Signal → Nat := fun _ => 0

/-- one `End<sig>Op(ctx, format, n, err)`; `err` = the error is non-nil -/
structure RecvOp where
  sig : Signal
  n : Nat
  err : Bool
deriving DecidableEq, Repr

/-- `numAccepted := numReceivedItems; if err != nil { numAccepted = 0 }` -/
def numAccepted (n : Nat) (err : Bool) : Nat := if err then 0 else n
/-- `numRefused := 0; if err != nil { numRefused = numReceivedItems }` -/
def numRefused (n : Nat) (err : Bool) : Nat := if err then n else 0

/-- `endOp` → `recordMetrics(ctx, signal, numAccepted, numRefused)`: the switch picks the instrument pair of
`signal` (tie: `Gen.ScrapeSignal.recordTable`, obligation `C19_recordMetrics_table`), both get an `Add`. -/
def Recv.endOp (c : Recv) (op : RecvOp) : Recv :=
  { accepted := add c.accepted op.sig (numAccepted op.n op.err)
    refused := add c.refused op.sig (numRefused op.n op.err) }

def Recv.run (c : Recv) (ops : List RecvOp) : Recv := ops.foldl Recv.endOp c

/-- the counters after each operation of a history -/
def Recv.trace (c : Recv) : List RecvOp → List (RecvOp × Recv)
  | [] => []
  | op :: ops => (op, c.endOp op) :: Recv.trace (c.endOp op) ops

/-- items offered by the operations of signal `s` -/
def offered (s : Signal) (ops : List RecvOp) : Nat := sumBy (fun o => if o.sig = s then o.n else 0) ops
/-- … by those whose downstream result was success / failure -/
def offeredOk (s : Signal) (ops : List RecvOp) : Nat := sumBy (fun o => if o.sig = s then numAccepted o.n o.err else 0) ops
def offeredErr (s : Signal) (ops : List RecvOp) : Nat := sumBy (fun o => if o.sig = s then numRefused o.n o.err else 0) ops

/-- span name suffix chosen by `Start<sig>Op`, and the attribute keys `endOp` sets on the span -/
def spanSuffix : Signal → String
  | .traces => "TraceDataReceived"
  | .metrics => "MetricsReceived"
  | .logs => "LogsReceived"

def acceptedKey : Signal → String
  | .traces => "accepted_spans"
  | .metrics => "accepted_metric_points"
  | .logs => "accepted_log_records"

def refusedKey : Signal → String
  | .traces => "refused_spans"
  | .metrics => "refused_metric_points"
  | .logs => "refused_log_records"

/-! ### the property, stated on *observed* counter snapshots (search oracle) -/

/-- one operation seen from outside: counters before, counters after -/
def RecvStepOK (before after : Recv) (op : RecvOp) : Prop :=
  (op.err = false → after.accepted op.sig = before.accepted op.sig + op.n ∧ after.refused op.sig = before.refused op.sig) ∧
  (op.err = true → after.accepted op.sig = before.accepted op.sig ∧ after.refused op.sig = before.refused op.sig + op.n) ∧
  (∀ t, t ≠ op.sig → after.accepted t = before.accepted t ∧ after.refused t = before.refused t)

def RecvTraceOK : Recv → List (RecvOp × Recv) → Prop
  | _, [] => True
  | before, (op, after) :: rest => RecvStepOK before after op ∧ RecvTraceOK after rest

/-- own-signal clause, executable -/
def recvOwnB (before after : Recv) (op : RecvOp) : Bool :=
  if op.err then
    after.accepted op.sig == before.accepted op.sig && after.refused op.sig == before.refused op.sig + op.n
  else
    after.accepted op.sig == before.accepted op.sig + op.n && after.refused op.sig == before.refused op.sig

/-- other-signals clause, executable: the first foreign signal whose counters moved -/
def recvForeign (before after : Recv) (op : RecvOp) : Option Signal :=
  Signal.all.find? (fun t => t != op.sig && !(after.accepted t == before.accepted t && after.refused t == before.refused t))

def recvStepB (before after : Recv) (op : RecvOp) : Bool :=
  recvOwnB before after op && (recvForeign before after op).isNone

def recvCheck : Recv → List (RecvOp × Recv) → Bool
  | _, [] => true
  | before, (op, after) :: rest => recvStepB before after op && recvCheck after rest

/-! ## scraper controller -/

/-- what one scraper returned in one scrape.  `items` = what the receiver operation counts
(`DataPointCount()` / `LogRecordCount()`), `units` = what `wrapObs*` feeds the scraped counter
(`MetricCount()` for metrics — metrics, not points — / `LogRecordCount()` for logs). -/
inductive ScrapeRes
  | ok (items units : Nat)                  -- `err == nil`
  | partialErr (items units failed : Nat)   -- `scrapererror.PartialScrapeError` (possibly wrapped): data kept
  | fail (items : Nat)                      -- any other error: `continue`, whatever was returned is dropped
deriving DecidableEq, Repr

/-- contribution to the concatenated payload (`MoveAndAppendTo`) -/
def ScrapeRes.kept : ScrapeRes → Nat
  | .ok i _ => i
  | .partialErr i _ _ => i
  | .fail _ => 0

/-- `numScrapedMetrics` / `numScrapedLogs` of `wrapObs*` -/
def ScrapeRes.scraped : ScrapeRes → Nat
  | .ok _ u => u
  | .partialErr _ u _ => u
  | .fail _ => 0

/-- `numErroredMetrics` / `numErroredLogs` -/
def ScrapeRes.errored : ScrapeRes → Nat
  | .partialErr _ _ f => f
  | _ => 0

/-- one scrape: result of every configured scraper in order, and whether the next consumer fails -/
structure Tick where
  results : List ScrapeRes
  sinkErr : Bool
deriving DecidableEq, Repr

def Tick.count (t : Tick) : Nat := sumBy ScrapeRes.kept t.results

structure Scr where
  recv : Recv := {}
  /-- `otelcol_scraper_scraped_*` / `otelcol_scraper_errored_*` by scraper position -/
  scraped : Nat → Nat := fun _ => 0
  errored : Nat → Nat := fun _ => 0
  /-- ledger of the instrumented next consumer: size of every payload it received, oldest first -/
  sink : List Nat := []

def resAt (rs : List ScrapeRes) (f : ScrapeRes → Nat) (i : Nat) : Nat :=
  match rs[i]? with
  | some r => f r
  | none => 0

/-- `scrapeMetrics` / `scrapeLogs`, reporting through the receiver operation of signal `sig` -/
def Scr.scrape (sig : Signal) (c : Scr) (t : Tick) : Scr :=
  { recv := c.recv.endOp ⟨sig, t.count, t.sinkErr⟩
    scraped := fun i => c.scraped i + resAt t.results ScrapeRes.scraped i
    errored := fun i => c.errored i + resAt t.results ScrapeRes.errored i
    sink := c.sink ++ [t.count] }

def Scr.run (sig : Signal) (c : Scr) (ts : List Tick) : Scr := ts.foldl (Scr.scrape sig) c

/-- the receiver operations a scrape history amounts to -/
def tickOps (sig : Signal) (ts : List Tick) : List RecvOp := ts.map (fun t => ⟨sig, t.count, t.sinkErr⟩)

inductive Ctrl | metrics | logs
deriving DecidableEq, Repr

/-- the signal the controller carries -/
def Ctrl.own : Ctrl → Signal
  | .metrics => .metrics
  | .logs => .logs

/-- the signal of the `End*Op` that `scrapeMetrics` / `scrapeLogs` call **in the current source**.
The translator only emits codes 0–2; the fallback is deliberately a signal no scraper controller
carries, so a bad code can never make a statement about the own signal true. -/
def Ctrl.usedCode : Ctrl → Nat
  | .metrics => ScrapeSignal.scrapeMetricsEndSig
  | .logs => ScrapeSignal.scrapeLogsEndSig

def Ctrl.used (k : Ctrl) : Signal := (Signal.ofCode? k.usedCode).getD .traces

def scrapeLogsSignal : Signal := Ctrl.logs.used
def scrapeMetricsSignal : Signal := Ctrl.metrics.used

/-- a scrape history as the property sees it: each scrape is an operation of the controller's **own**
signal offering the items handed to the next consumer, ended with that consumer's result — paired with
the receiver counters the code (reporting through the operation of signal `used`) shows afterwards -/
def Scr.obsTrace (used own : Signal) (c : Scr) : List Tick → List (RecvOp × Recv)
  | [] => []
  | t :: ts => (⟨own, t.count, t.sinkErr⟩, (c.scrape used t).recv) :: Scr.obsTrace used own (c.scrape used t) ts

/-- the scraper clause of the property for a controller carrying signal `own` whose scrape function
reports through the receiver operation of signal `used`: for **every** scrape history, the items handed
to the next consumer are recorded, accepted or refused by its result, under the counters of `own`, no
other signal's counter moves, and accepted + refused of `own` equals what the next consumer received. -/
def ScraperClause (own used : Signal) : Prop :=
  ∀ ts : List Tick,
    RecvTraceOK {} (Scr.obsTrace used own {} ts) ∧
    ((Scr.run used {} ts).recv.accepted own + (Scr.run used {} ts).recv.refused own = sumBy id (Scr.run used {} ts).sink)

/-! ## processor helper -/

/-- what the process function and the next consumer do with one payload -/
inductive ProcOutcome
  | ok (out : Nat) (nextErr : Bool)   -- process function returns a payload of `out` items; next consumer fails or not
  | err                               -- process function returns an error
  | skip                              -- … returns (something wrapping) `ErrSkipProcessingData`
deriving DecidableEq, Repr

inductive ProcRet | nil | funcErr | nextErr
deriving DecidableEq, Repr

structure ProcOp where
  sig : Signal
  inp : Nat
  outcome : ProcOutcome
deriving DecidableEq, Repr

/-- `otelcol_processor_incoming_items` / `…_outgoing_items` by `otel.signal`, and the ledger of the
instrumented next consumers (items actually received, number of calls) -/
structure Proc where
  incoming : Signal → Nat := fun _ => 0
  outgoing : Signal → Nat := fun _ => 0
  fwdItems : Signal → Nat := fun _ => 0
  fwdCalls : Signal → Nat := fun _ => 0

/-- the consume function built by `NewLogs` / `NewMetrics` / `NewTraces` -/
def Proc.consume (p : Proc) (op : ProcOp) : Proc × ProcRet :=
  match op.outcome with
  | .err =>      -- `obs.recordInOut(ctx, recordsIn, 0); return errFunc`
    ({ p with incoming := add p.incoming op.sig op.inp, outgoing := add p.outgoing op.sig 0 }, .funcErr)
  | .skip =>     -- `obs.recordInOut(ctx, recordsIn, 0); return nil`
    ({ p with incoming := add p.incoming op.sig op.inp, outgoing := add p.outgoing op.sig 0 }, .nil)
  | .ok out nextErr =>   -- `obs.recordInOut(ctx, recordsIn, recordsOut); return nextConsumer.Consume…(ctx, ld)`
    ({ incoming := add p.incoming op.sig op.inp, outgoing := add p.outgoing op.sig out
       fwdItems := add p.fwdItems op.sig out, fwdCalls := add p.fwdCalls op.sig 1 },
     if nextErr then .nextErr else .nil)

def Proc.run (p : Proc) (ops : List ProcOp) : Proc := ops.foldl (fun q op => (q.consume op).1) p

def ProcOutcome.out : ProcOutcome → Nat
  | .ok o _ => o
  | _ => 0

def given (s : Signal) (ops : List ProcOp) : Nat := sumBy (fun o => if o.sig = s then o.inp else 0) ops
def forwardedBy (s : Signal) (ops : List ProcOp) : Nat := sumBy (fun o => if o.sig = s then o.outcome.out else 0) ops

/-- counters of the three signals as seen from outside -/
structure ProcSnap where
  incoming : Signal → Nat := fun _ => 0
  outgoing : Signal → Nat := fun _ => 0

/-- one observed processor call: signal, items given, items the next consumer actually received during
the call (`none` = it was not called), counters after -/
structure ProcObs where
  sig : Signal
  inp : Nat
  sink : Option Nat
  after : ProcSnap

def ProcStepOK (before : ProcSnap) (o : ProcObs) : Prop :=
  o.after.incoming o.sig = before.incoming o.sig + o.inp ∧
  o.after.outgoing o.sig = before.outgoing o.sig + o.sink.getD 0 ∧
  (∀ t, t ≠ o.sig → o.after.incoming t = before.incoming t ∧ o.after.outgoing t = before.outgoing t)

def ProcTraceOK : ProcSnap → List ProcObs → Prop
  | _, [] => True
  | before, o :: rest => ProcStepOK before o ∧ ProcTraceOK o.after rest

def procIncomingB (before : ProcSnap) (o : ProcObs) : Bool := o.after.incoming o.sig == before.incoming o.sig + o.inp
def procOutgoingB (before : ProcSnap) (o : ProcObs) : Bool := o.after.outgoing o.sig == before.outgoing o.sig + o.sink.getD 0
def procForeign (before : ProcSnap) (o : ProcObs) : Option Signal :=
  Signal.all.find? (fun t => t != o.sig && !(o.after.incoming t == before.incoming t && o.after.outgoing t == before.outgoing t))

def procStepB (before : ProcSnap) (o : ProcObs) : Bool :=
  procIncomingB before o && procOutgoingB before o && (procForeign before o).isNone

def procCheck : ProcSnap → List ProcObs → Bool
  | _, [] => true
  | before, o :: rest => procStepB before o && procCheck o.after rest

def Proc.snap (p : Proc) : ProcSnap := { incoming := p.incoming, outgoing := p.outgoing }

/-- the observations the model itself produces for a history -/
def Proc.obsTrace (p : Proc) : List ProcOp → List ProcObs
  | [] => []
  | op :: ops =>
    let q := (p.consume op).1
    { sig := op.sig, inp := op.inp
      sink := (match op.outcome with | .ok o _ => some o | _ => none), after := q.snap } :: Proc.obsTrace q ops

/-! ### profiles: `xprocessorhelper.NewProfiles` builds the same consume function **without** an `obsReport`
(no `recordInOut` call at all), so a profiles payload moves none of the item counters -/

/-- an operation of a processor set: one of the three counted signals, or profiles -/
inductive XOp
  | sig (op : ProcOp)
  | prof (inp : Nat) (outcome : ProcOutcome)
deriving DecidableEq, Repr

/-- what the caller of `ConsumeProfiles` gets back (same branches as the counted signals) -/
def profRet : ProcOutcome → ProcRet
  | .err => .funcErr
  | .skip => .nil
  | .ok _ nextErr => if nextErr then .nextErr else .nil

def Proc.consumeX (p : Proc) : XOp → Proc × ProcRet
  | .sig op => p.consume op
  | .prof _ o => (p, profRet o)

def Proc.runX (p : Proc) (xs : List XOp) : Proc := xs.foldl (fun q x => (q.consumeX x).1) p

/-- the operations of the counted signals, in order -/
def sigOps : List XOp → List ProcOp
  | [] => []
  | .sig op :: xs => op :: sigOps xs
  | .prof _ _ :: xs => sigOps xs

/-! ## concurrent receive operations: only the counters after the whole batch are observable -/

/-- executable: after a batch of operations (in whatever order they took effect) every signal's accepted /
refused counter has grown by exactly what the batch's successful / failed operations of that signal offered -/
def recvBatchB (before after : Recv) (ops : List RecvOp) : Bool :=
  Signal.all.all (fun s => after.accepted s == before.accepted s + offeredOk s ops &&
    after.refused s == before.refused s + offeredErr s ops)

/-! ## scraper cross-balance -/

/-- `Σ_{i<k} f i` -/
def sumRange : Nat → (Nat → Nat) → Nat
  | 0, _ => 0
  | k + 1, f => sumRange k f + f k

/-- everything the scrapers of a history reported as scraped (in the unit `wrapObs*` counts) / everything
that was kept for the next consumer (in items) -/
def totalUnits (ts : List Tick) : Nat := sumBy (fun t => sumBy ScrapeRes.scraped t.results) ts
def totalItems (ts : List Tick) : Nat := sumBy Tick.count ts

/-- every payload's scraped-counter unit is its item count (true by construction for logs: both are
`LogRecordCount()`; for metrics it says every metric carries exactly one data point) -/
def UnitsAreItems (ts : List Tick) : Prop := ∀ t ∈ ts, ∀ r ∈ t.results, r.scraped = r.kept

end OtelVerif.C19
