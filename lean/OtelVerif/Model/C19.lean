/-! C19 model (stub) -/
namespace OtelVerif.C19
end OtelVerif.C19
