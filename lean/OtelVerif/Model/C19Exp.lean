import OtelVerif.Model.C03
/-!
# C19, exporter clause: the exporter's item counters over the shutdown LTS of `Model/C03.lean`

`obs_report_sender.go` `Send`: `items := req.ItemsCount()` is read BEFORE the request goes down the chain (retry → timeout →
export) and `endOp` adds `items` to *sent* when the final error is nil, to *send-failed* otherwise.  One pass through
`obsReportSender` is one `Flight` of the C03 model (a flush goroutine of the default batcher, or the consumer itself with the
disabled batcher): the final error is nil iff the last call of the export function succeeded, i.e. iff
`attempts = failures + 1` for an ended flight (`FlightOK`).  `obs_queue.go` `Offer` adds the request's items to *enqueue-failed*
whenever the wrapped `Offer` returns an error (queue full, context done — and, with `wait_for_result`, the export error itself:
modelled as it is in `predict` below).

* `sentOf`, `failedOf`, `keptOf` are functions of the C03 state — the counters after any schedule.
* `predict` recomputes the three counters from a recorded trace (calls grouped into flights by their item list, final outcome =
  outcome of the last call of the group; refused sends) — the D tie: the driver prints them and the runner diffs them with the
  values read from the real meter provider.
* `qSizeAfter` is the memory queue's size bookkeeping (`size += n` in `add`, `size -= n` in `onDone`).
-/
namespace OtelVerif.C19
open OtelVerif.C03

def Flight.finalOk (fl : Flight) : Bool := fl.attempts == fl.failures + 1

/-- `exporter_sent_*`: items of the flights that ended with a nil error -/
def sentOf (s : State) : Nat :=
  ((s.flights.filter (fun fl => fl.st == .done && Flight.finalOk fl)).map (·.batch.length)).sum

/-- `exporter_send_failed_*`: items of the flights that ended with an error (including a shutdown error) -/
def failedOf (s : State) : Nat :=
  ((s.flights.filter (fun fl => fl.st == .done && !Flight.finalOk fl)).map (·.batch.length)).sum

/-- items of the flights that ended with a shutdown error: counted as send-failed, and a persistent queue keeps them stored -/
def keptOf (s : State) : Nat :=
  ((s.flights.filter (fun fl => fl.st == .done && fl.kept)).map (·.batch.length)).sum

/-- what a persistent queue still holds when shutdown has returned: the requests never dispatched and the kept ones -/
def storedOf (s : State) : Nat := (queueItems s.queue).length + keptOf s

/-- `exporter_enqueue_failed_*` contribution of `wait_for_result`: `memoryQueue.Offer` returns what the request's `Done` received,
and `obsQueue.Offer` counts every error of `Offer` — so the items of a request whose export failed are added here as well -/
def enqFailedWfrOf (s : State) : Nat :=
  if s.cfg.wfr then ((s.results.filter (·.2)).map (·.1.length)).sum else 0

/-! ## the exporter with its `obsQueue` front (see `Lemmas/C19Exp.lean`) -/

structure XState where
  s : State
  given : Nat := 0      -- items of every request handed to `Send`
  refused : Nat := 0    -- items of the requests whose `Offer` returned an error without enqueuing

inductive XLabel
  | lts (l : Label)          -- a step of the shutdown LTS; `lts (.offer b)` = an accepted `Send`
  | refuse (b : Batch)       -- a refused `Send`

def xfire (x : XState) : XLabel → Option XState
  | .lts l =>
    match fire x.s l with
    | some s' => some { x with s := s', given := match l with | .offer b => x.given + b.length | _ => x.given }
    | none => none
  | .refuse b => some { x with given := x.given + b.length, refused := x.refused + b.length }

/-- `exporter_enqueue_failed_*` of an exporter with a sending queue: the refused offers plus the `wait_for_result` errors -/
def enqFailedOf (x : XState) : Nat := x.refused + enqFailedWfrOf x.s

/-! ## counters predicted from a recorded trace -/

structure XC where
  sent : Nat := 0
  failed : Nat := 0
  enqFailed : Nat := 0
deriving DecidableEq, Repr

/-- a trace event of the exporter harness (superset of `C03.Ev`: refused sends matter here) -/
inductive XEv
  | acc (items : List Item)
  | rej (items : List Item)            -- `Send` returned an error (every error of `Send` comes out of `obsQueue.Offer`)
  | es (call : Nat) (items : List Item)
  | ee (call : Nat) (failed : Bool)
deriving DecidableEq, Repr

def callsOf (t : List XEv) : List (Nat × List Item) :=
  t.filterMap (fun e => match e with | .es c is => some (c, is) | _ => none)

def outcomeOf (t : List XEv) (c : Nat) : Option Bool :=
  t.findSome? (fun e => match e with | .ee c' f => if c' = c then some f else none | _ => none)

/-- the flight (chain of attempts through one pass of `obsReportSender`) a call belongs to = the first call that contained its
items: a retry carries the same items or — after a partial failure, `Request.OnError` — a sub-list of them; item ids are unique -/
def rootOf (calls : List (Nat × List Item)) (c : Nat × List Item) : Nat :=
  match c.2 with
  | [] => c.1
  | x :: _ => ((calls.find? (fun p => p.2.contains x)).map (·.1)).getD c.1

/-- `items` is read BEFORE the first attempt (`obsReportSender.Send`): a flight counts the items of its FIRST call, under the
outcome of its LAST call -/
def predict (t : List XEv) : XC :=
  let calls := callsOf t
  let roots := calls.filter (fun p => rootOf calls p == p.1)
  let finals := roots.filterMap (fun r =>
    match (calls.filter (fun p => rootOf calls p == r.1)).getLast? with
    | some l => (outcomeOf t l.1).map (fun f => (r.2.length, f))
    | none => none)
  { sent := ((finals.filter (fun p => !p.2)).map (·.1)).sum
    failed := ((finals.filter (fun p => p.2)).map (·.1)).sum
    enqFailed := (t.map (fun e => match e with | .rej is => is.length | _ => 0)).sum }

/-! ## queue size bookkeeping (memory queue) -/

inductive QEv
  | add (n : Nat)      -- `memoryQueue.add`: size += n
  | done (n : Nat)     -- `memoryQueue.onDone`: size -= n
deriving DecidableEq, Repr

def qSizeAfter (size : Int) : List QEv → Int
  | [] => size
  | .add n :: es => qSizeAfter (size + n) es
  | .done n :: es => qSizeAfter (size - n) es

def added : List QEv → Nat
  | [] => 0
  | .add n :: es => n + added es
  | .done _ :: es => added es

def finished : List QEv → Nat
  | [] => 0
  | .add _ :: es => finished es
  | .done n :: es => n + finished es

end OtelVerif.C19
