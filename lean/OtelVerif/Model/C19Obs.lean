/-!
# C19: `service/internal/obsconsumer` — consumed items per outcome

`obsconsumer.New{Logs,Metrics,Traces,Profiles}` wraps a consumer: the item count is taken BEFORE the downstream call (the data
may be mutated downstream) and added to the instrument under the attribute set `{outcome=success} ∪ static` when the downstream
consumer returned nil, under `{outcome=failure} ∪ static` otherwise — for any number of static data-point attributes
(`options.compile` builds the two sets once).  A wrapper instance is identified by its index; `other` collects whatever the
instrument shows under any other attribute set (must stay 0).
-/
namespace OtelVerif.C19.Obs

structure Cnt where
  success : Nat := 0
  failure : Nat := 0
  other : Nat := 0
deriving DecidableEq, Repr

structure Op where
  inst : Nat      -- which wrapper instance
  n : Nat         -- items of the payload at call entry
  err : Bool      -- the downstream consumer returned an error
deriving DecidableEq, Repr

abbrev St := Nat → Cnt

def consume (s : St) (op : Op) : St := fun i =>
  if i = op.inst then
    if op.err then { s i with failure := (s i).failure + op.n } else { s i with success := (s i).success + op.n }
  else s i

def run (s : St) : List Op → St
  | [] => s
  | op :: ops => run (consume s op) ops

def okItems (i : Nat) : List Op → Nat
  | [] => 0
  | op :: ops => (if op.inst = i ∧ op.err = false then op.n else 0) + okItems i ops

def errItems (i : Nat) : List Op → Nat
  | [] => 0
  | op :: ops => (if op.inst = i ∧ op.err = true then op.n else 0) + errItems i ops

/-- executable oracle on the IMPLEMENTATION's counters of instance `i` after the history `ops` -/
def check (i : Nat) (ops : List Op) (c : Cnt) : Bool :=
  c.success == okItems i ops && c.failure == errItems i ops && c.other == 0

end OtelVerif.C19.Obs
