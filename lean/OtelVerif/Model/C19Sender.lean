import OtelVerif.Gen.ExpInstruments
/-!
# C19: `obsReportSender` / `obsQueue` — the code that WRITES the exporter's item counters, per call

`exporter/exporterhelper/internal/obs_report_sender.go`:
`Send` reads `items := req.ItemsCount()` BEFORE `next.Send`, then `endOp(items, err)`: `toNumItems` splits `items` into
(sent, failed) by `err != nil`, and each of the two instruments receives its number IF IT IS NOT NIL.  The instruments are chosen by a
`switch signal` in `newObsReportSender` — REGENERATED as `Gen.ExpInstruments.senderTable`; a signal without a case (profiles) leaves
both nil: nothing is recorded.  `queuebatch/obs_queue.go`: `Offer` reads `numItems` before the wrapped `Offer` and adds it to the
enqueue-failed instrument when `err != nil && enqueueFailedInst != nil` (`queueTable`).  The gauge callbacks observe
`delegate.Size()` / `delegate.Capacity()` (`gaugeCallbacks`).

`Lemmas/C19Sender.lean` proves that folding `endOp` over the ended flights of the C03 LTS gives exactly `sentOf` / `failedOf`
(the DEFINITIONS the exporter theorems of `Props/C19.lean` are about), for the three signals with a case; for profiles everything stays 0.
-/
namespace OtelVerif.C19

inductive Sig | traces | metrics | logs | profiles
deriving DecidableEq, Repr

def Sig.code : Sig → Nat
  | .traces => 0 | .metrics => 1 | .logs => 2 | .profiles => 3

def Sig.ofCode : Nat → Option Sig
  | 0 => some .traces | 1 => some .metrics | 2 => some .logs | 3 => some .profiles | _ => none

/-- suffix / prefix tests that reduce in the kernel (`decide`) -/
def sufOf (suffix name : String) : Bool := suffix.toList.isSuffixOf name.toList
def preOf (prefix_ name : String) : Bool := prefix_.toList.isPrefixOf name.toList

/-- the item kind an instrument of the generated telemetry builder counts, read off its name -/
def instKind (name : String) : Option Sig :=
  if sufOf "Spans" name then some .traces
  else if sufOf "MetricPoints" name then some .metrics
  else if sufOf "LogRecords" name then some .logs
  else if sufOf "Samples" name || sufOf "Profiles" name then some .profiles
  else none

inductive Role | sent | sendFailed | enqueueFailed
deriving DecidableEq, Repr

/-- which of the three counters an instrument is, read off its name -/
def instRole (name : String) : Option Role :=
  if preOf "ExporterSendFailed" name then some .sendFailed
  else if preOf "ExporterSent" name then some .sent
  else if preOf "ExporterEnqueueFailed" name then some .enqueueFailed
  else none

/-- counters of ONE exporter, all series together; `t*` = the series exists (an `Add`, even of 0, creates the data point) -/
structure Ctr where
  sent : Nat := 0
  failed : Nat := 0
  enq : Nat := 0
  tSent : Bool := false
  tFailed : Bool := false
  tEnq : Bool := false
deriving DecidableEq, Repr

/-- number of item-counter series that exist -/
def Ctr.series (c : Ctr) : Nat := (if c.tSent then 1 else 0) + (if c.tFailed then 1 else 0) + (if c.tEnq then 1 else 0)

namespace Sender
open OtelVerif.Gen.ExpInstruments

/-- `toNumItems(numExportedItems, err)` -/
def toNumItems (items : Nat) (failed : Bool) : Nat × Nat := if failed then (0, items) else (items, 0)

/-- the row of the REGENERATED switch of `newObsReportSender` for a signal: `none` = no case = both instruments nil -/
def senderRow (sig : Sig) : Option (String × String) := (senderTable.find? (fun r => r.1 == sig.code)).map (·.2)

/-- the row of the REGENERATED switch of `newObsQueue` -/
def queueRow (sig : Sig) : Option String := (queueTable.find? (fun r => r.1 == sig.code)).map (·.2)

/-- `obsReportSender.endOp(items, err)` -/
def endOp (sig : Sig) (items : Nat) (failed : Bool) (c : Ctr) : Ctr :=
  match senderRow sig with
  | none => c                     -- `if ors.itemsSentInst != nil` / `if ors.itemsFailedInst != nil`: both nil
  | some _ =>
    let n := toNumItems items failed
    { c with sent := c.sent + n.1, failed := c.failed + n.2, tSent := true, tFailed := true }

/-- `obsQueue.Offer` after the wrapped `Offer` returned (`refused` = it returned an error) -/
def offerEnd (sig : Sig) (items : Nat) (refused : Bool) (c : Ctr) : Ctr :=
  match queueRow sig with
  | none => c
  | some _ => if refused then { c with enq := c.enq + items, tEnq := true } else c

/-- what happened at the exporter's two observation points, in order -/
inductive Ev
  | flightEnd (items : Nat) (failed : Bool)   -- one pass through `obsReportSender.Send` ended (items read before the send)
  | offerRet (items : Nat) (refused : Bool)   -- one `obsQueue.Offer` returned
deriving DecidableEq, Repr

def step (sig : Sig) (c : Ctr) : Ev → Ctr
  | .flightEnd n f => endOp sig n f c
  | .offerRet n r => offerEnd sig n r c

def run (sig : Sig) (evs : List Ev) : Ctr := evs.foldl (step sig) {}

/-! ## shape facts of the regenerated skeletons (decided in `Lemmas/C19Sender.lean`) -/

def before (sk : List String) (a b : String) : Bool := sk.contains a && sk.contains b && decide (sk.idxOf a < sk.idxOf b)

/-- `Send`: the item count is read before the request goes down the chain, and `endOp` receives that count and the chain's error -/
def countBeforeSend : Bool :=
  before sendSkeleton "call:req.ItemsCount()" "call:ors.next.Send(c,req)" && before sendSkeleton "call:ors.next.Send(c,req)" "call:ors.endOp(c,items,err)" &&
  before sendSkeleton "assign:items" "call:req.ItemsCount()"

/-- `endOp`: `toNumItems(n, err)`, then sent instrument += numSent, failed instrument += numFailedToSend, each guarded by `!= nil` -/
def endOpAdds : Bool :=
  endOpSkeleton.take 6 == ["assign:numSent,numFailedToSend", "call:toNumItems(numLogRecords,err)", "if:ors.itemsSentInst!=nil",
    "call:ors.itemsSentInst.Add(ctx,numSent,ors.metricAttr)", "if:ors.itemsFailedInst!=nil", "call:ors.itemsFailedInst.Add(ctx,numFailedToSend,ors.metricAttr)"]

/-- `toNumItems`: error ⇒ (0, n), otherwise (n, 0) -/
def toNumItemsSplit : Bool :=
  toNumItemsSkeleton == ["if:err!=nil", "call:int64(numExportedItems)", "return:0;int64(numExportedItems)", "call:int64(numExportedItems)", "return:int64(numExportedItems);0"]

/-- `Offer`: count read before the wrapped `Offer`; added to enqueue-failed exactly when that returned an error (and the instrument exists) -/
def offerCounts : Bool :=
  before offerSkeleton "call:req.ItemsCount()" "call:or.Queue.Offer(ctx,req)" &&
  before offerSkeleton "call:or.Queue.Offer(ctx,req)" "if:err!=nil&&or.enqueueFailedInst!=nil" &&
  before offerSkeleton "if:err!=nil&&or.enqueueFailedInst!=nil" "call:or.enqueueFailedInst.Add(ctx,int64(numItems),or.metricAttr)" &&
  offerSkeleton.getLast? == some "return:err"

/-- the size gauge observes the wrapped queue's `Size()`, the capacity gauge its `Capacity()` -/
def gaugesObserve : Bool :=
  gaugeCallbacks == ["RegisterExporterQueueSizeCallback=delegate.Size()", "RegisterExporterQueueCapacityCallback=delegate.Capacity()"]

end Sender
end OtelVerif.C19
