import OtelVerif.Model.C19Sender
import OtelVerif.Model.C19Exp
/-!
# C19: a recorded exporter trace as the sequence of `obsReportSender` / `obsQueue` events the per-call model consumes

`senderEvs` turns the trace of the exporter harness into the events of `Model/C19Sender.lean`: one `flightEnd` per chain of export
calls (items of the FIRST call — the count is read before the send —, error of the LAST call), one `offerRet` per `Send` that
returned (queue-ful exporters only: a queue-less exporter has no `obsQueue`).  The exporter driver prints the counters of
`Sender.run signal (senderEvs …)` as its `obs counters` line (diffed with the real meter values); `Lemmas/C19SenderTrace.lean` proves
them equal to `predict`.
-/
namespace OtelVerif.C19

/-- (items of the first call, final call failed) of every chain of calls with a recorded final outcome — the `finals` of `predict` -/
def finalsOf (t : List XEv) : List (Nat × Bool) :=
  let calls := callsOf t
  let roots := calls.filter (fun p => rootOf calls p == p.1)
  roots.filterMap (fun r =>
    match (calls.filter (fun p => rootOf calls p == r.1)).getLast? with
    | some l => (outcomeOf t l.1).map (fun f => (r.2.length, f))
    | none => none)

def offersOf (t : List XEv) : List Sender.Ev :=
  t.filterMap (fun e => match e with
    | .acc is => some (.offerRet is.length false)
    | .rej is => some (.offerRet is.length true)
    | _ => none)

def senderEvs (t : List XEv) (direct : Bool) : List Sender.Ev :=
  (finalsOf t).map (fun p => .flightEnd p.1 p.2) ++ (if direct then [] else offersOf t)

end OtelVerif.C19
