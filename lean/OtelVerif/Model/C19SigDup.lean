import OtelVerif.Gen.SigDup
/-!
# C19: the per-signal duplicates of the helper packages are the same code up to the signal's own words

`Gen/SigDup.lean` (translator `sigdup`, rewritten from /repo on every run) holds, for every family of per-signal duplicates
(processorhelper `New<S>`, scraperhelper `wrapObs<S>` and `scrape<S>`, obsconsumer `Consume<S>`, receiverhelper `Start/End<S>Op`,
exporterhelper `New<S>Request` / `newConsume<S>` incl. the profiles twins of the x-packages), each member's control skeleton with
local identifiers alpha-renamed and signal-specific words replaced by placeholders, plus the words behind the placeholders.
Here: the executable checks that (1) all members of a family have the same normalised skeleton and (2) every member uses the words of
ITS OWN signal — the item-count method in particular — up to an explicit list of recorded quirks; and the order facts on the common
skeleton that the hand-written models of `Model/C19.lean` / `Model/C19Obs.lean` rely on.
-/
namespace OtelVerif.C19.SigDup
open OtelVerif.Gen.SigDup

/-- all members have the first member's skeleton -/
def allSame : List (Nat × List String) → Bool
  | [] => false
  | (_, sk) :: rest => rest.all (fun p => p.2 == sk)

def common (l : List (Nat × List String)) : List String := (l.head?.map (·.2)).getD []

/-- `a` occurs in `b` as a contiguous block (kernel-reducible) -/
def infixB (a : List Char) : List Char → Bool
  | [] => a.isEmpty
  | c :: cs => a.isPrefixOf (c :: cs) || infixB a cs

/-- the same on character codes (the word checks run on the `…WordCodes` tables: `Nat` comparisons only) -/
def infixN (a : List Nat) : List Nat → Bool
  | [] => a.isEmpty
  | c :: cs => a.isPrefixOf (c :: cs) || infixN a cs

def codes (s : String) : List Nat := s.toList.map Char.toNat

/-- the nouns a signal's words are made of -/
def nouns : Nat → List String
  | 0 => ["Trace", "trace", "Span", "span"]
  | 1 => ["Metric", "metric", "DataPoint", "data_point", "dataPoint"]
  | 2 => ["Log", "log"]
  | 3 => ["Profile", "profile", "Sample", "sample"]
  | _ => []

def nounCodes (sig : Nat) : List (List Nat) := (nouns sig).map codes

def mentions (sig : Nat) (w : List Nat) : Bool := (nounCodes sig).any (fun n => infixN n w)

/-- the method that counts the ITEMS of a signal's payload -/
def itemCount : Nat → String
  | 0 => "SpanCount" | 1 => "DataPointCount" | 2 => "LogRecordCount" | 3 => "SampleCount" | _ => ""

def isCount (w : List Nat) : Bool := (codes "Count").isSuffixOf w

/-- word `k` of every member -/
def column (l : List (Nat × List (List Nat))) (k : Nat) : List (Nat × List Nat) := l.map (fun p => (p.1, p.2.getD k []))

/-- words that contain a signal noun but are signal-independent API (OTel tracing / metric API, zap logger): accepted when every
member has the SAME word -/
def neutralWords : List String :=
  ["Tracer", "trace", "SpanFromContext", "spanAttributes", "spanNameSep", "metric", "Logger", "errNilLogger"]

/-- a column is fine when it is NEUTRAL (the same word of `neutralWords` in every member: `trace.SpanFromContext`, `Logger`, …) or when every member's
word mentions its own signal, no other signal, and — if it is a `…Count` method — is the signal's ITEM count; `quirks` are accepted as they are -/
def columnOK (quirks : List (Nat × String)) (col : List (Nat × List Nat)) : Bool :=
  (match col with | [] => true | c :: rest => (neutralWords.map codes).contains c.2 && rest.all (fun d => d.2 == c.2)) ||
  col.all (fun c => (quirks.map (fun q => (q.1, codes q.2))).contains c ||
    (mentions c.1 c.2 && [0, 1, 2, 3].all (fun o => o == c.1 || !mentions o c.2) && (!isCount c.2 || c.2 == codes (itemCount c.1))))

def wordsOK (quirks : List (Nat × String)) (l : List (Nat × List (List Nat))) : Bool :=
  (match l with | [] => false | p :: rest => rest.all (fun q => q.2.length == p.2.length)) &&
  (List.range ((l.head?.map (·.2.length)).getD 0)).all (fun k => columnOK quirks (column l k))

/-- a single member (no twin to compare with): every word is of its own signal -/
def ownWordsOK (l : List (Nat × List (List Nat))) : Bool :=
  l.all (fun p => p.2.all (fun w => [0, 1, 2, 3].all (fun o => o == p.1 || !mentions o w) && (!isCount w || w == codes (itemCount p.1))))

/-- the code tables are the string tables (the translator emits both; checked here so that the readable table is the checked one) -/
def codesMatch (ws : List (Nat × List String)) (cs : List (Nat × List (List Nat))) : Bool :=
  ws.map (fun p => (p.1, p.2.map codes)) == cs

def before (sk : List String) (a b : String) : Bool := sk.contains a && sk.contains b && decide (sk.idxOf a < sk.idxOf b)

/-- processorhelper `New<S>` (common skeleton): items counted BEFORE the process function runs, the outgoing count taken on what it
RETURNED, `recordInOut(in, 0)` on error before the skip test, `recordInOut(in, out)` BEFORE the next consumer gets the payload -/
def procOrder : Bool :=
  let sk := common procNewNorm
  before sk "assign:v11:=v9.«6»()" "call:v2(v8,v9)" && before sk "assign:v9,v12=v2(v8,v9)" "assign:v13:=v9.«6»()" &&
  before sk "if:v12!=nil" "call:v4.recordInOut(v8,v11,0)" && before sk "call:v4.recordInOut(v8,v11,0)" "if:errors.Is(v12,ErrSkipProcessingData)" &&
  before sk "return:v12" "assign:v13:=v9.«6»()" && before sk "call:v4.recordInOut(v8,v11,v13)" "call:v1.«7»(v8,v9)" &&
  sk.contains "call:newObsReport(v0,pipeline.«1»)"

/-- xprocessorhelper `NewProfiles`: the same error / skip / forward structure, and NOTHING is recorded -/
def procProfilesSilent : Bool :=
  let sk := common procProfilesNorm
  !(sk.any (fun t => infixB "recordInOut".toList t.toList || infixB "newObsReport".toList t.toList || infixB "Count".toList t.toList)) &&
  before sk "assign:v5,v6=v1(v4,v5)" "if:errors.Is(v6,processorhelper.ErrSkipProcessingData)" && before sk "return:v6" "call:v0.«2»(v4,v5)"

/-- obsconsumer `Consume<S>`: the count is taken before the next consumer is called -/
def obsOrder : Bool :=
  let sk := common obsConsumeNorm
  (sk.findIdx? (fun t => infixB "«0»()".toList t.toList)).isSome &&
  decide ((sk.findIdx? (fun t => infixB "«0»()".toList t.toList)).getD 0 < (sk.findIdx? (fun t => infixB ".«1»(".toList t.toList)).getD 0)

/-- scraperhelper `scrape<S>`: the offered count is taken BEFORE the next consumer gets the payload (it may empty it), the receiver op
is opened after the scrapes and closed with that count and the consumer's error -/
def scrapeOrder : Bool :=
  let sk := common scrapeCtlNorm
  before sk "assign:v8:=v4.«4»()" "assign:v9:=v1.«6»(v2,v4)" && before sk "assign:v9:=v1.«6»(v2,v4)" "call:v0.obsrecv.«7»(v2,'',v8,v9)" &&
  before sk "assign:v2=v0.obsrecv.«5»(v2)" "assign:v9:=v1.«6»(v2,v4)"

end OtelVerif.C19.SigDup
