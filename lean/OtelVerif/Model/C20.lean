import OtelVerif.Gen.ShutdownShape
/-!
# C20 — model of the collector run loop (`otelcol/collector.go`)

A labelled transition system whose `step` labels are the statements of the goroutine that executes
`Collector.Run` (one label per `setCollectorState`, per call into the config provider / service, per
`select` receive), and whose other labels are what *other* goroutines may do at any moment:
call `Shutdown()` (two steps, as in the code: read `state`, then `close(shutdownChan)` under `recover`),
deliver a config-watch notification, an OS signal, an asynchronous component error, cancel the context.

`Variant` selects the guard of `Shutdown()`:
* `pinned` — `state == Running || state == Starting` (the code at the pinned commit),
* `fixed`  — `state != Closed` (the repaired code, commit `fix: honour Shutdown() during a reload`).

Core Lean only.
-/
namespace OtelVerif.C20

/-- `otelcol.State` -/
inductive CState | starting | running | closing | closed
  deriving DecidableEq, Repr, Inhabited

def CState.name : CState → String
  | .starting => "Starting" | .running => "Running" | .closing => "Closing" | .closed => "Closed"

inductive Variant | pinned | fixed
  deriving DecidableEq, Repr

/-- the guard of `Collector.Shutdown` -/
def Variant.honours : Variant → CState → Bool
  | .pinned, st => st == .running || st == .starting
  | .fixed, st => st != .closed

/-- branches of the `select` in `Run` (the first five can be posted from outside) -/
inductive Ev | watchOk | watchErr | hup | term | async | shutdown | ctx
  deriving DecidableEq, Repr

def Ev.name : Ev → String
  | .watchOk => "watch" | .watchErr => "watcherr" | .hup => "hup" | .term => "term" | .async => "async"
  | .shutdown => "shutdown" | .ctx => "ctx"

def Ev.ofName : String → Option Ev
  | "watch" => some .watchOk | "watcherr" => some .watchErr | "hup" => some .hup | "term" => some .term
  | "async" => some .async | "shutdown" => some .shutdown | "ctx" => some .ctx | _ => none

/-- does taking this branch leave the loop (`break LOOP` / `return col.shutdown(...)`)? -/
def Ev.stops : Ev → Bool
  | .watchOk | .hup => false
  | _ => true

/-- program counter of the goroutine running `Run`; `rl = true` inside `reloadConfiguration` -/
inductive Pc
  | idle                  -- Run not called yet
  | setup1 (rl : Bool)    -- setupConfigurationComponents: next `setCollectorState(StateStarting)`
  | setup2 (rl : Bool)    -- next: Factories(), configProvider.Get, Validate, Marshal, service.New
  | setup3 (rl : Bool)    -- next: service.Start
  | setupSd (rl : Bool)   -- Start failed; next: `col.service.Shutdown` of the service just created
  | setup4 (rl : Bool)    -- next: `setCollectorState(StateRunning)`
  | initFail              -- Run: initial set-up failed; next `setCollectorState(StateClosed)`, return err
  | select                -- blocked in / about to enter the `select`
  | reload1               -- reloadConfiguration: next `setCollectorState(StateClosing)`
  | reload2               -- next: `col.service.Shutdown` (the retiring service)
  | shut1                 -- shutdown: next `setCollectorState(StateClosing)`
  | shut2                 -- next: `configProvider.Shutdown`
  | shut3                 -- next: `col.service.Shutdown`
  | shut4                 -- next: `setCollectorState(StateClosed)`, return errs
  | done                  -- Run has returned
  deriving DecidableEq, Repr

/-- events of the global log (what the instrumented components / provider of the harness record).
A component is `(generation, index)`; the model has one component (index 0) per service. -/
inductive TEv
  | created (g c : Nat)
  | started (g c : Nat)
  | shut (g c : Nat)         -- Shutdown of that component returned
  | prov                     -- config provider Shutdown returned
  | st (s : CState)          -- sampled GetState()
  | call                     -- a Shutdown() call returned
  | stop                     -- the select took a branch that leaves the loop
  | quiet                    -- observation: the history is over, nothing is pending, Run sits in the select
  | ret (ok : Bool)          -- Run returned (nil / error)
  deriving DecidableEq, Repr

structure S where
  pc : Pc := .idle
  st : CState := .starting
  chanClosed : Bool := false
  /-- goroutines inside `Shutdown()` that passed the guard and have not executed `close` yet -/
  closers : Nat := 0
  nWatchOk : Nat := 0
  nWatchErr : Nat := 0
  nHup : Nat := 0
  nTerm : Nat := 0
  nAsync : Nat := 0
  /-- goroutines started by `Host.NotifyComponentStatusChange` that wait to hand a component's FatalError over on
  `asyncErrorChannel` (repaired host: they give up when their service is shut down) -/
  nFatal : Nat := 0
  /-- hand-over goroutines of services that have been shut down: each gives up as soon as it runs again (`Label.giveUp`);
  until then — a few scheduler quanta on the real code — its send can still be taken by the select -/
  nStale : Nat := 0
  ctxDone : Bool := false
  /-- number of `setupConfigurationComponents` executions begun = generation of the configuration -/
  gen : Nat := 0
  /-- `col.service` (generation of the service it points to) -/
  svc : Option Nat := none
  /-- generations that have live components -/
  live : List Nat := []
  created : List Nat := []
  /-- generation of every completed `service.Shutdown`, in order -/
  sdLog : List Nat := []
  provSd : Nat := 0
  everRunning : Bool := false
  /-- a `Shutdown()` call was made after Running had been reached -/
  req : Bool := false
  stop : Option Ev := none
  errs : Bool := false
  ret : Option Bool := none
  /-- nil `col.service` dereferenced -/
  panic : Bool := false
  /-- a `Shutdown()` call panicked in its caller's goroutine (unrecovered `close` of the closed channel) -/
  callerPanic : Bool := false
  log : List TEv := []
  deriving Repr

def init : S := {}

inductive Label
  | call                  -- a goroutine enters Shutdown(): reads state, decides
  | close                 -- such a goroutine executes `close(col.shutdownChan)` (see `closeStep`)
  | post (e : Ev)
  | cancel
  | fatal                 -- a component reports StatusFatalError through its host (any goroutine, any moment)
  | giveUp                -- a hand-over goroutine of a retired service sees `host.Done` closed and exits
  | begin                 -- Run is called
  | step (ok : Bool)      -- the Run goroutine executes its next statement; `ok` = outcome if it can fail
  | pick (e : Ev)         -- the select receives on a ready branch
  deriving DecidableEq, Repr

def S.emit (s : S) (e : TEv) : S := { s with log := s.log ++ [e] }

/-- `col.service.Shutdown(ctx)`. IMPORTED FROM C10 (`C10_exactly_once`, `C10_stop_failure`, proved for every set of failing
component shutdowns): `Service.Shutdown` shuts every component of the service down exactly once even when some of those
shutdowns fail and it returns an error — hence the generation leaves `live` whatever the outcome `ok` of the step that
calls this. On the real collector the component-level log is judged by the monitor, which does not take this for granted.
Pending fatal-error hand-overs of the service become stale (`nStale`, repaired host: `host.Done` is closed, each gives up
when it next runs). That the call RETURNS is an
assumption of the model (see `stepRun`). -/
def svcShutdown (s : S) : S :=
  match s.svc with
  | some g => S.emit { s with live := s.live.erase g, sdLog := s.sdLog ++ [g], nFatal := 0, nStale := s.nStale + s.nFatal } (.shut g 0)
  | none => { s with panic := true }

def failSetup (s : S) (rl : Bool) : S :=
  if rl then S.emit { s with pc := .done, ret := some false } (.ret false) else { s with pc := .initFail }

def setSt (s : S) (c : CState) : S := S.emit { s with st := c } (.st c)

/-- One statement of the Run goroutine. ASSUMPTION built into this definition: every call the Run goroutine makes —
`Factories`/`configProvider.Get`/`service.New` (`setup2`), `service.Start`, `service.Shutdown`, `configProvider.Shutdown` —
RETURNS (it may fail, it never hangs): the step is enabled whatever other goroutines do. Components or providers whose
Start/Shutdown/Retrieve block forever are outside the model; the one way the collector ITSELF made such a call hang
(a fatal-error report holding the status reporter's lock) is modelled separately (`Label.fatal`, Props
`C20_run_returns_unrepaired_host_fails`) and exercised on the real code. -/
def stepRun (s : S) (ok : Bool) : Option S :=
  match s.pc with
  | .idle | .select | .done => none
  | .setup1 rl => if ok then some { setSt s .starting with gen := s.gen + 1, pc := .setup2 rl } else none
  | .setup2 rl =>
    if ok then
      some <| S.emit { s with svc := some s.gen, live := s.live ++ [s.gen], created := s.created ++ [s.gen], pc := .setup3 rl }
        (.created s.gen 0)
    else some (failSetup s rl)
  | .setup3 rl =>
    if ok then some <| S.emit { s with pc := .setup4 rl } (.started s.gen 0)
    else some <| S.emit { s with pc := .setupSd rl } (.started s.gen 0)
  | .setupSd rl => some (failSetup (svcShutdown s) rl)
  | .setup4 _ => if ok then some { setSt s .running with everRunning := true, pc := .select } else none
  | .initFail => if ok then some <| S.emit { setSt s .closed with pc := .done, ret := some false } (.ret false) else none
  | .reload1 => if ok then some { setSt s .closing with pc := .reload2 } else none
  | .reload2 =>
    let s' := svcShutdown s
    if ok then some { s' with pc := .setup1 true }
    else some <| S.emit { s' with pc := .done, ret := some false } (.ret false)
  | .shut1 => if ok then some { setSt s .closing with pc := .shut2 } else none
  | .shut2 => some <| S.emit { s with provSd := s.provSd + 1, errs := s.errs || !ok, pc := .shut3 } .prov
  | .shut3 => some { svcShutdown s with errs := s.errs || !ok, pc := .shut4 }
  | .shut4 =>
    if ok then some <| S.emit { setSt s .closed with pc := .done, ret := some (!s.errs) } (.ret (!s.errs)) else none

def leave (s : S) (e : Ev) : S := S.emit { s with pc := .shut1, stop := some e } .stop

def pickEv (s : S) : Ev → Option S
  | .watchOk => if s.nWatchOk > 0 then some { s with nWatchOk := s.nWatchOk - 1, pc := .reload1 } else none
  | .hup => if s.nHup > 0 then some { s with nHup := s.nHup - 1, pc := .reload1 } else none
  | .watchErr => if s.nWatchErr > 0 then some (leave { s with nWatchErr := s.nWatchErr - 1 } .watchErr) else none
  | .term => if s.nTerm > 0 then some (leave { s with nTerm := s.nTerm - 1 } .term) else none
  -- one blocked sender is received: a direct one if there is any, else a component's fatal-error hand-over
  | .async =>
    if s.nAsync > 0 ∨ s.nFatal > 0 ∨ s.nStale > 0 then
      some (leave { s with nAsync := s.nAsync - 1, nFatal := if s.nAsync > 0 then s.nFatal else s.nFatal - 1,
                           nStale := if s.nAsync > 0 ∨ s.nFatal > 0 then s.nStale else s.nStale - 1 } .async)
    else none
  | .shutdown => if s.chanClosed then some (leave s .shutdown) else none
  | .ctx => if s.ctxDone then some (leave s .ctx) else none

/-- External events become pending. The channels are idealised as counters; what that means per channel:
* `hup`/`term`: a signal that ENTERED `signalsChannel` (capacity 3). `os/signal` delivers with a non-blocking send: a signal
  arriving while three are pending is dropped before it reaches the collector — that is "OS signal delivery", outside the
  model; the harness offers such signals for real and observes that nothing happens.
* `watchOk`/`watchErr`: a call of the resolver's watcher func; the channel has capacity 1, a further call blocks in the
  provider's goroutine — counted as pending here. A call still blocked when `configProvider.Shutdown` closes the channel
  panics in the provider's goroutine: excluded by the provider contract (one notification per Retrieve, none after Shutdown).
* `async`: a sender blocked on the unbuffered `asyncErrorChannel` that is NOT a component report (a direct user of
  `service.Settings.AsyncErrorChannel`); component reports are `Label.fatal`. -/
def postEv (s : S) : Ev → Option S
  | .watchOk => some { s with nWatchOk := s.nWatchOk + 1 }
  | .watchErr => some { s with nWatchErr := s.nWatchErr + 1 }
  | .hup => some { s with nHup := s.nHup + 1 }
  | .term => some { s with nTerm := s.nTerm + 1 }
  | .async => some { s with nAsync := s.nAsync + 1 }
  | .shutdown | .ctx => none

/-- `close(col.shutdownChan)` executed by a goroutine that passed the guard of `Shutdown()`. The guard read and the close
are NOT atomic (exactly as in the code), so several callers can be past the guard at once (`closers ≥ 2`) and the second
one closes a closed channel. In Go that panics in the caller's goroutine; what makes it safe is a mechanism around the
`close` — a deferred `recover()` or `sync.Once` — whose presence is the regenerated shape fact
`Gen.ShutdownShape.closeRecovered` (`recovered`). Without it the caller panics (`callerPanic`). -/
def closeStep (recovered : Bool) (s : S) : S :=
  { s with closers := s.closers - 1, chanClosed := true, callerPanic := s.callerPanic || (s.chanClosed && !recovered) }

def fire (v : Variant) (s : S) : Label → Option S
  | .call =>
    let s := S.emit { s with req := s.req || s.everRunning } .call
    some (if v.honours s.st then { s with closers := s.closers + 1 } else s)
  | .close => if s.closers > 0 then some (closeStep Gen.ShutdownShape.closeRecovered s) else none
  | .post e => postEv s e
  | .cancel => some { s with ctxDone := true }
  | .fatal => some { s with nFatal := s.nFatal + 1 }
  | .giveUp => if s.nStale > 0 then some { s with nStale := s.nStale - 1 } else none
  | .begin => if s.pc = .idle then some { s with pc := .setup1 false } else none
  | .step ok => stepRun s ok
  | .pick e => if s.pc = .select then pickEv s e else none

def runFrom (v : Variant) (s : S) : List Label → Option S
  | [] => some s
  | l :: ls => (fire v s l).bind (fun s' => runFrom v s' ls)

def run (v : Variant) (ls : List Label) : Option S := runFrom v init ls

def Reachable (v : Variant) (s : S) : Prop := ∃ ls, run v ls = some s

/-- is some branch of the select ready? -/
def S.anyReady (s : S) : Bool :=
  s.nWatchOk > 0 || s.nWatchErr > 0 || s.nHup > 0 || s.nTerm > 0 || s.nAsync > 0 || s.chanClosed || s.ctxDone || s.nFatal > 0 || s.nStale > 0

/-! ## trace monitor (table-independent statement of the property on an event log) -/

structure Mon where
  live : List (Nat × Nat) := []       -- started, not yet shut down
  shutOnce : List (Nat × Nat) := []   -- every component whose Shutdown returned
  prov : Nat := 0
  st : CState := .starting
  everRunning : Bool := false
  req : Bool := false                 -- Shutdown() returned after Running had been reached
  reqSt : CState := .starting         -- state sampled at the first such call
  stopped : Bool := false
  ret : Option Bool := none
  deriving Repr

/-- failure classes of the monitor -/
inductive Bad
  | overlapCreate (g g' : Nat)     -- component of g created while a component of g' is live
  | overlapStart (g g' : Nat)
  | doubleShutdown (g c : Nat)
  | doubleProv
  | lost (atSt : CState)             -- quiescent in the select although Shutdown() was called after Running (state at the call)
  | retLive (g : Nat)              -- Run returned while a started component is not shut down
  | stopNotClosed                  -- stopped by a listed reason, Run returned, state ≠ Closed
  | stopProv (n : Nat)             -- ... providers shut down n ≠ 1 times
  deriving Repr, DecidableEq

def Mon.step (m : Mon) : TEv → Except Bad Mon
  | .created g _ =>
    match m.live.find? (fun p => p.1 ≠ g) with
    | some p => .error (.overlapCreate g p.1)
    | none => .ok m
  | .started g c =>
    match m.live.find? (fun p => p.1 ≠ g) with
    | some p => .error (.overlapStart g p.1)
    | none => .ok { m with live := (g, c) :: m.live }
  | .shut g c =>
    if (g, c) ∈ m.shutOnce then .error (.doubleShutdown g c)
    else .ok { m with live := m.live.filter (· ≠ (g, c)), shutOnce := (g, c) :: m.shutOnce }
  | .prov => if m.prov ≥ 1 then .error .doubleProv else .ok { m with prov := m.prov + 1 }
  | .st s => .ok { m with st := s, everRunning := m.everRunning || s == .running }
  | .call => .ok { m with req := m.req || m.everRunning, reqSt := if m.req then m.reqSt else m.st }
  | .quiet => if m.req && m.ret.isNone then .error (.lost m.reqSt) else .ok m
  | .stop => .ok { m with stopped := true }
  | .ret ok =>
    match m.live with
    | p :: _ => .error (.retLive p.1)
    | [] =>
      if m.stopped && m.st != .closed then .error .stopNotClosed
      else if m.stopped && m.prov != 1 then .error (.stopProv m.prov)
      else .ok { m with ret := some ok }

def Mon.run (m : Mon) : List TEv → Except Bad Mon
  | [] => .ok m
  | e :: es => match m.step e with
    | .ok m' => m'.run es
    | .error b => .error b

def check (t : List TEv) : Bool := match Mon.run {} t with | .ok _ => true | .error _ => false

def Bad.sig : Bad → String
  | .overlapCreate g g' => s!"C20/overlap/create-while-other-generation-live created={g} live={g'}"
  | .overlapStart g g' => s!"C20/overlap/start-while-other-generation-live started={g} live={g'}"
  | .doubleShutdown g c => s!"C20/service/component-shutdown-twice gen={g} comp={c}"
  | .doubleProv => "C20/provider/shutdown-twice"
  | .lost .closing => "C20/shutdown/lost-during-reload a Shutdown() made while a reload had the state at Closing was dropped"
  | .lost st => s!"C20/shutdown/lost-other state-at-call={st.name}"
  | .retLive g => s!"C20/return/started-component-not-shut-down gen={g}"
  | .stopNotClosed => "C20/stop/not-closed"
  | .stopProv n => s!"C20/stop/provider-shutdowns={n}"

def checkE (t : List TEv) : Except Bad Mon := Mon.run {} t

/-! ## the lifecycle FSM (theorems: Props `C20_every_transition_in_fsm`, `C20_state_history_is_fsm_path`) -/

/-- the documented lifecycle, as a relation on states (no self loops except the initial Starting → Starting) -/
def fsmEdge : CState → CState → Bool
  | .starting, .starting => true   -- NewCollector stored Starting; setup stores it again
  | .starting, .running => true    -- configuration brought up
  | .running, .closing => true     -- reload or shutdown begins
  | .closing, .starting => true    -- reload: the retiring service is down, bring the next configuration up
  | .closing, .closed => true      -- shutdown complete
  | .starting, .closed => true     -- the initial configuration could not be brought up
  | _, _ => false

/-- first consecutive pair of a sequence of sampled state values (one sample per change) that is not an edge -/
def fsmTraceBad : List CState → Option (CState × CState)
  | a :: b :: cs => if fsmEdge a b then fsmTraceBad (b :: cs) else some (a, b)
  | _ => none

def TEv.stOf : TEv → Option CState
  | .st c => some c
  | _ => none

/-- drop repeated consecutive samples (the harness records the state word only when it CHANGED) -/
def dedupAdj : List CState → List CState
  | a :: b :: r => if a = b then dedupAdj (b :: r) else a :: dedupAdj (b :: r)
  | l => l

/-- the oracle `prop fsm` of the driver: the state word as sampled along an event log, from `NewCollector`'s Starting -/
def fsmLogBad (log : List TEv) : Option (CState × CState) := fsmTraceBad (dedupAdj (.starting :: log.filterMap TEv.stOf))

end OtelVerif.C20
