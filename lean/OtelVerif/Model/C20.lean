/-! C20 model (stub) -/
namespace OtelVerif.C20
end OtelVerif.C20
