import OtelVerif.Model.C20
import OtelVerif.Gen.CollectorFsm
/-!
# C20 — OS signals in front of the run loop (`otelcol/collector.go` `Run`: `signal.Notify` / `signal.Stop`, `signalsChannel`)

A layer around the LTS of `Model/C20.lean`. The core model has `post hup` / `post term` = "a signal ENTERED
`signalsChannel`". Here the step before that is modelled as the code has it:

* `Run` registers `signalsChannel` with `os/signal` only after the INITIAL `setupConfigurationComponents` succeeded:
  always for SIGHUP, for SIGINT/SIGTERM only `if !col.set.DisableGracefulShutdown`; `defer signal.Stop(col.signalsChannel)`
  unregisters when Run returns. The registrations are REGENERATED (`Gen.CollectorFsm.runNotify`, `signalStopDeferred`).
  The registration is a step of its own (`SLabel.register`), executed by the Run goroutine AFTER `setupConfigurationComponents`
  has stored StateRunning and BEFORE it enters the select for the first time: there is a window in which `GetState()` already
  says Running and no signal reaches the collector yet (hit for real by the harness on a loaded machine).
* `os/signal` hands a signal to a registered channel with a NON-BLOCKING send: the channel has the regenerated capacity
  (`Gen.CollectorFsm.chanCaps`, 3), a signal arriving while it is full is dropped; a signal the channel is not registered
  for never reaches the collector (what the process then does is the embedding program's business).
* the channel is FIFO: the select's `signalsChannel` branch receives the OLDEST pending signal; `s != syscall.SIGHUP` stops.

Core Lean only.
-/
namespace OtelVerif.C20

inductive Sig | hup | int | term | usr1
  deriving DecidableEq, Repr

/-- names as they appear in `signal.Notify(...)` (prefixes `syscall.` / `os.` stripped by the translator) -/
def Sig.ofGoName : String → Option Sig
  | "SIGHUP" => some .hup | "Interrupt" => some .int | "SIGINT" => some .int | "SIGTERM" => some .term
  | "SIGUSR1" => some .usr1 | _ => none

/-- names in the harness protocol -/
def Sig.ofName : String → Option Sig
  | "hup" => some .hup | "int" => some .int | "term" => some .term | "usr1" => some .usr1 | _ => none

/-- the select branch a received signal takes: `if s != syscall.SIGHUP { break LOOP }`, else reload -/
def Sig.ev : Sig → Ev
  | .hup => .hup
  | _ => .term

/-- is the regenerated condition around a `signal.Notify` true for this setting? `none` = a condition the model does not know -/
def notifyCond (dg : Bool) : String → Option Bool
  | "" => some true
  | "!col.set.DisableGracefulShutdown" => some (!dg)
  | _ => none

/-- the signals `Run` registers `signalsChannel` for, read off the regenerated `signal.Notify` calls -/
def notifySet (dg : Bool) : List Sig :=
  Gen.CollectorFsm.runNotify.flatMap fun p =>
    if notifyCond dg p.1 == some true then p.2.filterMap Sig.ofGoName else []

/-- capacity of `signalsChannel` (regenerated) -/
def sigCap : Nat := (Gen.CollectorFsm.chanCaps.lookup "signalsChannel").getD 0

structure SS where
  core : S := {}
  /-- `CollectorSettings.DisableGracefulShutdown` -/
  dg : Bool := false
  /-- Run has executed its `signal.Notify` calls (they follow the initial set-up and precede the first select) -/
  regDone : Bool := false
  /-- signals `signalsChannel` is currently registered for -/
  notified : List Sig := []
  /-- content of `signalsChannel`, oldest first -/
  q : List Sig := []
  /-- signals that arrived while the channel was full -/
  dropped : Nat := 0
  /-- signals that arrived while the channel was not registered for them -/
  ignored : Nat := 0
  deriving Repr

inductive SLabel
  | os (sg : Sig)          -- the operating system delivers a signal to the process
  | register               -- the Run goroutine executes `signal.Notify(...)` / `defer signal.Stop` (between set-up and first select)
  | core (l : Label)       -- any label of the run-loop LTS except the direct `post hup/term`
  deriving DecidableEq, Repr

/-- registrations after a transition of the run loop from `ss.core` to `c`: Run's return runs the deferred `signal.Stop` -/
def regAfter (ss : SS) (c : S) : List Sig :=
  if c.pc = .done then (if Gen.CollectorFsm.signalStopDeferred then [] else ss.notified) else ss.notified

def SS.upd (ss : SS) (c : S) : SS := { ss with core := c, notified := regAfter ss c }

/-- what the FIFO channel allows: the content of `signalsChannel` after the label, `none` = the label is not possible.
`post hup/term` never happen directly (signals reach the channel through os/signal only); the select's `signalsChannel`
branch receives the OLDEST signal: `pick hup` needs SIGHUP at the head, `pick term` anything else at the head. -/
def sigGuard (ss : SS) : Label → Option (List Sig)
  | .post .hup => none
  | .post .term => none
  | .pick e =>
    -- before the registration step the Run goroutine is not in the select yet
    if ss.regDone then
      match e with
      | .hup =>
        match ss.q with
        | .hup :: rest => some rest
        | _ => none
      | .term =>
        match ss.q with
        | sg :: rest => if sg ≠ .hup then some rest else none
        | [] => none
      | _ => some ss.q
    else none
  | _ => some ss.q

def fireS (ss : SS) : SLabel → Option SS
  | .os sg =>
    if sg ∈ ss.notified then
      if ss.q.length < sigCap then
        (fire .fixed ss.core (.post sg.ev)).map fun c => { ss with core := c, q := ss.q ++ [sg] }
      else some { ss with dropped := ss.dropped + 1 }
    else some { ss with ignored := ss.ignored + 1 }
  | .register =>
    if ss.core.pc = .select ∧ ss.regDone = false then some { ss with regDone := true, notified := notifySet ss.dg } else none
  | .core l =>
    (sigGuard ss l).bind fun q' => (fire .fixed ss.core l).map fun c => { ss.upd c with q := q' }

def initS (dg : Bool) : SS := { dg := dg }

def runFromS (ss : SS) : List SLabel → Option SS
  | [] => some ss
  | l :: ls => (fireS ss l).bind (fun ss' => runFromS ss' ls)

def runS (dg : Bool) (ls : List SLabel) : Option SS := runFromS (initS dg) ls

def ReachableS (dg : Bool) (ss : SS) : Prop := ∃ ls, runS dg ls = some ss

end OtelVerif.C20
