/-!
# Telemetry payload trees (shared by C04 and C17)

`Res = RMeta × List Scope`, `Scope = SMeta × List Item` for logs, traces and profiles;
`MRes = RMeta × List MScope`, `MScope = SMeta × List Metric`, `Metric = MMeta × List Item` for metrics.
Every meta carries the identity fields the properties talk about (resource attributes, the two schema
URLs, scope name/version/attributes, metric name/unit/description/type/temporality/monotonic/metadata),
each abstracted to a `Nat` id read back from the real objects by the harness, plus the measured byte size
of the node's own fields (an input for the bytes sizer).  `flatten` lists every item with its full
context; conservation is `List.Perm` of flattenings.

`walk` is `pdata`'s `RemoveIf` driven by the stateful closures of the split/extract functions: one
pass over the children, each child is either kept, moved whole to the destination, or cut in two.
Core Lean only.
-/
namespace OtelVerif.Payload

structure Item where
  id : Nat
  /-- encoded size in bytes of this item (measured on the real object) -/
  bsz : Nat := 0
  /-- size under the items sizer: 1 for a log record / span / data point, the number of samples for a profile -/
  w : Nat := 1
deriving DecidableEq, Repr, Inhabited

structure RMeta where
  attr : Nat
  schema : Nat
  /-- encoded size of the ResourceX message without its scopes -/
  base : Nat := 0
deriving DecidableEq, Repr, Inhabited

structure SMeta where
  name : Nat
  ver : Nat
  attr : Nat
  schema : Nat
  /-- encoded size of the ScopeX message without its items -/
  base : Nat := 0
deriving DecidableEq, Repr, Inhabited

structure MMeta where
  name : Nat
  unit : Nat
  desc : Nat
  /-- 0 empty, 1 gauge, 2 sum, 3 histogram, 4 exponential histogram, 5 summary -/
  ty : Nat
  temp : Nat
  mono : Nat
  md : Nat
  /-- encoded size of the Metric message without its data (name, description, unit, metadata) -/
  base : Nat := 0
  /-- encoded size of the data message (Gauge/Sum/…) without its points (temporality, monotonic) -/
  ibase : Nat := 0
deriving DecidableEq, Repr, Inhabited

structure Scope where
  smeta : SMeta
  items : List Item
deriving DecidableEq, Repr, Inhabited

structure Res where
  rmeta : RMeta
  scopes : List Scope
deriving DecidableEq, Repr, Inhabited

structure Metric where
  mmeta : MMeta
  points : List Item
deriving DecidableEq, Repr, Inhabited

structure MScope where
  smeta : SMeta
  metrics : List Metric
deriving DecidableEq, Repr, Inhabited

structure MRes where
  rmeta : RMeta
  scopes : List MScope
deriving DecidableEq, Repr, Inhabited

/-! ## flattening: every item with its full context -/

abbrev Ctx := RMeta × SMeta × Item
abbrev MCtx := RMeta × SMeta × MMeta × Item

def Scope.flat (r : RMeta) (s : Scope) : List Ctx := s.items.map (fun i => (r, s.smeta, i))
def Res.flat (r : Res) : List Ctx := r.scopes.flatMap (Scope.flat r.rmeta)
def flatten (p : List Res) : List Ctx := p.flatMap Res.flat

def Metric.flat (r : RMeta) (s : SMeta) (m : Metric) : List MCtx := m.points.map (fun i => (r, s, m.mmeta, i))
def MScope.flat (r : RMeta) (s : MScope) : List MCtx := s.metrics.flatMap (Metric.flat r s.smeta)
def MRes.flat (r : MRes) : List MCtx := r.scopes.flatMap (MScope.flat r.rmeta)
def mflatten (p : List MRes) : List MCtx := p.flatMap MRes.flat

/-! ## counts -/

def sumBy {α : Type} (f : α → Nat) (l : List α) : Nat := (l.map f).sum

def Scope.count (s : Scope) : Nat := s.items.length
def Res.count (r : Res) : Nat := sumBy Scope.count r.scopes
def count (p : List Res) : Nat := sumBy Res.count p

def Metric.count (m : Metric) : Nat := m.points.length
def MScope.count (s : MScope) : Nat := sumBy Metric.count s.metrics
def MRes.count (r : MRes) : Nat := sumBy MScope.count r.scopes
def mcount (p : List MRes) : Nat := sumBy MRes.count p

/-- number of nodes (containers and items): the termination measure of the split loop -/
def Scope.nodes (s : Scope) : Nat := 1 + s.items.length
def Res.nodes (r : Res) : Nat := 1 + sumBy Scope.nodes r.scopes
def nodes (p : List Res) : Nat := sumBy Res.nodes p

def Metric.nodes (m : Metric) : Nat := 1 + m.points.length
def MScope.nodes (s : MScope) : Nat := 1 + sumBy Metric.nodes s.metrics
def MRes.nodes (r : MRes) : Nat := 1 + sumBy MScope.nodes r.scopes
def mnodes (p : List MRes) : Nat := sumBy MRes.nodes p

/-! ## `RemoveIf` with a stateful closure -/

/-- result of one `RemoveIf` pass: what was appended to the destination, what stays in the source, closure state -/
structure Walk (α σ : Type) where
  dest : List α
  rem : List α
  st : σ

/-- `src.RemoveIf(func(c) bool { if stop(state) {return false}; if fits … {move c to dest; return true};
    (d, r) := cut(c); if d then dest.append(d); return r == none })`.
The closure is called for every child, also after `stop` became true (it then keeps the child). -/
def walk {α σ : Type} (stop : σ → Bool) (fits : σ → α → Option σ) (cut : σ → α → Option α × Option α × σ) :
    σ → List α → Walk α σ
  | s, [] => ⟨[], [], s⟩
  | s, c :: cs =>
    if stop s then
      let w := walk stop fits cut s cs
      ⟨w.dest, c :: w.rem, w.st⟩
    else
      match fits s c with
      | some s1 =>
        let w := walk stop fits cut s1 cs
        ⟨c :: w.dest, w.rem, w.st⟩
      | none =>
        let k := cut s c
        let w := walk stop fits cut k.2.2 cs
        ⟨k.1.toList ++ w.dest, k.2.1.toList ++ w.rem, w.st⟩

/-! ## token codec used by the drivers

logs / traces / profiles:  `R attr schema base`  `S name ver attr schema base`  `I id bsz w`
metrics:                   `R …`  `S …`  `M name unit desc ty temp mono md base ibase`  `P id bsz`
Children follow their parent; empty containers are representable. -/
namespace Codec

/-- split a token list at every occurrence of `mark`; the list must be empty or start with `mark` -/
def chunks (mark : String) (toks : List String) : Option (List (List String)) :=
  let rec go : List String → List String → List (List String) → List (List String)
    | [], cur, acc => (cur.reverse :: acc).reverse
    | t :: ts, cur, acc =>
      if t = mark then go ts [] (cur.reverse :: acc) else go ts (t :: cur) acc
  match toks with
  | [] => some []
  | t :: ts => if t = mark then some (go ts [] []) else none

def nats (l : List String) : Option (List Nat) := l.mapM String.toNat?

def parseItem (c : List String) : Option Item :=
  match nats c with
  | some [id, b, w] => some { id := id, bsz := b, w := w }
  | _ => none

def parsePoint (c : List String) : Option Item :=
  match nats c with
  | some [id, b] => some { id := id, bsz := b, w := 1 }
  | _ => none

def parseScope (c : List String) : Option Scope :=
  match nats (c.take 5) with
  | some [n, v, a, s, b] => do
    let items ← (← chunks "I" (c.drop 5)).mapM parseItem
    pure { smeta := { name := n, ver := v, attr := a, schema := s, base := b }, items := items }
  | _ => none

def parseRes (c : List String) : Option Res :=
  match nats (c.take 3) with
  | some [a, s, b] => do
    let scopes ← (← chunks "S" (c.drop 3)).mapM parseScope
    pure { rmeta := { attr := a, schema := s, base := b }, scopes := scopes }
  | _ => none

def parsePayload (toks : List String) : Option (List Res) := do (← chunks "R" toks).mapM parseRes

def parseMetric (c : List String) : Option Metric :=
  match nats (c.take 9) with
  | some [n, u, d, ty, te, mo, md, b, ib] => do
    let pts ← (← chunks "P" (c.drop 9)).mapM parsePoint
    pure { mmeta := { name := n, unit := u, desc := d, ty := ty, temp := te, mono := mo, md := md, base := b, ibase := ib }, points := pts }
  | _ => none

def parseMScope (c : List String) : Option MScope :=
  match nats (c.take 5) with
  | some [n, v, a, s, b] => do
    let ms ← (← chunks "M" (c.drop 5)).mapM parseMetric
    pure { smeta := { name := n, ver := v, attr := a, schema := s, base := b }, metrics := ms }
  | _ => none

def parseMRes (c : List String) : Option MRes :=
  match nats (c.take 3) with
  | some [a, s, b] => do
    let scopes ← (← chunks "S" (c.drop 3)).mapM parseMScope
    pure { rmeta := { attr := a, schema := s, base := b }, scopes := scopes }
  | _ => none

def parseMPayload (toks : List String) : Option (List MRes) := do (← chunks "R" toks).mapM parseMRes

def showItem (i : Item) : List String := ["I", toString i.id, toString i.bsz, toString i.w]
def showPoint (i : Item) : List String := ["P", toString i.id, toString i.bsz]
def showSMeta (m : SMeta) : List String :=
  ["S", toString m.name, toString m.ver, toString m.attr, toString m.schema, toString m.base]
def showRMeta (m : RMeta) : List String := ["R", toString m.attr, toString m.schema, toString m.base]
def showScope (s : Scope) : List String := showSMeta s.smeta ++ s.items.flatMap showItem
def showRes (r : Res) : List String := showRMeta r.rmeta ++ r.scopes.flatMap showScope
def showPayload (p : List Res) : String := " ".intercalate (p.flatMap showRes)
def showMetric (m : Metric) : List String :=
  ["M", toString m.mmeta.name, toString m.mmeta.unit, toString m.mmeta.desc, toString m.mmeta.ty, toString m.mmeta.temp,
   toString m.mmeta.mono, toString m.mmeta.md, toString m.mmeta.base, toString m.mmeta.ibase] ++ m.points.flatMap showPoint
def showMScope (s : MScope) : List String := showSMeta s.smeta ++ s.metrics.flatMap showMetric
def showMRes (r : MRes) : List String := showRMeta r.rmeta ++ r.scopes.flatMap showMScope
def showMPayload (p : List MRes) : String := " ".intercalate (p.flatMap showMRes)

/-- split a token list at the separator token `|` -/
def bars (toks : List String) : List (List String) :=
  let rec go : List String → List String → List (List String) → List (List String)
    | [], cur, acc => (cur.reverse :: acc).reverse
    | t :: ts, cur, acc => if t = "|" then go ts [] (cur.reverse :: acc) else go ts (t :: cur) acc
  go toks [] []

end Codec

/-! ## multiset equality of flattenings, executable (for the search oracles) -/

/-- `l₁` is a permutation of `l₂`, decided by erasing -/
def permB {β : Type} [DecidableEq β] : List β → List β → Bool
  | [], l₂ => l₂.isEmpty
  | a :: l₁, l₂ => l₂.contains a && permB l₁ (l₂.erase a)

end OtelVerif.Payload
