/-!
# Protobuf schemas as data, and the generic value tree (C08)

A *schema* is plain data regenerated from the struct tags of the gogo-generated Go code
(`pdata/internal/data/protogen/**`) by `translators/cmd/otlpschema`.  The generic codecs of
`Model/C08.lean` interpret it.  Core Lean only.

Slots of a message are listed in **marshal order** (the order in which `MarshalToSizedBuffer`
lays the fields out in the output: ascending field number, a one-of group sitting at the position of
its largest member number).
-/
namespace OtelVerif.Proto

/-- scalar / payload type of a field, as far as the wire format and the JSON mapping care -/
inductive Ty where
  | u64 | i64 | u32 | i32 | bool
  | enum (e : Nat)        -- index into `Schema.enums`; Go type is an `int32`
  | s32                   -- zigzag32 (`sint32`)
  | fixed64 | sfixed64 | double
  | fixed32
  | string | bytes
  | id (n : Nat)          -- gogo customtype TraceID/SpanID/ProfileID: fixed-size array, empty iff all zero
  | msg (m : Nat)         -- index into `Schema.msgs`
  deriving Repr, DecidableEq, Inhabited

/-- cardinality / presence discipline of a (non one-of) field in the generated Go struct -/
inductive Card where
  | opt      -- proto3 singular scalar/string/bytes: omitted on the wire iff zero / empty
  | req      -- `nullable=false` embedded message or customtype id: always written
  | rep      -- repeated, one wire entry per element (messages, strings)
  | packed   -- repeated scalar, written as one packed entry; decoder accepts packed and unpacked
  deriving Repr, DecidableEq, Inhabited

structure Field where
  num  : Nat
  go   : String      -- Go struct field name
  json : String      -- lowerCamelCase JSON name (`json=` in the tag, else the proto name)
  orig : String      -- proto (snake_case) name
  ty   : Ty
  card : Card := .opt
  deriving Repr, DecidableEq, Inhabited

inductive Slot where
  | one (f : Field)
  | oneof (go : String) (alts : List Field)   -- `card` of an alternative is unused
  deriving Repr, DecidableEq, Inhabited

structure Msg where
  name     : String          -- "<protogen package>.<Go type>", e.g. "logs.LogRecord"
  slots    : List Slot
  /-- every string of every `case` label of the hand-written jsoniter reader of this message -/
  jsonKeys : List String
  deriving Repr, Inhabited

structure EnumT where
  name   : String
  values : List (String × Nat)   -- name → value (all OTLP enum values are non-negative)
  deriving Repr, Inhabited

structure Schema where
  msgs  : List Msg
  enums : List EnumT
  /-- named entry points: logs, metrics, traces, profiles, logsreq, logsresp, … -/
  roots : List (String × Nat)
  deriving Repr, Inhabited

def Schema.msg? (S : Schema) (i : Nat) : Option Msg := S.msgs[i]?
def Schema.slots (S : Schema) (i : Nat) : List Slot := ((S.msgs[i]?).map (·.slots)).getD []

/-- The generic value tree.  A plain (non-nested) inductive so that structural recursion and
`induction` work directly; lists are `cons`/`nil` chains inside the tree.

* scalar slot                → `num n`   (the bit pattern in the storage width of the Go field)
* string / bytes / id slot   → `bytes b`
* message                    → list of slot values, aligned with `Msg.slots`
* repeated / packed slot     → list of element values
* one-of slot                → `nil` (unset) | `[num k, payload]` (alternative with field number `k`)
                               | `[num k]` (alternative `k` selected but its pointer/bytes payload is Go-`nil`) -/
inductive Val where
  | num (n : Nat)
  | bytes (b : List Nat)
  | nil
  | cons (hd tl : Val)
  deriving Repr, DecidableEq, Inhabited

namespace Val
def ofList : List Val → Val
  | [] => .nil
  | v :: vs => .cons v (ofList vs)

/-- elements of a `cons` chain (anything that is not a `cons` ends the chain) -/
def toList : Val → List Val
  | .cons h t => h :: toList t
  | _ => []

@[simp] theorem toList_ofList (l : List Val) : toList (ofList l) = l := by
  induction l with
  | nil => rfl
  | cons a l ih => simp [ofList, toList, ih]
def get : Val → Nat → Val
  | .cons h _, 0 => h
  | .cons _ t, i + 1 => get t i
  | _, _ => .nil

def set : Val → Nat → Val → Val
  | .cons _ t, 0, x => .cons x t
  | .cons h t, i + 1, x => .cons h (set t i x)
  | v, _, _ => v

/-- append one element at the end of a chain -/
def snoc : Val → Val → Val
  | .cons h t, x => .cons h (snoc t x)
  | _, x => .cons x .nil

def isCons : Val → Bool
  | .cons _ _ => true
  | _ => false
end Val

end OtelVerif.Proto
