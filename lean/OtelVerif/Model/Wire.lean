/-!
# Protobuf wire primitives as the gogo-generated code implements them (C08; also C04, C15)

Bytes are `Nat`s (`< 256` on every input the drivers feed).  Core Lean only.

* `varint` mirrors `encodeVarintX` (little-endian base-128, continuation bit).
* `decVarint` mirrors the inlined decode loop of every generated `Unmarshal`:
  `for shift := uint(0); ; shift += 7 { if shift >= 64 {overflow}; if iNdEx >= l {EOF}; b := dAtA[iNdEx]; iNdEx++;
  wire |= uint64(b&0x7F) << shift; if b < 0x80 {break} }` — at most ten bytes, bits above 2^64 silently dropped.
* `sov` mirrors `sovX(x) = (bits.Len64(x|1)+6)/7` (`sovBits`), proved equal to the recursive byte count.
* `le k`/`unle k`: `binary.LittleEndian.PutUintNN` / `UintNN`.
* `lenDelim`: the length checks of every length-delimited field
  (`int(len) < 0`, `postIndex < 0`, `postIndex > l`).
-/
namespace OtelVerif.Wire

abbrev Bytes := List Nat

def varint (n : Nat) : Bytes :=
  if h : n < 128 then [n] else (n % 128 + 128) :: varint (n / 128)
termination_by n
decreasing_by omega

/-- number of bytes of `varint n` (recursive form) -/
def sov (n : Nat) : Nat :=
  if h : n < 128 then 1 else 1 + sov (n / 128)
termination_by n
decreasing_by omega

/-- `bits.Len64` -/
def bitLen (n : Nat) : Nat := if n = 0 then 0 else Nat.log2 n + 1

/-- the formula of the generated `sovX` -/
def sovBits (n : Nat) : Nat := (bitLen (n ||| 1) + 6) / 7

def decVarintAux : Nat → Nat → Bytes → Option (Nat × Bytes)
  | _, _, [] => none
  | shift, acc, b :: bs =>
    if shift ≥ 64 then none
    else
      let acc' := acc + (b % 128) * 2 ^ shift
      if b < 128 then some (acc' % 2 ^ 64, bs) else decVarintAux (shift + 7) acc' bs

def decVarint (bs : Bytes) : Option (Nat × Bytes) := decVarintAux 0 0 bs

/-- little-endian fixed width -/
def le : Nat → Nat → Bytes
  | 0, _ => []
  | k + 1, n => n % 256 :: le k (n / 256)

def unle : Nat → Bytes → Option (Nat × Bytes)
  | 0, bs => some (0, bs)
  | _ + 1, [] => none
  | k + 1, b :: bs =>
    match unle k bs with
    | none => none
    | some (v, r) => some (b % 256 + 256 * v, r)

def tag (num wt : Nat) : Bytes := varint (num * 8 + wt)

/-- `varint(len) ++ payload` is split off: the three checks of the generated code
(`intLen < 0` ⇔ `len ≥ 2^63`; `postIndex > l`) -/
def lenDelim (bs : Bytes) : Option (Bytes × Bytes) :=
  match decVarint bs with
  | none => none
  | some (len, r) =>
    if len ≥ 2 ^ 63 then none
    else if len > r.length then none
    else some (r.take len, r.drop len)

def lenPrefixed (p : Bytes) : Bytes := varint p.length ++ p

/-! ## lemmas -/

theorem varint_length (n : Nat) : (varint n).length = sov n := by
  induction n using Nat.strongRecOn with
  | _ n ih =>
    rw [varint, sov]
    split
    · rfl
    · next h => simp [ih (n / 128) (by omega)]; omega

theorem sov_pos (n : Nat) : 0 < sov n := by
  rw [sov]; split <;> omega

theorem varint_ne_nil (n : Nat) : varint n ≠ [] := by
  rw [varint]; split <;> simp

theorem decVarintAux_varint (n : Nat) : ∀ (shift acc : Nat) (rest : Bytes),
    n * 2 ^ shift < 2 ^ 64 → shift < 64 →
    decVarintAux shift acc (varint n ++ rest) = some ((acc + n * 2 ^ shift) % 2 ^ 64, rest) := by
  induction n using Nat.strongRecOn with
  | _ n ih =>
    intro shift acc rest hb hsh
    rw [varint]
    split
    · next hlt =>
      simp [decVarintAux, Nat.not_le.mpr hsh, hlt, Nat.mod_eq_of_lt hlt]
    · next hge =>
      have hn : 128 ≤ n := Nat.le_of_not_lt hge
      have hq : 1 ≤ n / 128 := (Nat.le_div_iff_mul_le (by omega)).mpr (by omega)
      have hpow : 2 ^ (shift + 7) = 128 * 2 ^ shift := by rw [Nat.pow_add]; omega
      have hle : n / 128 * 2 ^ (shift + 7) ≤ n * 2 ^ shift := by
        rw [hpow, ← Nat.mul_assoc]
        exact Nat.mul_le_mul_right _ (Nat.div_mul_le_self n 128)
      have hb' : n / 128 * 2 ^ (shift + 7) < 2 ^ 64 := Nat.lt_of_le_of_lt hle hb
      have hsh' : shift + 7 < 64 := by
        have h1 : 2 ^ (shift + 7) ≤ n / 128 * 2 ^ (shift + 7) := Nat.le_mul_of_pos_left _ hq
        have h2 : 2 ^ (shift + 7) < 2 ^ 64 := Nat.lt_of_le_of_lt h1 hb'
        exact (Nat.pow_lt_pow_iff_right (by omega)).mp h2
      have hbyte : ¬ (n % 128 + 128 < 128) := by omega
      have hmod : (n % 128 + 128) % 128 = n % 128 := by omega
      simp only [List.cons_append, decVarintAux, Nat.not_le.mpr hsh, if_false, hbyte, hmod]
      rw [ih (n / 128) (Nat.div_lt_self (by omega) (by omega)) (shift + 7) _ rest hb' hsh']
      have := Nat.div_add_mod n 128
      have key : n % 128 * 2 ^ shift + n / 128 * (128 * 2 ^ shift) = n * 2 ^ shift :=
        calc n % 128 * 2 ^ shift + n / 128 * (128 * 2 ^ shift)
            = (n % 128 + 128 * (n / 128)) * 2 ^ shift := by rw [Nat.add_mul]; congr 1; ac_rfl
          _ = n * 2 ^ shift := by rw [Nat.add_comm, this]
      rw [hpow, Nat.add_assoc, key]

theorem decVarint_varint (n : Nat) (h : n < 2 ^ 64) (rest : Bytes) :
    decVarint (varint n ++ rest) = some (n, rest) := by
  have := decVarintAux_varint n 0 0 rest (by simpa using h) (by omega)
  simp only [Nat.pow_zero, Nat.mul_one, Nat.zero_add] at this
  rw [decVarint, this, Nat.mod_eq_of_lt h]

/-- the decoder always consumes at least one byte -/
theorem decVarintAux_length : ∀ (bs : Bytes) (shift acc v : Nat) (r : Bytes),
    decVarintAux shift acc bs = some (v, r) → r.length < bs.length := by
  intro bs
  induction bs with
  | nil => intro _ _ _ _ h; simp [decVarintAux] at h
  | cons b bs ih =>
    intro shift acc v r h
    simp only [decVarintAux] at h
    split at h
    · simp at h
    · split at h
      · simp only [Option.some.injEq, Prod.mk.injEq] at h; rw [← h.2]; simp
      · have := ih _ _ _ _ h; simp; omega

theorem decVarint_length {bs : Bytes} {v : Nat} {r : Bytes} (h : decVarint bs = some (v, r)) :
    r.length < bs.length := decVarintAux_length bs 0 0 v r h

theorem decVarintAux_lt : ∀ (bs : Bytes) (shift acc v : Nat) (r : Bytes),
    decVarintAux shift acc bs = some (v, r) → v < 2 ^ 64 := by
  intro bs
  induction bs with
  | nil => intro _ _ _ _ h; simp [decVarintAux] at h
  | cons b bs ih =>
    intro shift acc v r h
    simp only [decVarintAux] at h
    split at h
    · simp at h
    · split at h
      · simp only [Option.some.injEq, Prod.mk.injEq] at h; rw [← h.1]; exact Nat.mod_lt _ (by decide)
      · exact ih _ _ _ _ h

theorem decVarint_lt {bs : Bytes} {v : Nat} {r : Bytes} (h : decVarint bs = some (v, r)) : v < 2 ^ 64 :=
  decVarintAux_lt bs 0 0 v r h

theorem le_length (k n : Nat) : (le k n).length = k := by
  induction k generalizing n with
  | zero => rfl
  | succ k ih => simp [le, ih]

theorem unle_le (k : Nat) : ∀ (n : Nat) (rest : Bytes), n < 256 ^ k → unle k (le k n ++ rest) = some (n, rest) := by
  induction k with
  | zero => intro n rest h; simp at h; simp [le, unle, h]
  | succ k ih =>
    intro n rest h
    have h' : n / 256 < 256 ^ k := by
      rw [Nat.pow_succ] at h
      exact Nat.div_lt_of_lt_mul (by rw [Nat.mul_comm]; exact h)
    simp only [le, List.cons_append, unle, ih (n / 256) rest h']
    have := Nat.div_add_mod n 256
    simp only [Nat.mod_mod]
    congr 2
    omega

theorem unle_length : ∀ (k : Nat) (bs : Bytes) (v : Nat) (r : Bytes), unle k bs = some (v, r) → r.length + k = bs.length := by
  intro k
  induction k with
  | zero => intro bs v r h; simp [unle] at h; simp [h.2]
  | succ k ih =>
    intro bs v r h
    cases bs with
    | nil => simp [unle] at h
    | cons b bs =>
      simp only [unle] at h
      split at h
      · simp at h
      · next v' r' heq =>
        simp only [Option.some.injEq, Prod.mk.injEq] at h
        have := ih bs v' r' heq
        rw [← h.2]; simp; omega

theorem unle_lt : ∀ (k : Nat) (bs : Bytes) (v : Nat) (r : Bytes), unle k bs = some (v, r) → v < 256 ^ k := by
  intro k
  induction k with
  | zero => intro bs v r h; simp [unle] at h; simp [← h.1]
  | succ k ih =>
    intro bs v r h
    cases bs with
    | nil => simp [unle] at h
    | cons b bs =>
      simp only [unle] at h
      split at h
      · simp at h
      · next v' r' heq =>
        simp only [Option.some.injEq, Prod.mk.injEq] at h
        have := ih bs v' r' heq
        have hb : b % 256 < 256 := Nat.mod_lt _ (by decide)
        rw [← h.1, Nat.pow_succ]
        omega

theorem lenDelim_lenPrefixed (p rest : Bytes) (h : p.length < 2 ^ 63) :
    lenDelim (lenPrefixed p ++ rest) = some (p, rest) := by
  have h64 : p.length < 2 ^ 64 := Nat.lt_trans h (by decide)
  simp only [lenDelim, lenPrefixed, List.append_assoc, decVarint_varint _ h64]
  simp [Nat.not_le.mpr h]

theorem lenDelim_length {bs p r : Bytes} (h : lenDelim bs = some (p, r)) :
    p.length + r.length < bs.length := by
  simp only [lenDelim] at h
  split at h
  · simp at h
  · next len r' heq =>
    have := decVarint_length heq
    split at h
    · simp at h
    · split at h
      · simp at h
      · simp only [Option.some.injEq, Prod.mk.injEq] at h
        rw [← h.1, ← h.2]; simp; omega

/-! ## the generated `sovX` formula equals the byte count -/

theorem log2_unique (m k : Nat) (h1 : 2 ^ k ≤ m) (h2 : m < 2 ^ (k + 1)) : Nat.log2 m = k := by
  have hm : m ≠ 0 := by
    have : 0 < 2 ^ k := Nat.pow_pos (by decide)
    omega
  apply Nat.le_antisymm
  · have := (Nat.log2_lt hm).mpr h2; omega
  · exact (Nat.le_log2 hm).mpr h1

theorem bitLen_or_one (n : Nat) (hn : 1 ≤ n) : bitLen (n ||| 1) = bitLen n := by
  have hn0 : n ≠ 0 := by omega
  have hor0 : n ||| 1 ≠ 0 := by
    have := Nat.left_le_or (n := n) (m := 1); omega
  simp only [bitLen, hn0, hor0, if_false]
  congr 1
  let k := Nat.log2 n
  have h1 : 2 ^ k ≤ n := Nat.log2_self_le hn0
  have h2 : n < 2 ^ (k + 1) := Nat.lt_log2_self
  apply log2_unique
  · exact Nat.le_trans h1 Nat.left_le_or
  · apply Nat.or_lt_two_pow h2
    have : 2 ^ 1 ≤ 2 ^ (k + 1) := Nat.pow_le_pow_right (by decide) (by omega)
    omega

theorem bitLen_div128 (n : Nat) (hn : 128 ≤ n) : bitLen n = bitLen (n / 128) + 7 := by
  have hn0 : n ≠ 0 := by omega
  have hd0 : n / 128 ≠ 0 := by
    have : 1 ≤ n / 128 := (Nat.le_div_iff_mul_le (by decide)).mpr (by omega)
    omega
  simp only [bitLen, hn0, hd0, if_false]
  let k := Nat.log2 (n / 128)
  have h1 : 2 ^ k ≤ n / 128 := Nat.log2_self_le hd0
  have h2 : n / 128 < 2 ^ (k + 1) := Nat.lt_log2_self
  have : Nat.log2 n = k + 7 := by
    apply log2_unique
    · rw [Nat.pow_add]
      have := (Nat.le_div_iff_mul_le (by decide : 0 < 128)).mp h1
      simpa using this
    · have := (Nat.div_lt_iff_lt_mul (by decide : 0 < 128)).mp h2
      rw [show k + 7 + 1 = (k + 1) + 7 by omega, Nat.pow_add]
      simpa using this
  omega

theorem sovBits_eq_sov (n : Nat) : sovBits n = sov n := by
  induction n using Nat.strongRecOn with
  | _ n ih =>
    rw [sov]
    split
    · next hlt =>
      -- one byte
      simp only [sovBits]
      have hor : n ||| 1 < 2 ^ 7 := Nat.or_lt_two_pow (by simpa using hlt) (by decide)
      have hor0 : n ||| 1 ≠ 0 := by
        have := Nat.right_le_or (n := n) (m := 1); omega
      have hl : Nat.log2 (n ||| 1) < 7 := (Nat.log2_lt hor0).mpr hor
      simp only [bitLen, hor0, if_false]
      omega
    · next hge =>
      have hn : 128 ≤ n := by omega
      have hrec := ih (n / 128) (by omega)
      rw [← hrec]
      simp only [sovBits]
      rw [bitLen_or_one n (by omega), bitLen_div128 n hn]
      by_cases hq : 1 ≤ n / 128
      · rw [bitLen_or_one (n / 128) hq]; omega
      · have : 1 ≤ n / 128 := (Nat.le_div_iff_mul_le (by decide)).mpr (by omega)
        omega


end OtelVerif.Wire
