import OtelVerif.Model.C01
/-! C01 property theorems (stub) -/
namespace OtelVerif.C01
end OtelVerif.C01
