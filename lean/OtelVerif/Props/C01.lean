import OtelVerif.Lemmas.C01
import OtelVerif.Lemmas.C01Drain
import OtelVerif.Lemmas.C01Codec
import OtelVerif.Lemmas.C01Trace
/-!
# C01 — the persistent sending queue never loses an accepted request across crashes

All theorems quantify over EVERY label list `ls : List Label` (no bound on its length): any script of
`offer`/`read`/`done`/`shutdown`/`start`, continued by `tick`s one storage call at a time, with `crash`
at any position and any number of times — also between the storage calls of `start` (recovery) and right
after another `crash`/`start`.  `run k ls` is the model of the repaired code (`Model/C01.lean`), tied to
the Go code by the differential harness `harness/c01/pq_test.go` on every run.

Requests are compared by value (`id`, `size`); the statements are tight for scripts that offer pairwise
different requests (the harness always does).
-/
namespace OtelVerif.C01

/-- **No loss.** Every request whose enqueue batch was committed (a superset of "Offer returned nil", see
`C01_offer_ok_accepted`) is, after any script with any crashes, either finalised (a hand-off of it
completed with a final outcome) or recoverable from the durable state alone: stored under an index that
is listed in `di` or lies in `[ri, wi)`. -/
theorem C01_no_loss (k : Conf) (ls : List Label) :
    ∀ r ∈ (run k ls).accepted, r ∈ (run k ls).finalised ∨ Recoverable (run k ls).st r :=
  (inv_run k ls).main

/-- `accepted` really contains every request for which `Offer` returned nil -/
theorem C01_offer_ok_accepted (c : Cfg) (m : Mem) (r : Req) (h : c.ph = .live m .idle)
    (hok : (fire c (.offer r)).res = .offerOk) : r ∈ (fire c (.offer r)).accepted := by
  simp only [fire, h] at hok ⊢
  unfold doOffer at hok ⊢
  dsimp only at hok ⊢
  by_cases hfull : m.size + c.k.sizeof r > c.k.cap
  · rw [if_pos hfull] at hok; cases hok
  · rw [if_neg hfull]; exact List.mem_cons_self

/-- **A request leaves storage only after a final hand-off.** -/
theorem C01_delete_only_final (k : Conf) (ls : List Label) :
    ∀ r ∈ (run k ls).accepted, ¬ InStore (run k ls).st r → r ∈ (run k ls).finalised := by
  intro r hr hns
  rcases C01_no_loss k ls r hr with hf | hrec
  · exact hf
  · exact absurd hrec.inStore hns

/-- a request is finalised only after it was handed over -/
theorem C01_final_was_handed (k : Conf) (ls : List Label) :
    ∀ r ∈ (run k ls).finalised, r ∈ (run k ls).handed :=
  (inv_run k ls).fin

/-- **A hand-off interrupted by shutdown leaves the request stored**: completing with a shutdown error does not
touch storage at all (in any configuration) … -/
theorem C01_shutdown_err_keeps_store (c : Cfg) (i : Nat) : (fire c (.done i .shutdownErr)).st = c.st := by
  simp only [fire]
  split
  · simp only [doDone]; split <;> rfl
  · rfl

/-- … and does not finalise it, so by `C01_no_loss` it stays recoverable for the next start. -/
theorem C01_shutdown_err_not_final (c : Cfg) (i : Nat) :
    (fire c (.done i .shutdownErr)).finalised = c.finalised := by
  simp only [fire]
  split
  · simp only [doDone]; split <;> rfl
  · rfl

/-- the store invariant of every reachable configuration (`ri ≤ wi`, dispatched indexes below `ri`, no
duplicates in `di`, no holes in `[ri, wi)`) -/
theorem C01_reachable_store_inv (k : Conf) (ls : List Label) : StInv (run k ls).st := (inv_run k ls).st

/-- **Handed at least once, in the current or a later incarnation.**  From ANY reachable configuration (in the
middle of any operation, dead or alive): let the process die, start again and drain; then every accepted
request has been handed to the consumer at least once (before or during that drain), and the durable queue is
empty.  `restart`/`drainAll` are total functions of the model (`Lemmas/C01Drain.lean`). -/
theorem C01_handed_at_least_once (k : Conf) (ls : List Label) :
    ∀ r ∈ (run k ls).accepted, r ∈ (drainAll (restart (run k ls))).handed := by
  intro r hr
  have hi := inv_run k ls
  obtain ⟨hready, hi'⟩ := restart_ready hi
  obtain ⟨hrN, hiN, hRW, _, _⟩ := drain_spec _ (restart (run k ls)) hi' hready rfl
  have hacc : r ∈ (drainAll (restart (run k ls))).accepted := by
    unfold drainAll; rw [drain_accepted, restart_accepted]; exact hr
  rcases hiN.main r hacc with hf | ⟨i, _, hc⟩
  · exact hiN.fin r hf
  · exfalso
    obtain ⟨_, _, _, _, hdi⟩ := hrN
    rcases hc with hd | ⟨h1, h2⟩
    · rw [hdi] at hd; simp at hd
    · omega

/-- after restart + drain nothing is left in the durable queue -/
theorem C01_drain_empties (k : Conf) (ls : List Label) :
    (drainAll (restart (run k ls))).st.R = (drainAll (restart (run k ls))).st.W ∧
    (drainAll (restart (run k ls))).st.di = [] := by
  have hi := inv_run k ls
  obtain ⟨hready, hi'⟩ := restart_ready hi
  obtain ⟨hrN, _, hRW, _, _⟩ := drain_spec _ (restart (run k ls)) hi' hready rfl
  obtain ⟨_, _, _, _, hdi⟩ := hrN
  exact ⟨hRW, hdi⟩

/-- **Drain, in a later incarnation.**  On any store that satisfies the store invariant, a NEW process
(history variables empty) that starts and drains hands over every recoverable request — so the hand-off
counted here happens in the later incarnation. -/
theorem C01_drain (k : Conf) (s : Store) (hs : StInv s) :
    ∀ r, Recoverable s r → r ∈ (drainAll (restart { k := k, st := s })).handed := by
  intro r hr
  have hi := inv_fresh k hs
  obtain ⟨hready, hi'⟩ := restart_ready hi
  obtain ⟨i, hit, hc⟩ := recov_restart hi hr
  obtain ⟨_, _, _, _, hall⟩ := drain_spec _ (restart { k := k, st := s }) hi' hready rfl
  obtain ⟨_, _, _, _, hdi⟩ := hready
  rcases hc with hd | ⟨h1, h2⟩
  · rw [hdi] at hd; simp at hd
  · exact hall i r h1 h2 hit

/-- `C01_drain` for the stores of reachable configurations -/
theorem C01_drain_reachable (k : Conf) (ls : List Label) :
    ∀ r, Recoverable (run k ls).st r → r ∈ (drainAll (restart { k := k, st := (run k ls).st })).handed :=
  C01_drain k _ (C01_reachable_store_inv k ls)

/-! ### index codecs -/

open Codec in
theorem C01_index_codec (v : Nat) (h : v < 2 ^ 64) : bytesToItemIndex (some (itemIndexToBytes v)) = .ok v := by
  unfold bytesToItemIndex itemIndexToBytes
  have hl := length_leBytes 8 v
  simp only [hl, Nat.lt_irrefl, if_false]
  rw [List.take_of_length_le (by omega), leVal_leBytes]
  have : (256 : Nat) ^ 8 = 2 ^ 64 := by decide
  rw [this, Nat.mod_eq_of_lt h]

open Codec in
theorem C01_index_array_codec (xs : List Nat) (hlen : xs.length < 2 ^ 32) (hx : ∀ x ∈ xs, x < 2 ^ 64) :
    bytesToItemIndexArray (itemIndexArrayToBytes xs) = .ok xs := by
  unfold bytesToItemIndexArray itemIndexArrayToBytes
  have h4 := length_leBytes 4 xs.length
  have hlenb : (leBytes 4 xs.length ++ xs.flatMap (leBytes 8)).length = 4 + xs.length * 8 := by
    rw [List.length_append, h4, length_flatMap_leBytes]
  have hsize : leVal ((leBytes 4 xs.length ++ xs.flatMap (leBytes 8)).take 4) = xs.length := by
    rw [take_leBytes_append, leVal_leBytes]
    have : (256 : Nat) ^ 4 = 2 ^ 32 := by decide
    rw [this, Nat.mod_eq_of_lt hlen]
  have hdrop : (leBytes 4 xs.length ++ xs.flatMap (leBytes 8)).drop 4 = xs.flatMap (leBytes 8) :=
    drop_leBytes_append 4 _ _
  rw [if_neg (by omega), if_neg (by omega)]
  dsimp only
  rw [hsize, hdrop]
  cases xs with
  | nil => rfl
  | cons x t =>
    rw [if_neg (by simp), if_neg (by rw [length_flatMap_leBytes]; omega)]
    rw [chunks_flatMap _ hx]

/-! ### the search oracle is sound -/

/-- the executable checker evaluated by the driver on the implementation's observations: if it accepts a trace,
the trace satisfies clause 2 (accepted ⇒ finalised or still stored at every dump) … -/
theorem C01_check_sound (t : List Ev) : checkStored t = true → StoredOK t := checkStored_sound t

/-- … and clause 1 (every accepted request was handed over) -/
theorem C01_check_handed_sound (t : List Ev) : checkHanded t = true → HandedOK t := checkHanded_sound t

/-! ### non-vacuity -/

section Examples

def exA : Req := ⟨1, 1⟩
def exB : Req := ⟨2, 1⟩
def exC : Req := ⟨3, 1⟩

/-- enqueue A B C, dequeue A and B, die; restart and die inside recovery right after the first move batch;
restart completely; dequeue one and complete it with a shutdown error; die -/
def exScript : List Label :=
  [.start, .tick, .offer exA, .offer exB, .offer exC, .read, .tick, .read, .tick, .crash,
   .start, .tick, .tick, .tick, .crash,          -- Batch(ri,wi); Get di; retrieve; move A; †
   .start, .tick, .tick, .tick, .tick,           -- recovery completes (one item left to move)
   .read, .tick, .done 2 .shutdownErr, .crash]

example : (run { cap := 8 } exScript).accepted = [exC, exB, exA] := by decide
example : (run { cap := 8 } exScript).finalised = [] := by decide
example : (run { cap := 8 } exScript).handed = [exC, exB, exA] := by decide
-- C was handed and interrupted by shutdown: still dispatched (`di = [2]`), A and B were moved to 3 and 4
example : (run { cap := 8 } exScript).st.di = [2] ∧ (run { cap := 8 } exScript).st.R = 3 ∧
    (run { cap := 8 } exScript).st.W = 5 := by decide
example : (run { cap := 8 } exScript).st.items 2 = some exC ∧ (run { cap := 8 } exScript).st.items 3 = some exA ∧
    (run { cap := 8 } exScript).st.items 4 = some exB ∧ (run { cap := 8 } exScript).st.items 0 = none := by decide
-- the crash really landed inside recovery: A moved, B not yet
example : (run { cap := 8 } (exScript.take 15)).st.di = [1] ∧ (run { cap := 8 } (exScript.take 15)).st.W = 4 := by decide
-- restart + drain of a fresh process hands all three over again, in queue order A B C
example : (drainAll (restart { k := { cap := 8 }, st := (run { cap := 8 } exScript).st })).handed = [exC, exB, exA] := by decide
example : Recoverable (run { cap := 8 } exScript).st exC := ⟨2, by decide, Or.inl (by decide)⟩
-- the codecs on a concrete array and a malformed buffer
example : Codec.itemIndexArrayToBytes [1, 258] = [2,0,0,0, 1,0,0,0,0,0,0,0, 2,1,0,0,0,0,0,0] := by decide
example : Codec.bytesToItemIndexArray [2,0,0,0, 1,0,0,0,0,0,0,0] = .error "invalid" := rfl
-- the trace checker rejects a trace with a lost request and accepts the repaired behaviour
example : checkStored [.accept 1, .dump [1], .hand 1, .dump [1], .dump []] = false := by decide
example : checkStored [.accept 1, .dump [1], .hand 1, .final 1, .dump []] = true := by decide

end Examples

end OtelVerif.C01
