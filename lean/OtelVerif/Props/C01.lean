import OtelVerif.Lemmas.C01
import OtelVerif.Lemmas.C01Drain
import OtelVerif.Lemmas.C01Codec
import OtelVerif.Lemmas.C01Trace
import OtelVerif.Lemmas.C01Bytes
import OtelVerif.Lemmas.C01Size
import OtelVerif.Model.C01Classify
import OtelVerif.Lemmas.C01Err
import OtelVerif.Lemmas.C01Distinct
import OtelVerif.Lemmas.C01GlueLive
import OtelVerif.Lemmas.C01Blind
import OtelVerif.Lemmas.C01GlueStop
import OtelVerif.Model.C01Config
/-!
# C01 — the persistent sending queue never loses an accepted request across crashes

All theorems quantify over EVERY label list `ls : List Label` (no bound on its length): any script of
`offer`/`read`/`done`/`shutdown`/`start`, continued by `tick`s one storage call at a time, with `crash`
at any position and any number of times — also between the storage calls of `start` (recovery) and right
after another `crash`/`start`.  `run k ls` is the model of the repaired code (`Model/C01.lean`), tied to
the Go code by the differential harness `harness/c01/pq_test.go` on every run.

Requests are compared by value (`id`, `size`); the statements are tight for scripts that offer pairwise
different requests (the harness always does).
-/
namespace OtelVerif.C01

/-- **No loss.** Every request whose enqueue batch was committed (a superset of "Offer returned nil", see
`C01_offer_ok_accepted`) is, after any script with any crashes, either finalised (a hand-off of it
completed with a final outcome) or recoverable from the durable state alone: stored under an index that
is listed in `di` or lies in `[ri, wi)`. -/
theorem C01_no_loss (k : Conf) (ls : List Label) :
    ∀ r ∈ (run k ls).accepted, r ∈ (run k ls).finalised ∨ Recoverable (run k ls).st r :=
  (inv_run k ls).main

/-- **Identity.**  Requests are compared by value and the `id` is their identity.  For every script whose offers are
pairwise different (every real history is such a script: two equal payloads are still two requests; the harness always
offers fresh ids) `accepted` has no duplicates, so "∀ r ∈ accepted" in the theorems of this file speaks about each accepted
request on its own.  For scripts that offer the same value twice the statements hold too but identify the copies (one
finalised copy discharges both): the claim is made for distinct offers. -/
theorem C01_accepted_nodup_of_distinct_offers (k : Conf) (ls : List Label) (h : (offeredOf ls).Nodup) :
    (run k ls).accepted.Nodup :=
  accepted_nodup_of_distinct_offers k ls h

/-- `C01_no_loss` in its per-request reading -/
theorem C01_no_loss_distinct (k : Conf) (ls : List Label) (h : (offeredOf ls).Nodup) :
    (run k ls).accepted.Nodup ∧
    ∀ r ∈ (run k ls).accepted, r ∈ (run k ls).finalised ∨ Recoverable (run k ls).st r :=
  ⟨C01_accepted_nodup_of_distinct_offers k ls h, C01_no_loss k ls⟩

def exA' : Req := ⟨1, 1⟩

/-- **Id-blindness** (formerly an assumption): the queue machine never inspects the identity of a request — renaming the
ids by ANY function `f` commutes with every label, in every configuration (`Cfg.ren` renames the ids everywhere: store,
pending hand-offs, blocked offers, histories, result) … -/
theorem C01_fire_id_blind (f : Nat → Nat) (c : Cfg) (l : Label) : fire (c.ren f) (l.ren f) = (fire c l).ren f :=
  fire_ren f c l

/-- … hence with whole runs -/
theorem C01_run_id_blind (f : Nat → Nat) (k : Conf) (ls : List Label) :
    run k (ls.map (Label.ren f)) = (run k ls).ren f := run_ren f k ls

/-- **The per-request reading loses no generality.**  EVERY script `ls` — also one that offers equal requests several
times — is the image under a renaming `f` of a script `ls'` whose offers are pairwise different (the offers numbered in
order of appearance), its run is the image of the run of `ls'`, and in that run every accepted request is accounted for on
its own: `accepted` is duplicate-free and each element is finalised or recoverable.  Two equal payloads are two requests
of `ls'`; one finalised copy discharges only itself. -/
theorem C01_no_loss_every_script (k : Conf) (ls : List Label) :
    ∃ (ls' : List Label) (f : Nat → Nat), ls'.map (Label.ren f) = ls ∧ run k ls = (run k ls').ren f ∧
      (offeredOf ls').Nodup ∧ (run k ls').accepted.Nodup ∧
      ∀ r ∈ (run k ls').accepted, r ∈ (run k ls').finalised ∨ Recoverable (run k ls').st r := by
  obtain ⟨hn, hm⟩ := exists_distinct_preimage ls
  refine ⟨tagOffers 0 ls, untag 0 ls, hm, ?_, hn, (C01_no_loss_distinct k _ hn).1, (C01_no_loss_distinct k _ hn).2⟩
  rw [← run_ren, hm]

-- the same value offered twice: the preimage offers two different requests, both accepted, ONE finalised, the other recoverable
example : tagOffers 0 [.start, .tick, .offer exA', .offer exA', .read, .tick, .done 0 .final] =
    [.start, .tick, .offer ⟨0, 1⟩, .offer ⟨1, 1⟩, .read, .tick, .done 0 .final] := by rfl

/-- `accepted` really contains every request for which `Offer` returned nil -/
theorem C01_offer_ok_accepted (c : Cfg) (m : Mem) (r : Req) (h : c.ph = .live m .idle)
    (hok : (fire c (.offer r)).res = .offerOk) : r ∈ (fire c (.offer r)).accepted := by
  simp only [fire, h] at hok ⊢
  unfold doOffer at hok ⊢
  by_cases hfull : m.size + c.k.sizeof r > c.k.cap
  · rw [if_pos hfull] at hok
    unfold doOfferFull at hok
    split at hok
    · cases hok
    · split at hok <;> cases hok
  · rw [if_neg hfull]; exact List.mem_cons_self

/-- `blockOnOverflow`: an offer that had to wait is in `accepted` exactly when its wake-up found room and committed the
enqueue batch (`Offer` returned nil) — blocked, re-blocked, rejected-as-too-large and cancelled offers never are -/
theorem C01_blocked_offer_accepted_on_wake (c : Cfg) (m : Mem) (r : Req) (rest : List Req) (h : c.ph = .live m .idle)
    (hw : m.waiting = r :: rest) (hok : (fire c .wake).res = .offerOk) :
    r ∈ (fire c .wake).accepted := by
  simp only [fire, h] at hok ⊢
  unfold doWake at hok ⊢
  rw [hw] at hok ⊢
  dsimp only at hok ⊢
  by_cases hfull : m.size + c.k.sizeof r > c.k.cap
  · rw [if_pos hfull] at hok; cases hok
  · rw [if_neg hfull]; exact List.mem_cons_self

/-- a cancelled blocked offer changes nothing durable (the two other blocking outcomes: `C01_full_offer_touches_no_storage`,
`C01_reblocked_wake_touches_no_storage`) -/
theorem C01_blocking_touches_no_storage (c : Cfg) (j : Nat) :
    (fire c (.cancel j)).st = c.st ∧ (fire c (.cancel j)).accepted = c.accepted := by
  simp only [fire]
  split <;> exact ⟨rfl, rfl⟩

/-- an offer that finds the queue full — rejected (`ErrQueueIsFull`), rejected as too large, or left waiting
(`blockOnOverflow`) — changes nothing durable and is not accepted -/
theorem C01_full_offer_touches_no_storage (c : Cfg) (m : Mem) (r : Req) (h : c.ph = .live m .idle)
    (hfull : m.size + c.k.sizeof r > c.k.cap) :
    (fire c (.offer r)).st = c.st ∧ (fire c (.offer r)).accepted = c.accepted := by
  simp only [fire, h]
  unfold doOffer
  rw [if_pos hfull]
  unfold doOfferFull
  split
  · exact ⟨rfl, rfl⟩
  · split <;> exact ⟨rfl, rfl⟩

/-- a woken waiter that still finds no room goes back to waiting: nothing durable changes, nothing is accepted -/
theorem C01_reblocked_wake_touches_no_storage (c : Cfg) (m : Mem) (r : Req) (rest : List Req) (h : c.ph = .live m .idle)
    (hw : m.waiting = r :: rest) (hfull : m.size + c.k.sizeof r > c.k.cap) :
    (fire c .wake).st = c.st ∧ (fire c .wake).accepted = c.accepted ∧ (fire c .wake).res = .offerBlocked := by
  simp only [fire, h]
  unfold doWake
  rw [hw]
  dsimp only
  rw [if_pos hfull]
  exact ⟨rfl, rfl, rfl⟩

/-- since `hasMoreSpace.Broadcast` wakes every blocked producer, WHICH of them re-locks the queue next is the scheduler's
choice (`promote j`): it changes nothing durable, accepts nothing, and only permutes the blocked offers -/
theorem C01_promote_touches_no_storage (c : Cfg) (j : Nat) :
    (fire c (.promote j)).st = c.st ∧ (fire c (.promote j)).accepted = c.accepted ∧
    (waitingOf (fire c (.promote j))).Perm (waitingOf c) := by
  simp only [fire]
  split
  · next m heq =>
    unfold doPromote
    split
    · exact ⟨rfl, rfl, List.Perm.refl _⟩
    · next r hr =>
      refine ⟨rfl, rfl, ?_⟩
      have : waitingOf c = m.waiting := by simp [waitingOf, heq]
      rw [this]
      exact cons_eraseIdx_perm hr
  · exact ⟨rfl, rfl, List.Perm.refl _⟩

/-- **A request leaves storage only after a final hand-off.** -/
theorem C01_delete_only_final (k : Conf) (ls : List Label) :
    ∀ r ∈ (run k ls).accepted, ¬ InStore (run k ls).st r → r ∈ (run k ls).finalised := by
  intro r hr hns
  rcases C01_no_loss k ls r hr with hf | hrec
  · exact hf
  · exact absurd hrec.inStore hns

/-- a request is finalised only after it was handed over -/
theorem C01_final_was_handed (k : Conf) (ls : List Label) :
    ∀ r ∈ (run k ls).finalised, r ∈ (run k ls).handed :=
  (inv_run k ls).fin

/-- **A hand-off interrupted by shutdown leaves the request stored**: completing with a shutdown error does not
touch storage at all (in any configuration) … -/
theorem C01_shutdown_err_keeps_store (c : Cfg) (i : Nat) : (fire c (.done i .shutdownErr)).st = c.st := by
  simp only [fire]
  split
  · simp only [doDone]; split <;> rfl
  · rfl

/-- … and does not finalise it, so by `C01_no_loss` it stays recoverable for the next start. -/
theorem C01_shutdown_err_not_final (c : Cfg) (i : Nat) :
    (fire c (.done i .shutdownErr)).finalised = c.finalised := by
  simp only [fire]
  split
  · simp only [doDone]; split <;> rfl
  · rfl

/-- the store invariant of every reachable configuration (`ri ≤ wi`, dispatched indexes below `ri`, no
duplicates in `di`, no holes in `[ri, wi)`) -/
theorem C01_reachable_store_inv (k : Conf) (ls : List Label) : StInv (run k ls).st := (inv_run k ls).st

/-- **Handed at least once, in the current or a later incarnation.**  From ANY reachable configuration (in the
middle of any operation, dead or alive): let the process die, start again and drain; then every accepted
request has been handed to the consumer at least once (before or during that drain), and the durable queue is
empty.  `restart`/`drainAll` are total functions of the model (`Lemmas/C01Drain.lean`). -/
theorem C01_handed_at_least_once (k : Conf) (ls : List Label) :
    ∀ r ∈ (run k ls).accepted, r ∈ (drainAll (restart (run k ls))).handed := by
  intro r hr
  have hi := inv_run k ls
  obtain ⟨hready, hi'⟩ := restart_ready hi
  obtain ⟨hrN, hiN, hRW, _, _⟩ := drain_spec _ (restart (run k ls)) hi' hready rfl
  have hacc : r ∈ (drainAll (restart (run k ls))).accepted := by
    unfold drainAll; rw [drain_accepted, restart_accepted]; exact hr
  rcases hiN.main r hacc with hf | ⟨i, _, hc⟩
  · exact hiN.fin r hf
  · exfalso
    obtain ⟨_, _, _, _, hdi⟩ := hrN
    rcases hc with hd | ⟨h1, h2⟩
    · rw [hdi] at hd; simp at hd
    · omega

/-- after restart + drain nothing is left in the durable queue -/
theorem C01_drain_empties (k : Conf) (ls : List Label) :
    (drainAll (restart (run k ls))).st.R = (drainAll (restart (run k ls))).st.W ∧
    (drainAll (restart (run k ls))).st.di = [] := by
  have hi := inv_run k ls
  obtain ⟨hready, hi'⟩ := restart_ready hi
  obtain ⟨hrN, _, hRW, _, _⟩ := drain_spec _ (restart (run k ls)) hi' hready rfl
  obtain ⟨_, _, _, _, hdi⟩ := hrN
  exact ⟨hRW, hdi⟩

/-- **Drain, in a later incarnation.**  On any store that satisfies the store invariant, a NEW process
(history variables empty) that starts and drains hands over every recoverable request — so the hand-off
counted here happens in the later incarnation. -/
theorem C01_drain (k : Conf) (s : Store) (hs : StInv s) :
    ∀ r, Recoverable s r → r ∈ (drainAll (restart { k := k, st := s })).handed := by
  intro r hr
  have hi := inv_fresh k hs
  obtain ⟨hready, hi'⟩ := restart_ready hi
  obtain ⟨i, hit, hc⟩ := recov_restart hi hr
  obtain ⟨_, _, _, _, hall⟩ := drain_spec _ (restart { k := k, st := s }) hi' hready rfl
  obtain ⟨_, _, _, _, hdi⟩ := hready
  rcases hc with hd | ⟨h1, h2⟩
  · rw [hdi] at hd; simp at hd
  · exact hall i r h1 h2 hit

/-- `C01_drain` for the stores of reachable configurations -/
theorem C01_drain_reachable (k : Conf) (ls : List Label) :
    ∀ r, Recoverable (run k ls).st r → r ∈ (drainAll (restart { k := k, st := (run k ls).st })).handed :=
  C01_drain k _ (C01_reachable_store_inv k ls)

/-! ### index codecs -/

theorem C01_index_codec (v : Nat) (h : v < 2 ^ 64) :
    Codec.bytesToItemIndex (some (Codec.itemIndexToBytes v)) = .ok v := Codec.index_codec v h

theorem C01_index_array_codec (xs : List Nat) (hlen : xs.length < 2 ^ 32) (hx : ∀ x ∈ xs, x < 2 ^ 64) :
    Codec.bytesToItemIndexArray (Codec.itemIndexArrayToBytes xs) = .ok xs := Codec.index_array_codec xs hlen hx

/-! ### glue: which `outcome` a reported error stands for

The label `done i outcome` abstracts `experr.IsShutdownErr(err)`.  The assumption tied by the harness (every error tree
handed to the real `OnDone` is classified by the real `IsShutdownErr`, by construction, and by `outcomeOf` below — all
three must agree, `C01/classify/…`) is: classification = "the tree contains a shutdown error", for every wrap / join
tree (a request exported in several batch parts reports `multierr.Append` of the part errors). -/

theorem C01_classification_iff (t : ErrTree) : t.isShutdown = true ↔ t.ContainsShutdown := by
  induction t with
  | plain => simp [ErrTree.isShutdown]; intro h; cases h
  | shutdown t _ => simp [ErrTree.isShutdown]; exact .here t
  | wrap t ih =>
    simp only [ErrTree.isShutdown]
    exact ⟨fun h => .wrap (ih.mp h), fun h => by cases h with | wrap h => exact ih.mpr h⟩
  | join a b iha ihb =>
    simp only [ErrTree.isShutdown, Bool.or_eq_true]
    constructor
    · rintro (h | h)
      · exact .left b (iha.mp h)
      · exact .right a (ihb.mp h)
    · intro h
      cases h with
      | left _ h => exact Or.inl (iha.mpr h)
      | right _ h => exact Or.inr (ihb.mpr h)

/-- a reported error keeps the request stored (label `shutdownErr`) exactly when it contains a shutdown error; nil and
every other tree finalise it -/
theorem C01_outcome_shutdown_iff (t : ErrTree) : outcomeOf (some t) = .shutdownErr ↔ t.ContainsShutdown := by
  rw [← C01_classification_iff]
  unfold outcomeOf
  cases h : t.isShutdown <;> simp [h]

theorem outcome_appendErr (a b : Option ErrTree) :
    outcomeOf (appendErr a b) = .shutdownErr ↔ outcomeOf a = .shutdownErr ∨ outcomeOf b = .shutdownErr := by
  cases a with
  | none => simp [appendErr, outcomeOf]
  | some a =>
    cases b with
    | none => simp [appendErr, outcomeOf]
    | some b =>
      simp only [appendErr, outcomeOf, ErrTree.isShutdown]
      by_cases ha : a.isShutdown = true <;> by_cases hb : b.isShutdown = true <;> simp [ha, hb]

theorem outcome_foldl_appendErr (parts : List (Option ErrTree)) : ∀ acc : Option ErrTree,
    outcomeOf (parts.foldl appendErr acc) = .shutdownErr ↔
      outcomeOf acc = .shutdownErr ∨ ∃ e ∈ parts, outcomeOf e = .shutdownErr := by
  induction parts with
  | nil => intro acc; simp
  | cons p ps ih =>
    intro acc
    rw [List.foldl_cons, ih, outcome_appendErr]
    constructor
    · rintro ((h | h) | ⟨e, he, h⟩)
      · exact Or.inl h
      · exact Or.inr ⟨p, List.mem_cons_self, h⟩
      · exact Or.inr ⟨e, List.mem_cons_of_mem _ he, h⟩
    · rintro (h | ⟨e, he, h⟩)
      · exact Or.inl (Or.inl h)
      · rcases List.mem_cons.mp he with rfl | he
        · exact Or.inl (Or.inr h)
        · exact Or.inr ⟨e, he, h⟩

/-- **A request exported in several flushes** (`refCountDone`, `default_batcher.go`): what the queue's `Done` receives when
the last flush has returned is shutdown-classified — the request stays stored — exactly when SOME flush was
shutdown-classified, whatever the other flushes returned (nil, permanent, anything) and in whatever order they returned.
So a split request one of whose parts was interrupted by shutdown is kept even if an earlier part failed finally. -/
theorem C01_refcount_aggregate_shutdown_iff (parts : List (Option ErrTree)) :
    outcomeOf (aggregate parts) = .shutdownErr ↔ ∃ e ∈ parts, outcomeOf e = .shutdownErr := by
  unfold aggregate
  rw [outcome_foldl_appendErr]
  simp [outcomeOf]

-- the seeded witness: first flush rejected permanently, second flush interrupted by shutdown — and the other order
example : outcomeOf (aggregate [some .plain, some (.shutdown .plain)]) = .shutdownErr ∧
    outcomeOf (aggregate [some (.shutdown .plain), none, some .plain]) = .shutdownErr ∧
    outcomeOf (aggregate [some .plain, none]) = .final := by decide

example : outcomeOf (some (.join (.wrap .plain) (.join (.shutdown .plain) (.shutdown .plain)))) = .shutdownErr := by decide
example : outcomeOf (some (.join (.wrap .plain) .plain)) = .final ∧ outcomeOf none = .final := by decide

/-! ### size bookkeeping of a request-sized queue across start-up, recovery and running

(For the items sizer the restored value comes from the `si` snapshot and "is allowed to be inaccurate" by the code's own
comment; there the differential compares `Size()` after every operation, start-ups with stale snapshots included.) -/

/-- while start-up and recovery run, `queueSize = writeIndex - readIndex` exactly (one per stored, not yet dequeued request,
recovered ones included); afterwards `queueSize` never exceeds queued + dispatched: capacity is never leaked -/
theorem C01_size_reqSized (k : Conf) (hk : k.reqSized = true) (ls : List Label) (m : Mem) (pc : Pc)
    (h : (run k ls).ph = .live m pc) :
    m.size ≤ m.wi - m.ri + m.cdi.length ∧ (startupPc pc = true → m.size = m.wi - m.ri) :=
  let hs := sizeInv_run k hk ls m pc h
  ⟨hs.running, fun hp => (hs.startup hp).1⟩

/-- the storage call that completes a start-up (recovery included, whatever deaths came before) leaves an exact counter:
`queueSize = writeIndex - readIndex` = number of requests waiting in the queue -/
theorem C01_size_exact_when_start_completes (k : Conf) (hk : k.reqSized = true) (ls : List Label) (m : Mem) (pc : Pc)
    (h : (run k ls).ph = .live m pc) (hsu : startupPc pc = true) (m' : Mem)
    (hidle : (fire (run k ls) .tick).ph = .live m' .idle) : m'.size = m'.wi - m'.ri :=
  (size_exact_on_completion (by rw [run_k]; exact hk) (inv_run k ls) h (sizeInv_run k hk ls m pc h) hsu hidle).1

/-! ### byte-level tie: the abstract store is what start-up decodes from the bytes the code writes

`Gen/PQKeys.lean` is regenerated from `persistent_queue.go` on every run (key names, radix of the item keys, widths of
the codecs, back-up periods — the latter are used by the model itself). -/

open OtelVerif.Gen in
/-- the durable format is pinned: a renamed or reshuffled key would make a newer binary ignore (and later overwrite) what
an older incarnation stored -/
theorem C01_gen_key_names :
    PQKeys.readIndexKey.toList = "ri".toList ∧ PQKeys.writeIndexKey.toList = "wi".toList ∧
    PQKeys.dispatchedKey.toList = "di".toList ∧ PQKeys.queueSizeKey.toList = "si".toList := by decide

/-- the four key names are pairwise different and none of them is a decimal numeral, so no item key
(`strconv.FormatUint(index, 10)`) can collide with them -/
theorem C01_gen_keys_ok : genKeysOK = true := by decide

open OtelVerif.Gen in
/-- the constants the codec model (`Model/C01Codec.lean`) and `itemKey` are written with are those of the source -/
theorem C01_gen_codec_constants :
    PQKeys.indexWidth = 8 ∧ PQKeys.arrayPrefixWidth = 4 ∧ PQKeys.arrayElemWidth = 8 ∧ PQKeys.itemKeyRadix = 10 := by decide

open OtelVerif.Gen in
/-- **The straight-line glue code is what the glue machine is written for** (regenerated from the source on every run by
`translators/cmd/pqkeys`; together with the pinned consumer loop and `disabledBatcher.Consume`): `refCountDone` combines the
flush errors with `multierr.Append` (`aggregate`, `C01_refcount_aggregate_shutdown_iff`); the export closure of
`NewQueueSender` returns the error of `next.Send` unchanged; both `stopCh` branches of `retrySender.Send` return
`experr.NewShutdownErr(err)` (`backoffEnd j .stop`); `persistentQueue.onDone` keeps the item exactly under
`experr.IsShutdownErr(consumeErr)` — no further condition (`outcomeOf`); `BaseExporter.Shutdown` stops the retry sender
before the queue. -/
theorem C01_gen_glue_shapes :
    PQKeys.refCountCombine.toList = "multierr.Append(rcd.err, err)".toList ∧
    PQKeys.exportFuncShape.map String.toList =
      ["if errSend := next.Send(ctx, req); errSend != nil", "return errSend", "return nil"].map String.toList ∧
    PQKeys.retryStopReturns.map String.toList =
      ["return experr.NewShutdownErr(err)", "return experr.NewShutdownErr(err)"].map String.toList ∧
    PQKeys.onDoneKeepGuard.toList = "experr.IsShutdownErr(consumeErr)".toList ∧
    PQKeys.baseExporterShutdownOrder.map String.toList =
      ["be.RetrySender", "be.QueueSender", "be.ShutdownFunc"].map String.toList ∧
    PQKeys.consumerGlueShapePinned = 1 := by decide

/-- **Refinement to bytes.**  For every store that satisfies the store invariant (every reachable one does) and whose write
index fits `uint64` and dispatched list fits the `uint32` length prefix: encoding it under the real key names with
the real index codecs and any lawful request `Encoding`, and decoding that byte map the way start-up and dequeue do,
gives back exactly the abstract indexes, dispatched list and items the theorems above speak about. -/
theorem C01_bytes_refine (rc : ReqCodec) (s : Store) (hst : StInv s) (hW : s.W < 2 ^ 64) (hlen : s.di.length < 2 ^ 32) :
    readIndexes (encodeStore rc s) = (s.R, s.W) ∧ readDi (encodeStore rc s) = s.di ∧
    ∀ i, readItem rc (encodeStore rc s) i = s.items i := by
  have hle := hst.le
  refine ⟨readIndexes_encode rc s hst.opt ?_ ?_, readDi_encode rc s hlen ?_, readItem_encode rc s⟩
  · intro v hv
    have hwi : s.wi ≠ none := fun h => by rw [hst.opt h] at hv; cases hv
    have : s.R = v := by
      unfold Store.R
      cases h : s.wi with
      | none => exact absurd h hwi
      | some w => simp [hv]
    omega
  · intro v hv
    have : s.W = v := by simp [Store.W, hv]
    omega
  · intro x hx
    have := hst.dlt x hx
    omega

theorem C01_bytes_refine_reachable (rc : ReqCodec) (k : Conf) (ls : List Label)
    (hW : (run k ls).st.W < 2 ^ 64) (hlen : (run k ls).st.di.length < 2 ^ 32) :
    readIndexes (encodeStore rc (run k ls).st) = ((run k ls).st.R, (run k ls).st.W) ∧
    readDi (encodeStore rc (run k ls).st) = (run k ls).st.di ∧
    ∀ i, readItem rc (encodeStore rc (run k ls).st) i = (run k ls).st.items i :=
  C01_bytes_refine rc _ (C01_reachable_store_inv k ls) hW hlen

/-! ### the search oracle is sound -/

/-- the executable checker evaluated by the driver on the implementation's observations: if it accepts a trace,
the trace satisfies clause 2 (accepted ⇒ finalised or still stored at every dump) … -/
theorem C01_check_sound (t : List Ev) : checkStored t = true → StoredOK t := checkStored_sound t

/-- … and clause 1 (every accepted request was handed over) -/
theorem C01_check_handed_sound (t : List Ev) : checkHanded t = true → HandedOK t := checkHanded_sound t

def exA : Req := ⟨1, 1⟩
def exB : Req := ⟨2, 1⟩
def exC : Req := ⟨3, 1⟩

/-! ### EXTENSION beyond the property's quantifier: storage calls that return an error

Property C01 quantifies over process DEATHS at storage-operation boundaries.  The theorems above are that property, in
full.  What follows does not claim or weaken it: `Model/C01Err.lean` lets, in addition, any storage call RETURN AN ERROR
(without effect on the stored data) and mirrors the error branches of the code; the harness ties it by the same exact
differential with errors injected at the k-th call (no property oracle judges those scripts).  The results say where
the code as it is gives requests up when storage calls fail, and that it loses them nowhere else. -/

/-- **Losses only at the give-up points.**  For every mix of operations, deaths and failing storage calls: unless the
very first call of some start-up (`Batch(get ri, get wi)`) has failed (`poisoned`: the code then restarts both indexes
from 0 on top of the stored data), every accepted request is finalised, or recoverable from storage, or in `dropped` —
the ghost list filled at exactly three places of `Model/C01Err.lean`: (1) the dequeue batch of `getNextItem` failed
(the code has advanced `readIndex` and goes on to delete the item), (2) `Get di` or the retrieve batch of recovery failed
(recovery skipped, the next dequeue overwrites `di`), (3) the move batch of one dispatched item failed (a later batch
rewrites `di` without it).  Every other failing call — enqueue, the completion batches and their two fallbacks in any
combination, size back-ups, shutdown, the clean-up batches — loses nothing. -/
theorem C01_ext_errors_losses_only_at_giveup_points (k : Conf) (ls : List LabelE) (hp : (runE k ls).poisoned = false) :
    ∀ r ∈ (runE k ls).base.accepted,
      r ∈ (runE k ls).base.finalised ∨ Recoverable (runE k ls).base.st r ∨ r ∈ (runE k ls).dropped := by
  intro r hr
  rcases invE_runE k ls with h | h
  · rw [hp] at h; cases h
  · rcases h.main r hr with (h1 | h1) | h1
    · exact Or.inl h1
    · exact Or.inr (Or.inr h1)
    · exact Or.inr (Or.inl h1)

/-- without failing calls the extended machine is the machine of the property (nothing dropped, never poisoned) -/
theorem C01_ext_errors_refines_base (k : Conf) (ls : List Label) :
    (runE k (ls.map .op)).base = run k ls ∧ (runE k (ls.map .op)).dropped = [] ∧
    (runE k (ls.map .op)).poisoned = false :=
  let h := runE_ops k ls
  ⟨h.1, h.2.1, h.2.2.1⟩

section ErrWitnesses
open LabelE Label

/-- dequeue batch fails → `itemDispatchingFinish` deletes the first request; the second one is handed out -/
def exErrDequeue : List LabelE :=
  [op start, op tick, op (offer exA), op (offer exB), fail true, op read, op tick, op tick, op tick]
/-- `Get di` fails at start-up → recovery skipped; the next dequeue overwrites `di` -/
def exErrGetDi : List LabelE :=
  [op start, op tick, op (offer exA), op (offer exB), op read, op tick, op crash,
   op start, fail true, op tick, op read, op tick]
/-- the move batch of the first dispatched item fails, the second succeeds and writes `di = []` -/
def exErrMove : List LabelE :=
  [op start, op tick, op (offer exA), op (offer exB), op read, op tick, op read, op tick, op crash,
   op start, op tick, op tick, fail true, op tick, op tick]
/-- `Batch(get ri, get wi)` fails → both indexes restart from 0, the next offer overwrites key 0 -/
def exErrIndexRead : List LabelE :=
  [op start, op tick, op (offer exA), op (offer exB), op crash, fail true, op start, op tick, op (offer exC)]

end ErrWitnesses

/-- **The unrestricted statement is false for the code as it is** (kernel-checked witnesses; each is replayed on the real
queue as corpus cases 8, 10, 11 of the harness): a failing dequeue batch, a failing `Get di`, a failing move batch each
leave an accepted request neither finalised nor recoverable. -/
theorem C01_ext_errors_no_loss_fails :
    ¬ (∀ (k : Conf) (ls : List LabelE), ∀ r ∈ (runE k ls).base.accepted,
        r ∈ (runE k ls).base.finalised ∨ Recoverable (runE k ls).base.st r) := by
  intro h
  rcases h { cap := 8 } exErrDequeue exA (by decide) with hf | hr
  · revert hf; decide
  · have := recoverableB_of_recoverable hr
    revert this; decide

example : (runE { cap := 8 } exErrDequeue).dropped = [exA] ∧ (runE { cap := 8 } exErrDequeue).base.handed = [exB] := by decide
example : recoverableB (runE { cap := 8 } exErrGetDi).base.st exA = false ∧
    (runE { cap := 8 } exErrGetDi).dropped = [exA] ∧ exA ∈ (runE { cap := 8 } exErrGetDi).base.accepted := by decide
example : recoverableB (runE { cap := 8 } exErrMove).base.st exA = false ∧
    recoverableB (runE { cap := 8 } exErrMove).base.st exB = true ∧ (runE { cap := 8 } exErrMove).dropped = [exA] := by decide
example : (runE { cap := 8 } exErrIndexRead).poisoned = true ∧
    recoverableB (runE { cap := 8 } exErrIndexRead).base.st exA = false := by decide

/-! ### non-vacuity -/

section Examples


/-- enqueue A B C, dequeue A and B, die; restart and die inside recovery right after the first move batch;
restart completely; dequeue one and complete it with a shutdown error; die -/
def exScript : List Label :=
  [.start, .tick, .offer exA, .offer exB, .offer exC, .read, .tick, .read, .tick, .crash,
   .start, .tick, .tick, .tick, .crash,          -- Batch(ri,wi); Get di; retrieve; move A; †
   .start, .tick, .tick, .tick, .tick,           -- recovery completes (one item left to move)
   .read, .tick, .done 2 .shutdownErr, .crash]

example : (run { cap := 8 } exScript).accepted = [exC, exB, exA] := by decide
example : (run { cap := 8 } exScript).finalised = [] := by decide
example : (run { cap := 8 } exScript).handed = [exC, exB, exA] := by decide
-- C was handed and interrupted by shutdown: still dispatched (`di = [2]`), A and B were moved to 3 and 4
example : (run { cap := 8 } exScript).st.di = [2] ∧ (run { cap := 8 } exScript).st.R = 3 ∧
    (run { cap := 8 } exScript).st.W = 5 := by decide
example : (run { cap := 8 } exScript).st.items 2 = some exC ∧ (run { cap := 8 } exScript).st.items 3 = some exA ∧
    (run { cap := 8 } exScript).st.items 4 = some exB ∧ (run { cap := 8 } exScript).st.items 0 = none := by decide
-- the crash really landed inside recovery: A moved, B not yet
example : (run { cap := 8 } (exScript.take 15)).st.di = [1] ∧ (run { cap := 8 } (exScript.take 15)).st.W = 4 := by decide
-- restart + drain of a fresh process hands all three over again, in queue order A B C
example : (drainAll (restart { k := { cap := 8 }, st := (run { cap := 8 } exScript).st })).handed = [exC, exB, exA] := by decide
example : Recoverable (run { cap := 8 } exScript).st exC := ⟨2, by decide, Or.inl (by decide)⟩
-- the codecs on a concrete array and a malformed buffer
example : Codec.itemIndexArrayToBytes [1, 258] = [2,0,0,0, 1,0,0,0,0,0,0,0, 2,1,0,0,0,0,0,0] := by decide
example : Codec.bytesToItemIndexArray [2,0,0,0, 1,0,0,0,0,0,0,0] = .error "invalid" := rfl
-- the trace checker rejects a trace with a lost request and accepts the repaired behaviour
example : checkStored [.accept 1, .dump [1], .hand 1, .dump [1], .dump []] = false := by decide
example : checkStored [.accept 1, .dump [1], .hand 1, .final 1, .dump []] = true := by decide

-- the hypotheses of the byte-level refinement are met by the store of the example script (a lawful toy `Encoding`)
def exCodec : ReqCodec :=
  { enc := fun r => [r.id, r.size],
    dec := fun b => match b with | [a, b] => some ⟨a, b⟩ | _ => none,
    law := fun _ => rfl }
example : readDi (encodeStore exCodec (run { cap := 8 } exScript).st) = [2] :=
  (C01_bytes_refine_reachable exCodec { cap := 8 } exScript (by decide) (by decide)).2.1.trans (by decide)

example : (offeredOf exScript).Nodup ∧ (run { cap := 8 } exScript).accepted.length = 3 := by decide
-- why the hypothesis matters: the same value offered twice and finalised once
example : (run { cap := 8 } [.start, .tick, .offer exA, .offer exA, .read, .tick, .done 0 .final]).accepted = [exA, exA] ∧
    (run { cap := 8 } [.start, .tick, .offer exA, .offer exA, .read, .tick, .done 0 .final]).finalised = [exA] := by decide

-- blockOnOverflow: capacity 1, the second offer waits; after the first request is finalised the wake-up commits it
def exBlockScript : List Label :=
  [.start, .tick, .offer exA, .offer exB, .read, .tick, .done 0 .final, .wake]
example : (run { cap := 1, block := true } (exBlockScript.take 4)).res = .offerBlocked ∧
    (run { cap := 1, block := true } (exBlockScript.take 4)).accepted = [exA] := by decide
example : (run { cap := 1, block := true } exBlockScript).res = .offerOk ∧
    (run { cap := 1, block := true } exBlockScript).accepted = [exB, exA] ∧
    (run { cap := 1, block := true } exBlockScript).st.items 1 = some exB := by decide

-- Broadcast: two producers wait, space for one is freed; the scheduler lets the YOUNGER one re-lock first (`promote 1`):
-- it is admitted, the older one re-checks, does not fit and waits again
example : (run { cap := 1, block := true }
      [.start, .tick, .offer exA, .offer exB, .offer exC, .read, .tick, .done 0 .final, .promote 1, .wake, .wake]).accepted = [exC, exA] ∧
    (run { cap := 1, block := true }
      [.start, .tick, .offer exA, .offer exB, .offer exC, .read, .tick, .done 0 .final, .promote 1, .wake, .wake]).res = .offerBlocked := by decide

end Examples

/-! ### from the exporter's options to the queue object (`Model/C01Config.lean`)

Whether the exporter HAS the persistent queue the user configured is decided by straight-line code between the public
options and `newPersistentQueue` (tied by the exact differentials `config` / `cfgbuild` on the real `NewBaseExporter`,
`newQueueBatchConfig`, `newQueueBatch`, `Config.Validate`). -/

section ConfigThms
open OtelVerif.C01.Cfg

/-- the queue option that counts: the LAST enabled `WithQueue` / `WithQueueBatch` (disabled ones are ignored) -/
def lastEnabledQueue : List Opt → Option QCfg
  | [] => none
  | o :: os =>
    match lastEnabledQueue os with
    | some q => some q
    | none => match o with
      | .queue q => if q.enabled then some q else none
      | _ => none

theorem applyOpts_queueCfg (opts : List Opt) : ∀ be : BE,
    (opts.foldl applyOpt be).queueCfg = (lastEnabledQueue opts).getD be.queueCfg := by
  induction opts with
  | nil => intro be; rfl
  | cons o os ih =>
    intro be
    rw [List.foldl_cons, ih]
    simp only [lastEnabledQueue]
    cases h : lastEnabledQueue os with
    | some q => rfl
    | none =>
      cases o with
      | queue q =>
        simp only [applyOpt]
        by_cases he : q.enabled = true <;> simp [he]
      | batcher b => rfl
      | retry e => simp only [applyOpt]; cases e <;> rfl

/-- **A configured persistent queue is built as configured**: `newQueueBatch` on a config with a storage id (and a sizer the
exporter supports) builds the PERSISTENT queue on that storage with the configured capacity, blocking mode and sizer —
with or without a batcher, legacy or not. -/
theorem C01_config_persistent_queue_built_as_configured (q : QCfg) (legacy : Bool) (s : Nat)
    (hs : q.storage = some s) (hz : q.sizer ≠ .other) :
    ∃ rt, build q legacy = some rt ∧ rt.kind = .persistent s ∧ rt.capacity = q.queueSize ∧
      rt.blockOnOverflow = q.blockOnOverflow ∧ rt.sizer = q.sizer := by
  refine ⟨_, by simp only [build, hz, if_false]; rfl, ?_, rfl, rfl, rfl⟩
  simp [hs]

/-- … and a memory queue is built exactly when no storage id is configured -/
theorem C01_config_memory_iff_no_storage (q : QCfg) (legacy : Bool) (rt : Runtime) (h : build q legacy = some rt) :
    rt.kind = .memory ↔ q.storage = none := by
  unfold build at h
  split at h
  · cases h
  · injection h with h
    subst h
    cases hq : q.storage <;> simp

/-- **The deprecated `WithBatcher` next to an enabled queue keeps every queue setting** (storage id, capacity, blocking,
consumers, sizer); it only adds the batch section -/
theorem C01_config_legacy_batcher_keeps_queue_settings (q : QCfg) (b : LegacyB) (mi nc : Int) (he : q.enabled = true) :
    (mergeLegacy q b mi nc).storage = q.storage ∧ (mergeLegacy q b mi nc).queueSize = q.queueSize ∧
    (mergeLegacy q b mi nc).blockOnOverflow = q.blockOnOverflow ∧ (mergeLegacy q b mi nc).numConsumers = q.numConsumers ∧
    (mergeLegacy q b mi nc).sizer = q.sizer ∧ (mergeLegacy q b mi nc).enabled = true := by
  unfold mergeLegacy
  cases hb : b.enabled <;> simp [he]

/-- **End to end**: whatever options the exporter is built with, in whatever order — if the last enabled queue option asks
for storage `s` (with a supported sizer), the exporter has a queue sender and `NewQueueSender` builds the persistent queue
on `s` with that option's capacity and blocking mode, whether or not `WithBatcher` is present. -/
theorem C01_config_exporter_has_configured_persistent_queue (opts : List Opt) (q : QCfg) (s : Nat) (mi nc : Int)
    (hq : lastEnabledQueue opts = some q) (hen : q.enabled = true) (hs : q.storage = some s) (hz : q.sizer ≠ .other) :
    (applyOpts opts).hasQueueSender = true ∧
    ∃ rt, buildSender (applyOpts opts).queueCfg (applyOpts opts).batcherCfg mi nc = some rt ∧
      rt.kind = .persistent s ∧ rt.capacity = q.queueSize ∧ rt.blockOnOverflow = q.blockOnOverflow := by
  have hcfg : (applyOpts opts).queueCfg = q := by
    unfold applyOpts; rw [applyOpts_queueCfg, hq]; rfl
  refine ⟨by simp [BE.hasQueueSender, hcfg, hen], ?_⟩
  rw [hcfg]
  obtain ⟨h1, h2, h3, _, h5, _⟩ := C01_config_legacy_batcher_keeps_queue_settings q (applyOpts opts).batcherCfg mi nc hen
  obtain ⟨rt, hb, hk, hc, hbl, _⟩ := C01_config_persistent_queue_built_as_configured
    (mergeLegacy q (applyOpts opts).batcherCfg mi nc) (applyOpts opts).batcherCfg.enabled s (by rw [h1]; exact hs) (by rw [h5]; exact hz)
  exact ⟨rt, hb, hk, by rw [hc, h2], by rw [hbl, h3]⟩

/-- a VALID persistent queue config has the `requests` sizer, no `wait_for_result`, positive size and consumers, and NO
`sending_queue::batch` — so a stored request is exported in several flushes only through the deprecated `WithBatcher`
(whose merge happens after validation: `C01_config_legacy_batcher_keeps_queue_settings`; harness `split` drives both) -/
theorem C01_config_valid_persistent_has_no_batch (q : QCfg) (he : q.enabled = true) (hs : q.storage.isSome = true)
    (hv : validate q = .ok) :
    q.batch = none ∧ q.sizer = .requests ∧ q.waitForResult = false ∧ 0 < q.queueSize ∧ 0 < q.numConsumers := by
  unfold validate at hv
  simp only [he, Bool.not_true, Bool.false_eq_true, if_false, hs, Bool.true_and] at hv
  by_cases h1 : q.numConsumers ≤ 0
  · simp [h1] at hv
  · simp only [h1, if_false] at hv
    by_cases h2 : q.queueSize ≤ 0
    · simp [h2] at hv
    · simp only [h2, if_false] at hv
      cases hw : q.waitForResult
      · simp only [hw, Bool.false_eq_true, if_false] at hv
        cases hz : q.sizer <;> simp [hz] at hv
        cases hb : q.batch
        · exact ⟨rfl, rfl, rfl, by omega, by omega⟩
        · simp [hb] at hv
      · simp [hw] at hv

example : (applyOpts [.queue { enabled := true, storage := some 7, queueSize := 5, numConsumers := 2 },
                      .batcher { enabled := true, flush := 1, max := 2 }, .queue { enabled := false }]).queueCfg.storage = some 7 := by decide
example : buildSender { enabled := true, storage := some 7, queueSize := 5, numConsumers := 2 } { enabled := true, flush := 1, max := 2 } 9 4 =
    some { kind := .persistent 7, capacity := 5, blockOnOverflow := false, sizer := .requests, numConsumers := 1,
           batcher := some (⟨1, 0, 2⟩, .items) } := by decide
example : validate { enabled := true, storage := some 7, queueSize := 5, numConsumers := 2 } = .ok := by decide

end ConfigThms

/-! ### the glue: from `Read` to the export function and back to `Done`

`Model/C01Glue.lean` composes the queue machine with the consumer goroutines of `asyncQueue`, `disabledBatcher.Consume`,
the export closure of `NewQueueSender` and `retrySender.Send`.  The labels `read` / `done` of the queue machine are no
longer free: only a consumer goroutine issues them (`cRead j`, `cDone j`), and `cDone j` passes the outcome of the export
that goroutine j has just finished.  Every theorem quantifies over ALL glue label lists `gls` (any schedule of the
goroutines, any behaviour of the export function, deaths anywhere). -/

/-- **Refinement.**  The queue component of every glue run is a run of the queue machine (on the labels recorded in the
ghost `emitted`), so every theorem above holds for it — in particular `C01_no_loss`. -/
theorem C01_glue_refines_queue (gk : GConf) (k : Conf) (gls : List GLabel) :
    (runG gk k gls).q = run k (runG gk k gls).emitted.reverse :=
  refines_foldl k gls (initG gk k) rfl

theorem C01_glue_no_loss (gk : GConf) (k : Conf) (gls : List GLabel) :
    ∀ r ∈ (runG gk k gls).q.accepted, r ∈ (runG gk k gls).q.finalised ∨ Recoverable (runG gk k gls).q.st r := by
  rw [C01_glue_refines_queue]; exact C01_no_loss k _

/-- **`Done` is called once per hand-off, on the incarnation that handed the request out** — formerly an assumption
(the queue machine ignores `done i` for an index that is not pending; the real `onDone` has no such guard).  In the glue
machine no `done` ever hits an index that is not pending, in any schedule: the result `doneUnknown` is unreachable, … -/
theorem C01_glue_done_only_on_pending_handoff (gk : GConf) (k : Conf) (gls : List GLabel) :
    (runG gk k gls).q.res ≠ .doneUnknown :=
  (ginv_runG gk k gls).unk

/-- … because what the goroutines hold (`Read` returned it, `OnDone` not yet entered) is pending in the queue, no two
goroutines hold the same index, and the pending indexes are pairwise different -/
theorem C01_glue_held_is_pending (gk : GConf) (k : Conf) (gls : List GLabel) :
    HeldOK (runG gk k gls).cons (outstOf (runG gk k gls).q) ∧ OutInv (runG gk k gls).q :=
  ⟨(ginv_runG gk k gls).held, (ginv_runG gk k gls).out⟩

/-- **A request is finalised only after the export function has returned for it** (and it was invoked before): `Done` is
called with the export's outcome, after the export returned — for every schedule, also with several consumers. -/
theorem C01_glue_final_only_after_export_returned (gk : GConf) (k : Conf) (gls : List GLabel) :
    ∀ r ∈ (runG gk k gls).q.finalised, r ∈ (runG gk k gls).returned ∧ r ∈ (runG gk k gls).invoked := by
  intro r hr
  have h := ginv_runG gk k gls
  exact ⟨h.fin r hr, h.sub r (h.fin r hr)⟩

/-- **A request disappears from storage only after one hand-off TO THE EXPORT FUNCTION has completed** -/
theorem C01_glue_leaves_storage_only_after_export_returned (gk : GConf) (k : Conf) (gls : List GLabel) :
    ∀ r ∈ (runG gk k gls).q.accepted, ¬ InStore (runG gk k gls).q.st r → r ∈ (runG gk k gls).returned := by
  intro r hr hns
  rcases C01_glue_no_loss gk k gls r hr with hf | hrec
  · exact (C01_glue_final_only_after_export_returned gk k gls r hf).1
  · exact absurd hrec.inStore hns

/-- **Retry interrupted by shutdown keeps the request.**  A goroutine waiting in the retry back-off after `stopCh` was
closed: `retrySender.Send` returns `experr.NewShutdownErr(err)`, `OnDone` classifies it as a shutdown error — storage and
`finalised` are untouched (so by `C01_glue_no_loss` the request stays recoverable for the next start), whatever error the
export function had returned. -/
theorem C01_glue_retry_interrupted_by_shutdown_keeps_request (g : GCfg) (j i : Nat) (r : Req) (t : ErrTree)
    (hj : g.cons[j]? = some (.backoff i r t)) (hs : g.stopCh = true) :
    (fireG (fireG g (.backoffEnd j .stop)) (.cDone j)).q.st = g.q.st ∧
    (fireG (fireG g (.backoffEnd j .stop)) (.cDone j)).q.finalised = g.q.finalised := by
  have hlen : j < g.cons.length := by
    rcases List.getElem?_eq_some_iff.mp hj with ⟨h, _⟩; exact h
  have e1 : fireG g (.backoffEnd j .stop) = { g with cons := g.cons.set j (.ret i r (some (.shutdown t))) } := by
    rw [fireG_backoffEnd, hj]; simp [hs]
  rw [e1, fireG_cDone]
  split
  · have hc : (g.cons.set j (CPc.ret i r (some (ErrTree.shutdown t))))[j]? = some (.ret i r (some (.shutdown t))) :=
      List.getElem?_set_self hlen
    simp only [hc]
    obtain ⟨hq, _⟩ := settle_q { qfire { g with cons := g.cons.set j (.ret i r (some (.shutdown t))) } (.done i (outcomeOf (some (.shutdown t)))) with
        inOp := some (j, .done), cons := (g.cons.set j (.ret i r (some (.shutdown t)))).set j .inQueue }
    rw [hq]
    have hoc : outcomeOf (some (ErrTree.shutdown t)) = .shutdownErr := rfl
    rw [hoc]
    exact ⟨C01_shutdown_err_keeps_store g.q i, C01_shutdown_err_not_final g.q i⟩
  · exact ⟨rfl, rfl⟩

/-- **Only a shutdown makes a hand-off end as "interrupted".**  If the export function itself never returns a
shutdown-classified error (`NoShutExport`, hypothesis on the environment), then in every schedule a goroutine is about to
report a shutdown-classified outcome to `OnDone` only if `stopCh` is closed, i.e. `retrySender.Shutdown` has been called in
this incarnation: while the exporter is running, every hand-off that completes completes finally. -/
theorem C01_glue_shutdown_outcome_only_when_stopping (gk : GConf) (k : Conf) (gls : List GLabel)
    (h : ∀ l ∈ gls, NoShutExport l) (j i : Nat) (r : Req) (e : Option ErrTree)
    (hj : (runG gk k gls).cons[j]? = some (.ret i r e)) (hs : outcomeOf e = .shutdownErr) :
    (runG gk k gls).stopCh = true :=
  stopInv_runG gk k gls h j _ hj hs

/-- **Handed to the export function at least once** (liveness under an explicit fair schedule).  From ANY reachable glue
configuration (any goroutine anywhere between `Read` and `OnDone`, any operation half done, dead or alive): let the
process die, let a new incarnation start, and schedule consumer goroutine 0 fairly against a destination that accepts
(`restartG` / `drainAllG`, total functions) — then every accepted request has been passed to the export function, and
that call has returned.  Fairness hypothesis = the schedule built into `drainAllG`: no further death, the consumer gets
to run, the export returns. -/
theorem C01_glue_exported_at_least_once (gk : GConf) (k : Conf) (gls : List GLabel) (hn : 0 < gk.n) :
    ∀ r ∈ (runG gk k gls).q.accepted,
      r ∈ (drainAllG (restartG (runG gk k gls))).invoked ∧ r ∈ (drainAllG (restartG (runG gk k gls))).returned := by
  intro r hr
  have hi : Inv (runG gk k gls).q := by rw [C01_glue_refines_queue]; exact inv_run k _
  have hgk : (runG gk k gls).gk.n = gk.n := by
    have : (runG gk k gls).gk = gk := foldl_gk gls (initG gk k)
    rw [this]
  have e := drainAllG_restartG_q (runG gk k gls) (by rw [hgk]; exact hn) hi
  have hfin : r ∈ (drainAllG (restartG (runG gk k gls))).q.finalised := by
    rw [e]; exact accepted_finalised_after_drain hi r hr
  have hg : GInv (drainAllG (restartG (runG gk k gls))) := ginv_drainG _ (ginv_restartG (ginv_runG gk k gls))
  exact ⟨hg.sub r (hg.fin r hfin), hg.fin r hfin⟩

section GlueExamples
open GLabel Label

/-- two consumers; A and B are read by different goroutines; B's export fails retryably and is interrupted by the
shutdown of the retry sender, A's export succeeds; then the process dies -/
def exGlue : List GLabel :=
  [env start, env tick, env (offer exA), env (offer exB),
   cRead 0, env tick, cRead 1, env tick, cInvoke 1, cInvoke 0,
   expRet 1 (.err .plain false), expRet 0 .ok, cDone 0,
   rsShutdown, backoffEnd 1 .stop, cDone 1, env crash]

example : (runG { n := 2 } { cap := 8 } exGlue).q.finalised = [exA] ∧
    (runG { n := 2 } { cap := 8 } exGlue).returned = [exA, exB] ∧
    (runG { n := 2 } { cap := 8 } exGlue).q.st.items 1 = some exB ∧
    (runG { n := 2 } { cap := 8 } exGlue).q.st.di = [1] := by decide
-- the queue labels that this glue run fired, oldest first
example : (runG { n := 2 } { cap := 8 } exGlue).emitted.reverse =
    [.start, .tick, .offer exA, .offer exB, .read, .tick, .read, .tick, .done 0 .final, .done 1 .shutdownErr, .crash] := by rfl
-- after the fair continuation B has been exported (again) and the durable queue is empty
example : exB ∈ (drainAllG (restartG (runG { n := 2 } { cap := 8 } exGlue))).invoked ∧
    (drainAllG (restartG (runG { n := 2 } { cap := 8 } exGlue))).q.st.di = [] := by decide
-- `exGlue` meets `NoShutExport`, and after `backoffEnd 1 .stop` goroutine 1 is about to report a shutdown-classified outcome
example : (∀ l ∈ exGlue, NoShutExport l) ∧
    (runG { n := 2 } { cap := 8 } (exGlue.take 15)).cons[1]? = some (.ret 1 exB (some (.shutdown .plain))) := by
  refine ⟨?_, by decide⟩
  intro l hl
  simp only [exGlue, List.mem_cons, List.not_mem_nil, or_false] at hl
  rcases hl with rfl | rfl | rfl | rfl | rfl | rfl | rfl | rfl | rfl | rfl | rfl | rfl | rfl | rfl | rfl | rfl | rfl <;>
    first | trivial | rfl
-- the hypothesis of the step theorem: a goroutine in the back-off while `stopCh` is closed
example : (runG { n := 2 } { cap := 8 } (exGlue.take 14)).cons[1]? = some (.backoff 1 exB .plain) ∧
    (runG { n := 2 } { cap := 8 } (exGlue.take 14)).stopCh = true := by decide

end GlueExamples

end OtelVerif.C01
