import OtelVerif.Model.C02
import OtelVerif.Model.C02Pinned
import OtelVerif.Model.C02Check
import OtelVerif.Lemmas.C02
import OtelVerif.Lemmas.C02Live
import OtelVerif.Lemmas.C02P
import OtelVerif.Lemmas.C02Cond
import OtelVerif.Lemmas.C02Cons
import OtelVerif.Lemmas.C02Audit
import OtelVerif.Lemmas.C02Fair
import OtelVerif.Lemmas.C02R
import OtelVerif.Lemmas.C02A
import OtelVerif.Lemmas.C02PLive
import OtelVerif.Model.C02G
import OtelVerif.Model.C02V
import OtelVerif.Lemmas.C02CondB
import OtelVerif.Lemmas.C02PFair
import OtelVerif.Gen.PQKeys
/-!
# C02 — sending queue: exactly-once hand-off, FIFO, bounded size, no lost wake-ups

Every theorem quantifies over **all** schedules (`Reachable k s` = reached from the empty queue by any
list of labels: any number of producers, consumers, completions, cancellations, a shutdown, in any
interleaving), all capacities `0 ≤ cap`, both `block_on_overflow` and `wait_for_result` settings, and all
request sizes (`Int`: zero, negative and larger-than-capacity sizes included).  The model
(`Model/C02.lean`) mirrors `memory_queue.go` and the repaired `cond.go`; the invariants are in
`Lemmas/C02.lean`.
-/
namespace OtelVerif.C02

variable {k : Cfg} {s : St}

/-! ## hand-off: FIFO and exactly once -/

/-- pop order = push order: everything handed over so far, followed by what is still queued, is the
acceptance sequence.  With a single consumer `handed` is that consumer's hand-off order. -/
theorem C02_fifo (hk : 0 ≤ k.cap) (hr : Reachable k s) : s.handed ++ s.items.map Prod.fst = s.accepted :=
  (Inv.reachable hk hr).H.fifo

/-- every accepted request is handed over at most once and is either handed or still queued; a refused
request is never handed (nor queued) -/
theorem C02_exactly_once (hk : 0 ≤ k.cap) (hr : Reachable k s) :
    s.handed.Nodup ∧ s.accepted.Nodup ∧
    (∀ id, id ∈ s.accepted ↔ (id ∈ s.handed ∨ id ∈ s.items.map Prod.fst)) ∧
    (∀ id ∈ s.handed, id ∉ s.items.map Prod.fst) ∧
    (∀ id ∈ s.refused, id ∉ s.handed ∧ id ∉ s.items.map Prod.fst) := by
  have h := (Inv.reachable hk hr).H
  have hnd := h.accNodup
  rw [← h.fifo] at hnd
  refine ⟨h.handed_nodup, h.accNodup, ?_, ?_, ?_⟩
  · intro id; rw [← h.fifo]; simp
  · intro id hid hq
    exact (List.nodup_append.mp hnd).2.2 id hid id hq rfl
  · intro id hid
    have := h.refAcc id hid
    rw [← h.fifo] at this
    simpa using this

/-- a zero-sized request is answered `nil` without touching the queue, and nothing of size ≤ 0 is ever queued
or handed over -/
theorem C02_zero_size_ignored (hk : 0 ≤ k.cap) (hr : Reachable k s) :
    (∀ p s', fire k s (.offer p 0) = some s' →
      s'.accepted = s.accepted ∧ s'.items = s.items ∧ s'.size = s.size ∧ (s'.ps p).ph = .done .ok) ∧
    (∀ x ∈ s.items ++ s.inflight, 0 < x.2) := by
  have h := (Inv.reachable hk hr).Z
  constructor
  · intro p s' hf
    simp only [fire] at hf
    split at hf
    · simp at hf; subst hf; simp [setP]
    · cases hf
  · intro x hx
    rcases List.mem_append.mp hx with a | a
    · exact h.posI x a
    · exact h.posF x a

/-! ## size -/

/-- the reported size is exactly the summed size of the accepted-but-unfinished requests (those queued or
handed over and not completed), is never negative and never exceeds the capacity -/
theorem C02_size (hk : 0 ≤ k.cap) (hr : Reachable k s) :
    s.size = sumSz (s.items ++ s.inflight) ∧ 0 ≤ s.size ∧ s.size ≤ k.cap ∧
    ((s.items ++ s.inflight).map Prod.fst).Nodup ∧
    (∀ id, id ∈ (s.items ++ s.inflight).map Prod.fst ↔ (id ∈ s.accepted ∧ id ∉ s.finished)) := by
  have hI := Inv.reachable hk hr
  have h := hI.Z
  have hH := hI.H
  have hnd := hH.accNodup
  rw [← hH.fifo] at hnd
  have hfn := (h.hperm.nodup_iff).mp hH.handed_nodup
  have hmem : ∀ id, id ∈ s.handed ↔ (id ∈ s.finished ∨ id ∈ s.inflight.map Prod.fst) := by
    intro id; rw [h.hperm.mem_iff]; simp
  refine ⟨by rw [sumSz_append]; exact h.sizeEq, h.size_nonneg, h.le, ?_, ?_⟩
  · rw [List.map_append]
    refine List.nodup_append.mpr ⟨(List.nodup_append.mp hnd).2.1, (List.nodup_append.mp hfn).2.1, ?_⟩
    intro a ha b hb e
    subst e
    exact (List.nodup_append.mp hnd).2.2 a ((hmem a).mpr (Or.inr hb)) a ha rfl
  · intro id
    rw [List.map_append, List.mem_append, ← hH.fifo, List.mem_append]
    constructor
    · rintro (a | a)
      · refine ⟨Or.inr a, fun hf => ?_⟩
        exact (List.nodup_append.mp hnd).2.2 id ((hmem id).mpr (Or.inl hf)) id a rfl
      · refine ⟨Or.inl ((hmem id).mpr (Or.inr a)), fun hf => ?_⟩
        exact (List.nodup_append.mp hfn).2.2 id hf id a rfl
    · rintro ⟨a | a, hnf⟩
      · rcases (hmem id).mp a with b | b
        · exact absurd b hnf
        · exact Or.inr b
      · exact Or.inl a

/-- the size is zero once every accepted request has finished -/
theorem C02_size_zero_when_all_finished (hk : 0 ≤ k.cap) (hr : Reachable k s)
    (hall : ∀ id ∈ s.accepted, id ∈ s.finished) : s.size = 0 := by
  obtain ⟨h1, _, _, _, h5⟩ := C02_size hk hr
  have : s.items ++ s.inflight = [] := by
    cases hl : s.items ++ s.inflight with
    | nil => rfl
    | cons x xs =>
      have := (h5 x.1).mp (by rw [hl]; simp)
      exact absurd (hall _ this.1) this.2
  rw [h1, this]; rfl

/-- an enqueue is refused with "queue is full" exactly when the reported size plus the request's size
exceeds the capacity (and the queue does not block); it is accepted at once exactly when it fits; the
other two refusals are exactly the size guards -/
theorem C02_refusal_exact (hk : 0 ≤ k.cap) (hr : Reachable k s) (p : Nat) (el : Int) (s' : St)
    (hf : fire k s (.offer p el) = some s') :
    ((s'.ps p).ph = .done .full ↔ (k.block = false ∧ 0 < el ∧ el ≤ k.cap ∧ s.size + el > k.cap)) ∧
    (p ∈ s'.accepted ↔ (0 < el ∧ el ≤ k.cap ∧ s.size + el ≤ k.cap ∧ s.stopped = false)) ∧
    ((s'.ps p).ph = .sel ↔ (k.block = true ∧ 0 < el ∧ el ≤ k.cap ∧ s.size + el > k.cap ∧ s.stopped = false)) ∧
    ((s'.ps p).ph = .done .invalid ↔ el < 0) ∧ ((s'.ps p).ph = .done .tooLarge ↔ (0 < el ∧ el > k.cap)) ∧
    ((s'.ps p).ph = .done .stopped ↔
      (0 < el ∧ el ≤ k.cap ∧ s.stopped = true ∧ (s.size + el ≤ k.cap ∨ k.block = true))) := by
  have hH := (Inv.reachable hk hr).H
  simp only [fire] at hf
  split at hf
  · rename_i hidle
    have hna : p ∉ s.accepted := (hH.open_not_acc (hidle ▸ Ph.open_idle)).1
    split at hf
    · rename_i h0; cases hf; subst h0
      simp [setP, hna]
    · rename_i h0
      split at hf
      · rename_i h1; cases hf
        simp only [refuse, upd_same]
        refine ⟨?_, ?_, ?_, ?_, ?_, ?_⟩ <;> simp [hna] <;> (intros; omega)
      · rename_i h1
        split at hf
        · rename_i h2; cases hf
          simp only [refuse, upd_same]
          refine ⟨?_, ?_, ?_, ?_, ?_, ?_⟩ <;> simp [hna] <;> (intros; omega)
        · rename_i h2; cases hf
          have hbf : ∀ b : Bool, ¬ b = true → b = false := by intro b hb; cases b <;> simp_all
          unfold tryAdd
          split
          · rename_i h3
            split
            · rename_i hb
              split
              · rename_i hst
                simp only [refuse, upd_same]
                refine ⟨?_, ?_, ?_, ?_, ?_, ?_⟩ <;> simp [hna, hb, hst] <;> (intros; omega)
              · rename_i hst
                have hst' := hbf _ hst
                simp only [register, upd_same]
                refine ⟨?_, ?_, ?_, ?_, ?_, ?_⟩ <;> simp [hna, hb, hst'] <;> (intros; omega)
            · rename_i hb
              have hb' := hbf _ hb
              simp only [refuse, upd_same]
              refine ⟨?_, ?_, ?_, ?_, ?_, ?_⟩ <;> simp [hna, hb'] <;> (intros; omega)
          · rename_i h3
            split
            · rename_i hst
              simp only [refuse, upd_same]
              refine ⟨?_, ?_, ?_, ?_, ?_, ?_⟩ <;> simp [hna, hst] <;> (intros; omega)
            · rename_i hst
              simp only [accept, upd_same]
              have hst' : s.stopped = false := hbf _ hst
              cases hw : k.wfr <;> simp [hst'] <;> omega
  · cases hf

/-- after `Shutdown` nothing is accepted any more, whatever happens: a late `Offer` and a producer released from the
overflow wait are both refused (`errQueueIsStopped`), so no request can be accepted behind the consumers' backs -/
theorem C02_nothing_accepted_after_shutdown (l : Label) (s' : St) (hs : s.stopped = true) (hf : fire k s l = some s') :
    s'.accepted = s.accepted ∧ s'.items.length ≤ s.items.length ∧ s'.stopped = true := by
  have hta : ∀ p el, (tryAdd k s p el).accepted = s.accepted ∧ (tryAdd k s p el).items = s.items := by
    intro p el
    unfold tryAdd register refuse
    simp only [hs, if_true]
    split
    · split <;> exact ⟨rfl, rfl⟩
    · exact ⟨rfl, rfl⟩
  by_cases hl : l = .shutdown
  · subst hl; simp only [fire] at hf; cases hf; exact ⟨rfl, Nat.le_refl _, rfl⟩
  refine ⟨?_, ?_, by rw [stopped_step hf hl]; exact hs⟩
  all_goals
    cases l with
    | shutdown => exact absurd rfl hl
    | offer p el =>
      simp only [fire] at hf
      split at hf
      · split at hf
        · cases hf; simp [setP]
        · split at hf
          · cases hf; simp [refuse]
          · split at hf
            · cases hf; simp [refuse]
            · cases hf; simp [(hta p el).1, (hta p el).2]
      · cases hf
    | cancel p => simp only [fire] at hf; cases hf; simp [setP]
    | wakeTok p => simp only [fire] at hf; split at hf <;> cases hf; simp [setP]
    | wakeCtx p => simp only [fire] at hf; split at hf <;> cases hf; simp [setP]
    | relockTok p => simp only [fire] at hf; split at hf <;> cases hf; simp [(hta p _).1, (hta p _).2]
    | relockCtx p =>
      simp only [fire] at hf
      split at hf
      · cases hf
        have := ctxCleanup_cons s p
        have h2 : (ctxCleanup s p).accepted = s.accepted := by
          unfold ctxCleanup; split
          · rfl
          · exact condSignal_accepted s
        simp [refuse, this.1, h2]
      · cases hf
    | getRes p =>
      simp only [fire] at hf
      split at hf
      · split at hf <;> cases hf; simp
      · cases hf
    | resCtx p => simp only [fire] at hf; split at hf <;> cases hf; simp [setP]
    | read c =>
      simp only [fire] at hf
      split at hf
      · cases hf
      · split at hf
        · rename_i s1 hp; cases hf
          obtain ⟨id, el, t, hi, rfl⟩ := pop_some hp
          simp [hi]
        · first | (cases hf; simp) | (split at hf <;> cases hf <;> simp)
    | recheck c =>
      simp only [fire] at hf
      split at hf
      · split at hf
        · rename_i s1 hp; cases hf
          obtain ⟨id, el, t, hi, rfl⟩ := pop_some hp
          simp [hi]
        · first | (cases hf; simp) | (split at hf <;> cases hf <;> simp)
      · cases hf
    | complete id e =>
      simp only [fire] at hf
      split at hf
      · cases hf
        unfold finish
        simp only []
        split <;> first | rfl | exact Nat.le_refl _
      · cases hf

/-! ## wait_for_result -/

/-- a producer that used wait_for_result and got a result got exactly the outcome of its own request (the
only `OnDone` of that id); otherwise it returned its context's error (`Res.ctxErr`) -/
theorem C02_result_routing (hk : 0 ≤ k.cap) (hr : Reachable k s) (p e : Nat) (hp : (s.ps p).ph = .done (.result e)) :
    (p, e) ∈ s.outcomes ∧ ∀ e', (p, e') ∈ s.outcomes → e' = e := by
  have hR := InvR.reachable hr
  have hI := Inv.reachable hk hr
  have hfn := (List.nodup_append.mp ((hI.Z.hperm.nodup_iff).mp hI.H.handed_nodup)).1
  rw [← hR.outFin] at hfn
  exact ⟨hR.routed p e hp, fun e' h' => keys_nodup_functional _ hfn p e' e h' (hR.routed p e hp)⟩

/-! ## the condition variable -/

/-- a goroutine inside `cond.Wait` is registered exactly when it has not been signalled; the list has no
duplicates; whoever left the select through its channel was signalled -/
theorem C02_cond_inv (hk : 0 ≤ k.cap) (hr : Reachable k s) :
    (∀ p, p ∈ s.waiters ↔ (((s.ps p).ph = .sel ∨ (s.ps p).ph = .wokenCtx) ∧ (s.ps p).sig = false)) ∧
    s.waiters.Nodup ∧ (∀ p, (s.ps p).sig = true → (s.ps p).ph.inCond) ∧ (∀ p, (s.ps p).ph = .wokenTok → (s.ps p).sig = true) ∧
    (∀ p, (s.ps p).ph.inCond → 0 < (s.ps p).el ∧ (s.ps p).el ≤ k.cap ∧ k.block = true) :=
  let h := (Inv.reachable hk hr).C
  ⟨h.wIff, h.wNodup, h.sigPh, h.tokSig, h.elOk⟩

/-- `cond.go` on its own (any client, any interleaving of Wait / Signal / Broadcast / cancellations — the model
the scheduler-controlled cond harness is diffed against): registered ⇔ inside Wait and not signalled; nobody
returns `nil` without having been signalled; a closed channel always belongs to a goroutine still inside Wait -/
theorem C02_cond_alone_inv (ls : List CLabel) (s : CSt) (hr : crun {} ls = some s) :
    (∀ i, i ∈ s.waiters ↔ (((s.ws i).ph = .sel ∨ (s.ws i).ph = .wokenCtx) ∧ (s.ws i).sig = false)) ∧
    s.waiters.Nodup ∧ (∀ i, (s.ws i).sig = true → (s.ws i).ph.inCond) ∧ (∀ i, (s.ws i).ph = .wokenTok → (s.ws i).sig = true) :=
  let h := InvA.run ls InvA.init hr
  ⟨h.wIff, h.wNodup, h.sigPh, h.tokSig⟩

/-- in the repaired cond every step after the select is enabled unconditionally: `Signal`, `Broadcast` and both
re-lock branches never wait for anything (contrast `C02_pinned_cond_deadlock`) -/
theorem C02_cond_alone_never_blocks (s : CSt) :
    (cfire s .signal).isSome = true ∧ (cfire s .broadcast).isSome = true ∧
    (∀ i, (s.ws i).ph = .wokenTok → (cfire s (.relockTok i)).isSome = true) ∧
    (∀ i, (s.ws i).ph = .wokenCtx → (cfire s (.relockCtx i)).isSome = true) := by
  refine ⟨rfl, rfl, ?_, ?_⟩ <;> intro i hi <;> simp [cfire, hi]

/- `Quiescent k s` (no goroutine can take a step of its own) is defined in `Lemmas/C02Live.lean`. -/

/-- no lost wake-up: when everything has come to rest and the queue is empty, no producer is inside
`cond.Wait` — for every schedule, including those in which contexts end while signals are in flight -/
theorem C02_no_lost_wakeup (hk : 0 ≤ k.cap) (hr : Reachable k s) (hs : s.stopped = false) (hq : Quiescent k s)
    (hz : s.size = 0) : ∀ p, ¬ (s.ps p).ph.inCond := by
  have hI := Inv.reachable hk hr
  -- at rest nobody has an unconsumed signal, nobody is between the select and the lock
  have hnoTok : ∀ q, (s.ps q).ph ≠ .wokenTok := by
    intro q hq'
    have := hq (.relockTok q) rfl
    simp [fire, hq'] at this
  have hnoCtx : ∀ q, (s.ps q).ph ≠ .wokenCtx := by
    intro q hq'
    have := hq (.relockCtx q) rfl
    simp [fire, hq'] at this
  have hnoSig : ∀ q, (s.ps q).sig = false := by
    intro q
    cases hs : (s.ps q).sig with
    | false => rfl
    | true =>
      rcases hI.C.sigPh q hs with a | a | a
      · have := hq (.wakeTok q) rfl
        simp [fire, a, hs] at this
      · exact absurd a (hnoTok q)
      · exact absurd a (hnoCtx q)
  intro p hp
  rcases hp with a | a | a
  · have hw : p ∈ s.waiters := (hI.C.wIff p).mpr ⟨Or.inl a, hnoSig p⟩
    rcases hI.W (List.ne_nil_of_mem hw) with b | ⟨q, b⟩ | b
    · omega
    · rw [hnoSig q] at b; cases b
    · rw [hs] at b; cases b
  · exact hnoTok p a
  · exact hnoCtx p a

/-- in particular: once every accepted request has finished, a resting queue has no blocked producer -/
theorem C02_released_when_all_finished (hk : 0 ≤ k.cap) (hr : Reachable k s) (hs : s.stopped = false) (hq : Quiescent k s)
    (hall : ∀ id ∈ s.accepted, id ∈ s.finished) : ∀ p, ¬ (s.ps p).ph.inCond :=
  C02_no_lost_wakeup hk hr hs hq (C02_size_zero_when_all_finished hk hr hall)

/-- why a goroutine that is in the middle of `Offer` may be standing still -/
def LegitWait (s : St) (p : Nat) : Prop :=
  ((s.ps p).ph = .sel ∧ p ∈ s.waiters ∧ (s.ps p).canc = false) ∨          -- registered, will be closed by a later Signal
  ((s.ps p).ph = .waitRes ∧ (s.ps p).canc = false ∧ s.results.lookup p = none)   -- its request has not finished

/-- stuck-freedom (what can be said without a fairness assumption): in every reachable state every
producer that is inside `Offer` either can take a step of its own — in particular the re-lock steps after
the select are always enabled, no critical section of the repaired code waits for anything — or waits for a
legitimate reason; a consumer notified on `hasMoreElements` can always re-take the lock and re-evaluate `Read`
(whether a parked consumer is notified when it should be is `C02_no_request_waits_beside_parked_consumer`);
a ended context always releases its producer -/
theorem C02_deadlock_free_partial (hk : 0 ≤ k.cap) (hr : Reachable k s) :
    (∀ p, (s.ps p).ph = .idle ∨ (∃ r, (s.ps p).ph = .done r) ∨ LegitWait s p ∨
      ∃ l, l.internal = true ∧ (fire k s l).isSome = true) ∧
    (∀ p, (s.ps p).ph.inCond ∨ (s.ps p).ph = .waitRes → (s.ps p).canc = true →
      ∃ l, l.internal = true ∧ (fire k s l).isSome = true) ∧
    (∀ c ∈ s.cwoken, (fire k s (.recheck c)).isSome = true) := by
  have hI := Inv.reachable hk hr
  have hprog : ∀ p, (s.ps p).ph.inCond ∨ (s.ps p).ph = .waitRes →
      (((s.ps p).ph = .sel ∧ p ∈ s.waiters) ∨ ((s.ps p).ph = .waitRes ∧ s.results.lookup p = none)) ∧ (s.ps p).canc = false ∨
      ∃ l, l.internal = true ∧ (fire k s l).isSome = true := by
    intro p hp
    rcases hp with (a | a | a) | a
    · cases hc : (s.ps p).canc with
      | true => exact Or.inr ⟨.wakeCtx p, rfl, by simp [fire, a, hc]⟩
      | false =>
        cases hs : (s.ps p).sig with
        | true => exact Or.inr ⟨.wakeTok p, rfl, by simp [fire, a, hs]⟩
        | false => exact Or.inl ⟨Or.inl ⟨a, (hI.C.wIff p).mpr ⟨Or.inl a, hs⟩⟩, rfl⟩
    · exact Or.inr ⟨.relockTok p, rfl, by simp [fire, a]⟩
    · exact Or.inr ⟨.relockCtx p, rfl, by simp [fire, a]⟩
    · cases hc : (s.ps p).canc with
      | true => exact Or.inr ⟨.resCtx p, rfl, by simp [fire, a, hc]⟩
      | false =>
        cases hl : s.results.lookup p with
        | some e => exact Or.inr ⟨.getRes p, rfl, by simp [fire, a, hl]⟩
        | none => exact Or.inl ⟨Or.inr ⟨a, rfl⟩, rfl⟩
  refine ⟨?_, ?_, ?_⟩
  · intro p
    cases hph : (s.ps p).ph with
    | idle => exact Or.inl rfl
    | done r => exact Or.inr (Or.inl ⟨r, rfl⟩)
    | sel =>
      rcases hprog p (Or.inl (Or.inl hph)) with ⟨a | a, c⟩ | b
      · exact Or.inr (Or.inr (Or.inl (Or.inl ⟨hph, a.2, c⟩)))
      · rw [hph] at a; simp at a
      · exact Or.inr (Or.inr (Or.inr b))
    | wokenTok =>
      rcases hprog p (Or.inl (Or.inr (Or.inl hph))) with ⟨a | a, _⟩ | b
      · rw [hph] at a; simp at a
      · rw [hph] at a; simp at a
      · exact Or.inr (Or.inr (Or.inr b))
    | wokenCtx =>
      rcases hprog p (Or.inl (Or.inr (Or.inr hph))) with ⟨a | a, _⟩ | b
      · rw [hph] at a; simp at a
      · rw [hph] at a; simp at a
      · exact Or.inr (Or.inr (Or.inr b))
    | waitRes =>
      rcases hprog p (Or.inr hph) with ⟨a | a, c⟩ | b
      · rw [hph] at a; simp at a
      · exact Or.inr (Or.inr (Or.inl (Or.inr ⟨hph, c, a.2⟩)))
      · exact Or.inr (Or.inr (Or.inr b))
  · intro p hp hc
    rcases hprog p hp with ⟨_, c⟩ | b
    · rw [hc] at c; cases c
    · exact b
  · intro c hc
    simp only [fire, hc, if_true]
    cases pop s with
    | some s1 => rfl
    | none => cases s.stopped <;> rfl

/-- what `C02_deadlock_free_partial` leaves open, and where it is closed now: (1) the goroutines' own activity always comes to
rest (no infinite run of internal labels) — stated here, proved below (`C02_deadlock_free_full_holds`, ranking `Phi`); (2) under
a fairness hypothesis on the Go scheduler / `sync.Mutex` ("some goroutine step is enabled" implies "eventually some goroutine step
is taken") every run comes to rest and, with consumers that keep working, releases every blocked producer — stated and proved
over infinite runs as `C02_fair_run_comes_to_rest` / `C02_fair_run_releases_all` (persistent queue:
`C02_persistent_fair_run_comes_to_rest` / `C02_persistent_fair_run_releases_all`).  The fairness itself stays a hypothesis. -/
def C02_deadlock_free_full : Prop :=
  ∀ (k : Cfg) (s : St), 0 ≤ k.cap → Reachable k s →
    ∃ n, ∀ ls, (∀ l ∈ ls, Label.internal l = true) → (runSched k s ls).isSome = true → ls.length ≤ n

/-! ## liveness without temporal logic: termination of internal activity, and the drain -/

theorem reachable_run {k : Cfg} {s s' : St} (ls : List Label) (hr : Reachable k s) (h : runSched k s ls = some s') :
    Reachable k s' := by
  induction ls generalizing s with
  | nil => simp [runSched] at h; exact h ▸ hr
  | cons l rest ih =>
    simp only [runSched] at h
    cases hf : fire k s l with
    | none => simp [hf] at h
    | some s1 => simp only [hf] at h; exact ih (reachable_step hr hf) h

/-- `C02_deadlock_free_full` holds: from every reachable state the goroutines can take only boundedly many steps
on their own (the bound is the explicit measure `Phi`: 6/5/4/3/1 per thread by phase, +1 per parked consumer) -/
theorem C02_deadlock_free_full_holds : C02_deadlock_free_full := by
  intro k s hk hr
  obtain ⟨L, hc⟩ := covers_exists hr
  exact ⟨Phi L s, fun ls hi hs => internal_run_bounded hk ls s hr hc hi hs⟩

/-- the goroutines' own activity always comes to rest: some finite internal schedule reaches a quiescent state -/
theorem C02_quiescence_reachable (hk : 0 ≤ k.cap) (hr : Reachable k s) :
    ∃ ls s', (∀ l ∈ ls, Label.internal l = true) ∧ runSched k s ls = some s' ∧ Quiescent k s' := by
  obtain ⟨L, hc⟩ := covers_exists hr
  obtain ⟨ls, s', h1, h2, h3, _, _⟩ := exists_quiesce hk (Phi L s) s hr hc (Nat.le_refl _)
  exact ⟨ls, s', h1, h2, h3⟩

/-- settles the "one Signal per completion" observation: whenever a producer is still inside `cond.Wait` after
everything has come to rest, some accepted request is still unfinished (`size > 0`), so a further completion —
and with it a further `Signal` — is still to come.  No schedule leaves a producer blocked with no completion pending. -/
theorem C02_blocked_implies_pending_completion (hk : 0 ≤ k.cap) (hr : Reachable k s) (hs : s.stopped = false) (hq : Quiescent k s)
    (p : Nat) (hp : (s.ps p).ph.inCond) : 0 < s.size ∧ s.items ++ s.inflight ≠ [] := by
  have hz : s.size ≠ 0 := fun h0 => C02_no_lost_wakeup hk hr hs hq h0 p hp
  obtain ⟨h1, h2, _, _, _⟩ := C02_size hk hr
  refine ⟨by omega, ?_⟩
  intro he
  rw [he] at h1
  exact hz (by rw [h1]; rfl)

theorem internal_drain (l : Label) (h : l.internal = true) : l.drain = true := by
  cases l <;> simp [Label.internal] at h <;> rfl

theorem tracked_run {k : Cfg} (hk : 0 ≤ k.cap) {s s' : St} (ls : List Label) (p : Nat) (hr : Reachable k s)
    (hd : ∀ l ∈ ls, Label.drain l = true) (h : runSched k s ls = some s') (ht : Tracked s p) : Tracked s' p := by
  induction ls generalizing s with
  | nil => simp [runSched] at h; exact h ▸ ht
  | cons l rest ih =>
    simp only [runSched] at h
    cases hf : fire k s l with
    | none => simp [hf] at h
    | some s1 =>
      simp only [hf] at h
      exact ih (reachable_step hr hf) (fun l' hl' => hd l' (List.mem_cons_of_mem _ hl')) h
        (tracked_step (Inv.reachable hk hr).C (hd l (by simp)) hf ht)

theorem drain_ne_shutdown (l : Label) (h : l.drain = true) : l ≠ .shutdown := by
  intro e; subst e; simp [Label.drain] at h

theorem running_run {k : Cfg} {s s' : St} (ls : List Label) (hd : ∀ l ∈ ls, Label.drain l = true)
    (h : runSched k s ls = some s') (hs : s.stopped = false) : s'.stopped = false := by
  induction ls generalizing s with
  | nil => simp [runSched] at h; exact h ▸ hs
  | cons l rest ih =>
    simp only [runSched] at h
    cases hf : fire k s l with
    | none => simp [hf] at h
    | some s1 =>
      simp only [hf] at h
      exact ih (fun l' hl' => hd l' (List.mem_cons_of_mem _ hl')) h
        (by rw [stopped_step hf (drain_ne_shutdown l (hd l (by simp)))]; exact hs)

theorem drain_aux {k : Cfg} (hk : 0 ≤ k.cap) (L : List Nat) (n : Nat) (s : St) (hr : Reachable k s) (hc : Covers L s)
    (hs : s.stopped = false) (hn : Omega L s ≤ n) :
    ∃ ls s', (∀ l ∈ ls, Label.drain l = true) ∧ runSched k s ls = some s' ∧ ∀ p, ¬ (s'.ps p).ph.inCond := by
  induction n generalizing s with
  | zero =>
    obtain ⟨ls, s1, h1, h2, h3, h4, h5⟩ := exists_quiesce hk (Phi L s) s hr hc (Nat.le_refl _)
    have hr1 := reachable_run ls hr h2
    have hs1 := running_run ls (fun l hl => internal_drain l (h1 l hl)) h2 hs
    refine ⟨ls, s1, fun l hl => internal_drain l (h1 l hl), h2, ?_⟩
    have h0 : Omega L s1 = 0 := by omega
    have hi : s1.items = [] := by
      cases hi : s1.items with
      | nil => rfl
      | cons x t => simp [Omega, hi] at h0
    have hf : s1.inflight = [] := by
      cases hf : s1.inflight with
      | nil => rfl
      | cons x t => simp [Omega, hf] at h0
    have hz : s1.size = 0 := by
      have := (Inv.reachable hk hr1).Z.sizeEq
      rw [hi, hf] at this
      simpa [sumSz] using this
    exact C02_no_lost_wakeup hk hr1 hs1 h3 hz
  | succ n ih =>
    obtain ⟨ls, s1, h1, h2, h3, h4, h5⟩ := exists_quiesce hk (Phi L s) s hr hc (Nat.le_refl _)
    have hr1 := reachable_run ls hr h2
    have hd1 : ∀ l ∈ ls, Label.drain l = true := fun l hl => internal_drain l (h1 l hl)
    have hs1 := running_run ls hd1 h2 hs
    -- one environment step that makes the potential drop, then the induction hypothesis
    have next : ∀ (l : Label) (s2 : St), l.drain = true → fire k s1 l = some s2 → Covers L s2 → Omega L s2 < Omega L s1 →
        ∃ ls s', (∀ l ∈ ls, Label.drain l = true) ∧ runSched k s ls = some s' ∧ ∀ p, ¬ (s'.ps p).ph.inCond := by
      intro l s2 hl hf hc2 hlt
      obtain ⟨ls2, s', g1, g2, g3⟩ := ih s2 (reachable_step hr1 hf) hc2
        (by rw [stopped_step hf (drain_ne_shutdown l hl)]; exact hs1) (by omega)
      refine ⟨ls ++ l :: ls2, s', ?_, ?_, g3⟩
      · intro l' hl'
        rcases List.mem_append.mp hl' with e | e
        · exact hd1 l' e
        · rcases List.mem_cons.mp e with e | e
          · exact e ▸ hl
          · exact g1 l' e
      · rw [runSched_append, h2]
        simp [runSched, hf, g2]
    cases hfl : s1.inflight with
    | cons x t =>
      obtain ⟨id, el⟩ := x
      have hl : s1.inflight.lookup id = some el := by simp [hfl, List.lookup]
      obtain ⟨c1, c2⟩ := finish_measure (k := k) (e := 0) h4 hl
      exact next (.complete id 0) _ rfl (by simp [fire, hl]) c1 c2
    | nil =>
      cases hit : s1.items with
      | nil =>
        have hz : s1.size = 0 := by
          have := (Inv.reachable hk hr1).Z.sizeEq
          rw [hit, hfl] at this
          simpa [sumSz] using this
        exact ⟨ls, s1, hd1, h2, C02_no_lost_wakeup hk hr1 hs1 h3 hz⟩
      | cons x t =>
        -- at rest with a queued item no consumer is parked; let consumer 0 read
        have hwk : s1.cwoken = [] := by
          cases hwk : s1.cwoken with
          | nil => rfl
          | cons c cs =>
            have := h3 (.recheck c) rfl
            obtain ⟨a, b⟩ := x
            simp [fire, hwk, pop, hit] at this
        have hcw : s1.cwait = [] := by
          rcases (InvK.reachable hr1).woken with a | a
          · exact a
          · rw [hit, hwk] at a; simp at a
        obtain ⟨a, b⟩ := x
        have hp : pop s1 = some { s1 with items := t, inflight := s1.inflight ++ [(a, b)], handed := s1.handed ++ [a] } := by
          simp [pop, hit]
        obtain ⟨c1, c2⟩ := pop_measure h4 hp
        exact next (.read 0) _ rfl (by simp [fire, hcw, hwk, hp]) c1 c2

/-- **the drain theorem** (existence form of "a blocked producer is released once earlier requests finish"): from
every reachable state there is a finite schedule consisting only of the goroutines' own steps, consumer reads
and completions — no new Offer, no cancellation, no shutdown (the queue is running: `stopped = false`; after `Shutdown`
blocked producers are refused when released, or stay blocked, see the report) — after which **no** producer is inside `cond.Wait`,
and every producer that was waiting for space with a live context has been **enqueued** (not refused).
What remains to be assumed for "eventually" in a real run is only fairness: the scheduler eventually runs every
enabled goroutine step (weak fairness of internal labels, incl. `sync.Mutex` hand-over), and the consumers keep
reading and completing what they were handed. -/
theorem C02_drain_releases_all (hk : 0 ≤ k.cap) (hr : Reachable k s) (hs : s.stopped = false) :
    ∃ ls s', (∀ l ∈ ls, Label.drain l = true) ∧ runSched k s ls = some s' ∧ (∀ p, ¬ (s'.ps p).ph.inCond) ∧
      (∀ p, ((s.ps p).ph = .sel ∨ (s.ps p).ph = .wokenTok) → (s.ps p).canc = false → p ∈ s'.accepted) := by
  obtain ⟨L, hc⟩ := covers_exists hr
  obtain ⟨ls, s', h1, h2, h3⟩ := drain_aux hk L (Omega L s) s hr hc hs (Nat.le_refl _)
  refine ⟨ls, s', h1, h2, h3, ?_⟩
  intro p hp hcn
  rcases tracked_run hk ls p hr h1 h2 (Or.inl ⟨hp, hcn, hs⟩) with ⟨a, _⟩ | a
  · rcases a with a | a
    · exact absurd (Or.inl a) (h3 p)
    · exact absurd (Or.inr (Or.inl a)) (h3 p)
  · exact a

/-! ## the persistent queue (`Model/C02P.lean`, `pfire`): same clauses, its own size bookkeeping -/

theorem C02_persistent_fifo (hk : 0 ≤ k.cap) (hr : PReachable k s) : s.handed ++ s.items.map Prod.fst = s.accepted :=
  (Invp.reachable hk hr).H.fifo

theorem C02_persistent_exactly_once (hk : 0 ≤ k.cap) (hr : PReachable k s) :
    s.handed.Nodup ∧ s.accepted.Nodup ∧
    (∀ id, id ∈ s.accepted ↔ (id ∈ s.handed ∨ id ∈ s.items.map Prod.fst)) ∧
    (∀ id ∈ s.handed, id ∉ s.items.map Prod.fst) ∧
    (∀ id ∈ s.refused, id ∉ s.handed ∧ id ∉ s.items.map Prod.fst) := by
  have h := (Invp.reachable hk hr).H
  have hnd := h.accNodup
  rw [← h.fifo] at hnd
  refine ⟨h.handed_nodup, h.accNodup, ?_, ?_, ?_⟩
  · intro id; rw [← h.fifo]; simp
  · intro id hid hq
    exact (List.nodup_append.mp hnd).2.2 id hid id hq rfl
  · intro id hid
    have := h.refAcc id hid
    rw [← h.fifo] at this
    simpa using this

/-- persistent size: within `[0, cap]`, never more than the summed size of the accepted-but-unfinished requests
(it is reset to 0 whenever the last queued item is read, and clamped at 0 in `onDone`), and the unfinished requests
are exactly the queued and in-flight ones -/
theorem C02_persistent_size (hk : 0 ≤ k.cap) (hr : PReachable k s) :
    0 ≤ s.size ∧ s.size ≤ k.cap ∧ s.size ≤ sumSz (s.items ++ s.inflight) ∧
    ((s.items ++ s.inflight).map Prod.fst).Nodup ∧
    (∀ id, id ∈ (s.items ++ s.inflight).map Prod.fst ↔ (id ∈ s.accepted ∧ id ∉ s.finished)) := by
  have hI := Invp.reachable hk hr
  have h := hI.Z
  have hH := hI.H
  have hnd := hH.accNodup
  rw [← hH.fifo] at hnd
  have hfn := (h.hperm.nodup_iff).mp hH.handed_nodup
  have hmem : ∀ id, id ∈ s.handed ↔ (id ∈ s.finished ∨ id ∈ s.inflight.map Prod.fst) := by
    intro id; rw [h.hperm.mem_iff]; simp
  refine ⟨h.nonneg, h.le, by rw [sumSz_append]; exact h.szLe, ?_, ?_⟩
  · rw [List.map_append]
    refine List.nodup_append.mpr ⟨(List.nodup_append.mp hnd).2.1, (List.nodup_append.mp hfn).2.1, ?_⟩
    intro a ha b hb e
    subst e
    exact (List.nodup_append.mp hnd).2.2 a ((hmem a).mpr (Or.inr hb)) a ha rfl
  · intro id
    rw [List.map_append, List.mem_append, ← hH.fifo, List.mem_append]
    constructor
    · rintro (a | a)
      · refine ⟨Or.inr a, fun hf => ?_⟩
        exact (List.nodup_append.mp hnd).2.2 id ((hmem id).mpr (Or.inl hf)) id a rfl
      · refine ⟨Or.inl ((hmem id).mpr (Or.inr a)), fun hf => ?_⟩
        exact (List.nodup_append.mp hfn).2.2 id hf id a rfl
    · rintro ⟨a | a, hnf⟩
      · rcases (hmem id).mp a with b | b
        · exact absurd b hnf
        · exact Or.inr b
      · exact Or.inl a

theorem C02_persistent_size_zero_when_all_finished (hk : 0 ≤ k.cap) (hr : PReachable k s)
    (hall : ∀ id ∈ s.accepted, id ∈ s.finished) : s.size = 0 := by
  obtain ⟨h0, _, h1, _, h5⟩ := C02_persistent_size hk hr
  have : s.items ++ s.inflight = [] := by
    cases hl : s.items ++ s.inflight with
    | nil => rfl
    | cons x xs =>
      have := (h5 x.1).mp (by rw [hl]; simp)
      exact absurd (hall _ this.1) this.2
  rw [this] at h1
  simp [sumSz] at h1
  omega

/-- persistent refusal rule, exactly: "queue is full" ⇔ not blocking ∧ size+el > cap; "too large" ⇔ blocking ∧
size+el > cap ∧ el > cap (the repair: such a request never waits); waits ⇔ blocking ∧ size+el > cap ∧ el ≤ cap;
enqueued at once ⇔ size+el ≤ cap -/
theorem C02_persistent_refusal_exact (hk : 0 ≤ k.cap) (hr : PReachable k s) (p : Nat) (el : Int) (s' : St)
    (hf : pfire k s (.offer p el) = some s') :
    ((s'.ps p).ph = .done .full ↔ (k.block = false ∧ s.size + el > k.cap)) ∧
    ((s'.ps p).ph = .done .tooLarge ↔ (k.block = true ∧ s.size + el > k.cap ∧ el > k.cap)) ∧
    ((s'.ps p).ph = .sel ↔ (k.block = true ∧ s.size + el > k.cap ∧ el ≤ k.cap)) ∧
    (p ∈ s'.accepted ↔ s.size + el ≤ k.cap) := by
  have hH := (Invp.reachable hk hr).H
  simp only [pfire] at hf
  split at hf
  · rename_i hc
    have hna : p ∉ s.accepted := (hH.open_not_acc (hc.1 ▸ Ph.open_idle)).1
    cases hf
    have hbf : ∀ b : Bool, ¬ b = true → b = false := by intro b hb; cases b <;> simp_all
    unfold ptryAdd
    split
    · rename_i h3
      split
      · rename_i hb
        split
        · rename_i hbig
          simp only [refuse, upd_same]
          refine ⟨?_, ?_, ?_, ?_⟩
          · simp [hb]
          · simp; exact ⟨hb, by omega, by omega⟩
          · simp <;> (intros; first | omega | simp_all)
          · simp [hna]; omega
        · rename_i hbig
          simp only [register, upd_same]
          refine ⟨?_, ?_, ?_, ?_⟩
          · simp <;> (intros; first | omega | simp_all)
          · simp <;> (intros; first | omega | simp_all)
          · simp; exact ⟨hb, by omega, by omega⟩
          · simp [hna]; omega
      · rename_i hb
        simp only [refuse, upd_same]
        refine ⟨?_, ?_, ?_, ?_⟩
        · simp; exact ⟨hbf _ hb, by omega⟩
        · simp; intro a; exact absurd a hb
        · simp <;> (intros; first | omega | simp_all)
        · simp [hna]; omega
    · rename_i h3
      simp only [paccept, upd_same]
      refine ⟨?_, ?_, ?_, ?_⟩
      · simp; intro _; omega
      · simp; intro _ _; omega
      · simp <;> (intros; first | omega | simp_all)
      · simp; omega
  · cases hf

/-- a request larger than the capacity never waits on the cond (contrast the pinned tree, where it waited forever) -/
theorem C02_persistent_oversize_never_waits (hk : 0 ≤ k.cap) (hr : PReachable k s) (p : Nat)
    (hp : (s.ps p).ph.inCond) : 0 < (s.ps p).el ∧ (s.ps p).el ≤ k.cap :=
  let h := (Invp.reachable hk hr).C.elOk p hp
  ⟨h.1, h.2.1⟩

/- `PQuiescent k s` (the persistent queue is at rest) is defined in `Lemmas/C02P.lean`. -/

/-- persistent no-lost-wake-up: at rest, with nothing queued and nothing in flight (every accepted request
finished), no producer is inside `cond.Wait`.  More generally a registered waiter at rest implies an unfinished
request, whose `onDone` will signal. -/
theorem C02_persistent_no_lost_wakeup (hk : 0 ≤ k.cap) (hr : PReachable k s) (hq : PQuiescent k s) :
    (∀ p, (s.ps p).ph.inCond → s.items ≠ [] ∨ s.inflight ≠ []) ∧
    (s.items = [] → s.inflight = [] → ∀ p, ¬ (s.ps p).ph.inCond) := by
  have hI := Invp.reachable hk hr
  have hnoTok : ∀ q, (s.ps q).ph ≠ .wokenTok := by
    intro q hq'
    have := hq (.relockTok q) rfl
    simp [pfire, hq'] at this
  have hnoCtx : ∀ q, (s.ps q).ph ≠ .wokenCtx := by
    intro q hq'
    have := hq (.relockCtx q) rfl
    simp [pfire, hq'] at this
  have hnoSig : ∀ q, (s.ps q).sig = false := by
    intro q
    cases hs : (s.ps q).sig with
    | false => rfl
    | true =>
      rcases hI.C.sigPh q hs with a | a | a
      · have := hq (.wakeTok q) rfl
        simp [pfire, a, hs] at this
      · exact absurd a (hnoTok q)
      · exact absurd a (hnoCtx q)
  have main : ∀ p, (s.ps p).ph.inCond → s.items ≠ [] ∨ s.inflight ≠ [] := by
    intro p hp
    rcases hp with a | a | a
    · have hw : p ∈ s.waiters := (hI.C.wIff p).mpr ⟨Or.inl a, hnoSig p⟩
      rcases hI.W (List.ne_nil_of_mem hw) with b | ⟨q, b⟩
      · exact b
      · rw [hnoSig q] at b; cases b
    · exact absurd a (hnoTok p)
    · exact absurd a (hnoCtx p)
  refine ⟨main, ?_⟩
  intro hi hf p hp
  rcases main p hp with a | a
  · exact a hi
  · exact a hf

/-! ## consumer side (`hasMoreElements`): no accepted request waits beside a parked consumer -/

/-- memory queue, every schedule: while a consumer is parked in `Read`, at least as many consumers have been notified
(and are on their way to the lock) as there are queued requests; after `Shutdown` nobody stays parked -/
theorem C02_consumer_wakeups_conserved (hr : Reachable k s) :
    (s.cwait = [] ∨ s.items.length ≤ s.cwoken.length) ∧ (s.stopped = true → s.cwait = []) :=
  let h := InvK.reachable hr
  ⟨h.woken, h.stop⟩

/-- memory queue: once everything has come to rest, no accepted request sits in the queue while a consumer is parked
in `Read` — for every schedule, any number of consumers, back-to-back enqueues included -/
theorem C02_no_request_waits_beside_parked_consumer (hr : Reachable k s) (hq : Quiescent k s) :
    s.cwoken = [] ∧ (s.cwait = [] ∨ s.items = []) := by
  have hwk : s.cwoken = [] := by
    cases hwk : s.cwoken with
    | nil => rfl
    | cons c cs =>
      have := hq (.recheck c) rfl
      simp only [fire, hwk, List.mem_cons, true_or, if_true] at this
      cases hp : pop s with
      | some s1 => simp [hp] at this
      | none => cases hst : s.stopped <;> simp [hp, hst] at this
  refine ⟨hwk, ?_⟩
  rcases (InvK.reachable hr).woken with a | a
  · exact Or.inl a
  · rw [hwk] at a
    exact Or.inr (List.length_eq_zero_iff.mp (by simpa using a))

theorem C02_persistent_consumer_wakeups_conserved (hr : PReachable k s) :
    (s.cwait = [] ∨ s.items.length ≤ s.cwoken.length) ∧ (s.stopped = true → s.cwait = []) :=
  let h := InvK.preachable hr
  ⟨h.woken, h.stop⟩

/-- persistent queue: the same statement for `pfire` (this is what the seeded "signal only when the queue was empty
before the write" change breaks) -/
theorem C02_persistent_no_request_waits_beside_parked_consumer (hr : PReachable k s) (hq : PQuiescent k s) :
    s.cwoken = [] ∧ (s.cwait = [] ∨ s.items = []) := by
  have hwk : s.cwoken = [] := by
    cases hwk : s.cwoken with
    | nil => rfl
    | cons c cs =>
      have := hq (.recheck c) rfl
      simp only [pfire, hwk, List.mem_cons, true_or, if_true] at this
      cases hst : s.stopped with
      | true => simp [hst] at this
      | false =>
        cases hp : ppop s with
        | some s1 => simp [hst, hp] at this
        | none => simp [hst, hp] at this
  refine ⟨hwk, ?_⟩
  rcases (InvK.preachable hr).woken with a | a
  · exact Or.inl a
  · rw [hwk] at a
    exact Or.inr (List.length_eq_zero_iff.mp (by simpa using a))

/-! ## persistent queue: request identity — item keys never collide with the queue's metadata keys

The persistent model identifies a stored request by the id of its Offer ("storage is outside").  What that abstraction
needs from the code is regenerated on every run (`Gen/PQKeys.lean`, translator `pqkeys`): the radix of `getItemKey` and the
four metadata key names that share the key space with the items. -/

theorem itemKey_ne_of_nondigit (radix i : Nat) (h0 : 0 < radix) (h : radix ≤ 10) (key : String) (c : Char) (cs : List Char)
    (hk : key.toList = c :: cs) (hc : c.isDigit = false) : itemKey radix i ≠ key := by
  intro e
  have hl : (itemKey radix i).toList = Nat.toDigits radix i := by simp [itemKey]
  rw [e, hk] at hl
  have := Nat.isDigit_of_mem_toDigits h0 h (c := c) (by rw [← hl]; simp)
  rw [hc] at this; cases this

/-- for EVERY index, the key under which a request is stored is none of "ri", "wi", "di", "si" (as the code names them
now): a request is never written over the queue's read/write index, its dispatched-items list or its size snapshot, and
none of those is ever decoded as a request.  Breaks (no longer type-checks) when the radix exceeds 10 or a metadata key
becomes a digit string. -/
theorem C02_item_keys_never_collide_with_metadata (i : Nat) :
    itemKey Gen.PQKeys.itemKeyRadix i ≠ Gen.PQKeys.readIndexKey ∧ itemKey Gen.PQKeys.itemKeyRadix i ≠ Gen.PQKeys.writeIndexKey ∧
    itemKey Gen.PQKeys.itemKeyRadix i ≠ Gen.PQKeys.dispatchedKey ∧ itemKey Gen.PQKeys.itemKeyRadix i ≠ Gen.PQKeys.queueSizeKey := by
  refine ⟨?_, ?_, ?_, ?_⟩
  · exact itemKey_ne_of_nondigit _ i (by decide) (by decide) _ _ _ (by decide : Gen.PQKeys.readIndexKey.toList = 'r' :: ['i']) (by decide)
  · exact itemKey_ne_of_nondigit _ i (by decide) (by decide) _ _ _ (by decide : Gen.PQKeys.writeIndexKey.toList = 'w' :: ['i']) (by decide)
  · exact itemKey_ne_of_nondigit _ i (by decide) (by decide) _ _ _ (by decide : Gen.PQKeys.dispatchedKey.toList = 'd' :: ['i']) (by decide)
  · exact itemKey_ne_of_nondigit _ i (by decide) (by decide) _ _ _ (by decide : Gen.PQKeys.queueSizeKey.toList = 's' :: ['i']) (by decide)

/-- the key is the decimal form of the index -/
example : itemKey Gen.PQKeys.itemKeyRadix 486 = "486" ∧ itemKey Gen.PQKeys.itemKeyRadix 0 = "0" := by decide

/-! ## the pinned cond.go (before the fix commit) deadlocks -/

/-- HISTORICAL (about `Model/C02Pinned.lean`, the cond.go that was in the tree BEFORE the fix commit; not a statement about
the checked tree and not tied to it any more — the cond harness's corpus cases 0-1 now run against the repaired cond).
Two waiters whose contexts ended and that queue for the lock, two `Signal`s in a row: the second
`Signal` blocks on the full channel while holding the lock — no label at all is enabled any more, four
goroutines are mid-operation.  Same schedule as corpus case 0 of the cond harness. -/
theorem C02_pinned_cond_deadlock :
    ∃ s, Pinned.run (Pinned.init 2 2) Pinned.witness = some s ∧ Pinned.stuck s = true := by
  refine ⟨_, rfl, ?_⟩
  decide

/-! ## soundness of the search oracle's FIFO / exactly-once core -/

theorem fifoStep_sound (q h q' a : List Nat) (hs : Check.fifoStep q h q' = some a) : q ++ a = h ++ q' := by
  unfold Check.fifoStep at hs
  simp only [] at hs
  split at hs
  · rename_i hp
    cases hs
    exact List.prefix_iff_eq_append.mp (List.isPrefixOf_iff_prefix.mp hp)
  · cases hs

/-- if the oracle accepts a recorded trace of (ids handed in the step, queue after the step), then on that
trace "handed so far ++ queue = pushed so far" holds at the end: hand-off order is push order and nothing
is handed twice or skipped -/
theorem C02_check_fifo_sound (tr : List (List Nat × List Nat)) (acc handed q acc' handed' q' : List Nat)
    (h0 : handed ++ q = acc) (hrun : Check.fifoRun (acc, handed, q) tr = some (acc', handed', q')) :
    handed' ++ q' = acc' := by
  induction tr generalizing acc handed q with
  | nil => simp [Check.fifoRun] at hrun; obtain ⟨rfl, rfl, rfl⟩ := hrun; exact h0
  | cons x rest ih =>
    obtain ⟨h, qn⟩ := x
    simp only [Check.fifoRun] at hrun
    split at hrun
    · rename_i a ha
      refine ih (acc ++ a) (handed ++ h) qn ?_ hrun
      rw [← h0]; simp only [List.append_assoc]; rw [fifoStep_sound _ _ _ _ ha]
    · cases hrun

/-! ## soundness of the remaining oracle clauses (`Model/C02Check.lean`): what the driver's verdict is computed
from implies the property's clause on the observed values, in the same shape as the LTS theorems above -/

theorem C02_check_size_sound (persistent : Bool) (cap size sum : Int) (none : Bool)
    (h : Check.sizeClause persistent cap size sum none = true) :
    0 ≤ size ∧ size ≤ cap ∧ (persistent = false → size = sum) ∧
    (persistent = true → size ≤ sum ∧ (none = true → size = 0)) := by
  unfold Check.sizeClause at h
  cases persistent <;> cases none <;> simp at h <;> simp <;> omega

theorem C02_check_refusal_sound_memory (block stopped : Bool) (cap sizeBefore el : Int) (st : String)
    (h : Check.refusalClause false block stopped cap sizeBefore el st = true) :
    (st = "full" ↔ (block = false ∧ 0 < el ∧ el ≤ cap ∧ sizeBefore + el > cap)) ∧
    (st = "inv" ↔ el < 0) ∧ (st = "big" ↔ (0 < el ∧ el > cap)) ∧
    (st = "stopped" ↔ (stopped = true ∧ 0 < el ∧ el ≤ cap ∧ (sizeBefore + el ≤ cap ∨ block = true))) := by
  have d1 : ("full" : String) ≠ "inv" := by decide
  have d2 : ("full" : String) ≠ "big" := by decide
  have d3 : ("inv" : String) ≠ "big" := by decide
  have d7 : ("full" : String) ≠ "stopped" := by decide
  have d8 : ("inv" : String) ≠ "stopped" := by decide
  have d9 : ("big" : String) ≠ "stopped" := by decide
  unfold Check.refusalClause Check.expectedRefusal at h
  simp only [Bool.false_eq_true, if_false] at h
  by_cases h0 : el = 0
  · simp [h0] at h
    obtain ⟨⟨⟨a, b⟩, c⟩, d⟩ := h
    subst h0
    refine ⟨by simp [a], by simp [b], by simp [c], by simp [d]⟩
  · by_cases h1 : el < 0
    · simp [h0, h1] at h
      subst h
      refine ⟨by simp [d1.symm]; intros; omega, by simp [h1], by simp [d3]; intros; omega, by simp [d8]; intros; omega⟩
    · by_cases h2 : el > cap
      · simp [h0, h1, h2] at h
        subst h
        refine ⟨by simp [d2.symm]; intros; omega, by simp [d3.symm]; omega, by simp; omega, by simp [d9]; intros; omega⟩
      · by_cases h3 : sizeBefore + el > cap
        · cases block
          · simp [h0, h1, h2, h3] at h
            subst h
            refine ⟨by simp; omega, by simp [d1]; omega, by simp [d2]; intros; omega, by simp [d7]; intros; omega⟩
          · cases stopped
            · simp [h0, h1, h2, h3] at h
              obtain ⟨⟨⟨a, b⟩, c⟩, d⟩ := h
              refine ⟨by simp [a], by simp [b]; omega, by simp [c]; intros; omega, by simp [d]⟩
            · simp [h0, h1, h2, h3] at h
              subst h
              refine ⟨by simp [d7.symm], by simp [d8.symm]; omega, by simp [d9.symm]; intros; omega, by simp; omega⟩
        · cases stopped
          · simp [h0, h1, h2, h3] at h
            obtain ⟨⟨⟨a, b⟩, c⟩, d⟩ := h
            refine ⟨by simp [a]; intros; omega, by simp [b]; omega, by simp [c]; intros; omega, by simp [d]⟩
          · simp [h0, h1, h2, h3] at h
            subst h
            refine ⟨by simp [d7.symm]; intros; omega, by simp [d8.symm]; omega, by simp [d9.symm]; intros; omega, by simp; omega⟩

theorem C02_check_fits_sound (cap size : Int) (els : List Int) (h : Check.fitsClause cap size els = true) :
    ∀ el ∈ els, size + el > cap := by
  intro el hel
  simp only [Check.fitsClause, List.all_eq_true, decide_eq_true_eq] at h
  exact h el hel

theorem C02_check_refusal_sound_persistent (block stopped : Bool) (cap sizeBefore el : Int) (st : String)
    (h : Check.refusalClause true block stopped cap sizeBefore el st = true) :
    (st = "full" ↔ (block = false ∧ sizeBefore + el > cap)) ∧
    (st = "big" ↔ (block = true ∧ sizeBefore + el > cap ∧ el > cap)) ∧ st ≠ "inv" := by
  have d1 : ("full" : String) ≠ "inv" := by decide
  have d2 : ("full" : String) ≠ "big" := by decide
  have d3 : ("inv" : String) ≠ "big" := by decide
  unfold Check.refusalClause Check.expectedRefusal at h
  simp only [if_true] at h
  by_cases h3 : sizeBefore + el > cap
  · cases block
    · simp [h3] at h
      subst h
      exact ⟨by simp; omega, by simp [d2], d1⟩
    · by_cases h2 : el > cap
      · simp [h3, h2] at h
        subst h
        exact ⟨by simp [d2.symm], by simp; omega, d3.symm⟩
      · simp [h3, h2] at h
        obtain ⟨⟨⟨a, b⟩, c⟩, _⟩ := h
        exact ⟨by simp [a], by simp [c]; intros; omega, b⟩
  · simp [h3] at h
    obtain ⟨⟨⟨a, b⟩, c⟩, _⟩ := h
    exact ⟨by simp [a]; intros; omega, by simp [c]; intros; omega, b⟩

theorem C02_check_blocked_sound (persistent : Bool) (size : Int) (none : Bool) (blocked : Nat)
    (h : Check.blockedClause persistent size none blocked = true) (hb : blocked ≠ 0) :
    (persistent = false → size ≠ 0) ∧ (persistent = true → none = false) := by
  unfold Check.blockedClause at h
  cases persistent <;> cases none <;> simp [hb] at h <;> simp [h]

theorem C02_check_routing_sound (outcomes : List (Nat × Nat)) (p : Nat) (st : String)
    (h : Check.routingClause outcomes p st = true) :
    ∃ e, outcomes.lookup p = some e ∧ (e = 0 → st = "nil") ∧ (e ≠ 0 → st = s!"e{e}") := by
  unfold Check.routingClause at h
  cases hl : outcomes.lookup p with
  | none => simp [hl] at h
  | some e =>
    cases e with
    | zero => simp [hl] at h; exact ⟨0, rfl, fun _ => h, fun a => absurd rfl a⟩
    | succ n => simp [hl] at h; exact ⟨n + 1, rfl, fun a => by omega, fun _ => h⟩

theorem nodupB_sound (l : List Nat) (h : Check.nodupB l = true) : l.Nodup := by
  induction l with
  | nil => simp
  | cons a t ih =>
    simp only [Check.nodupB, Bool.and_eq_true, Bool.not_eq_true', List.contains_eq_mem, decide_eq_false_iff_not] at h
    exact List.nodup_cons.mpr ⟨h.1, ih h.2⟩

/-- the soak monitor: if it accepts an event log of a native-scheduler run then on that log nothing was handed over
twice, everything handed over came from an Offer that was not refused (and was not zero-sized for the memory queue),
every request whose Offer reported success was handed over, every sampled size was within `[0, cap]` and the size after
the drain was 0 -/
theorem C02_check_soak_sound (c : Check.SCfg) (evs : List Check.SEv) (h : Check.soakAll c evs = true) :
    (Check.handedOf evs).Nodup ∧
    (∀ id ∈ Check.handedOf evs, ∃ r ∈ Check.retsOf evs, r.1 = id ∧ Check.mayBeQueued c r = true) ∧
    (∀ r ∈ Check.retsOf evs, Check.surelyQueued c r = true → r.1 ∈ Check.handedOf evs) ∧
    (∀ n ∈ Check.sizesOf evs, 0 ≤ n ∧ n ≤ c.cap) ∧ (∀ n ∈ Check.finalsOf evs, n = 0) ∧
    (∀ hd w, Check.SEv.stall hd w ∈ evs → w ≤ hd) := by
  simp only [Check.soakAll, Bool.and_eq_true] at h
  obtain ⟨⟨⟨⟨⟨⟨h1, h2⟩, h3⟩, h4⟩, _⟩, _⟩, h7⟩ := h
  refine ⟨nodupB_sound _ h1, ?_, ?_, ?_, ?_, ?_⟩
  · intro id hid
    simp only [Check.soakOnlyAccepted, List.all_eq_true, List.any_eq_true] at h2
    obtain ⟨r, hr, hrr⟩ := h2 id hid
    simp only [Bool.and_eq_true, beq_iff_eq] at hrr
    exact ⟨r, hr, hrr.1, hrr.2⟩
  · intro r hr hs
    simp only [Check.soakAllHanded, List.all_eq_true] at h3
    have := h3 r hr
    simpa [hs] using this
  · intro n hn
    simp only [Check.soakSizes, Bool.and_eq_true, List.all_eq_true] at h4
    simpa using h4.1 n hn
  · intro n hn
    simp only [Check.soakSizes, Bool.and_eq_true, List.all_eq_true] at h4
    simpa using h4.2 n hn
  · intro hd w hm
    simp only [Check.soakStall, List.all_eq_true] at h7
    simpa using h7 _ hm

theorem C02_check_parked_sound (queued parked : Nat) (h : Check.parkedClause queued parked = true) :
    queued = 0 ∨ parked = 0 := by
  simpa [Check.parkedClause] using h

/-! ## what the cond-level oracle `CMon` simulates is the LTS's own signal accounting -/

/-- signal conservation in `cond.go` alone, for every schedule of Wait / Signal / cancellations (no Broadcast — the
queues never broadcast on this cond) and every finite cover `L` of the goroutines that have called Wait:
`#registered + #unconsumed signals = #goroutines inside Wait`.  This is the accounting `CMon` replays from the
implementation's returns (`credits` = unconsumed signals, `inside`). -/
theorem C02_cond_signal_conservation (ls : List CLabel) (s : CSt) (hl : ∀ l ∈ ls, l ≠ .broadcast) (hr : crun {} ls = some s)
    (L : List Nat) (hn : L.Nodup) (hc : ∀ i, (s.ws i).ph ≠ .idle → i ∈ L) :
    s.waiters.length + cntF creditW s.ws L = cntF insideW s.ws L := by
  have h0 : Conserved ({} : CSt) := by
    intro L _ _
    have : ∀ L : List Nat, cntF creditW ({} : CSt).ws L = 0 ∧ cntF insideW ({} : CSt).ws L = 0 := by
      intro L
      induction L with
      | nil => exact ⟨rfl, rfl⟩
      | cons a t ih => simp [cntF, creditW, insideW, ih.1, ih.2]
    simp [this L]
  exact Conserved.run ls InvA.init h0 hl hr L hn hc

/-- consequences used by `CMon`: a `Signal` is effective exactly when fewer signals than waiting goroutines are
outstanding (`credits < inside`), and once the select exits have been taken (run-to-quiescence) every unconsumed
signal belongs to a goroutine queued for the lock — so `credits ≤ #queued` on every conforming run, and a waiter
asleep in the select while `credits > #queued` is a lost wake-up -/
theorem C02_cond_credits_are_queued (ls : List CLabel) (s : CSt) (hl : ∀ l ∈ ls, l ≠ .broadcast) (hr : crun {} ls = some s)
    (L : List Nat) (hn : L.Nodup) (hc : ∀ i, (s.ws i).ph ≠ .idle → i ∈ L) :
    (s.waiters ≠ [] ↔ cntF creditW s.ws L < cntF insideW s.ws L) ∧
    ((∀ i, cfire s (.wakeTok i) = none) → ∀ i, (s.ws i).sig = true → (s.ws i).ph = .wokenTok ∨ (s.ws i).ph = .wokenCtx) := by
  have hcons := C02_cond_signal_conservation ls s hl hr L hn hc
  have hA := InvA.run ls InvA.init hr
  refine ⟨?_, ?_⟩
  · constructor
    · intro hne
      have : 0 < s.waiters.length := List.length_pos_iff.mpr hne
      omega
    · intro hlt hnil
      rw [hnil] at hcons
      simp at hcons
      omega
  · intro hq i hs
    rcases hA.sigPh i hs with a | a | a
    · have := hq i
      simp [cfire, a, hs] at this
    · exact Or.inl a
    · exact Or.inr a

/-! ## signal conservation of `cond.go` for EVERY schedule, `Broadcast` included (`Lemmas/C02CondB.lean`)

The two theorems above carry the hypothesis "no `Broadcast` in the schedule" (written when the queues only signalled).  Since the
repair "space is freed with `Broadcast`" the queues do broadcast on `hasMoreSpace`; the hypothesis is removed here. -/

/-- `#registered + #unconsumed signals = #goroutines inside Wait` after ANY schedule of Wait / Signal / Broadcast / cancellations -/
theorem C02_cond_signal_conservation_all (ls : List CLabel) (s : CSt) (hr : crun {} ls = some s)
    (L : List Nat) (hn : L.Nodup) (hc : ∀ i, (s.ws i).ph ≠ .idle → i ∈ L) :
    s.waiters.length + cntF creditW s.ws L = cntF insideW s.ws L := by
  have h0 : Conserved ({} : CSt) := by
    intro L _ _
    have : ∀ L : List Nat, cntF creditW ({} : CSt).ws L = 0 ∧ cntF insideW ({} : CSt).ws L = 0 := by
      intro L
      induction L with
      | nil => exact ⟨rfl, rfl⟩
      | cons a t ih => simp [cntF, creditW, insideW, ih.1, ih.2]
    simp [this L]
  exact Conserved.runAll ls InvA.init h0 hr L hn hc

/-- the consequences `CMon` uses, for every schedule, `Broadcast` included -/
theorem C02_cond_credits_are_queued_all (ls : List CLabel) (s : CSt) (hr : crun {} ls = some s)
    (L : List Nat) (hn : L.Nodup) (hc : ∀ i, (s.ws i).ph ≠ .idle → i ∈ L) :
    (s.waiters ≠ [] ↔ cntF creditW s.ws L < cntF insideW s.ws L) ∧
    ((∀ i, cfire s (.wakeTok i) = none) → ∀ i, (s.ws i).sig = true → (s.ws i).ph = .wokenTok ∨ (s.ws i).ph = .wokenCtx) := by
  have hcons := C02_cond_signal_conservation_all ls s hr L hn hc
  have hA := InvA.run ls InvA.init hr
  refine ⟨?_, ?_⟩
  · constructor
    · intro hne
      have : 0 < s.waiters.length := List.length_pos_iff.mpr hne
      omega
    · intro hlt hnil
      rw [hnil] at hcons
      simp at hcons
      omega
  · intro hq i hs
    rcases hA.sigPh i hs with a | a | a
    · have := hq i
      simp [cfire, a, hs] at this
    · exact Or.inl a
    · exact Or.inr a

/-- non-vacuity: two waiters, a Broadcast, one of them cancelled meanwhile: 0 registered + 2 credits = 2 inside -/
example : (crun {} [.wait 0, .wait 1, .cancel 1, .broadcast]).map
    (fun s => (s.waiters, (s.ws 0).sig, (s.ws 1).sig, (s.ws 0).ph, (s.ws 1).ph)) = some ([], true, true, .sel, .sel) := by rfl

/-! ## audit follow-up: wait_for_result converse; persistent queue from an arbitrary start; the literal release clause -/

/-- wait_for_result, converse of `C02_result_routing`: once a request has finished, its outcome is in the channel until
its producer takes it — so a producer whose context is alive has `getRes` enabled and returns exactly that outcome;
it can stay in `Offer` only while its request is unfinished -/
theorem C02_result_delivered {k : Cfg} {s : St} (hk : 0 ≤ k.cap) (hw : k.wfr = true) (hr : Reachable k s) (p : Nat)
    (hp : (s.ps p).ph = .waitRes) (hf : p ∈ s.finished) :
    ∃ e, s.results.lookup p = some e ∧ (p, e) ∈ s.outcomes ∧ (fire k s (.getRes p)).isSome = true := by
  have hRA : InvRA k s := by
    have : Inv k s ∧ InvRA k s := by
      refine reachable_induction k (fun s => Inv k s ∧ InvRA k s) ⟨Inv.reachable hk ⟨[], rfl⟩, ?_⟩ ?_ s hr
      · intro _ q hq; simp at hq
      · intro s l s' ⟨hI, hA⟩ hf
        exact ⟨⟨hI.H.step hf, hI.C.step hf, hI.Z.step hI.H hI.C hf, hI.W.step hI.C hI.Z hf⟩, hA.step hI hf⟩
    exact this.2
  have hs := hRA hw p hp hf
  cases hl : s.results.lookup p with
  | none => rw [hl] at hs; cases hs
  | some e =>
    refine ⟨e, rfl, (InvR.reachable hr).resOut _ (lookup_mem _ _ _ hl), ?_⟩
    simp [fire, hp, hl]

/-- **persistent queue started on arbitrary storage** (restart with stored items, stale `si` snapshot, lowered capacity):
the reported size is never negative; it never exceeds `max(capacity, restored size)` — so it is within the capacity from
the first moment it is (the queue only ever grows up to the capacity); whenever nothing is queued it is at most the summed
size of what is in flight, hence 0 once everything has finished; FIFO / exactly-once hold as from an empty start.
What does NOT survive a stale or oversized start: `size ≤ capacity` and `size ≤ Σ unfinished` before the queue has been
read empty once. -/
theorem C02_persistent_size_any_start {k : Cfg} (hk : 0 ≤ k.cap) {s0 s : St} (h0 : PStart s0) (hr : PReachableFrom k s0 s) :
    0 ≤ s.size ∧ (s.size ≤ k.cap ∨ s.size ≤ s0.size) ∧ (s.items = [] → s.size ≤ sumSz s.inflight) ∧
    (s.items = [] → s.inflight = [] → s.size = 0) ∧ s.handed ++ s.items.map Prod.fst = s.accepted ∧ s.handed.Nodup := by
  obtain ⟨hH, hS⟩ := from_start hk h0 hr
  refine ⟨hS.nonneg, hS.bound, hS.emptied, ?_, hH.fifo, hH.handed_nodup⟩
  intro hi hf
  have := hS.emptied hi
  rw [hf] at this
  have := hS.nonneg
  simp [sumSz] at *
  omega

/-- the refusal rule needs no history at all: in ANY state (whatever size was restored) an `Offer` is answered "full" ⇔
not blocking ∧ size+el > cap, "too large" ⇔ blocking ∧ size+el > cap ∧ el > cap, waits ⇔ blocking ∧ size+el > cap ∧ el ≤ cap -/
theorem C02_persistent_refusal_exact_any_state (k : Cfg) (s s' : St) (p : Nat) (el : Int)
    (hf : pfire k s (.offer p el) = some s') :
    ((s'.ps p).ph = .done .full ↔ (k.block = false ∧ s.size + el > k.cap)) ∧
    ((s'.ps p).ph = .done .tooLarge ↔ (k.block = true ∧ s.size + el > k.cap ∧ el > k.cap)) ∧
    ((s'.ps p).ph = .sel ↔ (k.block = true ∧ s.size + el > k.cap ∧ el ≤ k.cap)) ∧
    ((s'.ps p).ph = .done .ok ↔ s.size + el ≤ k.cap) := by
  simp only [pfire] at hf
  split at hf
  · cases hf
    have hbf : ∀ b : Bool, ¬ b = true → b = false := by intro b hb; cases b <;> simp_all
    unfold ptryAdd
    split
    · rename_i h3
      split
      · rename_i hb
        split
        · rename_i hbig
          simp only [refuse, upd_same]
          refine ⟨?_, ?_, ?_, ?_⟩ <;> simp <;> (intros; first | omega | simp_all)
        · rename_i hbig
          simp only [register, upd_same]
          refine ⟨?_, ?_, ?_, ?_⟩ <;> simp <;> (intros; first | omega | simp_all)
      · rename_i hb
        simp only [refuse, upd_same]
        have := hbf _ hb
        refine ⟨?_, ?_, ?_, ?_⟩ <;> simp <;> (intros; first | omega | simp_all)
    · rename_i h3
      simp only [paccept, upd_same]
      refine ⟨?_, ?_, ?_, ?_⟩ <;> simp <;> (intros; first | omega | simp_all)
  · cases hf

/-- non-vacuity: two stored requests (sizes 3 and 4), restored size 50 (stale), capacity 5 -/
def sRestart : St :=
  { items := [(100, 3), (101, 4)], size := 50, accepted := [100, 101],
    ps := fun p => if p = 100 ∨ p = 101 then { ph := .done .ok } else {} }

example : PStart sRestart := by
  refine ⟨⟨rfl, ?_, by simp [sRestart], by decide, by simp [sRestart]⟩, ?_, rfl, rfl, rfl, rfl, ?_, by decide, by simp [sRestart]⟩
  · intro p hp
    simp only [sRestart, List.mem_cons, List.mem_singleton, List.not_mem_nil, or_false] at hp
    right; exact ⟨.ok, by simp [sRestart, hp]⟩
  · intro p
    simp only [sRestart]
    split <;> simp [Ph.inCond]
  · intro x hx
    simp only [sRestart, List.mem_cons, List.mem_singleton, List.not_mem_nil, or_false] at hx
    rcases hx with rfl | rfl <;> decide

example : (prunSched { cap := 5, block := false, wfr := false } sRestart [.offer 1 1, .read 0, .read 0, .offer 2 2]).map
    (fun s => (s.size, (s.ps 1).ph, (s.ps 2).ph)) = some (2, .done .full, .done .ok) := by rfl

def k10 : Cfg := { cap := 10, block := true, wfr := false }
def hol : List Label := [.offer 0 9, .offer 1 5, .offer 2 2, .read 7, .complete 0 0, .wakeTok 1, .relockTok 1]

/-- the literal reading of the release clause: at rest, whoever is still blocked does not fit -/
def C02_release_on_space_full : Prop :=
  ∀ (k : Cfg) (s : St), 0 ≤ k.cap → Reachable k s → Quiescent k s →
    ∀ p, (s.ps p).ph.inCond → s.size + (s.ps p).el > k.cap

/-- **the release clause as worded holds for the repaired code** (space is freed with `Broadcast`: every waiter
re-checks its own size): in every reachable state at rest, a producer that is still inside `cond.Wait` does not fit —
"released once earlier requests finish and free enough space".  (Before the repair this was false: one `Signal` per
completion; the head-of-line schedule `hol` below was the kernel-checked witness `C02_release_on_space_full_fails`,
now historical.) -/
theorem C02_release_on_space_full_holds : C02_release_on_space_full := by
  intro k s hk hr hq p hp
  have hI := Inv.reachable hk hr
  have hF := (InvF.reachable hk hr).1
  have hnoTok : (s.ps p).ph ≠ .wokenTok := by
    intro a; have := hq (.relockTok p) rfl; simp [fire, a] at this
  have hnoCtx : (s.ps p).ph ≠ .wokenCtx := by
    intro a; have := hq (.relockCtx p) rfl; simp [fire, a] at this
  rcases hp with a | a | a
  · have hsig : (s.ps p).sig = false := by
      cases hs : (s.ps p).sig with
      | false => rfl
      | true => have := hq (.wakeTok p) rfl; simp [fire, a, hs] at this
    exact hF p ((hI.C.wIff p).mpr ⟨Or.inl a, hsig⟩)
  · exact absurd a hnoTok
  · exact absurd a hnoCtx

/-- the same for the persistent queue (both places where it frees space broadcast) -/
theorem C02_persistent_release_on_space (hk : 0 ≤ k.cap) (hr : PReachable k s) (hq : PQuiescent k s) :
    ∀ p, (s.ps p).ph.inCond → s.size + (s.ps p).el > k.cap := by
  intro p hp
  have hI := Invp.reachable hk hr
  have hF := InvF.preachable hk hr
  have hnoTok : (s.ps p).ph ≠ .wokenTok := by
    intro a; have := hq (.relockTok p) rfl; simp [pfire, a] at this
  have hnoCtx : (s.ps p).ph ≠ .wokenCtx := by
    intro a; have := hq (.relockCtx p) rfl; simp [pfire, a] at this
  rcases hp with a | a | a
  · have hsig : (s.ps p).sig = false := by
      cases hs : (s.ps p).sig with
      | false => rfl
      | true => have := hq (.wakeTok p) rfl; simp [pfire, a, hs] at this
    exact hF p ((hI.C.wIff p).mpr ⟨Or.inl a, hsig⟩)
  · exact absurd a hnoTok
  · exact absurd a hnoCtx

/-- `Shutdown` releases the producers blocked on overflow: on a stopped memory queue nobody is registered on
`hasMoreSpace`, and at rest nobody is inside `cond.Wait` at all (they were refused with `errQueueIsStopped`) -/
theorem C02_nobody_waits_after_shutdown (hk : 0 ≤ k.cap) (hr : Reachable k s) (hs : s.stopped = true) :
    s.waiters = [] ∧ (Quiescent k s → ∀ p, ¬ (s.ps p).ph.inCond) := by
  have hI := Inv.reachable hk hr
  have hw := (InvF.reachable hk hr).2 hs
  refine ⟨hw, ?_⟩
  intro hq p hp
  rcases hp with a | a | a
  · cases hsg : (s.ps p).sig with
    | true => have := hq (.wakeTok p) rfl; simp [fire, a, hsg] at this
    | false =>
      have := (hI.C.wIff p).mpr ⟨Or.inl a, hsg⟩
      rw [hw] at this; cases this
  · have := hq (.relockTok p) rfl; simp [fire, a] at this
  · have := hq (.relockCtx p) rfl; simp [fire, a] at this

/-! ## liveness over infinite runs, under explicit fairness hypotheses

`IsRun`, `SchedFair` (scheduler / mutex: minimal progress of the goroutines' own steps), `ConsFair` (the consumers keep
taking and completing requests) and `OnlyFrom` are defined in `Lemmas/C02Fair.lean`.  These two theorems are the
"in EVERY fair run" counterparts of `C02_quiescence_reachable` and of the existential `C02_drain_releases_all`; they are
what `C02_deadlock_free_partial` leaves open. -/

section fair
variable {ρ : Nat → St} {lab : Nat → Option Label}

/-- **every fair run comes to rest once the environment is quiet**: if from instant `n0` on only goroutine steps or
stutters happen (no Offer, cancel, read, completion, shutdown) and the scheduler is fair (minimal progress), the run
reaches a state at rest and stays in it for ever; in that state the release clause holds as worded: whoever is still
inside `cond.Wait` does not fit (`size + el > cap`), on a running and non-empty queue.  No bound on the number of
threads, no assumption on the run before `n0`. -/
theorem C02_fair_run_comes_to_rest (hk : 0 ≤ k.cap) (hr : IsRun k ρ lab) (hf : SchedFair k ρ lab) (n0 : Nat)
    (hq : OnlyFrom lab n0 Label.internal) :
    ∃ m, n0 ≤ m ∧ Quiescent k (ρ m) ∧ (∀ j, m ≤ j → ρ j = ρ m) ∧
      (∀ p, ((ρ m).ps p).ph.inCond →
        (ρ m).size + ((ρ m).ps p).el > k.cap ∧ (ρ m).stopped = false ∧ 0 < (ρ m).size) := by
  obtain ⟨L, hcov⟩ := covers_exists (run_reachable hr n0)
  have h0 : DrainInv k L (ρ n0) := ⟨run_reachable hr n0, hcov⟩
  have hqd := onlyFrom_internal_drain hq
  have adv : ∀ n, n0 ≤ n → ¬ Quiescent k (ρ n) → ∃ m, n ≤ m ∧ Phi L (ρ (m+1)) < Phi L (ρ n) := by
    intro n hn hqu
    obtain ⟨m, hm, l, hl, hli⟩ := hf n hqu
    have hmono := phi_mono_internal hk hr hq h0 n hn (m - n)
    rw [Nat.add_sub_cancel' hm] at hmono
    obtain ⟨_, _, _, o4, _⟩ := step_measure hk (drainInv_at hk hr hqd h0 m (by omega)) (hr.2 m) (fun l hl => hqd m (by omega) l hl)
    exact ⟨m, hm, by have := o4 l hl hli; omega⟩
  have main : ∀ F n, n0 ≤ n → Phi L (ρ n) ≤ F → ∃ m, n ≤ m ∧ Quiescent k (ρ m) ∧ ∀ j, m ≤ j → ρ j = ρ m := by
    intro F
    induction F with
    | zero =>
      intro n hn hF
      by_cases hqu : Quiescent k (ρ n)
      · refine ⟨n, Nat.le_refl _, hqu, fun j hj => ?_⟩
        have := rest_forever hr hq n hn hqu (j - n)
        rwa [Nat.add_sub_cancel' hj] at this
      · obtain ⟨m, _, h⟩ := adv n hn hqu
        omega
    | succ F ih =>
      intro n hn hF
      by_cases hqu : Quiescent k (ρ n)
      · refine ⟨n, Nat.le_refl _, hqu, fun j hj => ?_⟩
        have := rest_forever hr hq n hn hqu (j - n)
        rwa [Nat.add_sub_cancel' hj] at this
      · obtain ⟨m, hm, h⟩ := adv n hn hqu
        obtain ⟨m', a, b, c⟩ := ih (m+1) (by omega) (by omega)
        exact ⟨m', by omega, b, c⟩
  obtain ⟨m, hm, hqu, hst⟩ := main (Phi L (ρ n0)) n0 (Nat.le_refl _) (Nat.le_refl _)
  refine ⟨m, hm, hqu, hst, ?_⟩
  intro p hp
  have hrm := run_reachable hr m
  have hrun : (ρ m).stopped = false := by
    cases hs : (ρ m).stopped with
    | false => rfl
    | true => exact absurd hp ((C02_nobody_waits_after_shutdown hk hrm hs).2 hqu p)
  exact ⟨C02_release_on_space_full_holds k (ρ m) hk hrm hqu p hp, hrun,
    (C02_blocked_implies_pending_completion hk hrm hrun hqu p hp).1⟩

/-- **every fair run releases every blocked producer** (the liveness clause of the property, for every run instead of
some schedule): if from instant `n0` on there is no new Offer, no cancellation and no shutdown, the queue is running,
the scheduler is fair (minimal progress) and the consumers keep working (`ConsFair`), then at some later instant NO
producer is inside `cond.Wait`, and every producer that was waiting for space at `n0` with a live context has been
ENQUEUED (not refused).  Lexicographic ranking (`Omega`, `Phi`): reads/completions decrease `Omega`, goroutine steps
decrease `Phi` without increasing `Omega`, nothing else happens. -/
theorem C02_fair_run_releases_all (hk : 0 ≤ k.cap) (hr : IsRun k ρ lab) (hf : SchedFair k ρ lab) (hc : ConsFair ρ)
    (n0 : Nat) (hq : OnlyFrom lab n0 Label.drain) (hs : (ρ n0).stopped = false) :
    ∃ m, n0 ≤ m ∧ (∀ p, ¬ ((ρ m).ps p).ph.inCond) ∧
      ∀ p, (((ρ n0).ps p).ph = .sel ∨ ((ρ n0).ps p).ph = .wokenTok) → ((ρ n0).ps p).canc = false →
        p ∈ (ρ m).accepted := by
  obtain ⟨L, hcov⟩ := covers_exists (run_reachable hr n0)
  have h0 : DrainInv k L (ρ n0) := ⟨run_reachable hr n0, hcov⟩
  have stepAt : ∀ m, n0 ≤ m →
      Omega L (ρ (m+1)) ≤ Omega L (ρ m) ∧
      (Omega L (ρ (m+1)) < Omega L (ρ m) ∨ (Phi L (ρ (m+1)) ≤ Phi L (ρ m) ∧ served (ρ (m+1)) = served (ρ m))) ∧
      (∀ l, lab m = some l → l.internal = true → Phi L (ρ (m+1)) < Phi L (ρ m)) := by
    intro m hm
    obtain ⟨_, o1, o2, o4, _⟩ := step_measure hk (drainInv_at hk hr hq h0 m hm) (hr.2 m) (fun l hl => hq m hm l hl)
    exact ⟨o1, o2, o4⟩
  have core : ∀ F, (∀ n, n0 ≤ n → Phi L (ρ n) < F →
        ∃ m, n ≤ m ∧ (Omega L (ρ m) < Omega L (ρ n) ∨ ∀ p, ¬ ((ρ m).ps p).ph.inCond)) →
      ∀ n, n0 ≤ n → Phi L (ρ n) ≤ F →
        ∃ m, n ≤ m ∧ (Omega L (ρ m) < Omega L (ρ n) ∨ ∀ p, ¬ ((ρ m).ps p).ph.inCond) := by
    intro F ihF n hn hF
    by_cases hnc : ∀ p, ¬ ((ρ n).ps p).ph.inCond
    · exact ⟨n, Nat.le_refl _, Or.inr hnc⟩
    · obtain ⟨p, hp'⟩ := Classical.not_forall.mp hnc
      have hp := Classical.not_not.mp hp'
      have hi := drainInv_at hk hr hq h0 n hn
      have hrun := running_along hk hr hq h0 hs n hn
      by_cases hqu : Quiescent k (ρ n)
      · obtain ⟨_, hne⟩ := C02_blocked_implies_pending_completion hk hi.reach hrun hqu p hp
        obtain ⟨m, hm, hsv⟩ := hc n hne
        rcases segment hk hr hq h0 n hn (m - n) with ⟨j, a, _, c⟩ | ⟨a, _, _⟩
        · exact ⟨j, a, Or.inl c⟩
        · rw [Nat.add_sub_cancel' hm] at a
          obtain ⟨_, o2, _⟩ := stepAt m (by omega)
          rcases o2 with o2 | ⟨_, o3⟩
          · exact ⟨m+1, by omega, Or.inl (by omega)⟩
          · omega
      · obtain ⟨m, hm, l, hl, hli⟩ := hf n hqu
        rcases segment hk hr hq h0 n hn (m - n) with ⟨j, a, _, c⟩ | ⟨a, b, _⟩
        · exact ⟨j, a, Or.inl c⟩
        · rw [Nat.add_sub_cancel' hm] at a b
          obtain ⟨o1, _, o4⟩ := stepAt m (by omega)
          have hlt := o4 l hl hli
          obtain ⟨m', hm', h⟩ := ihF (m+1) (by omega) (by omega)
          rcases h with h | h
          · exact ⟨m', by omega, Or.inl (by omega)⟩
          · exact ⟨m', by omega, Or.inr h⟩
  have drop : ∀ F n, n0 ≤ n → Phi L (ρ n) ≤ F →
      ∃ m, n ≤ m ∧ (Omega L (ρ m) < Omega L (ρ n) ∨ ∀ p, ¬ ((ρ m).ps p).ph.inCond) := by
    intro F
    induction F with
    | zero => exact core 0 (fun n _ h => absurd h (Nat.not_lt_zero _))
    | succ F ih => exact core (F+1) (fun n hn h => ih n hn (by omega))
  have main : ∀ W n, n0 ≤ n → Omega L (ρ n) ≤ W → ∃ m, n ≤ m ∧ ∀ p, ¬ ((ρ m).ps p).ph.inCond := by
    intro W
    induction W with
    | zero =>
      intro n hn hW
      obtain ⟨m, hm, h⟩ := drop (Phi L (ρ n)) n hn (Nat.le_refl _)
      rcases h with h | h
      · omega
      · exact ⟨m, hm, h⟩
    | succ W ih =>
      intro n hn hW
      obtain ⟨m, hm, h⟩ := drop (Phi L (ρ n)) n hn (Nat.le_refl _)
      rcases h with h | h
      · obtain ⟨m', a, b⟩ := ih m (by omega) (by omega)
        exact ⟨m', by omega, b⟩
      · exact ⟨m, hm, h⟩
  obtain ⟨m, hm, hnc⟩ := main (Omega L (ρ n0)) n0 (Nat.le_refl _) (Nat.le_refl _)
  refine ⟨m, hm, hnc, ?_⟩
  intro p hp hcn
  rcases tracked_along hk hr hq p (Or.inl ⟨hp, hcn, hs⟩) m hm with ⟨a, _⟩ | a
  · rcases a with a | a
    · exact absurd (Or.inl a) (hnc p)
    · exact absurd (Or.inr (Or.inl a)) (hnc p)
  · exact a

end fair

/-! ## persistent queue: what `Size()` reports across lives (`Model/C02R.lean`: back-up cadence, restart, re-enqueue)

Every theorem is over ALL scripts of offers, reads, completions (also with a shutdown error), shutdowns and restarts
(with or without a preceding shutdown, with any new capacity and sizer), from an empty storage. -/

/-- the reported size is never negative, in any life, after any history -/
theorem C02_pq_size_never_negative (c : R.RCfg) (ops : List R.ROp) : 0 ≤ (R.run c {} ops).2.size :=
  (R.RInv.run R.RInv.init ops).nonneg

/-- requests sizer: right after EVERY (re)start — clean or not, whatever sizer, capacity and back-ups the earlier lives
had — the reported size is exactly the number of stored requests `wi - ri` (the stale `si` snapshot is not consulted and
every re-enqueued dispatched request counts 1).  Hence the observation "restored size > capacity" can only come from
more requests being stored than the (new) capacity, never from a wrong count. -/
theorem C02_pq_requests_sized_restart_exact (c : R.RCfg) (ops : List R.ROp) (c' : R.RCfg) (hc : c'.reqSized = true) :
    let s := (R.run c {} (ops ++ [.restart c'])).2
    s.size = ((s.wi - s.ri : Nat) : Int) := by
  have e : ∀ (ops : List R.ROp) (c : R.RCfg) (s0 : R.RSt),
      (R.run c s0 (ops ++ [.restart c'])).2 = R.restart c' (R.run c s0 ops).2 := by
    intro ops
    induction ops with
    | nil => intro c s0; rfl
    | cons o os ih => intro c s0; simp only [List.cons_append, R.run]; exact ih _ _
  have h := R.RInv.run (c := c) R.RInv.init ops
  simp only [e]
  exact R.restart_req_exact hc h

/-- every sizer: a (re)started queue with nothing queued reports 0 — the `si` snapshot is only consulted when something
is stored (this is the `emptyZero` hypothesis of `C02_persistent_size_any_start`, now proved for the constructor) -/
theorem C02_pq_restart_on_nothing_is_zero (c : R.RCfg) (ops : List R.ROp) (c' : R.RCfg) :
    let s := R.restart c' (R.run c {} ops).2
    s.wi = s.ri → s.size = 0 :=
  fun he => R.restart_empty_zero (R.RInv.run R.RInv.init ops) he

/-- a new life sees exactly the read and write index the previous one had (storage never fails), in particular
`ri ≤ wi`: the unsigned subtraction `wi - ri` of `initPersistentContiguousStorage` cannot wrap -/
theorem C02_pq_restart_recovers_indexes (c : R.RCfg) (ops : List R.ROp) :
    let s := (R.run c {} ops).2
    R.restartIdx s = (s.ri, s.wi) ∧ s.ri ≤ s.wi ∧ s.sDi = s.disp :=
  let h := R.RInv.run (c := c) R.RInv.init ops
  ⟨R.restartIdx_eq h, h.le, h.syncD⟩

/-- an `Offer` is either refused and stores NOTHING (write index, stored requests and size unchanged: the request can never be
handed over), or it is accepted and the write is committed — also when the periodic back-up of the size that follows it fails
(`siFails`): a failing back-up never turns a committed write into a refusal -/
theorem C02_pq_offer_refused_iff_nothing_stored (c : R.RCfg) (s : R.RSt) (n : Nat) :
    ((R.offer c s n).2 = false → (R.offer c s n).1.wi = s.wi ∧ (R.offer c s n).1.store = s.store ∧ (R.offer c s n).1.size = s.size) ∧
    ((R.offer c s n).2 = true → (R.offer c s n).1.wi = s.wi + 1 ∧ (R.offer c s n).1.size = s.size + R.sizeOf c n) := by
  unfold R.offer
  simp only []
  split
  · exact ⟨fun _ => ⟨rfl, rfl, rfl⟩, fun h => (by cases h)⟩
  · refine ⟨fun h => (by cases h), fun _ => ?_⟩
    obtain ⟨a1, _, a3, _⟩ := R.writeInternal_fields c { s with next := s.next + 1 } s.next n
    exact ⟨a3, a1⟩

/-- soundness of the clause functions the `pqsize` verdict is computed from -/
theorem C02_check_pqsize_sound (cap sizeBefore el size sumU sumF : Int) (full reqSized : Bool) (nQ : Nat) :
    (R.refusalClause cap sizeBefore el full = true → (full = true ↔ sizeBefore + el > cap)) ∧
    (R.restartClause reqSized size nQ = true → (nQ = 0 → size = 0) ∧ (reqSized = true → size = (nQ : Int))) ∧
    (R.freshClause cap size sumU = true → 0 ≤ size ∧ size ≤ cap ∧ size ≤ sumU) ∧
    (R.anyClause size sumF nQ = true → 0 ≤ size ∧ (nQ = 0 → size ≤ sumF)) := by
  refine ⟨?_, ?_, ?_, ?_⟩
  · intro h
    simp only [R.refusalClause, beq_iff_eq] at h
    rw [h]; simp
  · intro h
    simp only [R.restartClause, Bool.and_eq_true, Bool.or_eq_true, bne_iff_ne, beq_iff_eq, Bool.not_eq_true'] at h
    refine ⟨fun h0 => ?_, fun hr => ?_⟩
    · rcases h.1 with a | a
      · exact absurd h0 a
      · exact a
    · rcases h.2 with a | a
      · rw [hr] at a; cases a
      · exact a
  · intro h
    simp only [R.freshClause, Bool.and_eq_true, decide_eq_true_eq] at h
    exact ⟨h.1.1, h.1.2, h.2⟩
  · intro h
    simp only [R.anyClause, Bool.and_eq_true, Bool.or_eq_true, bne_iff_ne, decide_eq_true_eq] at h
    refine ⟨h.1, fun h0 => ?_⟩
    rcases h.2 with a | a
    · exact absurd h0 a
    · exact a

/-- non-vacuity: capacity 2, requests sizer: two requests accepted and read (the size is reset to 0 at `ri = wi`), two more
accepted, the process is killed: the new life re-enqueues the two dispatched requests and reports 4 > 2 — exact count,
above the capacity -/
example : (R.run { cap := 2, reqSized := true } {}
    [.offer 1, .offer 1, .read, .read, .offer 1, .offer 1, .restart { cap := 2, reqSized := true }]).2.size = 4 := by rfl

/-- non-vacuity: items sizer, a stale snapshot: the 5th write backs up size 5, three more writes, killed: restored 5 ≠ 8 -/
example : (R.run { cap := 100, reqSized := false } {}
    [.offer 1, .offer 1, .offer 1, .offer 1, .offer 1, .offer 1, .offer 1, .offer 1, .restart { cap := 100, reqSized := false }]).2.size = 5 := by rfl

/-! ## the consumer pool of `async_queue.go` (`Model/C02A.lean`): any number of consumers, memory or persistent queue -/

/-- the pool refines the queue: the queue behind a pool is a reachable state of `fire` (memory) / `pfire` (persistent), so
every theorem above (FIFO, exactly-once, size, refusal, wake-ups) holds for the queue as the exporter's consumers drive it -/
theorem C02_async_refines_queue {pl : A.Pool} {a : A.ASt} (hr : A.AReachable k pl a) :
    (pl.persistent = false → Reachable k a.q) ∧ (pl.persistent = true → PReachable k a.q) :=
  A.areach_queue hr

/-- the consumers' phases are consistent with the queue, in every reachable state: the consumers sleeping inside `Read`
(parked or notified) are exactly the pool's consumers in phase `parked`, none of them twice; a consumer has left its loop only
if the queue was shut down -/
theorem C02_async_consumer_phases {pl : A.Pool} {a : A.ASt} (hr : A.AReachable k pl a) :
    (∀ c, c ∈ a.q.cwait ++ a.q.cwoken ↔ a.cs c = .parked) ∧ (∀ c, c ∈ a.q.cwait ++ a.q.cwoken → c < pl.n) ∧
    (a.q.cwait ++ a.q.cwoken).Nodup ∧ (∀ c, a.cs c = .exited → a.q.stopped = true) :=
  let h := A.AInv.reachable hr
  ⟨fun c => ⟨fun hc => (h.inW c hc).1, h.parked c⟩, fun c hc => (h.inW c hc).2, h.nodup, h.exited⟩

/-- **the pool is work-conserving** ("every accepted request is handed to a consumer" at pool level): in every reachable
state at rest — no consumer and no producer goroutine can take a step of its own — of a running queue, a request is queued
only while EVERY one of the `numConsumers` consumers is inside `consumeFunc`.  Memory and persistent queue, any number of
consumers, every schedule. -/
theorem C02_async_work_conserving {pl : A.Pool} {a : A.ASt} (hr : A.AReachable k pl a) (hq : A.AQuiescent k pl a)
    (hs : a.q.stopped = false) (hi : a.q.items ≠ []) : ∀ c, c < pl.n → ∃ id, a.cs c = .busy id :=
  A.work_conserving hr hq hs hi

/-- **exactly-once at the level of `consumeFunc`**: in every reachable state of the pool, whoever is inside `consumeFunc`
holds a request that was handed over by the queue, and no two consumers hold the same request (with `C02_exactly_once` /
`C02_persistent_exactly_once` behind the pool: handed over once, to one consumer) -/
theorem C02_async_exactly_once {pl : A.Pool} {a : A.ASt} (hk : 0 ≤ k.cap) (hr : A.AReachable k pl a) :
    (∀ c id, a.cs c = .busy id → id ∈ a.q.handed) ∧ (∀ c c' id, a.cs c = .busy id → a.cs c' = .busy id → c = c') ∧
    a.q.handed.Nodup :=
  let h := A.BInv.reachable hk hr
  ⟨h.sub, h.inj, A.handed_nodup_of hk hr⟩

/-- soundness of the clause functions the `async` verdict is computed from -/
theorem C02_check_async_sound (n queued busy : Nat) (persistent deferred stopped : Bool) (left bs : List Nat) :
    (A.workClause n persistent deferred stopped queued busy = true → stopped = false → queued ≠ 0 → deferred = false ∧ busy = n) ∧
    (A.onceClause left bs = true → ∀ id ∈ bs, id ∉ left) := by
  refine ⟨?_, ?_⟩
  · intro h hs hq
    simp only [A.workClause, hs, Bool.and_false, Bool.false_or, Bool.or_eq_true, beq_iff_eq, Bool.and_eq_true,
      Bool.not_eq_true'] at h
    rcases h with h | h
    · exact absurd h hq
    · exact h
  · intro h id hid hl
    simp only [A.onceClause, Bool.and_eq_true, List.all_eq_true, Bool.not_eq_true'] at h
    have := h.1 id hid
    simp [hl] at this

/-- non-vacuity: two consumers, capacity 3: both park at start; three requests of size 1: the first two are taken, the
third waits while both consumers are inside `consumeFunc` — at rest, every hypothesis of `C02_async_work_conserving` holds -/
def poolDemo : List A.ALabel :=
  [.cread 0, .cread 1, .q (.offer 0 1), .crecheck 0, .q (.offer 1 1), .crecheck 1, .q (.offer 2 1)]

example : (A.arun { cap := 3, block := true, wfr := false } { n := 2, persistent := false } {} poolDemo).map
    (fun a => (a.q.items.map Prod.fst, a.cs 0, a.cs 1, a.q.cwait, a.q.cwoken, a.q.stopped)) =
    some ([2], .busy 0, .busy 1, [], [], false) := by rfl

/-! ## persistent queue: termination of the goroutines' own activity, and rest in every fair run (`Lemmas/C02PLive.lean`) -/

/-- persistent counterpart of `C02_deadlock_free_full`: from every reachable state the goroutines can take only boundedly
many steps on their own -/
def C02_persistent_deadlock_free_full : Prop :=
  ∀ (k : Cfg) (s : St), 0 ≤ k.cap → PReachable k s →
    ∃ n, ∀ ls, (∀ l ∈ ls, Label.internal l = true) → (prunSched k s ls).isSome = true → ls.length ≤ n

/-- it holds; the ranking `PPhi` weighs every notified consumer and every producer inside `cond.Wait` with `2·|threads|+1`,
because in the persistent queue a consumer's own step (reading the last stored request) broadcasts to all waiting producers -/
theorem C02_persistent_deadlock_free_full_holds : C02_persistent_deadlock_free_full := by
  intro k s hk hr
  obtain ⟨L, hc⟩ := pcovers_exists hr
  exact ⟨PPhi L s, fun ls hi hs => pinternal_run_bounded hk ls s hr hc hi hs⟩

/-- the persistent queue's own activity always comes to rest: some finite internal schedule reaches a state at rest, where
`C02_persistent_release_on_space`, `C02_persistent_no_lost_wakeup` and
`C02_persistent_no_request_waits_beside_parked_consumer` apply -/
theorem C02_persistent_quiescence_reachable (hk : 0 ≤ k.cap) (hr : PReachable k s) :
    ∃ ls s', (∀ l ∈ ls, Label.internal l = true) ∧ prunSched k s ls = some s' ∧ PQuiescent k s' := by
  obtain ⟨L, hc⟩ := pcovers_exists hr
  exact pexists_quiesce hk (PPhi L s) s hr hc (Nat.le_refl _)

/-- **every fair run of the persistent queue comes to rest once the environment is quiet** and stays there; in that state
whoever is still inside `cond.Wait` does not fit, and something is still queued or in flight (whose completion will
broadcast) — the release clause as worded, for every run under scheduler fairness (minimal progress) -/
theorem C02_persistent_fair_run_comes_to_rest {ρ : Nat → St} {lab : Nat → Option Label} (hk : 0 ≤ k.cap)
    (hr : PIsRun k ρ lab) (hf : PSchedFair k ρ lab) (n0 : Nat) (hq : InternalFrom lab n0) :
    ∃ m, n0 ≤ m ∧ PQuiescent k (ρ m) ∧ (∀ j, m ≤ j → ρ j = ρ m) ∧
      (∀ p, ((ρ m).ps p).ph.inCond →
        (ρ m).size + ((ρ m).ps p).el > k.cap ∧ ((ρ m).items ≠ [] ∨ (ρ m).inflight ≠ [])) := by
  obtain ⟨m, hm, hqu, hst⟩ := pfair_run_comes_to_rest hk hr hf n0 hq
  refine ⟨m, hm, hqu, hst, fun p hp => ?_⟩
  have hrm := prun_reachable hr m
  exact ⟨C02_persistent_release_on_space hk hrm hqu p hp, (C02_persistent_no_lost_wakeup hk hrm hqu).1 p hp⟩

/-- **every fair run of the persistent queue releases every blocked producer**: if from instant `n0` on there is no new
Offer, no cancellation and no shutdown, the queue is running, the scheduler is fair (minimal progress) and the consumers keep
working (`PConsFair`: whenever a request is stored or in flight, eventually one is taken or completed), then at some later
instant NO producer is inside `cond.Wait`.  Lexicographic ranking (`Omega`, `PPhi`). -/
theorem C02_persistent_fair_run_releases_all {ρ : Nat → St} {lab : Nat → Option Label} (hk : 0 ≤ k.cap) (hr : PIsRun k ρ lab)
    (hf : PSchedFair k ρ lab) (hc : PConsFair ρ) (n0 : Nat) (hq : DrainFrom lab n0) (hs : (ρ n0).stopped = false) :
    ∃ m, n0 ≤ m ∧ ∀ p, ¬ ((ρ m).ps p).ph.inCond := by
  obtain ⟨L, h0⟩ := pcovers_exists (prun_reachable hr n0)
  have core : ∀ F, (∀ n, n0 ≤ n → PPhi L (ρ n) < F →
        ∃ m, n ≤ m ∧ (Omega L (ρ m) < Omega L (ρ n) ∨ ∀ p, ¬ ((ρ m).ps p).ph.inCond)) →
      ∀ n, n0 ≤ n → PPhi L (ρ n) ≤ F →
        ∃ m, n ≤ m ∧ (Omega L (ρ m) < Omega L (ρ n) ∨ ∀ p, ¬ ((ρ m).ps p).ph.inCond) := by
    intro F ihF n hn hF
    by_cases hnc : ∀ p, ¬ ((ρ n).ps p).ph.inCond
    · exact ⟨n, Nat.le_refl _, Or.inr hnc⟩
    · obtain ⟨p, hp'⟩ := Classical.not_forall.mp hnc
      have hp := Classical.not_not.mp hp'
      by_cases hqu : PQuiescent k (ρ n)
      · have hne := (C02_persistent_no_lost_wakeup hk (prun_reachable hr n) hqu).1 p hp
        obtain ⟨m, hm, hsv⟩ := hc n hne
        rcases psegment hk hr hq h0 hs n hn (m - n) with ⟨j, a, _, c⟩ | ⟨a, _⟩
        · exact ⟨j, a, Or.inl c⟩
        · rw [Nat.add_sub_cancel' hm] at a
          obtain ⟨_, o0, _⟩ := pstep_measure hk hr hq m (by omega) (pcovers_along hk hr hq h0 hs m (by omega)).1
          refine ⟨m+1, by omega, Or.inl ?_⟩
          have e1 := omega_eq L (ρ (m+1))
          have e2 := omega_eq L (ρ m)
          omega
      · obtain ⟨m, hm, l, hl, hli⟩ := hf n hqu
        rcases psegment hk hr hq h0 hs n hn (m - n) with ⟨j, a, _, c⟩ | ⟨a, b⟩
        · exact ⟨j, a, Or.inl c⟩
        · rw [Nat.add_sub_cancel' hm] at a b
          obtain ⟨_, _, o1, _, o3, _⟩ := pstep_measure hk hr hq m (by omega) (pcovers_along hk hr hq h0 hs m (by omega)).1
          have hlt := o3 l hl hli
          obtain ⟨m', hm', h⟩ := ihF (m+1) (by omega) (by omega)
          rcases h with h | h
          · exact ⟨m', by omega, Or.inl (by omega)⟩
          · exact ⟨m', by omega, Or.inr h⟩
  have drop : ∀ F n, n0 ≤ n → PPhi L (ρ n) ≤ F →
      ∃ m, n ≤ m ∧ (Omega L (ρ m) < Omega L (ρ n) ∨ ∀ p, ¬ ((ρ m).ps p).ph.inCond) := by
    intro F
    induction F with
    | zero => exact core 0 (fun n _ h => absurd h (Nat.not_lt_zero _))
    | succ F ih => exact core (F+1) (fun n hn h => ih n hn (by omega))
  have main : ∀ W n, n0 ≤ n → Omega L (ρ n) ≤ W → ∃ m, n ≤ m ∧ ∀ p, ¬ ((ρ m).ps p).ph.inCond := by
    intro W
    induction W with
    | zero =>
      intro n hn hW
      obtain ⟨m, hm, h⟩ := drop (PPhi L (ρ n)) n hn (Nat.le_refl _)
      rcases h with h | h
      · omega
      · exact ⟨m, hm, h⟩
    | succ W ih =>
      intro n hn hW
      obtain ⟨m, hm, h⟩ := drop (PPhi L (ρ n)) n hn (Nat.le_refl _)
      rcases h with h | h
      · obtain ⟨m', a, b⟩ := ih m (by omega) (by omega)
        exact ⟨m', by omega, b⟩
      · exact ⟨m, hm, h⟩
  exact main (Omega L (ρ n0)) n0 (Nat.le_refl _) (Nat.le_refl _)

/-- non-vacuity: capacity 2, blocking: the consumer parks, request 0 (size 2) is stored and taken (the size is reset to 0 at
`ri = wi`), requests 1 and 2 fill the queue, producer 3 (size 1) blocks; the completion of request 0 (size 2 - 2 = 0) broadcasts:
producer 3 still has to wake up and re-lock — a reachable state NOT at rest, from which only goroutine steps follow -/
example : (prunSched { cap := 2, block := true, wfr := false } {}
    [.read 0, .offer 0 2, .recheck 0, .offer 1 1, .offer 2 1, .offer 3 1, .complete 0 0]).map
    (fun s => (s.size, (s.ps 3).ph, (s.ps 3).sig, s.items.map Prod.fst)) = some (0, .sel, true, [1, 2]) := by rfl

/-! ## the model's guards and wake-up calls are the ones REGENERATED from the source (`Gen/QueueGuards.lean`, `Model/C02G.lean`) -/

/-- **`memoryQueue.Offer`'s guards are the regenerated ones**: the `offer` transition of the LTS is the interpretation of the
guard table extracted from the current source (`== 0 → nil`, `<= 0 → errInvalidSize`, `> cap → errSizeTooLarge`, in this order),
followed by `add` -/
theorem C02_offer_guards_regenerated (k : Cfg) (s : St) (p : Nat) (el : Int) (h : (s.ps p).ph = .idle) :
    fire k s (.offer p el) = some (
      match G.first ⟨el, k.cap, s.size, k.block, s.stopped⟩ Gen.QueueGuards.memOffer with
      | some (some .ok) => setP s p { s.ps p with ph := .done .ok }
      | some (some r) => refuse s p r
      | some none => tryAdd k s p el
      | none => s) := by
  simp only [fire, h, if_true]
  by_cases h0 : el = 0
  · simp [h0, G.first, G.holds, G.opnd, G.cmp, G.ret, Gen.QueueGuards.memOffer]
  · by_cases h1 : el < 0
    · have h1' : el ≤ 0 := by omega
      simp [h0, h1, h1', G.first, G.holds, G.opnd, G.cmp, G.ret, Gen.QueueGuards.memOffer]
    · have h1' : ¬ el ≤ 0 := by omega
      by_cases h2 : el > k.cap
      · simp [h0, h1, h1', h2, G.first, G.holds, G.opnd, G.cmp, G.ret, Gen.QueueGuards.memOffer]
      · simp [h0, h1, h1', h2, G.first, G.holds, G.opnd, G.cmp, G.ret, Gen.QueueGuards.memOffer]

/-- **the overflow loop of `memoryQueue.add` is the regenerated one** -/
theorem C02_add_loop_regenerated (k : Cfg) (s : St) (p : Nat) (el : Int) :
    tryAdd k s p el =
      match G.holds ⟨el, k.cap, s.size, k.block, s.stopped⟩ Gen.QueueGuards.memLoopCond with
      | some true =>
        (match G.first ⟨el, k.cap, s.size, k.block, s.stopped⟩ Gen.QueueGuards.memLoopBody with
         | some (some r) => refuse s p r
         | some none => register s p el
         | none => s)
      | some false =>
        (match G.first ⟨el, k.cap, s.size, k.block, s.stopped⟩ Gen.QueueGuards.memAfterLoop with
         | some (some r) => refuse s p r
         | some none => accept k s p el
         | none => s)
      | none => s := by
  unfold tryAdd
  by_cases h1 : s.size + el > k.cap <;> cases hb : k.block <;> cases hs : s.stopped <;>
    simp [h1, hb, hs, G.first, G.holds, G.opnd, G.cmp, G.ret, Gen.QueueGuards.memLoopCond, Gen.QueueGuards.memLoopBody, Gen.QueueGuards.memAfterLoop]

/-- **the overflow loop of `persistentQueue.putInternal` is the regenerated one** -/
theorem C02_put_loop_regenerated (k : Cfg) (s : St) (p : Nat) (el : Int) :
    ptryAdd k s p el =
      match G.holds ⟨el, k.cap, s.size, k.block, s.stopped⟩ Gen.QueueGuards.pqLoopCond with
      | some true =>
        (match G.first ⟨el, k.cap, s.size, k.block, s.stopped⟩ Gen.QueueGuards.pqLoopBody with
         | some (some r) => refuse s p r
         | some none => register s p el
         | none => s)
      | some false =>
        (match G.first ⟨el, k.cap, s.size, k.block, s.stopped⟩ Gen.QueueGuards.pqAfterLoop with
         | some (some r) => refuse s p r
         | some none => paccept s p el
         | none => s)
      | none => s := by
  unfold ptryAdd
  by_cases h1 : s.size + el > k.cap <;> cases hb : k.block <;> by_cases h2 : el > k.cap <;>
    simp [h1, hb, h2, G.first, G.holds, G.opnd, G.cmp, G.ret, Gen.QueueGuards.pqLoopCond, Gen.QueueGuards.pqLoopBody, Gen.QueueGuards.pqAfterLoop]

/-- **every wake-up call of the source is a transition of the model and vice versa**: the regenerated list of all
Signal / Broadcast call sites on the two condition variables is exactly the list the LTS was written for -
`accept`/`paccept` notify ONE consumer (`hasMoreElements.Signal`), `finish`/`pfinish` and `ppop`'s reset wake ALL producers
(`hasMoreSpace.Broadcast`), `shutdown` wakes all consumers (and, memory queue only, all producers) -/
theorem C02_wakeup_sites_regenerated :
    Gen.QueueGuards.condSites =
      [("memoryQueue.add", "hasMoreElements", "Signal"),
       ("memoryQueue.onDone", "hasMoreSpace", "Broadcast"),
       ("memoryQueue.Shutdown", "hasMoreElements", "Broadcast"),
       ("memoryQueue.Shutdown", "hasMoreSpace", "Broadcast"),
       ("persistentQueue.Shutdown", "hasMoreElements", "Broadcast"),
       ("persistentQueue.writeInternal", "hasMoreElements", "Signal"),
       ("persistentQueue.Read", "hasMoreSpace", "Broadcast"),
       ("persistentQueue.onDone", "hasMoreSpace", "Broadcast")] := by decide

/-! ## `Config.Validate` (`Model/C02V.lean`): the hypotheses of the queue theorems hold for every validated configuration -/

/-- every ENABLED configuration that passes `Validate` has a positive `queue_size` (so `0 ≤ k.cap`, the hypothesis of all the
theorems above, holds for the queue built from it), at least one consumer (the pool of `C02_async_work_conserving` is not
empty), with `storage` the requests sizer and no `wait_for_result` (the persistent LTS has no result channel), and with
`batch` the items or bytes sizer -/
theorem C02_validated_config_meets_hypotheses (c : V.QCfg) (h : V.validate c = .ok) (he : c.enabled = true) :
    0 < c.queueSize ∧ 0 < c.numConsumers ∧ (c.storage = true → c.sizer = .requests ∧ c.wfr = false) ∧
    (c.batch.isSome = true → c.sizer = .items ∨ c.sizer = .bytes) := by
  unfold V.validate at h
  simp only [he, Bool.not_true, Bool.false_eq_true, if_false] at h
  split at h
  · cases h
  · rename_i h1
    split at h
    · cases h
    · rename_i h2
      split at h
      · cases h
      · rename_i h3
        split at h
        · cases h
        · rename_i h4
          split at h
          · cases h
          · rename_i h5
            refine ⟨by omega, by omega, ?_, ?_⟩
            · intro hs
              simp only [hs, Bool.true_and, Bool.not_eq_true] at h3 h4
              refine ⟨?_, h3⟩
              cases hz : c.sizer <;> simp [hz] at h4 ⊢
            · intro hb
              simp only [hb, Bool.true_and, Bool.not_eq_true] at h5
              cases hz : c.sizer <;> simp [hz] at h5 ⊢

/-- soundness of the clause the `validate` verdict is computed from -/
theorem C02_check_validate_sound (enabled storage wfr reqSizer : Bool) (nc qs : Int)
    (h : V.acceptClause true enabled nc qs storage wfr reqSizer = true) (he : enabled = true) :
    0 < nc ∧ 0 < qs ∧ (storage = true → reqSizer = true ∧ wfr = false) := by
  simp only [V.acceptClause, he, Bool.and_self, Bool.not_true, Bool.false_or, Bool.and_eq_true, decide_eq_true_eq,
    Bool.or_eq_true, Bool.not_eq_true'] at h
  refine ⟨h.1.1, h.1.2, fun hs => ?_⟩
  rcases h.2 with a | a
  · rw [hs] at a; cases a
  · exact a

/-- non-vacuity: a persistent-queue configuration that passes, and the edge that does not -/
example : V.validate { enabled := true, numConsumers := 2, queueSize := 5, storage := true, wfr := false, sizer := .requests, batch := none } = .ok ∧
    V.validate { enabled := true, numConsumers := 2, queueSize := 0, storage := false, wfr := false, sizer := .items, batch := none } = .queueSize := by
  decide

/-- the former head-of-line witness: the completion of request 0 now wakes producers 1 AND 2; both get in -/
example : (runSched k10 {} (hol ++ [.wakeTok 2, .relockTok 2])).map
    (fun s => ((s.ps 1).ph, (s.ps 2).ph, s.size, s.waiters)) = some (.done .ok, .done .ok, 7, []) := by rfl

/-- `Shutdown` with two blocked producers: both are woken and refused, nobody is left behind on the stopped queue -/
example : (runSched { cap := 2, block := true, wfr := false } {}
    [.offer 0 2, .offer 1 1, .offer 2 1, .read 7, .shutdown, .wakeTok 1, .relockTok 1, .wakeTok 2, .relockTok 2]).map
    (fun s => ((s.ps 1).ph, (s.ps 2).ph, s.waiters)) = some (.done .stopped, .done .stopped, []) := by rfl

/-! ## non-vacuity: concrete schedules -/

def k2 : Cfg := { cap := 2, block := true, wfr := false }

/-- capacity 2: producer 0 (size 2) is accepted, producers 1 and 2 (size 1, 2) block; consumer takes 0;
producer 1's context ends while the completion's signal is already addressed to it; it forwards the
signal, producer 2 is released and accepted: nobody is left in the cond -/
def demo : List Label :=
  [.offer 0 2, .offer 1 1, .offer 2 2, .read 7, .complete 0 0, .cancel 1, .wakeCtx 1, .relockCtx 1, .wakeTok 2, .relockTok 2]

example : (runSched k2 {} demo).map (fun s => (s.size, s.accepted, s.refused, s.handed, s.waiters, (s.ps 2).ph)) =
    some (2, [0, 2], [1], [0], [], .done .ok) := by rfl

/-- a reachable state in which a producer is legitimately blocked (hypotheses of the theorems are met by
non-trivial states) -/
example : (runSched k2 {} [.offer 0 2, .offer 1 1]).map (fun s => (s.waiters, (s.ps 1).ph, s.size)) =
    some ([1], .sel, 2) := by rfl

example : Check.fifoRun ([], [], []) [([], [0]), ([], [0, 1]), ([0], [1]), ([1], [2])] = some ([0, 1, 2], [0, 1], [2]) := by decide

/-! ## non-vacuity of the fair-run theorems: concrete runs meeting every hypothesis

Capacity 2, `block_on_overflow`: producer 0 (size 2) is accepted, producer 1 (size 1) blocks; the consumer takes and
completes request 0 (Broadcast), producer 1 wakes, re-locks and is enqueued; its request is taken and completed; then the
run stutters for ever (`playStates` / `playLabs`, `Lemmas/C02Fair.lean`). -/

def fairSched : List Label :=
  [.offer 0 2, .offer 1 1, .read 7, .complete 0 0, .wakeTok 1, .relockTok 1, .read 7, .complete 1 0]

/-- a state reached by a schedule in which only producers 0 and 1 offered, both have returned and no consumer is on its
way, is at rest -/
theorem rest_of_sched (ls : List Label) (s' : St) (h : runSched k2 {} ls = some s')
    (h0 : ∃ r, (s'.ps 0).ph = .done r) (h1 : ∃ r, (s'.ps 1).ph = .done r) (hw : s'.cwoken = [])
    (hl : ∀ l ∈ ls, ∀ q el, l = .offer q el → q = 0 ∨ q = 1) : Quiescent k2 s' := by
  apply quiescent_of _ hw
  intro p
  by_cases e0 : p = 0
  · subst e0; exact Or.inr (Or.inl h0)
  by_cases e1 : p = 1
  · subst e1; exact Or.inr (Or.inl h1)
  left
  exact idle_run ls {} s' p h rfl (fun l hl' el e => by rcases hl l hl' p el e with a | a <;> contradiction)

theorem fairSched_offers (n : Nat) : ∀ l ∈ fairSched.take n, ∀ q el, l = .offer q el → q = 0 ∨ q = 1 := by
  intro l hl q el e
  have hm := List.mem_of_mem_take hl
  subst e
  simp [fairSched] at hm
  omega

theorem fairSched_ok : (runSched k2 {} fairSched).isSome = true := by rfl

theorem fair_final : runSched k2 {} fairSched = some (playStates k2 {} fairSched 8) :=
  play_take k2 fairSched {} 8 fairSched_ok

/-- from instant 6 on the example run is at rest at every instant -/
theorem fair_rest (n : Nat) (hn : 6 ≤ n) : Quiescent k2 (playStates k2 {} fairSched n) := by
  have key := play_take k2 fairSched {} n fairSched_ok
  refine rest_of_sched _ _ key ?_ ?_ ?_ (fairSched_offers n)
  all_goals
    match n, hn with
    | 6, _ => first | exact ⟨.ok, rfl⟩ | rfl
    | 7, _ => first | exact ⟨.ok, rfl⟩ | rfl
    | n+8, _ =>
      rw [play_after fair_final (n+8) (by simp [fairSched])]
      first | exact ⟨.ok, rfl⟩ | rfl

example : ∃ (ρ : Nat → St) (lab : Nat → Option Label),
    IsRun k2 ρ lab ∧ SchedFair k2 ρ lab ∧ ConsFair ρ ∧ OnlyFrom lab 2 Label.drain ∧ (ρ 2).stopped = false ∧
    ((ρ 2).ps 1).ph = .sel ∧ ((ρ 2).ps 1).canc = false := by
  refine ⟨playStates k2 {} fairSched, playLabs fairSched, play_isRun ⟨[], rfl⟩ fairSched_ok, ?_, ?_,
    onlyFrom_play _ _ _ (by decide), rfl, rfl, rfl⟩
  · intro n hq
    by_cases h4 : n ≤ 4
    · exact ⟨4, h4, .wakeTok 1, rfl, rfl⟩
    by_cases h5 : n = 5
    · exact ⟨5, by omega, .relockTok 1, rfl, rfl⟩
    exact absurd (fair_rest n (by omega)) hq
  · intro n hne
    by_cases h6 : n ≤ 6
    · exact ⟨6, h6, by decide⟩
    by_cases h7 : n = 7
    · exact ⟨7, by omega, by decide⟩
    rw [play_after fair_final n (by simp [fairSched]; omega)] at hne
    exact absurd rfl hne

def restSched : List Label := fairSched.take 6

theorem restSched_ok : (runSched k2 {} restSched).isSome = true := by rfl

theorem rest_final : runSched k2 {} restSched = some (playStates k2 {} restSched 6) :=
  play_take k2 restSched {} 6 restSched_ok

/-- hypotheses of `C02_fair_run_comes_to_rest` are met by a run that is NOT at rest at `n0 = 4` (producer 1 has just been
signalled by the completion's Broadcast and still has to wake up and re-lock) -/
example : ∃ (ρ : Nat → St) (lab : Nat → Option Label),
    IsRun k2 ρ lab ∧ SchedFair k2 ρ lab ∧ OnlyFrom lab 4 Label.internal ∧
    (fire k2 (ρ 4) (.wakeTok 1)).isSome = true ∧ ((ρ 4).ps 1).ph = .sel := by
  refine ⟨playStates k2 {} restSched, playLabs restSched, play_isRun ⟨[], rfl⟩ restSched_ok, ?_,
    onlyFrom_play _ _ _ (by decide), rfl, rfl⟩
  intro n hq
  by_cases h4 : n ≤ 4
  · exact ⟨4, h4, .wakeTok 1, rfl, rfl⟩
  by_cases h5 : n = 5
  · exact ⟨5, by omega, .relockTok 1, rfl, rfl⟩
  refine absurd ?_ hq
  rw [play_after rest_final n (by simp [restSched, fairSched]; omega)]
  exact rest_of_sched _ _ rest_final ⟨.ok, rfl⟩ ⟨.ok, rfl⟩ rfl (fairSched_offers 6)

/-! ## non-vacuity of the persistent fair-run theorems -/

/-- capacity 2, blocking: the consumer parks; request 0 (size 2) is stored and taken (the size is reset to 0 at `ri = wi`);
request 1 (size 2) is stored; producer 2 (size 1) blocks; request 0 completes (2 - 2 = 0, Broadcast): producer 2 wakes, re-locks and
is stored; everything is taken and completed; then the run stutters for ever -/
def pfairSched : List Label :=
  [.read 0, .offer 0 2, .recheck 0, .offer 1 2, .offer 2 1, .complete 0 0, .wakeTok 2, .relockTok 2,
   .read 0, .complete 1 0, .read 0, .complete 2 0]

theorem pfairSched_ok : (prunSched k2 {} pfairSched).isSome = true := by rfl

theorem pfair_final : prunSched k2 {} pfairSched = some (pplayStates k2 {} pfairSched 12) :=
  pplay_take k2 pfairSched {} 12 pfairSched_ok

theorem pfairSched_offers (n : Nat) : ∀ l ∈ pfairSched.take n, ∀ q el, l = .offer q el → q = 0 ∨ q = 1 ∨ q = 2 := by
  intro l hl q el e
  have hm := List.mem_of_mem_take hl
  subst e
  simp [pfairSched] at hm
  omega

theorem prest_of_sched (ls : List Label) (s' : St) (h : prunSched k2 {} ls = some s')
    (h0 : ∃ r, (s'.ps 0).ph = .done r) (h1 : ∃ r, (s'.ps 1).ph = .done r) (h2 : ∃ r, (s'.ps 2).ph = .done r) (hw : s'.cwoken = [])
    (hl : ∀ l ∈ ls, ∀ q el, l = .offer q el → q = 0 ∨ q = 1 ∨ q = 2) : PQuiescent k2 s' := by
  apply pquiescent_of _ hw
  intro p
  by_cases e0 : p = 0
  · subst e0; exact Or.inr (Or.inl h0)
  by_cases e1 : p = 1
  · subst e1; exact Or.inr (Or.inl h1)
  by_cases e2 : p = 2
  · subst e2; exact Or.inr (Or.inl h2)
  left
  exact pidle_run ls {} s' p h rfl (fun l hl' el e => by rcases hl l hl' p el e with a | a | a <;> contradiction)

/-- from instant 8 on the example run is at rest at every instant -/
theorem pfair_rest (n : Nat) (hn : 8 ≤ n) : PQuiescent k2 (pplayStates k2 {} pfairSched n) := by
  have key := pplay_take k2 pfairSched {} n pfairSched_ok
  refine prest_of_sched _ _ key ?_ ?_ ?_ ?_ (pfairSched_offers n)
  all_goals
    match n, hn with
    | 8, _ => first | exact ⟨.ok, rfl⟩ | rfl
    | 9, _ => first | exact ⟨.ok, rfl⟩ | rfl
    | 10, _ => first | exact ⟨.ok, rfl⟩ | rfl
    | 11, _ => first | exact ⟨.ok, rfl⟩ | rfl
    | n+12, _ =>
      rw [pplay_after pfair_final (n+12) (by simp [pfairSched])]
      first | exact ⟨.ok, rfl⟩ | rfl

/-- non-vacuity of `C02_persistent_fair_run_releases_all`: every hypothesis holds for this run from `n0 = 5`, where producer 2
is inside `cond.Wait`; at instant 8 it has been stored -/
example : ∃ (ρ : Nat → St) (lab : Nat → Option Label),
    PIsRun k2 ρ lab ∧ PSchedFair k2 ρ lab ∧ PConsFair ρ ∧ DrainFrom lab 5 ∧ (ρ 5).stopped = false ∧
    ((ρ 5).ps 2).ph = .sel ∧ ((ρ 8).ps 2).ph = .done .ok := by
  refine ⟨pplayStates k2 {} pfairSched, playLabs pfairSched, pplay_isRun ⟨[], rfl⟩ pfairSched_ok, ?_, ?_,
    ?_, rfl, rfl, rfl⟩
  · intro n hq
    by_cases h2 : n ≤ 2
    · exact ⟨2, h2, .recheck 0, rfl, rfl⟩
    by_cases h6 : n ≤ 6
    · exact ⟨6, h6, .wakeTok 2, rfl, rfl⟩
    by_cases h7 : n = 7
    · exact ⟨7, by omega, .relockTok 2, rfl, rfl⟩
    exact absurd (pfair_rest n (by omega)) hq
  · intro n hne
    by_cases h8 : n ≤ 8
    · exact ⟨8, h8, by decide⟩
    by_cases h9 : n = 9
    · exact ⟨9, by omega, by decide⟩
    by_cases h10 : n = 10
    · exact ⟨10, by omega, by decide⟩
    by_cases h11 : n = 11
    · exact ⟨11, by omega, by decide⟩
    rw [pplay_after pfair_final n (by simp [pfairSched]; omega)] at hne
    rcases hne with h | h <;> exact absurd rfl h
  · intro m hm l hl
    have : l ∈ pfairSched.drop 5 := by
      simp only [playLabs] at hl
      have : (pfairSched.drop 5)[m - 5]? = some l := by
        rw [List.getElem?_drop, Nat.add_sub_cancel' hm]; exact hl
      exact List.mem_of_getElem? this
    have hall : ∀ l ∈ pfairSched.drop 5, l.drain = true := by decide
    exact hall l this

/-! ## per-producer liveness under weak fairness of the producer's own goroutine (`Pending`, `ProdFair`: `Lemmas/C02Fair.lean`) -/

/-- **a signalled or cancelled waiter re-takes the lock** (per-producer liveness): in every run in which the goroutine of producer
`p` is treated with weak fairness (a step of its own that stays enabled is eventually taken), a producer whose channel has been
closed (by the `Broadcast` of a completion or of `Shutdown`, or by a forwarded `Signal`) or whose context has ended, and every
producer that is already between the `select` and `L.Lock()`, eventually re-locks: `relockTok p` (it re-evaluates its overflow loop
under the lock: enqueued iff `size + el ≤ cap` at that moment and the queue is running) or `relockCtx p` (it returns its context's
error).  No assumption on the other goroutines or on the environment. -/
theorem C02_fair_waiter_rechecks {k : Cfg} {ρ : Nat → St} {lab : Nat → Option Label} (hr : IsRun k ρ lab) (p : Nat)
    (hf : ProdFair k ρ lab p) (n : Nat) (hp : Pending (ρ n) p) :
    ∃ m, n ≤ m ∧ (lab m = some (.relockTok p) ∨ lab m = some (.relockCtx p)) := by
  apply Classical.byContradiction
  intro hno
  have hno' : ∀ m, n ≤ m → lab m ≠ some (.relockTok p) ∧ lab m ≠ some (.relockCtx p) := by
    intro m hm
    refine ⟨fun e => hno ⟨m, hm, Or.inl e⟩, fun e => hno ⟨m, hm, Or.inr e⟩⟩
  -- a Pending producer cannot take getRes / resCtx
  have noRes : ∀ s, Pending s p → fire k s (.getRes p) = none ∧ fire k s (.resCtx p) = none := by
    intro s h
    rcases h with ⟨a, _⟩ | a | a <;> simp [fire, a]
  -- one instant: Pending is kept as long as `p` does not re-lock
  have stepP : ∀ m, n ≤ m → Pending (ρ m) p → Pending (ρ (m+1)) p := by
    intro m hm h
    rcases hr.2 m with ⟨_, e⟩ | ⟨l, e1, hfl⟩
    · rw [e]; exact h
    · by_cases hown : l.tid = some p ∧ l.internal = true
      · rcases own_internal_cases l p hown.1 hown.2 with rfl | rfl | rfl | rfl | rfl | rfl
        · simp only [fire] at hfl
          split at hfl
          · have e := Option.some.inj hfl; rw [← e]; exact Or.inr (Or.inl (by simp [setP]))
          · cases hfl
        · simp only [fire] at hfl
          split at hfl
          · have e := Option.some.inj hfl; rw [← e]; exact Or.inr (Or.inr (by simp [setP]))
          · cases hfl
        · exact absurd e1 (hno' m hm).1
        · exact absurd e1 (hno' m hm).2
        · rw [(noRes _ h).1] at hfl; cases hfl
        · rw [(noRes _ h).2] at hfl; cases hfl
      · exact pending_step hfl p hown h
  have allP : ∀ d, Pending (ρ (n + d)) p := by
    intro d
    induction d with
    | zero => exact hp
    | succ d ih => exact stepP (n + d) (Nat.le_add_right _ _) ih
  have allP' : ∀ m, n ≤ m → Pending (ρ m) p := by
    intro m hm
    have := allP (m - n)
    rwa [Nat.add_sub_cancel' hm] at this
  -- first own step: leaves the select
  obtain ⟨m1, hm1, l1, hl1, ht1, hi1⟩ := hf n (fun m hm => pending_enabled k _ p (allP' m hm))
  have hw1 : ((ρ (m1+1)).ps p).ph = .wokenTok ∨ ((ρ (m1+1)).ps p).ph = .wokenCtx := by
    rcases hr.2 m1 with ⟨e, _⟩ | ⟨l, e1, hfl⟩
    · rw [hl1] at e; cases e
    · rw [hl1] at e1; cases e1
      rcases own_internal_cases l1 p ht1 hi1 with rfl | rfl | rfl | rfl | rfl | rfl
      · simp only [fire] at hfl
        split at hfl
        · have e := Option.some.inj hfl; rw [← e]; exact Or.inl (by simp [setP])
        · cases hfl
      · simp only [fire] at hfl
        split at hfl
        · have e := Option.some.inj hfl; rw [← e]; exact Or.inr (by simp [setP])
        · cases hfl
      · exact absurd hl1 (hno' m1 hm1).1
      · exact absurd hl1 (hno' m1 hm1).2
      · rw [(noRes _ (allP' m1 hm1)).1] at hfl; cases hfl
      · rw [(noRes _ (allP' m1 hm1)).2] at hfl; cases hfl
  -- from then on it stays between the select and the lock
  have stay : ∀ d, ((ρ (m1 + 1 + d)).ps p).ph = .wokenTok ∨ ((ρ (m1 + 1 + d)).ps p).ph = .wokenCtx := by
    intro d
    induction d with
    | zero => exact hw1
    | succ d ih =>
      show ((ρ (m1 + 1 + d + 1)).ps p).ph = .wokenTok ∨ ((ρ (m1 + 1 + d + 1)).ps p).ph = .wokenCtx
      rcases hr.2 (m1 + 1 + d) with ⟨_, e⟩ | ⟨l, e1, hfl⟩
      · rw [e]; exact ih
      · by_cases hown : l.tid = some p ∧ l.internal = true
        · have hnsel : ((ρ (m1 + 1 + d)).ps p).ph ≠ .sel := by rcases ih with a | a <;> rw [a] <;> simp
          rcases own_internal_cases l p hown.1 hown.2 with rfl | rfl | rfl | rfl | rfl | rfl
          · simp [fire, hnsel] at hfl
          · simp [fire, hnsel] at hfl
          · exact absurd e1 (hno' _ (by omega)).1
          · exact absurd e1 (hno' _ (by omega)).2
          · rw [(noRes _ (allP' _ (by omega))).1] at hfl; cases hfl
          · rw [(noRes _ (allP' _ (by omega))).2] at hfl; cases hfl
        · by_cases ht : l.tid = some p
          · -- offer p (disabled) or cancel p (phase unchanged)
            have hP := allP' (m1 + 1 + d) (by omega)
            have hP' := pending_step hfl p hown hP
            cases l with
            | cancel q =>
              have : q = p := by simpa [Label.tid] using ht
              subst this
              simp only [fire] at hfl
              have e := Option.some.inj hfl; rw [← e]
              simpa [setP] using ih
            | offer q el =>
              have : q = p := by simpa [Label.tid] using ht
              subst this
              have hni : ((ρ (m1 + 1 + d)).ps q).ph ≠ .idle := by rcases ih with a | a <;> rw [a] <;> simp
              simp [fire, hni] at hfl
            | wakeTok q => exact absurd ⟨ht, rfl⟩ hown
            | wakeCtx q => exact absurd ⟨ht, rfl⟩ hown
            | relockTok q => exact absurd ⟨ht, rfl⟩ hown
            | relockCtx q => exact absurd ⟨ht, rfl⟩ hown
            | getRes q => exact absurd ⟨ht, rfl⟩ hown
            | resCtx q => exact absurd ⟨ht, rfl⟩ hown
            | read c => simp [Label.tid] at ht
            | recheck c => simp [Label.tid] at ht
            | complete id e => simp [Label.tid] at ht
            | shutdown => simp [Label.tid] at ht
          · obtain ⟨_, hfr⟩ := frame_step hfl
            rw [(hfr p ht).1]; exact ih
  -- second own step: can only be the re-lock
  obtain ⟨m2, hm2, l2, hl2, ht2, hi2⟩ := hf (m1 + 1) (fun m hm => pending_enabled k _ p (allP' m (by omega)))
  have hst := stay (m2 - (m1 + 1))
  rw [Nat.add_sub_cancel' hm2] at hst
  have hnsel : ((ρ m2).ps p).ph ≠ .sel := by rcases hst with a | a <;> rw [a] <;> simp
  rcases hr.2 m2 with ⟨e, _⟩ | ⟨l, e1, hfl⟩
  · rw [hl2] at e; cases e
  · rw [hl2] at e1; cases e1
    rcases own_internal_cases l2 p ht2 hi2 with rfl | rfl | rfl | rfl | rfl | rfl
    · simp [fire, hnsel] at hfl
    · simp [fire, hnsel] at hfl
    · exact (hno' m2 (by omega)).1 hl2
    · exact (hno' m2 (by omega)).2 hl2
    · rw [(noRes _ (allP' m2 (by omega))).1] at hfl; cases hfl
    · rw [(noRes _ (allP' m2 (by omega))).2] at hfl; cases hfl

/-- non-vacuity: in the run `fairSched` producer 1 is signalled by the completion at instant 3 (`Pending` at 4) and its goroutine is
treated fairly (it takes `wakeTok 1`, `relockTok 1` at instants 4, 5 and has returned from instant 6 on) -/
example : IsRun k2 (playStates k2 {} fairSched) (playLabs fairSched) ∧
    ProdFair k2 (playStates k2 {} fairSched) (playLabs fairSched) 1 ∧ Pending (playStates k2 {} fairSched 4) 1 := by
  refine ⟨play_isRun ⟨[], rfl⟩ fairSched_ok, ?_, Or.inl ⟨rfl, Or.inl rfl⟩⟩
  intro n hall
  exfalso
  have hdone : ∀ m, 6 ≤ m → ((playStates k2 {} fairSched m).ps 1).ph = .done .ok := by
    intro m hm
    match m, hm with
    | 6, _ => rfl
    | 7, _ => rfl
    | m+8, _ => rw [play_after fair_final (m+8) (by simp [fairSched])]; rfl
  obtain ⟨l, ht, hi, he⟩ := hall (max n 6) (Nat.le_max_left _ _)
  have hd := hdone (max n 6) (Nat.le_max_right _ _)
  rcases own_internal_cases l 1 ht hi with rfl | rfl | rfl | rfl | rfl | rfl <;> simp [fire, hd] at he

end OtelVerif.C02
