import OtelVerif.Model.C02
/-! C02 property theorems (stub) -/
namespace OtelVerif.C02
end OtelVerif.C02
