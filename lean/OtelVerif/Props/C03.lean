import OtelVerif.Model.C03
/-! C03 property theorems (stub) -/
namespace OtelVerif.C03
end OtelVerif.C03
