import OtelVerif.Lemmas.C03
import OtelVerif.Lemmas.C03Term
import OtelVerif.Model.C03Mon
/-!
# C03 — graceful exporter shutdown drains accepted data and stops all work

Theorems over EVERY reachable state of the LTS `Model/C03.lean` (every interleaving of any number of producers, `n` consumers,
the batcher's timer goroutine, any number of flush goroutines limited by any worker pool, the retry loops and the goroutine that
runs `Shutdown`; every re-partition of the batches; every backend outcome; every configuration `Cfg`).
`phase = 5` is "Shutdown has returned".  Trace-level monitor (`verdict`, `checkMemory`, `checkPersistent`) is proved sound
for the trace reading of the same clauses (`C03_check_memory_sound`, `C03_check_persistent_sound`); it is what the driver
evaluates on the traces recorded from the real exporter.
-/
namespace OtelVerif.C03

/-- `fire` is exactly the transition relation `Step` (one constructor per branch of the code) -/
theorem C03_fire_iff_step (s s' : State) (l : Label) : fire s l = some s' ↔ Step s l s' :=
  ⟨fire_step, step_fire⟩

/-- the invariant holds in every reachable state -/
theorem C03_invariant {s : State} (h : Reachable s) : Inv s := inv_reachable h

theorem all_exited_items {cs : List CSt} (h : ∀ c ∈ cs, c = .exited) : consItems cs = [] := by
  induction cs with
  | nil => rfl
  | cons c cs ih =>
    have hc := h c (List.mem_cons_self)
    simp only [consItems, List.flatMap_cons] at ih ⊢
    rw [ih (fun c' hc' => h c' (List.mem_cons_of_mem _ hc')), hc]; rfl

theorem all_late_queueEarly {q : List (Batch × Bool)} (h : ∀ p ∈ q, p.2 = true) : queueEarly q = [] := by
  induction q with
  | nil => rfl
  | cons p q ih =>
    simp only [queueEarly, List.flatMap_cons] at ih ⊢
    rw [ih (fun p' hp' => h p' (List.mem_cons_of_mem _ hp')), h p List.mem_cons_self]; rfl

/-- **Quiet.** When `Shutdown` has returned: every consumer goroutine has left its loop, the timer goroutine is gone, no batch is
held anywhere, every flight (flush goroutine / export chain pass) has ended — hence every export call has returned —, no export
call can begin, and this remains so whatever happens afterwards (`Reachable` is closed under steps and the phase stays 5). -/
theorem C03_quiet {s : State} (h : Reachable s) (hp : s.phase = 5) :
    (∀ c ∈ s.cons, c = .exited) ∧ s.cur = none ∧ s.shutHand = none ∧ s.timer = .dead ∧
    (∀ fl ∈ s.flights, fl.st = .done) ∧ (∀ f, fire s (.expStart f) = none) := by
  have w := (inv_reachable h).wf
  have hall := w.joined (by omega)
  have hdone : ∀ fl ∈ s.flights, fl.st = .done := by
    intro fl hfl
    have howned : fl.owner.isSome = true ∨ fl.st = .done := by
      cases hb : s.cfg.batching with
      | true => exact (w.ret hp hb).2.2 fl hfl
      | false => exact .inl (w.nb_owned hb fl hfl)
    cases howned with
    | inr h1 => exact h1
    | inl h1 =>
      by_cases hd : fl.st = .done
      · exact hd
      · obtain ⟨f, hf⟩ := List.mem_iff_getElem?.mp hfl
        obtain ⟨i, hi⟩ := Option.isSome_iff_exists.mp h1
        have hb := w.owner f fl hf hd i hi
        have := hall _ (mem_of_getElem? hb)
        simp at this
  refine ⟨hall, w.cur4 (by omega), ?_, ?_, hdone, ?_⟩
  · cases hb : s.cfg.batching with
    | true => exact (w.ret hp hb).1
    | false => exact w.nb_hand hb
  · cases hb : s.cfg.batching with
    | true => exact (w.ret hp hb).2.1
    | false => exact w.nb_timer hb
  · intro f
    cases hf : s.flights[f]? with
    | none => simp [fire, hf]
    | some fl => simp [fire, hf, hdone fl (mem_of_getElem? hf)]

/-- "returned" is final: no step leaves phase 5 -/
theorem C03_returned_stable {s s' : State} {l : Label} (hf : fire s l = some s') (hp : s.phase = 5) : s'.phase = 5 := by
  have hs := fire_step hf
  cases hs <;> first | exact hp | (simp_all) | omega

/-- **Memory queue, drained.** When `Shutdown` has returned, every item whose enqueue completed before shutdown was requested
(wherever it was: in the queue, in a consumer's hands, in the partially filled current batch, waiting for a worker, in a retry
back-off) lies in a flight that has ended after at least one call of the export function — exactly one call when no call of
that flight failed. -/
theorem C03_memory_drained {s : State} (h : Reachable s) (hp : s.phase = 5) (hm : s.cfg.persistent = false) (hn : s.cons ≠ [])
    (x : Item) (hx : x ∈ s.early) :
    ∃ fl ∈ s.flights, x ∈ fl.batch ∧ fl.st = .done ∧ 1 ≤ fl.attempts ∧ (fl.failures = 0 → fl.attempts = 1) := by
  have inv := inv_reachable h
  obtain ⟨hall, hcur, hhand, htimer, hdone, _⟩ := C03_quiet h hp
  have hex : ∃ c ∈ s.cons, c = .exited := by
    cases hc : s.cons with
    | nil => exact absurd hc hn
    | cons c cs => exact ⟨c, by simp, hall c (by simp [hc])⟩
  have hq := all_late_queueEarly (inv.late hm hex).2
  have hcount := inv.early x
  have hpos : 0 < s.early.count x := List.count_pos_iff.mpr hx
  have hmem : x ∈ flightItems s.flights := by
    have : 0 < (placesEarly s).count x := by omega
    have := List.count_pos_iff.mp this
    simpa [placesEarly, hq, all_exited_items hall, hcur, hhand, htimer, optItems, TSt.items] using this
  simp only [flightItems, List.mem_flatMap] at hmem
  obtain ⟨fl, hfl, hxb⟩ := hmem
  have hok := inv.flights fl hfl
  have hd := hdone fl hfl
  simp only [FlightOK, hd] at hok
  exact ⟨fl, hfl, hxb, hd, hok.1, by omega⟩

/-- **Memory queue, exactly once.** If moreover the item was enqueued once, it lies in exactly one flight (once): the number of
export calls that contained it is that flight's `attempts`, which is 1 when none of its calls failed (`C03_memory_drained`). -/
theorem C03_memory_no_duplication {s : State} (h : Reachable s) (hp : s.phase = 5) (hm : s.cfg.persistent = false) (hn : s.cons ≠ [])
    (x : Item) (hx : x ∈ s.early) (h1 : s.accepted.count x = 1) : (flightItems s.flights).count x = 1 := by
  have inv := inv_reachable h
  obtain ⟨fl, hfl, hxb, _⟩ := C03_memory_drained h hp hm hn x hx
  have hge : 0 < (flightItems s.flights).count x :=
    List.count_pos_iff.mpr (by simp only [flightItems, List.mem_flatMap]; exact ⟨fl, hfl, hxb⟩)
  have hc := inv.conserved x
  simp only [places, List.count_append] at hc
  omega

/-- **Persistent queue.** At every moment — in particular when `Shutdown` has returned — every accepted item is still in storage or
lies in a flight that has ended (after at least one call of the export function) without a shutdown error. -/
theorem C03_persistent_kept {s : State} (h : Reachable s) (hpq : s.cfg.persistent = true) (x : Item) (hx : x ∈ s.early) :
    x ∈ s.stored ∨ ∃ fl ∈ s.flights, x ∈ fl.batch ∧ fl.st = .done ∧ fl.kept = false ∧ 1 ≤ fl.attempts := by
  have inv := inv_reachable h
  cases inv.kept hpq x (inv.sub x hx) with
  | inl h1 => exact .inl h1
  | inr h1 =>
    obtain ⟨fl, hfl, hd, hk, hb⟩ := h1
    have hok := inv.flights fl hfl
    simp only [FlightOK, hd] at hok
    exact .inr ⟨fl, hfl, hb, hd, hk, hok.1⟩

/-- the persistent queue serves nothing after it was stopped: what is in the queue then stays (stored) for the next start -/
theorem C03_persistent_stops_dispatch (s : State) (i : Nat) (hpq : s.cfg.persistent = true) (hp : 2 ≤ s.phase) : fire s (.read i) = none := by
  simp only [fire]
  split
  · simp [hpq, hp]
  · rfl


/-- Termination of `Shutdown`, full statement (proved below as `C03_shutdown_terminates`): from every reachable state in which
shutdown has been requested some schedule reaches `phase = 5`, provided the default batcher's worker pool has at least one slot
(free or in use). -/
def C03_shutdown_terminates_full : Prop :=
  ∀ s : State, Reachable s → 1 ≤ s.phase →
    (s.cfg.batching = true → 0 < s.workers + (s.flights.filter (fun fl => fl.owner.isNone && fl.st != .done)).length) →
    ∃ ls s', runFrom s ls = some s' ∧ s'.phase = 5

/-- **Stuck-freedom.** While `Shutdown` has not returned, some step other than the environment's `offer` is enabled: a helper
goroutine, a retry loop, the backend returning ("every export call returns"), or the shutdown goroutine itself can move. -/
theorem C03_not_stuck {s : State} (h : Reachable s) (hpool : PoolOK s) (hp : s.phase < 5) :
    ∃ l s', isOffer l = false ∧ fire s l = some s' := not_stuck h hpool hp

/-- the pool hypothesis is preserved by every step (`workers + live flush goroutines` is constant) -/
theorem C03_pool_invariant {s s' : State} {l : Label} (h : PoolOK s) (hf : fire s l = some s') : PoolOK s' := poolOK_step h hf

/-- **Measure.** Once shutdown has been requested every non-offer step strictly decreases the lexicographic measure `mu`
(no retry is scheduled any more: `expEnd … again` needs `phase = 0`). -/
theorem C03_drain_measure {s s' : State} {l : Label} (hp : 1 ≤ s.phase) (hl : isOffer l = false) (hf : fire s l = some s') :
    Prod.Lex (· < ·) (· < ·) (mu s') (mu s) := mu_decreases hp hl hf

/-- **No infinite drain.** After the shutdown request there is no infinite sequence of non-offer steps: with `C03_not_stuck`,
every maximal offer-free execution is finite and ends with `Shutdown` returned. -/
theorem C03_drain_wellFounded :
    WellFounded (fun s' s : State => 1 ≤ s.phase ∧ ∃ l, isOffer l = false ∧ fire s l = some s') := drain_wellFounded

/-- **Termination.** -/
theorem C03_shutdown_terminates : C03_shutdown_terminates_full :=
  fun _ h hp hpool => let ⟨ls, s', _, hr, h5⟩ := shutdown_terminates h hp hpool; ⟨ls, s', hr, h5⟩

/-- … by a schedule of helper/backend/shutdown steps only (no further offer is needed or harmful) -/
theorem C03_shutdown_terminates_without_offers {s : State} (h : Reachable s) (hp : 1 ≤ s.phase) (hpool : PoolOK s) :
    ∃ ls s', (∀ l ∈ ls, isOffer l = false) ∧ runFrom s ls = some s' ∧ s'.phase = 5 := shutdown_terminates h hp hpool

/-- **A stopped retry sender schedules nothing**: once `stopCh` is closed (`phase ≥ 1`) a failed call can only end its flight (drop or
keep), no further retry is scheduled.  This is an unfolding of the model's `fire` (the modelling decision mirrors the `stopCh` check
of the repaired `retry_sender.go`; property C05 ties it to the code).
QUEUE-LESS exporters (no sending queue, no batcher) are NOT covered by this LTS: there `Shutdown` only stops the retry sender and
returns while callers may still be inside the export function (the LTS reaches "returned" only through `join`, i.e. with every
consumer gone).  For them clause "all export calls have returned" does not hold in the code and is not claimed; what holds and is
MONITORED on the implementation (not proved) is: no retry is scheduled after the return, so no export call BEGINS after it except
the documented same-instant tie between a back-off timer and `Shutdown`. -/
theorem C03_stopped_retry_schedules_nothing (s : State) (f : Nat) (o : Outcome) (hp : 1 ≤ s.phase) :
    fire s (.expEnd f o .again) = none := by
  simp only [fire]
  cases hfl : s.flights[f]? with
  | none => rfl
  | some fl =>
    simp only []
    split
    · cases o <;> simp <;> omega
    · rfl

/-- **The batcher is shut down whatever the queue's shutdown did.**  `QueueBatch.Shutdown` = `errors.Join(queue.Shutdown, batcher.Shutdown)`:
once the consumers are joined (`phase = 3`) — whatever the queue's own `Shutdown` returned: failed size snapshot, failed storage
`Close` — the batcher's shutdown step is enabled; it takes the partial batch for the final flush, and there is no other way to
"returned" (`phase` only grows by one).  Errors are collected, never branched on: the model has no error outcome. -/
theorem C03_batcher_shutdown_unconditional {s : State} (h : Reachable s) (hp : s.phase = 3) :
    ∃ s', fire s .shutBatcher = some s' ∧ s'.phase = 4 ∧ s'.shutHand = s.cur ∧ s'.cur = none := by
  have hh := (inv_reachable h).wf.hand3 (by omega)
  exact ⟨{ s with phase := 4, shutHand := s.cur, cur := none }, by simp [fire, hp, hh], rfl, rfl, rfl⟩

/-! ## non-vacuity: concrete schedules -/

/-- memory queue, default batcher, retry on: two requests, the second is split, one batch stays as the partial current batch;
shutdown is requested while one flight is in a retry back-off and the partial batch is waiting; the drain ends in phase 5 -/
def demoSchedule : List Label :=
  [.offer [1, 2], .offer [3, 4, 5], .read 0, .consume 0 [] (some [1, 2]), .read 0, .consume 0 [[1, 2, 3]] (some [4, 5]),
   .spawn 0, .expStart 0, .expEnd 0 .trans .again,
   .shutRetry, .offer [9], .shutQueue, .giveUp 0 true, .read 0, .consume 0 [] (some [4, 5, 9]), .exit 0, .join, .shutBatcher, .shutSpawn,
   .expStart 1, .expEnd 1 .ok .drop, .timerExit, .shutWait]

def demoFinal : Option State := runFrom (init { persistent := false, batching := true, retry := true } 1 1 true) demoSchedule

example : (demoFinal.map (·.phase)) = some 5 := by decide
example : (demoFinal.map (·.early)) = some [1, 2, 3, 4, 5] := by decide
example : (demoFinal.map (fun s => s.flights.map (fun fl => (fl.batch, fl.attempts, fl.failures)))) =
    some [([1, 2, 3], 1, 1), ([4, 5, 9], 1, 0)] := by decide

/-- persistent queue, disabled batcher, two consumers: shutdown interrupts a retry (kept in storage), one request is never read -/
def demoPersistent : List Label :=
  [.offer [1], .offer [2], .offer [3], .read 0, .sendSync 0, .expStart 0, .expEnd 0 .trans .again, .read 1, .sendSync 1, .expStart 1,
   .shutRetry, .giveUp 0 true, .shutQueue, .expEnd 1 .ok .drop, .exit 0, .exit 1, .join, .shutBatcher, .shutWait]

def demoPFinal : Option State := runFrom (init { persistent := true, batching := false, retry := true } 2 0 false) demoPersistent

example : (demoPFinal.map (fun s => (s.phase, s.stored, s.queue.map (·.1)))) = some (5, [1, 3], [[3]]) := by decide

/-! ## trace-level reading and soundness of the monitor -/

/-- the property's observable clauses on a recorded trace (memory queue) -/
def TraceOK (t : List Ev) : Prop :=
  (∃ e ∈ t, isShutRet e = true) ∧
  (∀ x ∈ earlyItems t, 1 ≤ attemptsOf (evsBefore isShutRet t) x) ∧
  (∀ x ∈ earlyItems t, failedFor (evsBefore isShutRet t) x = false → (earlyItems t).count x ≤ 1 →
      attemptsOf (evsBefore isShutRet t) x ≤ 1) ∧
  (∀ p ∈ startsOf (evsBefore isShutRet t), p.1 ∈ (endsOf (evsBefore isShutRet t)).map (·.1)) ∧
  startsOf (evsAfter isShutRet t) = []

/-- persistent queue: "attempted before the return, or delivered again by the next start" -/
def TraceOKPersistent (t : List Ev) (recovered : List Item) : Prop :=
  (∃ e ∈ t, isShutRet e = true) ∧
  (∀ x ∈ earlyItems t, 1 ≤ attemptsOf (evsBefore isShutRet t) x ∨ x ∈ recovered) ∧
  (∀ p ∈ startsOf (evsBefore isShutRet t), p.1 ∈ (endsOf (evsBefore isShutRet t)).map (·.1)) ∧
  startsOf (evsAfter isShutRet t) = []

theorem filter_isEmpty {α : Type} {p : α → Bool} {l : List α} (h : (l.filter p).isEmpty = true) : ∀ x ∈ l, p x = false := by
  intro x hx
  rw [List.isEmpty_iff] at h
  have := List.filter_eq_nil_iff.mp h x hx
  simpa using this

theorem C03_check_memory_sound (t : List Ev) (h : checkMemory t = true) : TraceOK t := by
  simp only [checkMemory, verdict, Bool.and_eq_true] at h
  obtain ⟨⟨⟨⟨h1, h2⟩, h3⟩, h4⟩, h5⟩ := h
  refine ⟨by simpa [List.any_eq_true] using h1, ?_, ?_, ?_, ?_⟩
  · intro x hx
    have := filter_isEmpty h2 x hx
    simp at this; omega
  · intro x hx hf hc
    have := filter_isEmpty h3 x hx
    simp [hf, hc] at this; exact this
  · intro p hp
    have := filter_isEmpty h4 p.1 (List.mem_map.mpr ⟨p, hp, rfl⟩)
    simp at this ⊢
    exact Decidable.or_iff_not_imp_left.mpr this
  · have := List.isEmpty_iff.mp h5
    simpa using this

theorem C03_check_persistent_sound (t : List Ev) (r : List Item) (h : checkPersistent t r = true) : TraceOKPersistent t r := by
  simp only [checkPersistent, verdict, lostPersistent, Bool.and_eq_true] at h
  obtain ⟨⟨⟨h1, h2⟩, h4⟩, h5⟩ := h
  refine ⟨by simpa [List.any_eq_true] using h1, ?_, ?_, ?_⟩
  · intro x hx
    have := filter_isEmpty h2 x hx
    simp at this
    by_cases ha : attemptsOf (evsBefore isShutRet t) x = 0
    · exact .inr (this ha)
    · exact .inl (by omega)
  · intro p hp
    have := filter_isEmpty h4 p.1 (List.mem_map.mpr ⟨p, hp, rfl⟩)
    simp at this ⊢
    exact Decidable.or_iff_not_imp_left.mpr this
  · have := List.isEmpty_iff.mp h5
    simpa using this

/-- the monitor is not vacuous: it accepts a good trace and rejects an undrained one, a late call, an open call -/
example : checkMemory [.acc [1, 2], .acc [3], .shutReq, .es 0 [1, 2, 3], .ee 0 false, .shutRet] = true := by decide
example : checkMemory [.acc [1, 2], .acc [3], .shutReq, .es 0 [1, 2], .ee 0 false, .shutRet] = false := by decide
example : checkMemory [.acc [1], .shutReq, .es 0 [1], .ee 0 false, .shutRet, .es 1 [7]] = false := by decide
example : checkMemory [.acc [1], .shutReq, .es 0 [1], .shutRet, .ee 0 false] = false := by decide
example : checkMemory [.acc [1], .es 0 [1], .ee 0 false, .shutReq, .es 1 [1], .ee 1 false, .shutRet] = false := by decide
example : checkPersistent [.acc [1], .acc [2], .shutReq, .es 0 [1], .ee 0 true, .shutRet] [2] = true := by decide
example : checkPersistent [.acc [1], .acc [2], .shutReq, .es 0 [1], .ee 0 true, .shutRet] [] = false := by decide

/-- the persistent-queue clauses about shutdown-interrupted flights (request-level keeping, whatever the other parts of a split
request did): every early item of a flight that the shutdown interrupted is in storage at the return AND is delivered by the next start -/
def InterruptedKept (t : List Ev) (ends : List EndInfo) (stored recovered : List Item) : Prop :=
  ∀ p ∈ interruptedCalls t ends, ∀ x ∈ p.2, x ∈ earlyItems t → x ∈ stored ∧ x ∈ recovered

theorem C03_check_interrupted_sound (t : List Ev) (ends : List EndInfo) (stored recovered : List Item)
    (h : checkInterrupted t ends stored recovered = true) : InterruptedKept t ends stored recovered := by
  simp only [checkInterrupted, Bool.and_eq_true, List.isEmpty_iff, interruptedNotStored, interruptedNotRedelivered] at h
  obtain ⟨h1, h2⟩ := h
  intro p hp x hx he
  have hs : x ∈ stored := by
    have := List.flatMap_eq_nil_iff.mp h1 p hp
    have := List.filter_eq_nil_iff.mp this x hx
    simp [he] at this; exact this
  refine ⟨hs, ?_⟩
  have := List.flatMap_eq_nil_iff.mp h2 p hp
  have := List.filter_eq_nil_iff.mp this x hx
  simp [he, hs] at this; exact this

/-- non-vacuity: request [1,2,3,4,5] split in two parts; part [1,2,3] fails permanently (finished), part [4,5] is flushed by the
shutdown and fails with retries left (interrupted): kept and redelivered → accepted; deleted from storage → rejected -/
example : checkInterrupted [.acc [1, 2, 3, 4, 5], .es 0 [1, 2, 3], .ee 0 true, .shutReq, .es 1 [4, 5], .ee 1 true, .shutRet]
    [⟨0, true, true, false⟩, ⟨1, true, false, true⟩] [1, 2, 3, 4, 5] [1, 2, 3, 4, 5] = true := by decide
example : checkInterrupted [.acc [1, 2, 3, 4, 5], .es 0 [1, 2, 3], .ee 0 true, .shutReq, .es 1 [4, 5], .ee 1 true, .shutRet]
    [⟨0, true, true, false⟩, ⟨1, true, false, true⟩] [] [] = false := by decide
example : checkInterrupted [.acc [1, 2], .es 0 [1, 2], .ee 0 true, .shutReq, .shutRet]
    [⟨0, true, false, true⟩] [1, 2] [] = false := by decide

end OtelVerif.C03
