import OtelVerif.Model.C03Cfg
import OtelVerif.Props.C03
/-!
# C03 — every exporter the constructors can build satisfies the hypotheses of the drain and termination theorems

`Model/C03Cfg.lean` `derive` = `NewBaseExporter` → `newQueueBatchConfig` → `newQueueBatch` (branches taken through the regenerated
`Shape.*` facts).  Here: for every VALID option set (`num_consumers ≥ 1`) the runtime object has at least one consumer and — when it
batches — exactly one consumer and a worker pool of exactly one slot; so the hypotheses `s.cons ≠ []` (`C03_memory_drained`) and
`PoolOK` (`C03_not_stuck`, `C03_shutdown_terminates`) hold in every state reachable from the object's initial state and the theorems are
restated WITHOUT them (`…_cfg`).  The harness reads consumers / pool size / queue kind / `wait_for_result` / timer off the real
exporter by reflection and the driver diffs them with `derive` (`prop derive`).
-/
namespace OtelVerif.C03

theorem reachableFrom_reachable {cfg : Cfg} {n w : Nat} {t : Bool} {s : State} (h : ReachableFrom (init cfg n w t) s) : Reachable s := by
  induction h with
  | refl => exact Reachable.init cfg n w t
  | step l _ hf ih => exact Reachable.step l ih hf

theorem cfg_releaseOwner_length (cons : List CSt) (f : Nat) (o : Option Nat) : (releaseOwner cons f o).length = cons.length := by
  cases o with
  | none => rfl
  | some i => simp only [releaseOwner]; split <;> simp

theorem cfg_cons_length_step {s s' : State} {l : Label} (hf : fire s l = some s') : s'.cons.length = s.cons.length := by
  have hs := fire_step hf
  cases hs <;> simp [finalise, cfg_releaseOwner_length]

theorem reachableFrom_cons_length {s0 s : State} (h : ReachableFrom s0 s) : s.cons.length = s0.cons.length := by
  induction h with
  | refl => rfl
  | step l _ hf ih => rw [cfg_cons_length_step hf, ih]

theorem reachableFrom_cfg {s0 s : State} (h : ReachableFrom s0 s) : s.cfg = s0.cfg := by
  induction h with
  | refl => rfl
  | step l _ hf ih => rw [cfg_step (fire_step hf), ih]

theorem reachableFrom_pool {s0 s : State} (h : ReachableFrom s0 s) (hp : PoolOK s0) : PoolOK s := by
  induction h with
  | refl => exact hp
  | step l _ hf ih => exact poolOK_step ih hf

/-- what the regenerated skeletons say today (used only to evaluate `derive`) -/
theorem shape_cfg_facts :
    Shape.legacyForcesWfr = true ∧ Shape.batchForcesOneConsumer = true ∧ Shape.queueKind = true ∧ Shape.poolIsConsumers = true ∧
    Shape.timerLoop = true ∧ Shape.batcherSizers = true ∧ Shape.startOrder = true := by decide

/-- **Constructor facts.**  For every option set: a queue sender exists iff a queue or the legacy batcher is enabled; batching ⇒ ONE
consumer and a worker pool of ONE slot; a legacy batcher without queue ⇒ memory queue with `wait_for_result`; a persistent queue
never has `wait_for_result`; without batching there is no timer goroutine and the consumers are the configured ones. -/
theorem C03_derive_facts (u : UCfg) :
    ((derive u).isSome = (u.queueEnabled || u.legacyBatcher)) ∧
    ∀ rt, derive u = some rt →
      (rt.cfg.batching = true → rt.nCons = 1 ∧ rt.workers = 1) ∧
      (rt.cfg.batching = (u.legacyBatcher || u.queueBatch)) ∧
      (u.legacyBatcher = true → u.queueEnabled = false → rt.cfg.wfr = true ∧ rt.cfg.persistent = false) ∧
      (rt.cfg.persistent = true → rt.cfg.wfr = false) ∧
      (rt.cfg.batching = false → rt.timer = false ∧ rt.nCons = u.numConsumers ∧ rt.cfg.persistent = u.storage) ∧
      rt.cfg.retry = u.retry := by
  obtain ⟨f1, f2, f3, f4, f5, _, _⟩ := shape_cfg_facts
  refine ⟨by simp only [derive]; split <;> simp_all, ?_⟩
  intro rt h
  simp only [derive] at h
  split at h
  · simp only [Option.some.injEq] at h
    subst h
    simp only [queueBatch, queueBatchConfig, f1, f2, f3, f4, f5]
    cases hl : u.legacyBatcher <;> cases hq : u.queueEnabled <;> cases hb : u.queueBatch <;> cases hs : u.storage <;> cases hw : u.wfr <;> simp_all
  · simp at h

/-- **At least one consumer** for every valid option set (`num_consumers ≥ 1`; the legacy batcher without queue uses `NumCPU`, then 1) -/
theorem C03_derive_consumers_pos (u : UCfg) (hv : u.valid) (rt : RT) (h : derive u = some rt) : 1 ≤ rt.nCons := by
  obtain ⟨f1, f2, f3, f4, f5, _, _⟩ := shape_cfg_facts
  simp only [derive] at h
  split at h
  · simp only [Option.some.injEq] at h
    subst h
    obtain ⟨h1, h2⟩ := hv
    simp only [queueBatch, queueBatchConfig, f1, f2]
    cases hl : u.legacyBatcher <;> cases hq : u.queueEnabled <;> cases hb : u.queueBatch <;> simp_all
  · simp at h

/-- **The worker pool has a slot** for every option set: the pool hypothesis of stuck-freedom / termination holds initially -/
theorem C03_derive_pool (u : UCfg) (rt : RT) (h : derive u = some rt) : PoolOK rt.init := by
  obtain ⟨_, hall⟩ := C03_derive_facts u
  obtain ⟨hb, _⟩ := hall rt h
  intro hbt
  have : rt.workers = 1 := (hb (by simpa [RT.init, init] using hbt)).2
  simp [RT.init, init, this, liveUnowned]

/-- every state reachable from the object the constructors build: consumers exist, pool hypothesis holds, configuration unchanged -/
theorem derive_reach (u : UCfg) (hv : u.valid) (rt : RT) (h : derive u = some rt) {s : State} (hr : ReachableFrom rt.init s) :
    Reachable s ∧ s.cons ≠ [] ∧ PoolOK s ∧ s.cfg = rt.cfg := by
  refine ⟨reachableFrom_reachable hr, ?_, reachableFrom_pool hr (C03_derive_pool u rt h), reachableFrom_cfg hr⟩
  have hl := reachableFrom_cons_length hr
  have hn := C03_derive_consumers_pos u hv rt h
  intro hnil
  rw [hnil] at hl
  simp [RT.init, init] at hl
  omega

/-- **Memory queue drained — for every exporter the constructors build** (no hypothesis on the state besides "Shutdown returned"):
valid options, memory queue ⇒ every item enqueued before the shutdown request was attempted at least once, exactly once when no
attempt of its flight failed. -/
theorem C03_memory_drained_cfg (u : UCfg) (hv : u.valid) (rt : RT) (h : derive u = some rt) (hm : rt.cfg.persistent = false)
    {s : State} (hr : ReachableFrom rt.init s) (hp : s.phase = 5) (x : Item) (hx : x ∈ s.early) :
    ∃ fl ∈ s.flights, x ∈ fl.batch ∧ fl.st = .done ∧ 1 ≤ fl.attempts ∧ (fl.failures = 0 → fl.attempts = 1) := by
  obtain ⟨hre, hn, _, hc⟩ := derive_reach u hv rt h hr
  exact C03_memory_drained hre hp (by rw [hc]; exact hm) hn x hx

/-- **Shutdown terminates — for every exporter the constructors build**: from every state after the shutdown request some schedule
of helper / backend / shutdown steps (no offer) reaches "returned"; and while not returned some such step is enabled. -/
theorem C03_shutdown_terminates_cfg (u : UCfg) (hv : u.valid) (rt : RT) (h : derive u = some rt)
    {s : State} (hr : ReachableFrom rt.init s) :
    (1 ≤ s.phase → ∃ ls s', (∀ l ∈ ls, isOffer l = false) ∧ runFrom s ls = some s' ∧ s'.phase = 5) ∧
    (s.phase < 5 → ∃ l s', isOffer l = false ∧ fire s l = some s') := by
  obtain ⟨hre, _, hpool, _⟩ := derive_reach u hv rt h hr
  exact ⟨fun hp => C03_shutdown_terminates_without_offers hre hp hpool, fun hp => C03_not_stuck hre hpool hp⟩

/-- non-vacuity: the legacy batcher without queue on an 8-CPU machine; a persistent queue with `sending_queue::batch` -/
example : derive { queueEnabled := false, storage := false, wfr := false, itemsSized := false, numConsumers := 10, queueBatch := false,
                   legacyBatcher := true, flushTimeout := true, retry := true, numCPU := 8 } =
    some { cfg := { persistent := false, batching := true, retry := true, wfr := true, itemsSized := false }, nCons := 1, workers := 1, timer := true } := by
  decide
example : derive { queueEnabled := true, storage := true, wfr := true, itemsSized := true, numConsumers := 3, queueBatch := true,
                   legacyBatcher := false, flushTimeout := false, retry := false, numCPU := 8 } =
    some { cfg := { persistent := true, batching := true, retry := false, wfr := false, itemsSized := true }, nCons := 1, workers := 1, timer := false } := by
  decide
example : derive { queueEnabled := false, storage := false, wfr := false, itemsSized := false, numConsumers := 3, queueBatch := false,
                   legacyBatcher := false, flushTimeout := false, retry := true, numCPU := 8 } = none := by decide

end OtelVerif.C03
