import OtelVerif.Model.C03Shape
import OtelVerif.Props.C03
/-!
# C03 — the LTS has the order of the SOURCE (tie T)

`Gen/C03Shape.lean` is rewritten from /repo on every run; `Model/C03Shape.lean` interprets it.  The theorems below relate the
interpreted skeletons to `fire`: they are about ALL states and labels of the LTS, and they quantify over whatever the generated
data evaluates to — when the source reorders the shutdown path (batcher before queue, join dropped, an early return inserted,
`Read` checking `stopped` first, the worker slot taken after `go`, …) the generated lists change and these proofs stop building.
-/
namespace OtelVerif.C03

/-- what the regenerated skeletons evaluate to today -/
theorem shape_steps (p : Bool) : Shape.phaseSteps p = some [.shutRetry, .shutQueue, .join, .shutBatcher, .shutWait] := by
  cases p <;> decide

theorem finalise_phase (s : State) (f : Nat) (fl : Flight) (k : Bool) (n : Nat) : (finalise s f fl k n).phase = s.phase := rfl

/-- **Phase order = source order.**  Whatever the queue kind: the phase-advancing labels extracted from the source (callees inlined,
no function on the path returns early) are five; the LTS fires the `k`-th of them exactly in phase `k` and thereby moves to phase
`k + 1`; no other label changes the phase.  So the only way to "Shutdown returned" (`phase = 5`) is: retry sender stopped, queue
stopped, consumers joined, batcher's `shutdownCh` closed (final flush), flush goroutines awaited — in the order the code executes. -/
theorem C03_shape_phase_order (p : Bool) :
    ∃ steps, Shape.phaseSteps p = some steps ∧ steps.length = 5 ∧
      ∀ (s s' : State) (l : Label), fire s l = some s' →
        (l ∈ steps → steps[s.phase]? = some l ∧ s'.phase = s.phase + 1) ∧ (l ∉ steps → s'.phase = s.phase) := by
  refine ⟨_, shape_steps p, rfl, ?_⟩
  intro s s' l hf
  have hs := fire_step hf
  cases hs <;> simp_all [finalise_phase]

/-- … and `phase = 5` is reached only through all five, in order: a run that ends "returned" contains them as a subsequence -/
theorem C03_shape_all_steps_taken (p : Bool) {s s' : State} {ls : List Label} (h0 : s.phase = 0) (hr : runFrom s ls = some s')
    (h5 : s'.phase = 5) : ∃ steps, Shape.phaseSteps p = some steps ∧ steps.Sublist ls := by
  refine ⟨_, shape_steps p, ?_⟩
  -- generalise: from phase k, the remaining steps form a sublist
  have key : ∀ (ls : List Label) (s : State) (k : Nat), s.phase = k → k ≤ 5 → runFrom s ls = some s' →
      (([.shutRetry, .shutQueue, .join, .shutBatcher, .shutWait] : List Label).drop k).Sublist ls := by
    intro ls
    induction ls with
    | nil =>
      intro s k hk hk5 hr
      simp only [runFrom, Option.some.injEq] at hr
      subst hr
      have : k = 5 := by omega
      subst this; simp
    | cons l ls ih =>
      intro s k hk hk5 hr
      simp only [runFrom] at hr
      cases hf : fire s l with
      | none => simp [hf] at hr
      | some s1 =>
        simp only [hf] at hr
        obtain ⟨steps, hst, _, hall⟩ := C03_shape_phase_order p
        rw [shape_steps p] at hst
        have hst' := Option.some.inj hst
        subst hst'
        obtain ⟨hin, hout⟩ := hall s s1 l hf
        by_cases hl : l ∈ ([.shutRetry, .shutQueue, .join, .shutBatcher, .shutWait] : List Label)
        · obtain ⟨hidx, hph⟩ := hin hl
          have hk5' : k < 5 := by
            rcases Nat.lt_or_ge k 5 with h | h
            · exact h
            · have : k = 5 := by omega
              subst this; rw [hk] at hidx; simp at hidx
          have := ih s1 (k + 1) (by omega) (by omega) hr
          rw [hk] at hidx
          have hdrop : ([.shutRetry, .shutQueue, .join, .shutBatcher, .shutWait] : List Label).drop k =
              l :: ([.shutRetry, .shutQueue, .join, .shutBatcher, .shutWait] : List Label).drop (k + 1) := by
            rw [List.drop_eq_getElem_cons (by simpa using hk5')]
            congr 1
            have := List.getElem?_eq_getElem (l := ([.shutRetry, .shutQueue, .join, .shutBatcher, .shutWait] : List Label)) (i := k) (by simpa using hk5')
            rw [this] at hidx
            exact Option.some.inj hidx
          rw [hdrop]
          exact List.Sublist.cons_cons l this
        · have hph := hout hl
          exact List.Sublist.cons l (ih s1 k (by omega) hk5 hr)
  simpa using key ls s 0 h0 (by omega) hr

/-- **Read / exit rules = source order of the checks.**  `memoryQueue.Read` looks at its items before `stopped` (serves after the
stop until empty; a consumer leaves only when stopped AND empty); `persistentQueue.Read` looks at `stopped` first (dispatches
nothing after the stop; a consumer leaves although requests remain — they stay stored) and resets the size when drained. -/
theorem C03_shape_read_rules :
    Shape.memoryServesAfterStop = true ∧ Shape.persistentStopsFirst = true ∧ Shape.persistentResetsSize = true ∧ Shape.consumerLoop = true ∧
    (∀ (s : State) (i : Nat) (b : Batch) (late : Bool) (rest : List (Batch × Bool)), s.cfg.persistent = false → s.cons[i]? = some .idle →
        s.queue = (b, late) :: rest → ∃ s', fire s (.read i) = some s' ∧ s'.cons[i]? = some (.holding b) ∧ s'.queue = rest) ∧
    (∀ (s s' : State) (i : Nat), s.cfg.persistent = false → fire s (.exit i) = some s' → 2 ≤ s.phase ∧ s.queue = []) ∧
    (∀ (s : State) (i : Nat), s.cfg.persistent = true → 2 ≤ s.phase → fire s (.read i) = none) ∧
    (∀ (s : State) (i : Nat), s.cfg.persistent = true → 2 ≤ s.phase → s.cons[i]? = some .idle → (fire s (.exit i)).isSome = true) := by
  refine ⟨by decide, by decide, by decide, by decide, ?_, ?_, ?_, ?_⟩
  · intro s i b late rest hm hc hq
    have hi : i < s.cons.length := by
      rcases Nat.lt_or_ge i s.cons.length with h | h
      · exact h
      · simp [List.getElem?_eq_none h] at hc
    exact ⟨{ s with queue := rest, cons := s.cons.set i (.holding b), qsize := s.qsize }, by simp [fire, hc, hq, hm], by simp [hi], rfl⟩
  · intro s s' i hm hf
    have hs := fire_step hf
    cases hs with
    | exit _ hc hp hq => exact ⟨hp, by simpa [hm] using hq⟩
  · intro s i hp h2; exact C03_persistent_stops_dispatch s i hp h2
  · intro s i hp h2 hc; simp [fire, hc, hp, h2]

/-- **Worker pool / flush goroutine protocol = source order of `flush`.**  The slot is taken before the goroutine starts and given
back after `done.OnDone`: in the LTS every hand-over of a batch to a flush goroutine (`spawn`, `timerSpawn`, `shutSpawn`) needs and
takes a free slot and creates a pending flight that no consumer owns; the timer goroutine exists only with a flush timeout and
leaves only once `shutdownCh` is closed; the disabled batcher runs the chain on the consumer. -/
theorem C03_shape_flush_protocol :
    Shape.flushProtocol = true ∧ Shape.takeThenFlush = true ∧ Shape.timerLoop = true ∧ Shape.disabledSync = true ∧
    (∀ (s s' : State) (l : Label), (l = .timerSpawn ∨ l = .shutSpawn ∨ ∃ i, l = .spawn i) → fire s l = some s' →
        0 < s.workers ∧ s'.workers + 1 = s.workers ∧ ∃ b, s'.flights = s.flights ++ [Flight.new b none]) ∧
    (∀ (s s' : State), fire s .timerExit = some s' → 4 ≤ s.phase) ∧
    (∀ (s s' : State) (i : Nat), fire s (.sendSync i) = some s' → s.cfg.batching = false ∧
        ∃ b, s'.flights = s.flights ++ [Flight.new b (some i)]) := by
  refine ⟨by decide, by decide, by decide, by decide, ?_, ?_, ?_⟩
  · intro s s' l hl hf
    have hs := fire_step hf
    rcases hl with h | h | ⟨i, h⟩
    · subst h
      cases hs with
      | timerSpawn b ht hw => exact ⟨hw, by simp; omega, b, rfl⟩
    · subst h
      cases hs with
      | shutSpawn b hh hp hw => exact ⟨hw, by simp; omega, b, rfl⟩
    · subst h
      cases hs with
      | spawn _ b rest hc hw => exact ⟨hw, by simp; omega, b, rfl⟩
  · intro s s' hf
    have hs := fire_step hf
    cases hs with
    | timerExit ht hp => exact hp
  · intro s s' i hf
    have hs := fire_step hf
    cases hs with
    | sendSync _ b hc hb => exact ⟨hb, b, rfl⟩

/-- **Retry loop = source order of its selects**, and the retry sender sits inside the queue sender: the stop is checked before the
back-off, so in the LTS a stopped retry sender schedules nothing (`C03_stopped_retry_schedules_nothing`) and a back-off can end "kept"
only after the stop. -/
theorem C03_shape_retry :
    Shape.stopCheckedBeforeBackoff = true ∧ Shape.chainOrder = true ∧
    (∀ (s : State) (f : Nat) (o : Outcome), 1 ≤ s.phase → fire s (.expEnd f o .again) = none) ∧
    (∀ (s s' : State) (f : Nat), fire s (.giveUp f true) = some s' → 1 ≤ s.phase) := by
  refine ⟨by decide, by decide, fun s f o hp => C03_stopped_retry_schedules_nothing s f o hp, ?_⟩
  intro s s' f hf
  have hs := fire_step hf
  cases hs with
  | giveUp _ fl _ hfl hst hk => exact hk rfl

/-- **`Done` = source order of `onDone` / `refCountDone`.**  A flight that ends with a shutdown error leaves the storage untouched (the
persistent queue returns before deleting), any other ending removes exactly the flight's items; the queue size never grows by a `Done`
(clamped release); a request's `Done` receives an error iff SOME part of it ended with an error (all part errors are joined — not only
the first). -/
theorem C03_shape_done :
    Shape.persistentKeepsOnShutdownErr = true ∧ Shape.doneJoinsAll = true ∧
    (∀ (s : State) (f : Nat) (fl : Flight) (n : Nat), (finalise s f fl true n).stored = s.stored) ∧
    (∀ (s : State) (f : Nat) (fl : Flight) (n : Nat), (finalise s f fl false n).stored = s.stored.filter (fun x => !fl.batch.contains x)) ∧
    (∀ (s : State) (f : Nat) (fl : Flight) (k : Bool) (n : Nat), (finalise s f fl k n).qsize ≤ s.qsize) ∧
    (∀ (fs : List Flight) (r : Batch), reqFailed fs r = true ↔
        ∃ fl ∈ fs, fl.st = .done ∧ fl.attempts ≠ fl.failures + 1 ∧ ∃ x ∈ r, x ∈ fl.batch) := by
  refine ⟨by decide, by decide, fun _ _ _ _ => rfl, fun _ _ _ _ => rfl, ?_, ?_⟩
  · intro s f fl k n
    simp only [finalise]
    exact Nat.sub_le _ _
  · intro fs r
    simp only [reqFailed, List.any_eq_true, Bool.and_eq_true, beq_iff_eq, bne_iff_ne, ne_eq, List.contains_iff_mem]
    constructor
    · rintro ⟨fl, hfl, ⟨hd, ha⟩, x, hx, hb⟩; exact ⟨fl, hfl, hd, ha, x, hx, hb⟩
    · rintro ⟨fl, hfl, hd, ha, x, hx, hb⟩; exact ⟨fl, hfl, ⟨hd, ha⟩, x, hx, hb⟩

end OtelVerif.C03
