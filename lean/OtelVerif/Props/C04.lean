import OtelVerif.Model.C04
import OtelVerif.Gen.C04Config
import OtelVerif.Lemmas.C04Term
import OtelVerif.Lemmas.C04Drop
import OtelVerif.Lemmas.C04Perm
import OtelVerif.Lemmas.C04Pinned
import OtelVerif.Lemmas.C04Bound
import OtelVerif.Lemmas.C04BoundBytes
import OtelVerif.Lemmas.C04BoundMetrics
import OtelVerif.Lemmas.C04Fifo
import OtelVerif.Lemmas.C04History
import OtelVerif.Lemmas.C04ErrHist
import OtelVerif.Lemmas.C04Done
import OtelVerif.Lemmas.C04Cover
/-!
# C04 — exporter batching conserves telemetry, keeps identity, respects size limits

Property theorems only.  `Model/C04.lean` is the repaired code of /tmp/wt-C04 (four `fix:` commits);
`Gen.C04Shape` is regenerated from the `*_batch.go` files on every run.
-/
namespace OtelVerif.C04
open OtelVerif.Payload OtelVerif.Gen

/-! ## the model has the shape of the source (translator tie) -/

/-- `split()` in all four files has the `rmSize == 0` branch the model's loop has -/
theorem C04_shape_split_handles_no_progress : C04Shape.splitHandlesNoProgress = true := by decide

/-! ## conservation with full context -/

def optFlat {P β : Type} (flat : P → List β) (r : Option (Req P)) : List β :=
  match r with
  | some r => flat r.p
  | none => []

theorem mergeSplit_perm_aux {P β : Type} (o : Ops P) (flat : P → List β) (hc : Conserves o flat)
    (hE : ∀ p, o.empty p = true → flat p = []) (max : Int)
    (r : Req P) (out : List (Req P)) (h : (if max == 0 then some [r] else split o max r) = some out) :
    (flatReqs flat out).Perm (flat r.p) := by
  split at h
  · injection h with h
    subst h
    rw [flatReqs_single]
  · obtain ⟨out0, h0, rfl⟩ := split_some o max r out h
    have := splitLoop_perm o flat hc max _ _ [] out0 h0
    rw [dropEmptyLast_flat o flat hE]
    simpa [flatReqs] using this

theorem mergeSplit_perm {P β : Type} (o : Ops P) (flat : P → List β) (hc : Conserves o flat)
    (hE : ∀ p, o.empty p = true → flat p = []) (max : Int)
    (r1 : Req P) (r2 : Option (Req P)) (out : List (Req P)) (h : mergeSplit o max r1 r2 = some out) :
    (flatReqs flat out).Perm (flat r1.p ++ optFlat flat r2) := by
  cases r2 with
  | none =>
    have := mergeSplit_perm_aux o flat hc hE max r1 out h
    simpa [optFlat] using this
  | some r2 =>
    have := mergeSplit_perm_aux o flat hc hE max (mergeTo o r1 r2) out h
    simpa [optFlat, mergeTo, hc.append] using this

/-- logs, traces, profiles: for every sizer, every limit, every pair of requests, whatever `MergeSplit` returns holds
exactly the records that came in, each with its resource, resource schema URL, scope and scope schema URL -/
theorem C04_conserve (sz : Sizer) (max : Int) (r1 : Req (List Res)) (r2 : Option (Req (List Res))) (out : List (Req (List Res)))
    (h : mergeSplit (logsOps sz) max r1 r2 = some out) :
    (flatReqs flatten out).Perm (flatten r1.p ++ optFlat flatten r2) :=
  mergeSplit_perm _ _ (logs_conserves sz) (logs_empty_flat sz) max r1 r2 out h

/-- metrics (repaired `extract*DataPoints`): every data point also keeps its metric's name, unit, description, type,
temporality, monotonicity and metadata -/
theorem C04_conserve_metrics (sz : Sizer) (max : Int) (r1 : Req (List MRes)) (r2 : Option (Req (List MRes)))
    (out : List (Req (List MRes))) (h : mergeSplit (metricsOps true sz) max r1 r2 = some out) :
    (flatReqs mflatten out).Perm (mflatten r1.p ++ optFlat mflatten r2) :=
  mergeSplit_perm _ _ (metrics_conserves sz) (metrics_empty_flat true sz) max r1 r2 out h

/-- the same statement for the pinned `extract*DataPoints` (`metricFragmentKeepsIdentity = false`) -/
def C04_conserve_metrics_pinned_full : Prop :=
  ∀ (sz : Sizer) (max : Int) (r1 : Req (List MRes)) (out : List (Req (List MRes))),
    mergeSplit (metricsOps false sz) max r1 none = some out → (flatReqs mflatten out).Perm (mflatten r1.p)

/-- the design-time witness: one sum with 4 points, `max_size = 3` items -/
def pinnedWitness : List MRes :=
  [⟨⟨1, 2, 0⟩, [⟨⟨3, 0, 0, 4, 0⟩, [⟨⟨5, 6, 7, 2, 1, 1, 8, 0, 0⟩, [⟨10, 0, 1⟩, ⟨11, 0, 1⟩, ⟨12, 0, 1⟩, ⟨13, 0, 1⟩]⟩]⟩]⟩]

theorem C04_conserve_metrics_pinned_full_fails : ¬ C04_conserve_metrics_pinned_full := by
  intro h
  have hp := h ⟨false⟩ 3 { p := pinnedWitness } _ rfl
  have hm : ((⟨1, 2, 0⟩, ⟨3, 0, 0, 4, 0⟩, ⟨0, 0, 0, 2, 0, 0, 0, 0, 0⟩, ⟨10, 0, 1⟩) : MCtx) ∈ mflatten pinnedWitness :=
    hp.subset (by decide)
  revert hm
  decide

/-! ### which conservation theorem is about the tree being checked

`Gen.C04Shape.metricFragmentKeepsIdentity` is regenerated from metrics_batch.go on every run and selects the fragment
construction in the model (`metricsOps keep`).  `MetricsConserved keep` is what conservation means for that construction:

* `keep = true`  (repaired `extract*DataPoints`, commit 6f81c0a15, NOT in /repo): the full statement, `C04_conserve_metrics`;
* `keep = false` (the code in /repo): `C04_conserve_metrics_partial` — every data point is conserved exactly once with its
  resource, scope, both schema URLs and metric *type*, and its metric identity is either the source's or the anonymous
  typed fragment's; the full statement is false for this construction (`C04_conserve_metrics_pinned_full_fails`, open
  finding `C04/mergesplit/metric-identity-lost/anonymous-split-off-fragment`).

`C04_conserve_metrics_checked_tree` is the instance at the regenerated flag: whichever tree is checked gets the theorem
about ITS code. -/

/-- conservation of data points for the fragment construction selected by `keep` -/
def MetricsConserved (keep : Bool) (src out : List MCtx) : Prop :=
  if keep then out.Perm src
  else (out.map anon).Perm (src.map anon) ∧ ∀ c ∈ out, c ∈ src ∨ ∃ c' ∈ src, c = anon c'

/-- the code in /repo (`keep = false`): conserved exactly once with resource, scope, both schema URLs and metric type;
metric identity = the source's or the anonymous typed fragment's -/
theorem C04_conserve_metrics_partial (sz : Sizer) (max : Int) (r1 : Req (List MRes)) (r2 : Option (Req (List MRes)))
    (out : List (Req (List MRes))) (h : mergeSplit (metricsOps false sz) max r1 r2 = some out) :
    ((flatReqs mflatten out).map anon).Perm ((mflatten r1.p ++ optFlat mflatten r2).map anon) ∧
    ∀ c ∈ flatReqs mflatten out, c ∈ mflatten r1.p ++ optFlat mflatten r2 ∨
      ∃ c' ∈ mflatten r1.p ++ optFlat mflatten r2, c = anon c' := by
  constructor
  · have hEw : ∀ p, (metricsOps false sz).empty p = true → wflatten p = [] := by
      intro p hp
      simp only [metricsOps, Bool.and_eq_true, List.isEmpty_iff] at hp
      rw [hp.2]; rfl
    have := mergeSplit_perm _ _ (metrics_wconserves false sz) hEw max r1 r2 out h
    have e1 : flatReqs wflatten out = (flatReqs mflatten out).map anon := by
      simp [flatReqs, wflatten, List.map_flatMap]
    have e2 : wflatten r1.p ++ optFlat wflatten r2 = (mflatten r1.p ++ optFlat mflatten r2).map anon := by
      cases r2 <;> simp [optFlat, wflatten]
    rw [e1, e2] at this
    exact this
  · intro c hc
    -- MergeSplit = merge (append) then either the request itself or the split loop
    have key : ∀ (r : Req (List MRes)), (if max == 0 then some [r] else split (metricsOps false sz) max r) = some out →
        Allowed (mflatten r.p) c := by
      intro r hr
      split at hr
      · injection hr with hr
        subst hr
        exact Or.inl (by simpa [flatReqs_single] using hc)
      · obtain ⟨out0, h0, rfl⟩ := split_some _ max r out hr
        rw [dropEmptyLast_flat _ mflatten (metrics_empty_flat false sz)] at hc
        have := splitLoop_allowed false sz max _ r [] out0 h0 c hc
        simpa [flatReqs] using this
    cases r2 with
    | none => simpa [optFlat, Allowed] using key r1 h
    | some r2 =>
      have := key (mergeTo (metricsOps false sz) r1 r2) h
      simpa [optFlat, Allowed, mergeTo, metricsOps, mflatten] using this

/-- one theorem for both constructions -/
theorem C04_conserve_metrics_flag (keep : Bool) (sz : Sizer) (max : Int) (r1 : Req (List MRes)) (r2 : Option (Req (List MRes)))
    (out : List (Req (List MRes))) (h : mergeSplit (metricsOps keep sz) max r1 r2 = some out) :
    MetricsConserved keep (mflatten r1.p ++ optFlat mflatten r2) (flatReqs mflatten out) := by
  cases keep with
  | true => exact C04_conserve_metrics sz max r1 r2 out h
  | false => exact C04_conserve_metrics_partial sz max r1 r2 out h

/-- the instance for the tree this run checks (the model the driver runs is `metricsOps C04Shape.metricFragmentKeepsIdentity`) -/
theorem C04_conserve_metrics_checked_tree (sz : Sizer) (max : Int) (r1 : Req (List MRes)) (r2 : Option (Req (List MRes)))
    (out : List (Req (List MRes)))
    (h : mergeSplit (metricsOps C04Shape.metricFragmentKeepsIdentity sz) max r1 r2 = some out) :
    MetricsConserved C04Shape.metricFragmentKeepsIdentity (mflatten r1.p ++ optFlat mflatten r2) (flatReqs mflatten out) :=
  C04_conserve_metrics_flag _ sz max r1 r2 out h

/-! ## termination -/

/-- `split` (hence `MergeSplit`) ends for every request, limit and sizer: `nodes + 1` iterations always suffice -/
theorem C04_terminates (sz : Sizer) (max : Int) (req : Req (List Res)) : (split (logsOps sz) max req).isSome = true :=
  split_isSome _ max req (splitLoop_isSome _ (logs_shrinks sz) max _ req [] (Nat.lt_succ_self _))

theorem C04_terminates_metrics (keep : Bool) (sz : Sizer) (max : Int) (req : Req (List MRes)) :
    (split (metricsOps keep sz) max req).isSome = true :=
  split_isSome _ max req (splitLoop_isSome _ (metrics_shrinks keep sz) max _ req [] (Nat.lt_succ_self _))

theorem C04_mergeSplit_total (sz : Sizer) (max : Int) (r1 : Req (List Res)) (r2 : Option (Req (List Res))) :
    (mergeSplit (logsOps sz) max r1 r2).isSome = true := by
  simp only [mergeSplit]
  split
  · rfl
  · exact C04_terminates sz max _

/-! ## cachedSize and the size bound -/

theorem mergeSplit_exact {P : Type} (o : Ops P) (hs : SizeExact o) (max : Int) (r1 : Req P) (r2 : Option (Req P))
    (out : List (Req P)) (h : mergeSplit o max r1 r2 = some out) (h1 : r1.exact o) (h2 : ∀ r, r2 = some r → r.exact o) :
    ∀ r ∈ out, r.exact o := by
  have hm : (match r2 with | some r2 => mergeTo o r1 r2 | none => r1).exact o := by
    cases r2 with
    | none => exact h1
    | some r2 =>
      right
      have e1 := norm_cached o r1 h1
      have e2 := norm_cached o r2 (h2 r2 rfl)
      simp only [Req.norm] at e1 e2
      simp only [mergeTo, hs.append, e1, e2]
  simp only [mergeSplit] at h
  split at h
  · injection h with h
    subst h
    intro r hr
    simp only [List.mem_singleton] at hr
    subst hr
    cases r2 <;> exact hm
  · obtain ⟨out0, h0, rfl⟩ := split_some o max _ out h
    intro r hr
    have hr0 := dropEmptyLast_mem o out0 r hr
    cases r2 with
    | none => exact splitLoop_exact o hs max _ _ [] out0 h0 hm (by simp) r hr0
    | some r2 => exact splitLoop_exact o hs max _ _ [] out0 h0 hm (by simp) r hr0

/-- **cachedSize** (logs, traces, profiles; items and bytes sizer): the memoised size of every request `MergeSplit`
returns is unset (`-1`) or exactly the size of its payload — `removedSize` is exactly what the source lost, through every
level's "delta between the delta sizes" arithmetic, for ANY `DeltaSize` function -/
theorem C04_cached_size (sz : Sizer) (max : Int) (r1 : Req (List Res)) (r2 : Option (Req (List Res))) (out : List (Req (List Res)))
    (h : mergeSplit (logsOps sz) max r1 r2 = some out) (h1 : r1.exact (logsOps sz)) (h2 : ∀ r, r2 = some r → r.exact (logsOps sz)) :
    ∀ r ∈ out, r.cached = -1 ∨ r.cached = payloadSize sz r.p :=
  mergeSplit_exact _ (logs_sizeExact sz) max r1 r2 out h h1 h2

/-- the same for metrics with the items sizer, for either fragment construction.  With the bytes sizer the accounting of a
metric cut in two is an upper bound only (checked by the `cached` oracle on every run, not a theorem). -/
theorem C04_cached_size_metrics_items (keep : Bool) (max : Int) (r1 : Req (List MRes)) (r2 : Option (Req (List MRes)))
    (out : List (Req (List MRes))) (h : mergeSplit (metricsOps keep ⟨false⟩) max r1 r2 = some out)
    (h1 : r1.exact (metricsOps keep ⟨false⟩)) (h2 : ∀ r, r2 = some r → r.exact (metricsOps keep ⟨false⟩)) :
    ∀ r ∈ out, r.cached = -1 ∨ r.cached = mpayloadSize ⟨false⟩ r.p :=
  mergeSplit_exact _ (metrics_sizeExact keep) max r1 r2 out h h1 h2

theorem mergeSplit_bound {P : Type} (o : Ops P) (heavy : P → Nat) (hs : SizeExact o) (hb : Bounded o heavy) (max : Int)
    (hmax : 0 < max) (r1 : Req P) (r2 : Option (Req P)) (out : List (Req P)) (h : mergeSplit o max r1 r2 = some out)
    (h1 : r1.exact o) (h2 : ∀ r, r2 = some r → r.exact o) : ∀ r ∈ out, r.within o heavy max := by
  have hm : (match r2 with | some r2 => mergeTo o r1 r2 | none => r1).exact o := by
    cases r2 with
    | none => exact h1
    | some r2 =>
      right
      have e1 := norm_cached o r1 h1
      have e2 := norm_cached o r2 (h2 r2 rfl)
      simp only [Req.norm] at e1 e2
      simp only [mergeTo, hs.append, e1, e2]
  have hne : (max == 0) = false := by
    have : max ≠ 0 := by omega
    simpa using this
  simp only [mergeSplit, hne, Bool.false_eq_true, if_false] at h
  obtain ⟨out0, h0, rfl⟩ := split_some o max _ out h
  intro r hr
  have hr0 := dropEmptyLast_mem o out0 r hr
  cases r2 with
  | none => exact splitLoop_bound o heavy hs hb max (by omega) _ _ [] out0 h0 hm (by simp) r hr0
  | some r2 => exact splitLoop_bound o heavy hs hb max (by omega) _ _ [] out0 h0 hm (by simp) r hr0

/-- **size bound, items sizer** (logs, traces, profiles): with `max_size > 0`, every request `MergeSplit` returns has at
most `max_size` items (weight: 1 per log record / span, the number of samples per profile) unless it holds at most one
item that weighs anything — the single indivisible item (a profile with more samples than `max_size`).
The bytes-sizer bound is `C04_bound_bytes` below. -/
theorem C04_bound_items (max : Int) (hmax : 0 < max) (r1 : Req (List Res)) (r2 : Option (Req (List Res)))
    (out : List (Req (List Res))) (h : mergeSplit (logsOps ⟨false⟩) max r1 r2 = some out)
    (h1 : r1.exact (logsOps ⟨false⟩)) (h2 : ∀ r, r2 = some r → r.exact (logsOps ⟨false⟩)) :
    ∀ r ∈ out, payloadSize ⟨false⟩ r.p ≤ max ∨ heavy r.p ≤ 1 :=
  mergeSplit_bound _ heavy (logs_sizeExact _) logs_bounded max hmax r1 r2 out h h1 h2

/-- **size bound, bytes sizer** (logs, traces, profiles): with `max_size > 0`, every request `MergeSplit` returns has an
encoded size (`DeltaSize n = 1 + n + sov n`, `sov` = varint length, leaf and own-field sizes as measured) of at most
`max_size`, unless it holds at most one item that weighs anything — the single indivisible item that alone (with its resource
and scope) exceeds `max_size`.  The per-level budget `capacity - (DeltaSize(capacity) - capacity) - size(own fields)` is what
makes a fragment fit once its own length prefix is added (`frag_fits`, monotonicity of the varint length). -/
theorem C04_bound_bytes (max : Int) (hmax : 0 < max) (r1 : Req (List Res)) (r2 : Option (Req (List Res)))
    (out : List (Req (List Res))) (h : mergeSplit (logsOps ⟨true⟩) max r1 r2 = some out)
    (h1 : r1.exact (logsOps ⟨true⟩)) (h2 : ∀ r, r2 = some r → r.exact (logsOps ⟨true⟩)) :
    ∀ r ∈ out, payloadSize ⟨true⟩ r.p ≤ max ∨ heavyS ⟨true⟩ r.p ≤ 1 :=
  mergeSplit_bound _ (heavyS ⟨true⟩) (logs_sizeExact _) logs_bounded_bytes max hmax r1 r2 out h h1 h2

/-- **size bound, metrics, items sizer** (either fragment construction, i.e. also the code in /repo): with `max_size > 0`
every request `MergeSplit` returns has at most `max_size` data points, or at most one.
Metrics with the BYTES sizer: for the construction in /repo (`metricFragmentKeepsIdentity = false`) the bound is FALSE (open
finding `C04/mergesplit/batch-exceeds-max/metrics-bytes-empty-fragment`: the unaccounted empty fragment); for the repaired
construction it is not proved (the accounting of a metric cut in two is an upper bound, `cached ≥ size`): `bound` oracle. -/
theorem C04_bound_metrics_items (keep : Bool) (max : Int) (hmax : 0 < max) (r1 : Req (List MRes)) (r2 : Option (Req (List MRes)))
    (out : List (Req (List MRes))) (h : mergeSplit (metricsOps keep ⟨false⟩) max r1 r2 = some out)
    (h1 : r1.exact (metricsOps keep ⟨false⟩)) (h2 : ∀ r, r2 = some r → r.exact (metricsOps keep ⟨false⟩)) :
    ∀ r ∈ out, mpayloadSize ⟨false⟩ r.p ≤ max ∨ (mflatten r.p).length ≤ 1 :=
  mergeSplit_bound _ heavyM (metrics_sizeExact keep) (metrics_bounded keep) max hmax r1 r2 out h h1 h2

/-- non-vacuity: 2 + 5 + 1 samples, max 3: the 5-sample profile leaves alone (over max, one item), everything else fits -/
example :
    (mergeSplit (logsOps ⟨false⟩) 3 { p := [⟨⟨1, 0, 0⟩, [⟨⟨2, 0, 0, 0, 0⟩, [⟨10, 0, 2⟩, ⟨11, 0, 5⟩, ⟨12, 0, 1⟩]⟩]⟩] } none).map
      (fun out => out.map (fun r => (payloadSize ⟨false⟩ r.p, heavy r.p))) = some [(2, 1), (5, 1), (1, 1)] := by decide

/-- non-vacuity (the design-time witness of the non-terminating loop): one 500-byte record, then a small one,
`max_size = 100` bytes: the oversized record leaves alone, the rest follows -/
example :
    (mergeSplit (logsOps ⟨true⟩) 100 { p := [⟨⟨1, 0, 11⟩, [⟨⟨2, 0, 0, 0, 6⟩, [⟨10, 515, 1⟩, ⟨11, 15, 1⟩]⟩]⟩] } none).map
      (fun out => out.map (fun r => (flatten r.p).map (·.2.2.id))) = some [[10], [11]] := by decide


/-- **`MergeSplit` never returns an empty list** (any signal, sizer, limit, either value of the regenerated flag
`splitDropsEmptyRemainder`): `Consume` treats `len(reqList) == 0` as "nothing to do"; the emptied receiver is only left out
when other results exist -/
theorem C04_mergeSplit_nonempty {P : Type} (o : Ops P) (max : Int) (r1 : Req P) (r2 : Option (Req P)) (out : List (Req P))
    (h : mergeSplit o max r1 r2 = some out) : out ≠ [] := by
  simp only [mergeSplit] at h
  split at h
  · injection h with h; subst h; simp
  · obtain ⟨out0, h0, rfl⟩ := split_some o max _ out h
    exact dropEmptyLast_ne_nil o out0 (splitLoop_ne_nil o max _ _ _ out0 h0)

/-- on the tree this run checks (`splitDropsEmptyRemainder` regenerated from the four `split()`): when `split()` produced other
results and the receiver is left without any resource entry, the receiver is NOT among the results - no request without data
is handed to the batcher (the defect repaired by `2779f9106`: such a request was exported as an empty batch and its outcome
reported to the incoming request).  Non-vacuity: one 500-byte record, bytes sizer, max 100 → exactly one result. -/
theorem C04_empty_receiver_not_returned (sz : Sizer) (max : Int) (r : Req (List Res)) (rs : List (Req (List Res)))
    (l : Req (List Res)) (hflag : C04Shape.splitDropsEmptyRemainder = true)
    (hraw : splitRaw (logsOps sz) max r = some (rs ++ [l])) (hne : rs ≠ []) (hl : l.p = []) :
    split (logsOps sz) max r = some rs := by
  simp only [split, hraw, Option.map_some, dropEmptyLast, List.getLast?_append, List.getLast?_singleton, Option.some_or]
  simp [logsOps, hflag, hl, hne]

/-- non-vacuity of `C04_empty_receiver_not_returned` (the e2e witness): two records, each larger than `max_size = 100` bytes
with its context: the loop alone (`splitRaw`) yields the two records and then the emptied receiver, `split` only the two -/
example :
    (splitRaw (logsOps ⟨true⟩) 100 { p := [⟨⟨1, 0, 11⟩, [⟨⟨2, 0, 0, 0, 6⟩, [⟨10, 515, 1⟩, ⟨11, 215, 1⟩]⟩]⟩] }).map
      (fun out => out.map (fun r => (flatten r.p).map (·.2.2.id))) = some [[10], [11], []] ∧
    (split (logsOps ⟨true⟩) 100 { p := [⟨⟨1, 0, 11⟩, [⟨⟨2, 0, 0, 0, 6⟩, [⟨10, 515, 1⟩, ⟨11, 215, 1⟩]⟩]⟩] }).map
      (fun out => out.map (fun r => (flatten r.p).map (·.2.2.id))) =
        some (if C04Shape.splitDropsEmptyRemainder then [[10], [11]] else [[10], [11], []]) := by decide

/-! ## the bridge between `MergeSplit` and the contract (`pack`) the batcher theorems are stated over

`default_batcher.go` relies on three facts about `MergeSplit`: the results list the items in arrival order with the pending
batch's items first (FIFO); the receiver is returned as the last result; "the first result's `ItemsCount()` exceeds the
pending batch's" ⇔ "the first result holds part of the new request".  `pack` (Model) states exactly that contract; the two
theorems below prove the first and third fact of the model `mergeSplit` (which is tied to the real one by exact
differential); the second is an object-identity fact checked on every `MergeSplit` call of the harness (`last_is_receiver`),
and the `fifo` oracle re-checks the order on the real output. -/

theorem mergeSplit_fifo_aux {P β : Type} (o : Ops P) (flat : P → List β) (hc : FifoOps o flat)
    (hE : ∀ p, o.empty p = true → flat p = []) (max : Int)
    (r : Req P) (out : List (Req P)) (h : (if max == 0 then some [r] else split o max r) = some out) :
    flatReqs flat out = flat r.p := by
  split at h
  · injection h with h; subst h; rw [flatReqs_single]
  · obtain ⟨out0, h0, rfl⟩ := split_some o max r out h
    have := splitLoop_fifo o flat hc max _ _ [] out0 h0
    rw [dropEmptyLast_flat o flat hE]
    simpa [flatReqs] using this

/-- **`MergeSplit` is FIFO** (logs, traces, profiles; items and bytes): the items of the returned requests, concatenated in
result order, are exactly the receiver's items followed by the merged-in request's items, in their original order -/
theorem C04_mergeSplit_fifo (sz : Sizer) (max : Int) (r1 : Req (List Res)) (r2 : Option (Req (List Res)))
    (out : List (Req (List Res))) (h : mergeSplit (logsOps sz) max r1 r2 = some out) :
    flatReqs flatten out = flatten r1.p ++ optFlat flatten r2 := by
  cases r2 with
  | none =>
    have := mergeSplit_fifo_aux _ flatten (logs_fifoOps sz) (logs_empty_flat sz) max r1 out h
    simpa [optFlat] using this
  | some r2 =>
    have := mergeSplit_fifo_aux _ flatten (logs_fifoOps sz) (logs_empty_flat sz) max (mergeTo (logsOps sz) r1 r2) out h
    simpa [optFlat, mergeTo, logsOps, flatten] using this

/-- **the criterion of `Consume`**: the first result is a prefix of "pending batch, then new request"; it has no more items
than the pending batch ⇒ it holds only items of the pending batch (no part of the new request), and more ⇒ it holds the whole
pending batch followed by a non-empty part of the new request -/
theorem C04_first_result_criterion (sz : Sizer) (max : Int) (r1 r2 : Req (List Res)) (first : Req (List Res))
    (rest : List (Req (List Res))) (h : mergeSplit (logsOps sz) max r1 (some r2) = some (first :: rest)) :
    ((flatten first.p).length ≤ (flatten r1.p).length → ∃ t, flatten r1.p = flatten first.p ++ t) ∧
    ((flatten first.p).length > (flatten r1.p).length →
      ∃ t, t ≠ [] ∧ flatten first.p = flatten r1.p ++ t ∧ ∃ u, flatten r2.p = t ++ u) := by
  have hf := C04_mergeSplit_fifo sz max r1 (some r2) (first :: rest) h
  simp only [flatReqs, List.flatMap_cons, optFlat] at hf
  rcases List.append_eq_append_iff.mp hf with ⟨a', h1, h2⟩ | ⟨c', h1, h2⟩
  · -- r1 = first ++ a'
    refine ⟨fun _ => ⟨a', h1⟩, fun hgt => ?_⟩
    have := congrArg List.length h1
    simp only [List.length_append] at this
    omega
  · -- first = r1 ++ c'
    refine ⟨fun hle => ?_, fun hgt => ?_⟩
    · have := congrArg List.length h1
      simp only [List.length_append] at this
      have hc0 : c' = [] := List.eq_nil_of_length_eq_zero (by omega)
      subst hc0
      exact ⟨[], by simpa using h1.symm⟩
    · refine ⟨c', ?_, h1, _, h2⟩
      intro h0; subst h0
      simp at h1
      rw [h1] at hgt
      omega

/-! ## completion callbacks of the batcher, over ALL histories

`brun c {} ls` runs any sequence of `consume` (a request arrives; distinct request ids), `flush` (timer or shutdown flushes the
pending batch) and `finish fid outcome` (a flush goroutine ends, in any order, with any outcome) through the model of
`defaultBatcher` (`Consume` both paths, `multiDone`, `refCountDone`). -/

theorem sinv_init : SInv {} [] [] :=
  ⟨⟨by intro i hi; simp [BState.dones, BState.curDones] at hi, by intro i hi; simp at hi,
    by intro id; simp [BState.dones, BState.curDones, liveRefs, firedCount]⟩, by simp [FOK]⟩

/-- **Done fires exactly once, only after every batch it was handed to has finished** — for every history:
1. no callback fires twice; 2. only callbacks of consumed requests fire;
3. once a request's callback has fired, no pending or in-flight batch holds a `Done` of that request any more (it fired
   after the last of them finished);
4. when nothing is pending and nothing is in flight (e.g. after `Shutdown` returned), every consumed request's callback
   has fired — exactly once by 1. -/
theorem C04_done_once (c : BCfg) (ls : List BLabel) (hnd : (consumedIds ls).Nodup) :
    (∀ id, firedCount (brun c {} ls).2 id ≤ 1) ∧
    (∀ id, id ∉ consumedIds ls → firedCount (brun c {} ls).2 id = 0) ∧
    (∀ id, firedCount (brun c {} ls).2 id = 1 → ∀ d ∈ (brun c {} ls).1.dones, tgt (brun c {} ls).1.refs d ≠ some id) ∧
    ((brun c {} ls).1.cur = none → (brun c {} ls).1.flights = [] → ∀ id ∈ consumedIds ls, firedCount (brun c {} ls).2 id = 1) := by
  have h := (brun_inv c ls {} [] [] sinv_init hnd (by simp)).1
  simp only [List.nil_append, List.append_nil] at h
  refine ⟨?_, ?_, ?_, ?_⟩
  · intro id
    have := h.acct id
    split at this <;> omega
  · intro id hid
    have := h.acct id
    simp only [hid, if_false] at this
    omega
  · intro id hf d hd ht
    have hacc := h.acct id
    have hle : (brun c {} ls).1.dones.count (.base id) + liveRefs (brun c {} ls).1.refs id = 0 := by
      split at hacc <;> omega
    cases d with
    | base id' =>
      simp only [tgt, Option.some.injEq] at ht
      subst ht
      have : 0 < (brun c {} ls).1.dones.count (.base id') := List.count_pos_iff.mpr hd
      omega
    | ref i =>
      have hi := h.wf i hd
      have hget : (brun c {} ls).1.refs[i]? = some (brun c {} ls).1.refs[i] := List.getElem?_eq_getElem hi
      simp only [tgt, hget, Option.map_some, Option.some.injEq] at ht
      have hc := h.cnt i hi
      have hpos : 0 < (brun c {} ls).1.dones.count (.ref i) := List.count_pos_iff.mpr hd
      have hlive : 0 < liveRefs (brun c {} ls).1.refs id := by
        apply List.countP_pos_iff.mpr
        refine ⟨(brun c {} ls).1.refs[i], List.getElem_mem hi, ?_⟩
        simp only [liveP, ht, beq_self_eq_true, Bool.true_and, decide_eq_true_eq]
        omega
      omega
  · intro hcur hfl id hid
    have hacc := h.acct id
    have hd : (brun c {} ls).1.dones = [] := by simp [BState.dones, BState.curDones, hcur, hfl]
    have hl : liveRefs (brun c {} ls).1.refs id = 0 := by
      apply List.countP_eq_zero.mpr
      intro r hr
      obtain ⟨i, hi, rfl⟩ := List.getElem_of_mem hr
      have := h.cnt i hi
      rw [hd] at this
      simp only [List.count_nil, Int.natCast_zero] at this
      simp [liveP, this]
    rw [hd] at hacc
    simp only [List.count_nil, hl, hid, if_true] at hacc
    omega

theorem cinv_init (c : BCfg) : CInv c {} := ⟨by intro b hb; simp [BState.slots] at hb, by intro b hb; cases hb⟩

/-- **Done(r) covers every part of r** — for every history whose requests carry units tagged with their own id (validated
`min_size ≤ max_size` or no `max_size`):
1. every pending or in-flight batch that contains an item of request `r` holds a `Done` of `r` — in particular the FIRST
   result of a merge into the parked batch, decided with the item count the parked batch had BEFORE the merge;
2. hence once the callback of `r` has fired, no pending or in-flight batch contains an item of `r`: it fired only after
   every batch containing part of `r` had finished, and every failure of such a batch reached it (`onDone` is called on every
   `Done` the finished batch holds, `C04_done_combines_errors`). -/
theorem C04_done_covers_all_parts (c : BCfg) (hv : c.max = 0 ∨ c.min ≤ c.max) (ls : List BLabel)
    (hnd : (consumedIds ls).Nodup) (ht : Tagged ls) :
    (∀ b ∈ (brun c {} ls).1.slots, ∀ u ∈ b.1, 0 < u.2 → ∃ d ∈ b.2, tgt (brun c {} ls).1.refs d = some u.1) ∧
    (∀ id, firedCount (brun c {} ls).2 id = 1 → ∀ b ∈ (brun c {} ls).1.slots, ∀ u ∈ b.1, 0 < u.2 → u.1 ≠ id) := by
  have hcov := brun_cover c hv ls {} [] [] sinv_init (cinv_init c) ht hnd (by simp)
  refine ⟨hcov.1, ?_⟩
  intro id hf b hb u hu hp hid
  obtain ⟨d, hd, hdt⟩ := hcov.1 b hb u hu hp
  have := (C04_done_once c ls hnd).2.2.1 id hf d (slots_dones_mem _ b hb d hd)
  exact this (by rw [hdt, hid])

theorem vinv_init : VInv {} := by intro b hb; simp [BState.slots] at hb

/-- **a Done is handed ONLY to batches that contain part of its request** (the converse of `C04_done_covers_all_parts`, the
`cf54b5c52` side): for every history whose requests carry at least one unit (a request without items = one unit of size 0),
all tagged with their id, every `Done` a pending or in-flight batch holds belongs to a request with a unit in that batch —
so no batch's outcome is ever reported to a request none of whose data it carried.

Together: `C04_done_once` (fires exactly once, after the last batch holding one of its Dones, for every history),
`C04_done_covers_all_parts` (every batch containing part of r holds a Done of r), this theorem (only those do) and
`C04_done_error_iff` (over every history, the reported outcome is the combination of the outcomes of exactly the flushes that
held one of its Dones; `C04_done_combines_errors` is the stand-alone ref-count fact behind it) give the property's clause: the
callback of r fires exactly once, only after every batch containing part of r has finished, and reports an error iff
one of those batches failed. -/
theorem C04_done_only_own_parts (c : BCfg) (hv : c.max = 0 ∨ c.min ≤ c.max) (ls : List BLabel)
    (hnd : (consumedIds ls).Nodup) (ht : TaggedNE ls) :
    ∀ b ∈ (brun c {} ls).1.slots, ∀ d ∈ b.2, ∀ id, tgt (brun c {} ls).1.refs d = some id → ∃ u ∈ b.1, u.1 = id :=
  brun_conv c hv ls {} [] [] sinv_init (cinv_init c) vinv_init ht hnd (by simp)

/-- non-vacuity (the cf54b5c52 shape): min 10, max 12; 4 bytes parked; the next request's first unit (13) does not fit:
the first result holds only request 1's data and only request 1's Done -/
example :
    ((brun ⟨10, 12⟩ {} [.consume 1 [(1, 4)], .consume 2 [(2, 13), (2, 2)]]).1.slots.map
      (fun b => ((b.1.map (·.1)).eraseDups, b.2))) = [([2], [.ref 0]), ([1], [.base 1]), ([2], [.ref 0])] := by decide

/-- non-vacuity (the round-2 seed shape): min 5, max 10, 4 items parked, 16 more → two full batches 10 + 10; the first holds
items of BOTH requests and both `Done`s (request 2's through a ref-count of 2), so request 2 waits for it -/
example :
    ((brun ⟨5, 10⟩ {} [.consume 1 (List.replicate 4 (1, 1)), .consume 2 (List.replicate 16 (2, 1))]).1.slots.map
      (fun b => ((b.1.map (·.1)).eraseDups, b.2))) = [([1, 2], [.base 1, .ref 0]), ([2], [.ref 0])] := by decide

/-- **error iff, over every history**: the outcome a callback reports is exactly the combination (`multierr.Append`: union of
error classes, `{}` = success) of the outcomes of the `finish` labels of the flushes that held a `Done` of that request —
`doneLog` records, for every flush that ends, its outcome under every request one of its `Done`s belongs to.  With
`C04_done_covers_all_parts` and `C04_done_only_own_parts` (those flushes are exactly the batches containing part of the
request): it reports an error iff one of the batches containing part of it failed, and which classes. -/
theorem C04_done_error_iff (c : BCfg) (ls : List BLabel) (hnd : (consumedIds ls).Nodup) :
    ∀ x ∈ (brun c {} ls).2, x.2 = accId (doneLog c {} ls) x.1 := by
  have h := (brun_einv c ls {} [] [] [] seinv_init hnd (by simp)).1
  simp only [List.nil_append] at h
  exact h.f

/-- read as an iff on "is there an error": a callback reports an error ⇔ some flush holding one of its `Done`s ended with one -/
theorem C04_done_error_any_iff (c : BCfg) (ls : List BLabel) (hnd : (consumedIds ls).Nodup) :
    ∀ x ∈ (brun c {} ls).2, x.2.any = ((doneLog c {} ls).filter (fun y => y.1 == x.1)).any (·.2.any) := by
  intro x hx
  rw [C04_done_error_iff c ls hnd x hx]
  simp only [accId]
  generalize (doneLog c {} ls).filter (fun y => y.1 == x.1) = l
  have : ∀ (l : List (Nat × Err)) (a : Err), (l.foldl (fun a x => a.or x.2) a).any = (a.any || l.any (·.2.any)) := by
    intro l
    induction l with
    | nil => intro a; simp
    | cons y ys ih =>
      intro a
      simp only [List.foldl_cons, ih, List.any_cons]
      cases a; cases y.2; simp [Err.or, Err.any, Bool.or_assoc, Bool.or_comm, Bool.or_left_comm]
  simpa [Err.any] using this l {}

/-- **conservation through the batcher, over every history** ("for any sequence of requests"): every unit of every consumed
request is — exactly once — in the pending batch, in a flush in flight, or in a flush that has ended; so when nothing is
pending or in flight, what was exported (the ended flushes) is exactly what was consumed -/
theorem C04_batcher_conserves (c : BCfg) (ls : List BLabel) :
    ((brun c {} ls).1.units ++ (finishedParts c {} ls).flatten).Perm (consumedUnits ls) ∧
    ((brun c {} ls).1.cur = none → (brun c {} ls).1.flights = [] → ((finishedParts c {} ls).flatten).Perm (consumedUnits ls)) := by
  have h := (brun_units c ls {} (by simp [FOK])).1
  have h0 : ({} : BState).units = [] := by simp [BState.units, BState.slots]
  rw [h0, List.nil_append] at h
  refine ⟨h, ?_⟩
  intro hc hf
  have : (brun c {} ls).1.units = [] := by simp [BState.units, BState.slots, hc, hf]
  rw [this, List.nil_append] at h
  exact h

/-- non-vacuity: the scrambled history below records, for request 2, the outcomes of flushes 1, 0 and 2 -/
example :
    doneLog ⟨10, 12⟩ {} [.consume 1 [(1, 4)], .consume 2 [(2, 5), (2, 9), (2, 9)], .finish 1 {}, .finish 0 { plain := true },
      .flush, .finish 2 { shut := true }] = [(2, {}), (1, { plain := true }), (2, { plain := true }), (2, { shut := true })] ∧
    (brun ⟨10, 12⟩ {} [.consume 1 [(1, 4)], .consume 2 [(2, 5), (2, 9), (2, 9)], .finish 1 {}, .finish 0 { plain := true },
      .flush, .finish 2 { shut := true }]).2 = [(1, { plain := true }), (2, { plain := true, shut := true })] := by decide

/-- the ref-counted `Done` of a request split over `n+1` flushes, fed the outcomes of those flushes one by one -/
def feedRef (refs : List RefCount) : List Err → List RefCount × List (Nat × Err)
  | [] => (refs, [])
  | e :: es =>
    let x := onDone refs e (.ref 0)
    let y := feedRef x.1 es
    (y.1, x.2 ++ y.2)

theorem feedRef_step (id n : Nat) (acc e : Err) (es : List Err) :
    (feedRef [⟨id, ((n + 1 : Nat) : Int), acc⟩] (e :: es)).2 =
      (if n = 0 then [(id, acc.or e)] else []) ++ (feedRef [⟨id, (n : Int), acc.or e⟩] es).2 := by
  have hc : ((n + 1 : Nat) : Int) - 1 = (n : Int) := by omega
  simp only [feedRef, onDone, List.getElem?_cons_zero, List.set_cons_zero, hc]
  by_cases h : n = 0
  · subst h; simp
  · have : ((n : Int) == 0) = false := by
      have : (n : Int) ≠ 0 := by omega
      simpa using this
    simp [h, this]

theorem feedRef_spec (id : Nat) (es : List Err) (acc : Err) (hne : es ≠ []) :
    (feedRef [⟨id, es.length, acc⟩] es).2 = [(id, es.foldl Err.or acc)] := by
  induction es generalizing acc with
  | nil => exact absurd rfl hne
  | cons e es ih =>
    rw [List.length_cons, feedRef_step]
    by_cases h : es = []
    · subst h; simp [feedRef]
    · have hl : es.length ≠ 0 := fun x => h (List.eq_nil_of_length_eq_zero x)
      simp only [hl, if_false, List.nil_append, List.foldl_cons]
      exact ih (acc.or e) h

/-- **the combined outcome keeps every part's error classification** (`multierr.Append`, not "first error only"): a request
split over any number of flushes reports exactly once, after the last of them, the union of all their error classes — a
part interrupted by shutdown stays visible next to a plain export failure, in any completion order -/
theorem C04_done_combines_errors (id : Nat) (es : List Err) (hne : es ≠ []) :
    (feedRef [⟨id, es.length, {}⟩] es).2 = [(id, es.foldl Err.or {})] ∧
    ((es.foldl Err.or {}).shut = es.any (·.shut)) ∧ ((es.foldl Err.or {}).plain = es.any (·.plain)) := by
  refine ⟨feedRef_spec id es {} hne, ?_, ?_⟩
  · have : ∀ (l : List Err) (a : Err), (l.foldl Err.or a).shut = (a.shut || l.any (·.shut)) := by
      intro l
      induction l with
      | nil => intro a; simp
      | cons x xs ih => intro a; simp [List.foldl_cons, ih, Err.or, Bool.or_assoc]
    simpa using this es {}
  · have : ∀ (l : List Err) (a : Err), (l.foldl Err.or a).plain = (a.plain || l.any (·.plain)) := by
      intro l
      induction l with
      | nil => intro a; simp
      | cons x xs ih => intro a; simp [List.foldl_cons, ih, Err.or, Bool.or_assoc]
    simpa using this es {}

/-- non-vacuity: pending batch, a request split over three flushes (ref-count 3), completion in a scrambled order with one
failure: callbacks fire once each, request 2 reports the failure after its last flush -/
example :
    (brun ⟨10, 12⟩ {} [.consume 1 [(1, 4)], .consume 2 [(2, 5), (2, 9), (2, 9)], .finish 1 {}, .finish 0 { plain := true },
      .flush, .finish 2 {}]).2 = [(1, { plain := true }), (2, { plain := true })] := by decide


section ConfigGlue
open OtelVerif.C04.Config

/-! ## Configuration glue: validation → the batcher that is built (round 2, second session)

`Gen/C04Config.lean` holds the three `Validate` functions of `queuebatch/config.go` and `internal/queue_sender.go` as regenerated
rule lists, the struct field lists and the default configurations; `Model/C04Config.lean` the interpreter, `newQueueBatchConfig`
and `newQueueBatch`.  The theorems below are about the REGENERATED rules: a changed comparison re-checks them. -/

/-- tie obligation over `Gen/C04Config.lean`: every field the regenerated validation rules read is one the environments answer
for, and every field the environments answer for is a field of the Go struct (regenerated field lists) -/
theorem C04_config_rules_fields_known :
    rulesKnown batchEnvFields C04Config.batchRules = true ∧ rulesKnown queueEnvFields C04Config.queueRules = true ∧
    rulesKnown legacyEnvFields C04Config.legacyRules = true ∧
    batchEnvFields.all (fun f => (C04Config.batchFields.map (·.1)).contains f) = true ∧
    queueEnvFields.all (fun f => (C04Config.queueFields.map (·.1)).contains f) = true ∧
    legacyEnvFields.all (fun f => (C04Config.legacyFields.map (·.1)).contains f) = true := by decide

/-- what the batcher theorems need of a `BatchConfig` -/
def BatchOk (b : BatchRaw) : Prop := 0 < b.flushTimeout ∧ 0 ≤ b.min ∧ 0 ≤ b.max ∧ (b.max = 0 ∨ b.min ≤ b.max)

theorem C04_batch_config_accepted (b : BatchRaw) (h : runRules (BatchRaw.env (some b)) C04Config.batchRules = true) :
    BatchOk b := by
  simp [C04Config.batchRules, runRules, VCond.eval, VExpr.eval, VOp.eval, BatchRaw.env] at h
  unfold BatchOk
  omega

theorem C04_queue_config_accepted (q : QRaw) (he : q.enabled = true) (h : runRules q.env C04Config.queueRules = true) :
    0 < q.numConsumers ∧ 0 < q.queueSize ∧ (q.storage = true → q.waitForResult = false ∧ q.sizer = sizerRequests) ∧
    (q.batch.isSome = true → q.sizer = sizerItems ∨ q.sizer = sizerBytes) := by
  rcases q with ⟨en, w, sz, qs, boo, st, nc, b⟩
  simp only [] at he
  subst he
  simp [C04Config.queueRules, runRules, VCond.eval, VExpr.eval, VOp.eval, QRaw.env, b2i] at h
  obtain ⟨h1, h2, h3, h4, h5⟩ := h
  refine ⟨h1, h2, ?_, ?_⟩
  · intro hs
    simp only [] at hs
    subst hs
    simp at h3 h4
    exact ⟨h3, h4⟩
  · intro hb
    cases b with
    | none => simp at hb
    | some b => simpa [sizerItems, sizerBytes] using h5

theorem C04_legacy_config_accepted (l : LegacyRaw) (he : l.enabled = true) (h : runRules l.env C04Config.legacyRules = true) :
    l.sizer = sizerItems ∧ BatchOk ⟨l.flushTimeout, l.min, l.max⟩ := by
  simp [C04Config.legacyRules, runRules, VCond.eval, VExpr.eval, VOp.eval, LegacyRaw.env, b2i, he] at h
  simp only [sizerItems, BatchOk]
  omega

/-- what component validation (`xconfmap.Validate`: every `Validate` reachable from the exporter's configuration) accepts -/
def accepted (q : QRaw) (l : LegacyRaw) : Bool :=
  runRules q.env C04Config.queueRules && runRules (BatchRaw.env q.batch) C04Config.batchRules &&
    runRules l.env C04Config.legacyRules

/-- **every accepted configuration builds a batcher the batcher theorems apply to**: for every queue configuration and legacy
batcher configuration accepted by validation (queue or legacy batching enabled - otherwise no queue sender exists),
`NewQueueSender` → `newQueueBatchConfig` → `newQueueBatch` never fails on the sizer and builds either the disabled
batcher or a default batcher whose sizer type is items or bytes, with one worker, `flush_timeout > 0`,
`0 ≤ min_size`, `0 ≤ max_size` and `max_size = 0 ∨ min_size ≤ max_size` - the hypothesis of `C04_done_covers_all_parts`
/ `C04_done_only_own_parts` and `0 < max` of the size-bound theorems whenever a maximum is set. -/
theorem C04_accepted_config_builds_valid_batcher (q : QRaw) (l : LegacyRaw) (maxInt numCPU : Int)
    (hen : q.enabled = true ∨ l.enabled = true) (hacc : accepted q l = true) :
    (newQueueSender allSizers q l maxInt numCPU = .unsupportedSizer ∧ q.sizer ∉ allSizers) ∨
    (∃ n, newQueueSender allSizers q l maxInt numCPU = .disabled n ∧ 0 < n) ∨
    (∃ sz b, newQueueSender allSizers q l maxInt numCPU = .dflt sz b 1 ∧ (sz = sizerItems ∨ sz = sizerBytes) ∧ BatchOk b) := by
  simp only [accepted, Bool.and_eq_true] at hacc
  obtain ⟨⟨hq, hb⟩, hl⟩ := hacc
  cases hle : l.enabled with
  | true =>
    have hL := C04_legacy_config_accepted l hle hl
    cases hqe : q.enabled with
    | true =>
      by_cases hs : q.sizer ∈ allSizers
      · right; right
        refine ⟨sizerItems, ⟨l.flushTimeout, l.min, l.max⟩, ?_, Or.inl rfl, hL.2⟩
        simp [newQueueSender, newQueueBatchConfig, newQueueBatch, hle, hqe, hs]
      · left
        refine ⟨?_, hs⟩
        simp [newQueueSender, newQueueBatchConfig, newQueueBatch, hle, hqe, hs]
    | false =>
      right; right
      refine ⟨sizerItems, ⟨l.flushTimeout, l.min, l.max⟩, ?_, Or.inl rfl, hL.2⟩
      simp [newQueueSender, newQueueBatchConfig, newQueueBatch, hle, hqe, allSizers]
  | false =>
    have hqe : q.enabled = true := by simpa [hle] using hen
    have hQ := C04_queue_config_accepted q hqe hq
    by_cases hs : q.sizer ∈ allSizers
    · right
      cases hqb : q.batch with
      | none =>
        left
        exact ⟨q.numConsumers, by simp [newQueueSender, newQueueBatchConfig, newQueueBatch, hle, hs, hqb], hQ.1⟩
      | some b =>
        right
        rw [hqb] at hb
        refine ⟨q.sizer, b, by simp [newQueueSender, newQueueBatchConfig, newQueueBatch, hle, hs, hqb],
          hQ.2.2.2 (by simp [hqb]), C04_batch_config_accepted b hb⟩
    · left
      refine ⟨?_, hs⟩
      simp [newQueueSender, newQueueBatchConfig, newQueueBatch, hle, hs]

/-- the `BCfg` of the batcher model for an accepted `BatchConfig` -/
def toBCfg (b : BatchRaw) : BCfg := ⟨b.min.toNat, b.max.toNat⟩

theorem batchOk_bcfg (b : BatchRaw) (h : BatchOk b) : (toBCfg b).max = 0 ∨ (toBCfg b).min ≤ (toBCfg b).max := by
  unfold BatchOk at h
  simp only [toBCfg]
  omega

/-- the default configurations (regenerated struct literals) are accepted, and `NewDefaultQueueConfig` has no batch -/
theorem C04_default_configs_accepted :
    accepted (QRaw.ofFields C04Config.defaultQueue) (LegacyRaw.ofFields C04Config.defaultLegacy) = true ∧
    lookupField C04Config.defaultQueue "Batch" = 0 ∧
    newQueueSender allSizers (QRaw.ofFields C04Config.defaultQueue) (LegacyRaw.ofFields C04Config.defaultLegacy) 1 1
      = .dflt sizerItems ⟨200000000, 8192, 0⟩ 1 := by decide


/-- **the Done clause for every ACCEPTED configuration** (hypothesis `max = 0 ∨ min ≤ max` of `C04_done_covers_all_parts` /
`C04_done_only_own_parts` discharged from validation): whatever default batcher `NewQueueSender` builds from a configuration
accepted by validation, over every history every pending / in-flight batch containing an item of request r holds a Done of r,
once Done(r) fired no batch contains an item of r, and every Done a batch holds belongs to a request with a unit in it. -/
theorem C04_done_parts_accepted_config (q : QRaw) (l : LegacyRaw) (maxInt numCPU : Int)
    (hen : q.enabled = true ∨ l.enabled = true) (hacc : accepted q l = true) (sz : Int) (b : BatchRaw) (w : Int)
    (hbuilt : newQueueSender allSizers q l maxInt numCPU = .dflt sz b w)
    (ls : List BLabel) (hnd : (consumedIds ls).Nodup) (ht : Tagged ls) (htn : TaggedNE ls) :
    (∀ s ∈ (brun (toBCfg b) {} ls).1.slots, ∀ u ∈ s.1, 0 < u.2 → ∃ d ∈ s.2, tgt (brun (toBCfg b) {} ls).1.refs d = some u.1) ∧
    (∀ id, firedCount (brun (toBCfg b) {} ls).2 id = 1 → ∀ s ∈ (brun (toBCfg b) {} ls).1.slots, ∀ u ∈ s.1, 0 < u.2 → u.1 ≠ id) ∧
    (∀ s ∈ (brun (toBCfg b) {} ls).1.slots, ∀ d ∈ s.2, ∀ id, tgt (brun (toBCfg b) {} ls).1.refs d = some id → ∃ u ∈ s.1, u.1 = id) := by
  have hok : BatchOk b := by
    rcases C04_accepted_config_builds_valid_batcher q l maxInt numCPU hen hacc with h | ⟨n, h, _⟩ | ⟨sz', b', h, _, hb'⟩
    · rw [h.1] at hbuilt; cases hbuilt
    · rw [h] at hbuilt; cases hbuilt
    · rw [h] at hbuilt; cases hbuilt; exact hb'
  have hv := batchOk_bcfg b hok
  have h1 := C04_done_covers_all_parts (toBCfg b) hv ls hnd ht
  exact ⟨h1.1, h1.2, C04_done_only_own_parts (toBCfg b) hv ls hnd htn⟩

/-- non-vacuity: `sending_queue` enabled with `batch: {flush_timeout: 1s, min_size: 5, max_size: 10}` and the bytes sizer is
accepted and builds the default batcher with exactly these limits; a configuration with `max_size < min_size` is not -/
example :
    accepted ⟨true, false, sizerBytes, 1000, false, false, 10, some ⟨1000000000, 5, 10⟩⟩ ⟨false, 0, sizerOther, 0, 0⟩ = true ∧
    newQueueSender allSizers ⟨true, false, sizerBytes, 1000, false, false, 10, some ⟨1000000000, 5, 10⟩⟩ ⟨false, 0, sizerOther, 0, 0⟩ 9 8
      = .dflt sizerBytes ⟨1000000000, 5, 10⟩ 1 ∧
    accepted ⟨true, false, sizerBytes, 1000, false, false, 10, some ⟨1000000000, 5, 4⟩⟩ ⟨false, 0, sizerOther, 0, 0⟩ = false := by decide

/-- the driver's configuration oracle is sound: it accepts a built default batcher only if it meets the hypotheses the batcher
theorems take (`BatchOk`, one worker, items or bytes sizer) -/
theorem C04_config_check_sound (sz : Int) (b : BatchRaw) (w : Int) (h : builtOk (.dflt sz b w) = true) :
    (sz = sizerItems ∨ sz = sizerBytes) ∧ w = 1 ∧ BatchOk b := by
  simp [builtOk] at h
  simp only [BatchOk]
  omega

end ConfigGlue

/-- **the conservation search oracle decides the clause exactly**: the drivers (`c04-ms`: `conserve`; C17: `exactly_once`) judge
the IMPLEMENTATION's output with `permB out src`; it is `true` iff the flattening of what left is a permutation of what entered
(items with their full context) - sound (no false `ok`) and complete (no false alarm) -/
theorem C04_oracle_conserve_iff {β : Type} [DecidableEq β] (out src : List β) : permB out src = true ↔ out.Perm src :=
  ⟨permB_sound out src, permB_complete out src⟩

end OtelVerif.C04
