import OtelVerif.Model.C04
import OtelVerif.Lemmas.C04Term
/-!
# C04 — exporter batching conserves telemetry, keeps identity, respects size limits

Property theorems only.  `Model/C04.lean` is the repaired code of /tmp/wt-C04 (four `fix:` commits);
`Gen.C04Shape` is regenerated from the `*_batch.go` files on every run.
-/
namespace OtelVerif.C04
open OtelVerif.Payload OtelVerif.Gen

/-! ## the model has the shape of the source (translator tie) -/

/-- `split()` in all four files has the `rmSize == 0` branch the model's loop has -/
theorem C04_shape_split_handles_no_progress : C04Shape.splitHandlesNoProgress = true := by decide

/-! ## conservation with full context -/

def optFlat {P β : Type} (flat : P → List β) (r : Option (Req P)) : List β :=
  match r with
  | some r => flat r.p
  | none => []

theorem mergeSplit_perm_aux {P β : Type} (o : Ops P) (flat : P → List β) (hc : Conserves o flat) (max : Int)
    (r : Req P) (out : List (Req P)) (h : (if max == 0 then some [r] else split o max r) = some out) :
    (flatReqs flat out).Perm (flat r.p) := by
  split at h
  · injection h with h
    subst h
    rw [flatReqs_single]
  · have := splitLoop_perm o flat hc max _ _ [] out h
    simpa [flatReqs] using this

theorem mergeSplit_perm {P β : Type} (o : Ops P) (flat : P → List β) (hc : Conserves o flat) (max : Int)
    (r1 : Req P) (r2 : Option (Req P)) (out : List (Req P)) (h : mergeSplit o max r1 r2 = some out) :
    (flatReqs flat out).Perm (flat r1.p ++ optFlat flat r2) := by
  cases r2 with
  | none =>
    have := mergeSplit_perm_aux o flat hc max r1 out h
    simpa [optFlat] using this
  | some r2 =>
    have := mergeSplit_perm_aux o flat hc max (mergeTo o r1 r2) out h
    simpa [optFlat, mergeTo, hc.append] using this

/-- logs, traces, profiles: for every sizer, every limit, every pair of requests, whatever `MergeSplit` returns holds
exactly the records that came in, each with its resource, resource schema URL, scope and scope schema URL -/
theorem C04_conserve (sz : Sizer) (max : Int) (r1 : Req (List Res)) (r2 : Option (Req (List Res))) (out : List (Req (List Res)))
    (h : mergeSplit (logsOps sz) max r1 r2 = some out) :
    (flatReqs flatten out).Perm (flatten r1.p ++ optFlat flatten r2) :=
  mergeSplit_perm _ _ (logs_conserves sz) max r1 r2 out h

/-- metrics (repaired `extract*DataPoints`): every data point also keeps its metric's name, unit, description, type,
temporality, monotonicity and metadata -/
theorem C04_conserve_metrics (sz : Sizer) (max : Int) (r1 : Req (List MRes)) (r2 : Option (Req (List MRes)))
    (out : List (Req (List MRes))) (h : mergeSplit (metricsOps true sz) max r1 r2 = some out) :
    (flatReqs mflatten out).Perm (mflatten r1.p ++ optFlat mflatten r2) :=
  mergeSplit_perm _ _ (metrics_conserves sz) max r1 r2 out h

/-- the same statement for the pinned `extract*DataPoints` (`metricFragmentKeepsIdentity = false`) -/
def C04_conserve_metrics_pinned_full : Prop :=
  ∀ (sz : Sizer) (max : Int) (r1 : Req (List MRes)) (out : List (Req (List MRes))),
    mergeSplit (metricsOps false sz) max r1 none = some out → (flatReqs mflatten out).Perm (mflatten r1.p)

/-- the design-time witness: one sum with 4 points, `max_size = 3` items -/
def pinnedWitness : List MRes :=
  [⟨⟨1, 2, 0⟩, [⟨⟨3, 0, 0, 4, 0⟩, [⟨⟨5, 6, 7, 2, 1, 1, 8, 0, 0⟩, [⟨10, 0, 1⟩, ⟨11, 0, 1⟩, ⟨12, 0, 1⟩, ⟨13, 0, 1⟩]⟩]⟩]⟩]

theorem C04_conserve_metrics_pinned_full_fails : ¬ C04_conserve_metrics_pinned_full := by
  intro h
  have hp := h ⟨false⟩ 3 { p := pinnedWitness } _ rfl
  have hm : ((⟨1, 2, 0⟩, ⟨3, 0, 0, 4, 0⟩, ⟨0, 0, 0, 2, 0, 0, 0, 0, 0⟩, ⟨10, 0, 1⟩) : MCtx) ∈ mflatten pinnedWitness :=
    hp.subset (by decide)
  revert hm
  decide

/-! ## termination -/

/-- `split` (hence `MergeSplit`) ends for every request, limit and sizer: `nodes + 1` iterations always suffice -/
theorem C04_terminates (sz : Sizer) (max : Int) (req : Req (List Res)) : (split (logsOps sz) max req).isSome = true :=
  splitLoop_isSome _ (logs_shrinks sz) max _ req [] (Nat.lt_succ_self _)

theorem C04_terminates_metrics (keep : Bool) (sz : Sizer) (max : Int) (req : Req (List MRes)) :
    (split (metricsOps keep sz) max req).isSome = true :=
  splitLoop_isSome _ (metrics_shrinks keep sz) max _ req [] (Nat.lt_succ_self _)

theorem C04_mergeSplit_total (sz : Sizer) (max : Int) (r1 : Req (List Res)) (r2 : Option (Req (List Res))) :
    (mergeSplit (logsOps sz) max r1 r2).isSome = true := by
  simp only [mergeSplit]
  split
  · rfl
  · exact C04_terminates sz max _

/-- non-vacuity (the design-time witness of the non-terminating loop): one 500-byte record, then a small one,
`max_size = 100` bytes: the oversized record leaves alone, the rest follows -/
example :
    (mergeSplit (logsOps ⟨true⟩) 100 { p := [⟨⟨1, 0, 11⟩, [⟨⟨2, 0, 0, 0, 6⟩, [⟨10, 515, 1⟩, ⟨11, 15, 1⟩]⟩]⟩] } none).map
      (fun out => out.map (fun r => (flatten r.p).map (·.2.2.id))) = some [[10], [11]] := by decide

end OtelVerif.C04
