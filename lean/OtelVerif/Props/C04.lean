import OtelVerif.Model.C04
/-! C04 property theorems (stub) -/
namespace OtelVerif.C04
end OtelVerif.C04
