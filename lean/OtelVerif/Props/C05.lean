import OtelVerif.Model.C05Src
/-!
# C05 — retry resends only the retryable remainder, within limits, never after a verdict

Property theorems about `run` (the model of `retrySender.Send` over the timeout sender and a scripted
backend, `Model/C05.lean`).  Every theorem quantifies over all configurations, all environments
(deadline / cancellation / shutdown instants), all scripts of backend outcomes of any length, all
payloads and all library draws; no size bound anywhere.

Convention for equal instants (DESIGN §C05, outside the theorem): an event that falls on exactly the
instant the back-off timer fires does not interrupt that wait; an event that is already pending when
the wait begins does.
-/
namespace OtelVerif.C05

/-! ## the retry condition, declaratively -/

/-- the next attempt at `fin + w` fits the elapsed-time budget and the deadline, and neither shutdown
nor cancellation has arrived before it -/
def FitsAll (c : Cfg) (e : Env) (fin w : Nat) : Prop :=
  (c.maxElapsed = 0 ∨ fin + w ≤ c.maxElapsed) ∧
  (∀ d, e.deadline = some d → fin + w ≤ d ∧ fin < d) ∧
  (∀ s, e.shutdown = some s → fin + w ≤ s ∧ fin < s) ∧
  (∀ x, e.cancel = some x → fin + w ≤ x ∧ fin < x)

theorem C05_afterFailure_none_iff (c : Cfg) (e : Env) (fin w : Nat) : afterFailure c e fin w = none ↔ FitsAll c e fin w := by
  obtain ⟨dl, cn, sd⟩ := e
  rcases Nat.eq_zero_or_pos c.maxElapsed with hE | hE
  · cases dl <;> cases cn <;> cases sd <;> simp [afterFailure, FitsAll, olt, ole, Env.ctxDone, omin, hE]
    all_goals (repeat' split) <;> (try simp) <;> omega
  · cases dl <;> cases cn <;> cases sd <;> simp [afterFailure, FitsAll, olt, ole, Env.ctxDone, omin, hE]
    all_goals (repeat' split) <;> (try simp) <;> omega

/-- the planned wait after attempt `a` when the library's `currentInterval` is `cur` -/
def waitAfter (c : Cfg) (cur : Nat) (a : Attempt) : Nat := waitOf c (curInterval c cur) a

/-- the property's retry condition for an attempt that started at `now` and returned at `fin`:
retrying enabled, the outcome neither success nor permanent, the next attempt fits budget and
deadline, no shutdown / cancellation before it -/
def RetryCond (c : Cfg) (e : Env) (now cur : Nat) (a : Attempt) (fin : Nat) : Prop :=
  finish c e now a = some fin ∧ c.enabled = true ∧ a.ok = false ∧ a.perm = false ∧ FitsAll c e fin (waitAfter c cur a)

/-! ## one round of the loop -/

theorem run_first_call (c : Cfg) (e : Env) (now cur : Nat) (p : List Nat) (s : List Attempt) :
    ∃ fin rest, (run c e now cur p s).calls = ⟨now, fin, p⟩ :: rest := by
  cases s with
  | nil => exact ⟨now, [], by simp [run]⟩
  | cons a as =>
    simp only [run]
    split
    · exact ⟨_, _, rfl⟩
    · split
      · exact ⟨_, _, rfl⟩
      · split
        · exact ⟨_, _, rfl⟩
        · split
          · exact ⟨_, _, rfl⟩
          · split
            · exact ⟨_, _, rfl⟩
            · exact ⟨_, _, rfl⟩

theorem run_retry {c : Cfg} {e : Env} {now cur : Nat} {p : List Nat} {a : Attempt} {as : List Attempt} {fin : Nat}
    (h : RetryCond c e now cur a fin) :
    run c e now cur p (a :: as) =
      { run c e (fin + waitAfter c cur a) (nextCur c (curInterval c cur)) (a.rest.getD p) as with
        calls := ⟨now, fin, p⟩ :: (run c e (fin + waitAfter c cur a) (nextCur c (curInterval c cur)) (a.rest.getD p) as).calls } := by
  obtain ⟨h1, h2, h3, h4, h5⟩ := h
  have h5' := (C05_afterFailure_none_iff c e fin _).2 h5
  simp only [waitAfter] at h5' ⊢
  simp [run, h1, h2, h3, h4, h5']

theorem run_single {c : Cfg} {e : Env} {now cur : Nat} {p : List Nat} {a : Attempt} {as : List Attempt}
    (h : ¬ ∃ fin, RetryCond c e now cur a fin) : (run c e now cur p (a :: as)).calls.length = 1 := by
  simp only [run]
  split
  · rfl
  · rename_i fin hfin
    split
    · rfl
    · split
      · rfl
      · split
        · rfl
        · split
          · rfl
          · rename_i hok hen hperm _ haf
            exfalso
            apply h
            refine ⟨fin, hfin, ?_, ?_, ?_, ?_⟩
            · simpa using hen
            · simpa using hok
            · simpa using hperm
            · exact (C05_afterFailure_none_iff c e fin _).1 haf

/-- **retry iff** (one round): a further attempt follows attempt `a` exactly when the retry condition holds -/
theorem C05_retry_iff (c : Cfg) (e : Env) (now cur : Nat) (p : List Nat) (a : Attempt) (as : List Attempt) :
    2 ≤ (run c e now cur p (a :: as)).calls.length ↔ ∃ fin, RetryCond c e now cur a fin := by
  constructor
  · intro h
    by_cases hc : ∃ fin, RetryCond c e now cur a fin
    · exact hc
    · rw [run_single hc] at h; omega
  · rintro ⟨fin, h⟩
    rw [run_retry h]
    obtain ⟨f, r, hr⟩ := run_first_call c e (fin + waitAfter c cur a) (nextCur c (curInterval c cur)) (a.rest.getD p) as
    simp [hr]

/-- **wait and remainder** (one round): when attempt `a` is retried, the next attempt starts exactly
`waitAfter` after `a` returned and carries the remainder named by the failure, else the same payload -/
theorem C05_next_attempt {c : Cfg} {e : Env} {now cur : Nat} {p : List Nat} {a : Attempt} {as : List Attempt} {fin : Nat}
    (h : RetryCond c e now cur a fin) :
    ∃ fin' rest, (run c e now cur p (a :: as)).calls =
      ⟨now, fin, p⟩ :: ⟨fin + waitAfter c cur a, fin', a.rest.getD p⟩ :: rest := by
  rw [run_retry h]
  obtain ⟨f, r, hr⟩ := run_first_call c e (fin + waitAfter c cur a) (nextCur c (curInterval c cur)) (a.rest.getD p) as
  exact ⟨f, r, by simp [hr]⟩

/-- **verdict is final** (one round): after success or a permanent error no further attempt is made -/
theorem C05_verdict_final_head (c : Cfg) (e : Env) (now cur : Nat) (p : List Nat) (a : Attempt) (as : List Attempt)
    (h : a.ok = true ∨ a.perm = true) : (run c e now cur p (a :: as)).calls.length = 1 := by
  apply run_single
  rintro ⟨fin, _, _, h3, h4, _⟩
  rcases h with h | h <;> simp_all

theorem C05_disabled (c : Cfg) (e : Env) (now cur : Nat) (p : List Nat) (s : List Attempt) (h : c.enabled = false) :
    (run c e now cur p s).calls.length = 1 := by
  cases s with
  | nil => simp [run]
  | cons a as =>
    apply run_single
    rintro ⟨fin, _, h2, _⟩
    simp_all

/-! ## every position of the trace -/

/-- the library's `currentInterval` after `k` more `NextBackOff` calls -/
def curAfter (c : Cfg) : Nat → Nat → Nat
  | cur, 0 => cur
  | cur, k + 1 => curAfter c (nextCur c (curInterval c cur)) k

theorem curAfter_succ (c : Cfg) (cur k : Nat) : curAfter c cur (k + 1) = nextCur c (curInterval c (curAfter c cur k)) := by
  induction k generalizing cur with
  | zero => simp [curAfter]
  | succ k ih => rw [curAfter, ih]; rfl

theorem curAfter_zero_eq_curSeq (c : Cfg) (k : Nat) : curAfter c 0 k = curSeq c k := by
  induction k with
  | zero => rfl
  | succ k ih => rw [curAfter_succ, ih]; rfl

/-- the trace from its `k`-th call on is the trace of the loop started in the state reached there -/
theorem run_suffix (c : Cfg) (e : Env) (k : Nat) : ∀ (now cur : Nat) (p : List Nat) (s : List Attempt),
    k < (run c e now cur p s).calls.length →
    ∃ now' p', (run c e now cur p s).calls.drop k = (run c e now' (curAfter c cur k) p' (s.drop k)).calls ∧
      (run c e now cur p s).reason = (run c e now' (curAfter c cur k) p' (s.drop k)).reason ∧
      (run c e now cur p s).tEnd = (run c e now' (curAfter c cur k) p' (s.drop k)).tEnd ∧
      (run c e now cur p s).sdFlag = (run c e now' (curAfter c cur k) p' (s.drop k)).sdFlag := by
  induction k with
  | zero => intro now cur p s _; exact ⟨now, p, by simp [curAfter]⟩
  | succ k ih =>
    intro now cur p s hk
    cases s with
    | nil => simp [run] at hk
    | cons a as =>
      by_cases hc : ∃ fin, RetryCond c e now cur a fin
      · obtain ⟨fin, hc⟩ := hc
        rw [run_retry hc] at hk ⊢
        simp only [List.length_cons, Nat.add_lt_add_iff_right] at hk
        obtain ⟨now', p', h1, h2, h3, h4⟩ := ih _ _ _ _ hk
        exact ⟨now', p', by simpa [curAfter] using h1, by simpa [curAfter] using h2, by simpa [curAfter] using h3,
          by simpa [curAfter] using h4⟩
      · rw [run_single hc] at hk; omega

/-- **retry iff, at every position**: the `k`-th attempt is followed by another one exactly when the
script has an outcome for it and the retry condition holds for that outcome in the state reached;
then the next attempt starts exactly `waitAfter` later and carries the named remainder. -/
theorem C05_retry_iff_all (c : Cfg) (e : Env) (p : List Nat) (s : List Attempt) (k : Nat)
    (hk : k < (send c e p s).calls.length) :
    ∃ now' p' fin', (send c e p s).calls[k]? = some ⟨now', fin', p'⟩ ∧
      ((k + 1 < (send c e p s).calls.length) ↔ ∃ a fin, s[k]? = some a ∧ RetryCond c e now' (curSeq c k) a fin) ∧
      (∀ a fin, s[k]? = some a → RetryCond c e now' (curSeq c k) a fin →
        fin' = fin ∧ ∃ f2, (send c e p s).calls[k + 1]? = some ⟨fin + waitAfter c (curSeq c k) a, f2, a.rest.getD p'⟩) := by
  obtain ⟨now', p', h1, -, -, -⟩ := run_suffix c e k 0 0 p s hk
  rw [curAfter_zero_eq_curSeq] at h1
  have hlen : ((send c e p s).calls.drop k).length = (send c e p s).calls.length - k := List.length_drop
  have hget : ∀ j, (send c e p s).calls[k + j]? = ((send c e p s).calls.drop k)[j]? := by
    intro j; simp [List.getElem?_drop]
  unfold send at hlen hget hk ⊢
  cases hs : s.drop k with
  | nil =>
    rw [hs] at h1
    have hnone : s[k]? = none := by
      have : s.length ≤ k := by simpa using List.drop_eq_nil_iff.mp hs
      simp [this]
    refine ⟨now', p', now', ?_, ?_, ?_⟩
    · have := hget 0; simp only [Nat.add_zero] at this; rw [this, h1]; simp [run]
    · rw [h1] at hlen; simp only [run, List.length_cons, List.length_nil] at hlen
      constructor
      · intro h; omega
      · rintro ⟨a, fin, ha, _⟩; simp [hnone] at ha
    · intro a fin ha; simp [hnone] at ha
  | cons a as =>
    rw [hs] at h1
    have hsome : s[k]? = some a := by
      have := congrArg List.head? hs
      simpa [List.head?_drop] using this
    by_cases hc : ∃ fin, RetryCond c e now' (curSeq c k) a fin
    · obtain ⟨fin, hc⟩ := hc
      obtain ⟨f2, rest, hcalls⟩ := C05_next_attempt (p := p') (as := as) hc
      rw [hcalls] at h1
      refine ⟨now', p', fin, ?_, ?_, ?_⟩
      · have := hget 0; simp only [Nat.add_zero] at this; rw [this, h1]; simp
      · rw [h1] at hlen; simp only [List.length_cons] at hlen
        constructor
        · intro _; exact ⟨a, fin, hsome, hc⟩
        · intro _; omega
      · intro a' fin' ha' hc'
        rw [hsome] at ha'; cases ha'
        have : fin' = fin := by
          have h1' := hc'.1; have h2' := hc.1; rw [h1'] at h2'; exact Option.some.inj h2'
        subst this
        exact ⟨rfl, f2, by rw [hget 1, h1]; simp⟩
    · obtain ⟨f, rest, hfc⟩ := run_first_call c e now' (curSeq c k) p' (a :: as)
      have hl := run_single (p := p') (as := as) hc
      rw [hfc] at hl h1
      refine ⟨now', p', f, ?_, ?_, ?_⟩
      · have := hget 0; simp only [Nat.add_zero] at this; rw [this, h1]; simp
      · rw [h1] at hlen
        constructor
        · intro h; omega
        · rintro ⟨a', fin, ha', hc'⟩
          rw [hsome] at ha'; cases ha'
          exact absurd ⟨fin, hc'⟩ hc
      · intro a' fin ha' hc'
        rw [hsome] at ha'; cases ha'
        exact absurd ⟨fin, hc'⟩ hc

/-- **verdict is final**: no attempt follows an attempt whose outcome was success or a permanent error,
wherever it occurs in the script -/
theorem C05_verdict_final (c : Cfg) (e : Env) (p : List Nat) (s : List Attempt) (k : Nat) (a : Attempt)
    (ha : s[k]? = some a) (hv : a.ok = true ∨ a.perm = true) : (send c e p s).calls.length ≤ k + 1 := by
  by_cases hk : k + 1 < (send c e p s).calls.length
  · obtain ⟨now', p', fin', _, h2, _⟩ := C05_retry_iff_all c e p s k (by omega)
    obtain ⟨a', fin, ha', _, _, h3, h4, _⟩ := h2.1 hk
    rw [ha] at ha'; cases ha'
    rcases hv with h | h <;> simp_all
  · omega

/-! ## no retry starts after shutdown, cancellation, the deadline or the elapsed-time budget -/

theorem retry_instants (c : Cfg) (e : Env) (P : Nat → Prop) (hP : ∀ fin w, FitsAll c e fin w → P (fin + w)) :
    ∀ (s : List Attempt) (now cur : Nat) (p : List Nat), ∀ cl ∈ (run c e now cur p s).calls.tail, P cl.t := by
  intro s
  induction s with
  | nil => intro now cur p cl h; simp [run] at h
  | cons a as ih =>
    intro now cur p cl h
    by_cases hc : ∃ fin, RetryCond c e now cur a fin
    · obtain ⟨fin, hc⟩ := hc
      rw [run_retry hc] at h
      simp only [List.tail_cons] at h
      obtain ⟨f, rest, hr⟩ := run_first_call c e (fin + waitAfter c cur a) (nextCur c (curInterval c cur)) (a.rest.getD p) as
      have ih' := ih (fin + waitAfter c cur a) (nextCur c (curInterval c cur)) (a.rest.getD p)
      rw [hr] at h ih'
      rcases List.mem_cons.mp h with h | h
      · subst h; exact hP _ _ hc.2.2.2.2
      · exact ih' cl (by simpa using h)
    · have hl := run_single (p := p) (as := as) hc
      match hcs : (run c e now cur p (a :: as)).calls, hl with
      | [x], _ => rw [hcs] at h; simp at h

/-- no retry begins after the exporter started shutting down -/
theorem C05_no_attempt_after_shutdown (c : Cfg) (e : Env) (p : List Nat) (s : List Attempt) (sd : Nat)
    (h : e.shutdown = some sd) : ∀ cl ∈ (send c e p s).calls.tail, cl.t ≤ sd :=
  retry_instants c e (fun t => t ≤ sd) (fun _ _ hf => (hf.2.2.1 sd h).1) s 0 0 p

/-- no retry begins after the request context was cancelled -/
theorem C05_no_attempt_after_cancel (c : Cfg) (e : Env) (p : List Nat) (s : List Attempt) (x : Nat)
    (h : e.cancel = some x) : ∀ cl ∈ (send c e p s).calls.tail, cl.t ≤ x :=
  retry_instants c e (fun t => t ≤ x) (fun _ _ hf => (hf.2.2.2 x h).1) s 0 0 p

/-- every retry fits the request's deadline -/
theorem C05_no_attempt_after_deadline (c : Cfg) (e : Env) (p : List Nat) (s : List Attempt) (d : Nat)
    (h : e.deadline = some d) : ∀ cl ∈ (send c e p s).calls.tail, cl.t ≤ d :=
  retry_instants c e (fun t => t ≤ d) (fun _ _ hf => (hf.2.1 d h).1) s 0 0 p

/-- every retry fits the configured elapsed-time budget -/
theorem C05_no_attempt_after_budget (c : Cfg) (e : Env) (p : List Nat) (s : List Attempt)
    (h : 0 < c.maxElapsed) : ∀ cl ∈ (send c e p s).calls.tail, cl.t ≤ c.maxElapsed :=
  retry_instants c e (fun t => t ≤ c.maxElapsed) (fun _ _ hf => by rcases hf.1 with h0 | h0 <;> omega) s 0 0 p

/-! ## the wait: at least the throttle delay, otherwise inside the back-off envelope -/

theorem C05_wait_ge_throttle (c : Cfg) (cur : Nat) (a : Attempt) (th : Nat) (h : a.throttle = some th) :
    th ≤ waitAfter c cur a := by
  simp only [waitAfter, waitOf, h]; omega

/-- without a throttle delay the wait is the library's value: the interval itself when `rf = 0`,
else the drawn value, which the library keeps within `interval·(1 ± rf)` (`LibLaw`) -/
theorem C05_wait_envelope (c : Cfg) (cur : Nat) (a : Attempt) (h : a.throttle = none)
    (hlaw : c.rfNum ≠ 0 → LibLaw c (curInterval c cur) a.drawn) :
    curInterval c cur * (c.rfDen - c.rfNum) ≤ (waitAfter c cur a + 1) * c.rfDen ∧
    waitAfter c cur a * c.rfDen ≤ curInterval c cur * (c.rfDen + c.rfNum) + c.rfDen := by
  by_cases h0 : c.rfNum = 0
  · simp only [waitAfter, waitOf, h, backoffDelay, h0, if_true, Nat.sub_zero, Nat.add_zero, Nat.succ_mul]
    omega
  · have := hlaw h0
    unfold LibLaw at this
    simpa only [waitAfter, waitOf, h, backoffDelay, h0, if_false] using this

theorem C05_wait_exact_when_not_randomised (c : Cfg) (cur : Nat) (a : Attempt) (h : a.throttle = none) (h0 : c.rfNum = 0) :
    waitAfter c cur a = curInterval c cur := by
  simp [waitAfter, waitOf, h, backoffDelay, h0]

theorem nextCur_le (c : Cfg) (iv : Nat) : nextCur c iv ≤ c.maxInt := by
  unfold nextCur
  split
  · exact Nat.le_refl _
  · rename_i h
    by_cases hd : c.mulDen = 0
    · simp [hd]
    · have h' : iv * c.mulNum < c.mulDen * c.maxInt := by rw [Nat.mul_comm c.mulDen]; omega
      exact Nat.le_of_lt (Nat.div_lt_of_lt_mul h')

/-- the un-randomised interval never exceeds `max(initial_interval, max_interval)` -/
theorem C05_interval_le (c : Cfg) (n : Nat) : interval c n ≤ max c.initial c.maxInt := by
  unfold interval curInterval
  split
  · exact Nat.le_max_left _ _
  · cases n with
    | zero => simp [curSeq] at *
    | succ n => exact Nat.le_trans (nextCur_le c _) (Nat.le_max_right _ _)

/-- for the usual configurations (positive initial interval not above the cap, multiplier ≥ 1) the
interval sequence is the exponential one: `i₀ = initial`, `iₙ₊₁ = min (iₙ·multiplier) max_interval` (truncated) -/
theorem C05_interval_exponential (c : Cfg) (h0 : 0 < c.initial) (h1 : c.initial ≤ c.maxInt)
    (hd : 0 < c.mulDen) (hm : c.mulDen ≤ c.mulNum) :
    interval c 0 = c.initial ∧ ∀ n, 0 < interval c n ∧ interval c (n + 1) = min (interval c n * c.mulNum / c.mulDen) c.maxInt := by
  have hpos : ∀ n, 0 < interval c n := by
    intro n
    induction n with
    | zero => simp [interval, curSeq, curInterval, h0]
    | succ n ih =>
      show 0 < curInterval c (nextCur c (interval c n))
      unfold curInterval
      split
      · exact h0
      · omega
  refine ⟨by simp [interval, curSeq, curInterval], fun n => ⟨hpos n, ?_⟩⟩
  have hp := hpos n
  show curInterval c (nextCur c (interval c n)) = _
  have hge : interval c n ≤ interval c n * c.mulNum / c.mulDen := by
    apply (Nat.le_div_iff_mul_le hd).2
    exact Nat.mul_le_mul_left _ hm
  have hM : 0 < c.maxInt := by omega
  have hnext : nextCur c (interval c n) = min (interval c n * c.mulNum / c.mulDen) c.maxInt := by
    unfold nextCur
    split
    · rename_i h
      have : c.maxInt ≤ interval c n * c.mulNum / c.mulDen := (Nat.le_div_iff_mul_le hd).2 h
      omega
    · rename_i h
      have h' : interval c n * c.mulNum < c.mulDen * c.maxInt := by rw [Nat.mul_comm c.mulDen]; omega
      have := Nat.div_lt_of_lt_mul h'
      omega
  rw [hnext]
  unfold curInterval
  split
  · rename_i hz; omega
  · rfl

/-! ## shutdown classification -/

theorem C05_sdFlag_iff (c : Cfg) (e : Env) (s : List Attempt) (hs : ∀ a ∈ s, a.sd = false) : ∀ (now cur : Nat) (p : List Nat),
    (run c e now cur p s).sdFlag = true ↔ (run c e now cur p s).reason = .shutdown := by
  induction s with
  | nil => intro now cur p; simp [run]
  | cons a as ih =>
    intro now cur p
    have ha : a.sd = false := hs a (by simp)
    simp only [run]
    split
    · simp
    · split
      · simp
      · split
        · simp [ha]
        · split
          · simp [ha]
          · split
            · rename_i r t _; cases r <;> simp [ha]
            · exact ih (fun x hx => hs x (by simp [hx])) _ _ _

/-- the direction the property needs, without any hypothesis on the backend's errors: a result whose
reason is shutdown is shutdown-classified.  (The converse is false of the code and of the model when
the *backend's* error already contains a shutdown error: every return wraps it with `%w`.) -/
theorem C05_shutdown_reason_classified (c : Cfg) (e : Env) (s : List Attempt) : ∀ (now cur : Nat) (p : List Nat),
    (run c e now cur p s).reason = .shutdown → (run c e now cur p s).sdFlag = true := by
  induction s with
  | nil => intro now cur p; simp [run]
  | cons a as ih =>
    intro now cur p
    simp only [run]
    split
    · simp
    · split
      · simp
      · split
        · simp
        · split
          · simp
          · split
            · rename_i r t _; cases r <;> simp
            · exact ih _ _ _

/-- **a wait interrupted by shutdown ends shutdown-classified**: the attempt failed with a retryable
error, the next attempt would fit budget and deadline, shutdown arrives before the retry instant
(possibly already during the attempt) and not after a cancellation of the request context that
itself interrupts the wait: `Send` returns after this attempt with a shutdown-classified error at the
instant of the shutdown (or of the attempt's return when shutdown was already pending). -/
theorem C05_shutdown_classified (c : Cfg) (e : Env) (now cur : Nat) (p : List Nat) (a : Attempt) (as : List Attempt)
    (fin sd : Nat) (hfin : finish c e now a = some fin) (hen : c.enabled = true) (hok : a.ok = false) (hperm : a.perm = false)
    (hbudget : c.maxElapsed = 0 ∨ fin + waitAfter c cur a ≤ c.maxElapsed)
    (hdl : ∀ d, e.deadline = some d → fin + waitAfter c cur a ≤ d)
    (hsd : e.shutdown = some sd) (hlt : sd < fin + waitAfter c cur a)
    (hctx : ∀ x, e.ctxDone = some x → sd ≤ fin ∨ (fin < x ∧ sd ≤ x)) :
    run c e now cur p (a :: as) =
      { calls := [⟨now, fin, p⟩], reason := .shutdown, tEnd := max fin sd, sdFlag := true } := by
  have haf : afterFailure c e fin (waitAfter c cur a) = some (.shutdown, max fin sd) := by
    obtain ⟨dl, cn, sh⟩ := e
    simp only at hsd; subst hsd
    rcases Nat.eq_zero_or_pos c.maxElapsed with hE | hE
    · cases dl <;> cases cn <;> simp [afterFailure, olt, ole, Env.ctxDone, omin, hE] at hdl hctx ⊢
      all_goals (repeat' split) <;> (try simp) <;> omega
    · cases dl <;> cases cn <;> simp [afterFailure, olt, ole, Env.ctxDone, omin] at hdl hctx ⊢
      all_goals (repeat' split) <;> (try simp) <;> omega
  simp only [waitAfter] at haf
  simp [run, hfin, hen, hok, hperm, haf]

/-- a shutdown-classified result only arises from shutdown -/
theorem C05_shutdown_only_from_shutdown (c : Cfg) (e : Env) (s : List Attempt) : ∀ (now cur : Nat) (p : List Nat),
    (run c e now cur p s).reason = .shutdown → ∃ sd, e.shutdown = some sd ∧ sd ≤ (run c e now cur p s).tEnd := by
  induction s with
  | nil => intro now cur p; simp [run]
  | cons a as ih =>
    intro now cur p
    simp only [run]
    split
    · simp
    · split
      · simp
      · split
        · simp
        · split
          · simp
          · split
            · rename_i fin _ _ _ _ r t haf
              intro hr
              simp only at hr; subst hr
              obtain ⟨dl, cn, sh⟩ := e
              cases dl <;> cases cn <;> cases sh <;> simp [afterFailure, olt, ole, Env.ctxDone, omin] at haf ⊢
              all_goals (repeat' split at haf) <;> simp_all <;> omega
            · exact ih _ _ _

/-! ## error chains: classification survives wrapping -/

theorem findList_isSome_of_mem {α : Type} (f : Err → Option α) (e : Err) : ∀ (es : List Err), e ∈ es → (e.find f).isSome = true →
    (Err.findList f es).isSome = true := by
  intro es
  induction es with
  | nil => intro h; simp at h
  | cons x xs ih =>
    intro hmem hs
    simp only [Err.findList]
    cases hx : x.find f with
    | some v => simp
    | none =>
      rcases List.mem_cons.mp hmem with h | h
      · subst h; rw [hx] at hs; simp at hs
      · simpa using ih h hs

theorem find_wrapper {α : Type} (f : Err → Option α) (w : Wrapper) (e : Err) (h : (e.find f).isSome = true) :
    ((w.apply e).find f).isSome = true := by
  cases w with
  | wrap =>
    simp only [Wrapper.apply, Err.find]
    cases f (.wrap e) <;> simp [h]
  | joinLeft os =>
    simp only [Wrapper.apply, Err.find]
    cases f (.join (os ++ [e])) with
    | some v => simp
    | none => simpa using findList_isSome_of_mem f e (os ++ [e]) (by simp) h
  | joinRight os =>
    simp only [Wrapper.apply, Err.find]
    cases f (.join (e :: os)) with
    | some v => simp
    | none => simpa using findList_isSome_of_mem f e (e :: os) (by simp) h

/-- `experr.IsShutdownErr` stays true under any stack of `fmt.Errorf("%w")` / `errors.Join` / `multierr` wrappers -/
theorem C05_shutdown_survives_wrapping (ws : List Wrapper) (e : Err) (h : e.isShutdown = true) :
    (ws.foldr Wrapper.apply e).isShutdown = true := by
  induction ws with
  | nil => exact h
  | cons w ws ih => exact find_wrapper _ w _ ih

/-- `consumererror.IsPermanent` likewise -/
theorem C05_permanent_survives_wrapping (ws : List Wrapper) (e : Err) (h : e.isPermanent = true) :
    (ws.foldr Wrapper.apply e).isPermanent = true := by
  induction ws with
  | nil => exact h
  | cons w ws ih => exact find_wrapper _ w _ ih

/-- `experr.NewShutdownErr(err)` is shutdown-classified whatever `err` is -/
theorem C05_shutdownErr_classified (e : Err) : (Err.shutdown e).isShutdown = true := by
  simp [Err.isShutdown, Err.find]

/-- the retry sender's own `fmt.Errorf("…: %w", err)` wrappers neither add nor remove permanence -/
theorem C05_wrap_keeps_permanence (e : Err) : (Err.wrap e).isPermanent = e.isPermanent := by
  simp [Err.isPermanent, Err.find]

/-! ## non-vacuity -/

/-- the DESIGN probe: 1 s × 2, cap 10 s, budget 60 s, all transient: attempts at 0,1,3,7,15,25,35,45,55 s -/
def exCfg : Cfg := { enabled := true, initial := 1, maxInt := 10, maxElapsed := 60, mulNum := 2, mulDen := 1, rfNum := 0, rfDen := 1, timeout := 0 }

example : ((send exCfg {} [1, 2] (List.replicate 12 {})).calls.map (·.t), (send exCfg {} [1, 2] (List.replicate 12 {})).reason)
    = ([0, 1, 3, 7, 15, 25, 35, 45, 55], .exhausted) := by decide

/-- the retry condition is met by a transient failure under `exCfg` and refuted by shutdown during the wait -/
example : RetryCond exCfg {} 0 0 {} 0 := by
  refine ⟨by decide, rfl, rfl, rfl, ?_⟩
  simp [FitsAll, waitAfter, waitOf, backoffDelay, curInterval, exCfg]

example : (send exCfg { shutdown := some 2 } [1] (List.replicate 3 {})) =
    { calls := [⟨0, 0, [1]⟩, ⟨1, 1, [1]⟩], reason := .shutdown, tEnd := 2, sdFlag := true } := by decide

/-- throttle 7 honoured over interval 1; partial failure narrows the payload; permanent stops -/
example : (send exCfg {} [1, 2, 3] [{ throttle := some 7 }, { rest := some [2] }, {}, { perm := true }]).calls.map (fun cl => (cl.t, cl.payload))
    = [(0, [1, 2, 3]), (7, [1, 2, 3]), (9, [2]), (13, [2])] := by decide

/-- zero initial interval and shutdown during the first attempt: no further attempt (the repaired behaviour) -/
example : (send { exCfg with initial := 0, maxElapsed := 0 } { shutdown := some 1 } [1] [{ dur := 2 }, {}, {}]) =
    { calls := [⟨0, 2, [1]⟩], reason := .shutdown, tEnd := 2, sdFlag := true } := by decide

example : exCfg.valid := by simp [Cfg.valid, exCfg]

example : (Wrapper.apply (.joinLeft [.leaf]) (.wrap (.shutdown (.throttle 3 .leaf)))).isShutdown = true := by decide

/-! ## the search oracle is sound for the property's observable clauses -/

/-- what an accepted observation satisfies (the property's observable clauses, stated on the call sequence) -/
def ObservedGood (c : Cfg) (e : Env) (payload : List Nat) (script : List Attempt) (o : Observed) : Prop :=
  let callAt (k : Nat) : Nat × List Nat := o.calls.getD k (0, [])
  let att (k : Nat) : Attempt := script.getD k { ok := true }
  let finOf (k : Nat) : Nat := (finish c e (callAt k).1 (att k)).getD (callAt k).1
  (c.enabled = false → o.calls.length ≤ 1) ∧
  (∀ k, k + 1 < o.calls.length → (att k).ok = false ∧ (att k).perm = false) ∧
  (∀ k, 0 < k → k < o.calls.length → ∀ sd, e.shutdown = some sd → (callAt k).1 ≤ sd) ∧
  (∀ k, 0 < k → k < o.calls.length → 0 < c.maxElapsed → (callAt k).1 ≤ c.maxElapsed) ∧
  (∀ k, k + 1 < o.calls.length → finOf k + (att k).throttle.getD 0 ≤ (callAt (k + 1)).1) ∧
  (∀ k, k + 1 < o.calls.length → (callAt (k + 1)).2 = (att k).rest.getD (callAt k).2) ∧
  (0 < o.calls.length → (callAt 0).2 = payload)

theorem ite_sing_nil {α : Type} {p : Prop} [Decidable p] {x : α} : (if p then [x] else []) = [] ↔ ¬p := by
  split <;> simp [*]

theorem C05_check_sound (c : Cfg) (e : Env) (payload : List Nat) (script : List Attempt) (o : Observed)
    (h : checkObserved c e payload script o = []) : ObservedGood c e payload script o := by
  simp only [checkObserved, List.append_eq_nil_iff] at h
  obtain ⟨⟨⟨⟨⟨⟨⟨⟨⟨⟨⟨⟨⟨h1, h2⟩, h3⟩, h4⟩, h5⟩, h6⟩, h7⟩, h8⟩, h9⟩, h10⟩, h11⟩, h12⟩, h13⟩, h14⟩ := h
  have g3 := ite_sing_nil.1 h3
  have g4 := ite_sing_nil.1 h4
  have g5 := ite_sing_nil.1 h5
  have g6 := ite_sing_nil.1 h6
  have g8 := ite_sing_nil.1 h8
  have g9 := ite_sing_nil.1 h9
  have g11 := ite_sing_nil.1 h11
  simp only [List.any_eq_true, List.mem_range, not_exists, not_and, decide_eq_true_eq, Bool.not_eq_true] at g4 g5 g6 g8 g9 g11
  refine ⟨?_, ?_, ?_, ?_, ?_, ?_, ?_⟩
  · intro hen; simp [hen] at g3; exact g3
  · intro k hk
    have a := g4 k (by omega); have b := g5 k (by omega)
    simp only [hk] at a b
    cases hok : (script.getD k { ok := true }).ok <;> simp_all
  · intro k hk0 hkn sd hsd
    have a := g6 k hkn
    simp [hk0, olt, hsd] at a; exact a
  · intro k hk0 hkn hE
    have a := g8 k hkn
    simp [hk0, hE] at a; exact a
  · intro k hk
    have a := g9 k (by omega)
    simp [hk] at a; simpa [hk] using a
  · intro k hk
    have a := g11 k (by omega)
    simp [hk] at a; simpa [hk] using a
  · intro hn
    have a := ite_sing_nil.1 h2
    by_cases hp : (o.calls.getD 0 (0, [])).2 = payload
    · exact hp
    · exact absurd ⟨hp, hn⟩ a


/-- the oracle accepts the model's own trace of the probe and rejects a retry made after shutdown -/
example : checkObserved exCfg {} [1, 2] (List.replicate 12 {})
    { calls := [0, 1, 3, 7, 15, 25, 35, 45, 55].map (fun t => (t, [1, 2])), tEnd := 55, isNil := false, permFlag := false, sdFlag := false } = [] := by decide

example : checkObserved { exCfg with initial := 0, maxElapsed := 0 } { shutdown := some 1 } [1] [{ dur := 2 }, { dur := 2 }, {}]
    { calls := [(0, [1]), (2, [1])], tEnd := 4, isNil := false, permFlag := false, sdFlag := true } = ["C05/retry/attempt-after-shutdown"] := by decide


/-! ## equal instants: every scheduling order (`ndAllowed`, `Allowed`) -/

def FitsAllW (c : Cfg) (e : Env) (fin w : Nat) : Prop :=
  (c.maxElapsed = 0 ∨ fin + w ≤ c.maxElapsed) ∧
  (∀ d, e.deadline = some d → fin + w ≤ d) ∧
  (∀ s, e.shutdown = some s → fin + w ≤ s) ∧
  (∀ x, e.cancel = some x → fin + w ≤ x)

theorem ndAllowed_det (c : Cfg) (e : Env) (fin w : Nat) : ndAllowed c e fin w (afterFailure c e fin w) = true := by
  generalize ho : afterFailure c e fin w = o
  unfold afterFailure at ho
  unfold ndAllowed
  simp only [] at ho ⊢
  generalize e.ctxDone = xd at ho ⊢
  generalize e.shutdown = sd at ho ⊢
  generalize olt e.deadline (fin + w) = bd at ho ⊢
  by_cases h1 : c.maxElapsed > 0 ∧ c.maxElapsed < fin + w
  · simp only [h1, if_true] at ho ⊢; subst ho; simp
  · simp only [h1, if_false] at ho ⊢
    cases bd
    · simp only [Bool.false_eq_true, if_false] at ho ⊢
      cases sd <;> cases xd <;> simp only [olt, ole] at ho ⊢
      · simp at ho; subst ho; simp
      · rename_i x
        by_cases a : x ≤ fin <;> by_cases b : x < fin + w <;> simp [a, b] at ho <;> subst ho <;> simp <;> omega
      · rename_i s
        by_cases a : s ≤ fin <;> by_cases b : s < fin + w <;> simp [a, b] at ho <;> subst ho <;> simp <;> omega
      · rename_i s x
        by_cases a : s ≤ fin <;> by_cases b : x ≤ fin <;> by_cases d : s < fin + w ∧ s ≤ x <;> by_cases f : x < fin + w <;>
          simp [a, b, d, f] at ho <;> subst ho <;> simp <;> omega
    · simp only [if_true] at ho ⊢; subst ho; simp

theorem ndAllowed_none (c : Cfg) (e : Env) (fin w : Nat) (h : ndAllowed c e fin w none = true) : FitsAllW c e fin w := by
  unfold ndAllowed at h
  simp only [] at h
  obtain ⟨dl, cn, sd⟩ := e
  by_cases h1 : c.maxElapsed > 0 ∧ c.maxElapsed < fin + w
  · simp [h1] at h
  · simp only [h1, if_false] at h
    cases dl <;> cases cn <;> cases sd <;> simp [olt, Env.ctxDone, omin, FitsAllW] at h ⊢ <;> omega


/-! ## the oracle in recursive and in indexed form; it decides exactly the indexed clauses -/

def dfltAtt : Attempt := { ok := true }

/-- a retry may start at `t`: neither shutdown nor the end of the context strictly before it, within the budget -/
def RetryStartOK (c : Cfg) (e : Env) (t : Nat) : Prop :=
  olt e.shutdown t = false ∧ olt e.ctxDone t = false ∧ ¬ (c.maxElapsed > 0 ∧ c.maxElapsed < t)

/-- the clauses relating attempt `a` (started at `t` with payload `pl`) to the next call `(t2, pl2)` -/
def PairOK (c : Cfg) (e : Env) (a : Attempt) (t : Nat) (pl : List Nat) (t2 : Nat) (pl2 : List Nat) : Prop :=
  c.enabled = true ∧ a.ok = false ∧ a.perm = false ∧
  ¬ (t2 < (finish c e t a).getD t + a.throttle.getD 0) ∧
  ¬ (a.throttle.isNone = true ∧ (t2 - (finish c e t a).getD t) * c.rfDen > envelopeHiTimesDen c) ∧
  pl2 = a.rest.getD pl

/-- the clauses relating the last attempt to the returned error -/
def LastOK (c : Cfg) (e : Env) (o : Observed) (a : Attempt) (t : Nat) : Prop :=
  ¬ (o.isNil = false ∧ o.permFlag = false ∧ o.sdFlag = false ∧ c.enabled = true ∧ sdBefore e o.tEnd = true ∧ o.tEnd > (finish c e t a).getD t) ∧
  ¬ (o.isNil = true ∧ a.ok = false) ∧ ¬ (o.isNil = false ∧ a.ok = true)

/-- the oracle's clauses in recursive form: calls and script are consumed together -/
def GoodRec (c : Cfg) (e : Env) (o : Observed) : Bool → List (Nat × List Nat) → List Attempt → Prop
  | _, [], _ => False
  | first, [(t, _)], s => (first = false → RetryStartOK c e t) ∧ LastOK c e o (s.headD dfltAtt) t
  | first, (t, pl) :: (t2, pl2) :: rest, s =>
    (first = false → RetryStartOK c e t) ∧ PairOK c e (s.headD dfltAtt) t pl t2 pl2 ∧ GoodRec c e o false ((t2, pl2) :: rest) s.tail

/-- the oracle's clauses in indexed form (what `checkObserved` evaluates) -/
def ObservedAll (c : Cfg) (e : Env) (payload : List Nat) (script : List Attempt) (o : Observed) : Prop :=
  let callAt (k : Nat) : Nat × List Nat := o.calls.getD k (0, [])
  let att (k : Nat) : Attempt := script.getD k dfltAtt
  0 < o.calls.length ∧ (callAt 0).2 = payload ∧
  (∀ k, k + 1 < o.calls.length → PairOK c e (att k) (callAt k).1 (callAt k).2 (callAt (k + 1)).1 (callAt (k + 1)).2) ∧
  (∀ k, 0 < k → k < o.calls.length → RetryStartOK c e (callAt k).1) ∧
  LastOK c e o (att (o.calls.length - 1)) (callAt (o.calls.length - 1)).1

theorem getD_tail {α : Type} (s : List α) (k : Nat) (d : α) : s.getD (k + 1) d = s.tail.getD k d := by
  cases s <;> simp

theorem headD_eq_getD {α : Type} (s : List α) (d : α) : s.headD d = s.getD 0 d := by
  cases s <;> simp

theorem goodRec_indexed (c : Cfg) (e : Env) (o : Observed) : ∀ (calls : List (Nat × List Nat)) (first : Bool) (s : List Attempt),
    GoodRec c e o first calls s →
    0 < calls.length ∧
    (∀ k, k + 1 < calls.length → PairOK c e (s.getD k dfltAtt) (calls.getD k (0, [])).1 (calls.getD k (0, [])).2
        (calls.getD (k + 1) (0, [])).1 (calls.getD (k + 1) (0, [])).2) ∧
    (∀ k, (first = false ∨ 0 < k) → k < calls.length → RetryStartOK c e (calls.getD k (0, [])).1) ∧
    LastOK c e o (s.getD (calls.length - 1) dfltAtt) (calls.getD (calls.length - 1) (0, [])).1 := by
  intro calls
  induction calls with
  | nil => intro first s h; simp [GoodRec] at h
  | cons x xs ih =>
    intro first s h
    cases xs with
    | nil =>
      obtain ⟨t, pl⟩ := x
      simp only [GoodRec] at h
      refine ⟨by simp, ?_, ?_, ?_⟩
      · intro k hk; simp at hk
      · intro k hf hk
        have : k = 0 := by simpa using hk
        subst this
        rcases hf with hf | hf
        · simpa using h.1 hf
        · omega
      · have h' := h.2; rw [headD_eq_getD] at h'; simpa using h'
    | cons y ys =>
      obtain ⟨t, pl⟩ := x
      obtain ⟨t2, pl2⟩ := y
      simp only [GoodRec] at h
      obtain ⟨h1, h2, h3⟩ := h
      obtain ⟨_, i2, i3, i4⟩ := ih false s.tail h3
      refine ⟨by simp, ?_, ?_, ?_⟩
      · intro k hk
        cases k with
        | zero => rw [headD_eq_getD] at h2; simpa using h2
        | succ k =>
          have := i2 k (by simpa using hk)
          simpa [getD_tail] using this
      · intro k hf hk
        cases k with
        | zero =>
          rcases hf with hf | hf
          · simpa using h1 hf
          · omega
        | succ k =>
          have := i3 k (Or.inl rfl) (by simpa using hk)
          simpa using this
      · have : (t, pl) :: (t2, pl2) :: ys = (t, pl) :: ((t2, pl2) :: ys) := rfl
        simp only [List.length_cons] at i4 ⊢
        have e1 : ys.length + 1 + 1 - 1 = (ys.length + 1 - 1) + 1 := by omega
        rw [e1, getD_tail]
        simpa using i4


-- ns

theorem checkObserved_nil_of_all (c : Cfg) (e : Env) (payload : List Nat) (script : List Attempt) (o : Observed)
    (h : ObservedAll c e payload script o) : checkObserved c e payload script o = [] := by
  obtain ⟨h0, hp, hpair, hretry, hlast⟩ := h
  simp only [] at hp hpair hretry hlast
  simp only [checkObserved, List.append_eq_nil_iff]
  refine ⟨⟨⟨⟨⟨⟨⟨⟨⟨⟨⟨⟨⟨?_, ?_⟩, ?_⟩, ?_⟩, ?_⟩, ?_⟩, ?_⟩, ?_⟩, ?_⟩, ?_⟩, ?_⟩, ?_⟩, ?_⟩, ?_⟩
  all_goals apply ite_sing_nil.2
  all_goals (try simp only [List.any_eq_true, List.mem_range, not_exists, not_and, decide_eq_true_eq, Bool.not_eq_true', Bool.not_eq_true])
  · omega
  · intro h; exact absurd hp h
  · intro hen hn; have := (hpair 0 (by omega)).1; simp [hen] at this
  · intro k _ hk; exact (hpair k hk).2.1
  · intro k _ hk _; exact (hpair k hk).2.2.1
  · intro k hk h0'; exact (hretry k h0' hk).1
  · intro k hk h0'; exact (hretry k h0' hk).2.1
  · intro k hk h0' hE hlt; exact (hretry k h0' hk).2.2 ⟨hE, hlt⟩
  · intro k _ hk; exact (hpair k hk).2.2.2.1
  · intro k _ hk hn hgt; exact (hpair k hk).2.2.2.2.1 ⟨hn, hgt⟩
  · intro k _ hk hne; exact hne (hpair k hk).2.2.2.2.2
  · intro _ a b c' d f g; exact hlast.1 ⟨a, b, c', d, f, g⟩
  · intro a _ b; exact hlast.2.1 ⟨a, b⟩
  · intro a _
    cases hok : (script.getD (o.calls.length - 1) { ok := true }).ok
    · rfl
    · exact absurd ⟨a, hok⟩ hlast.2.2


theorem all_of_checkObserved_nil (c : Cfg) (e : Env) (payload : List Nat) (script : List Attempt) (o : Observed)
    (h : checkObserved c e payload script o = []) : ObservedAll c e payload script o := by
  simp only [checkObserved, List.append_eq_nil_iff] at h
  obtain ⟨⟨⟨⟨⟨⟨⟨⟨⟨⟨⟨⟨⟨h1, h2⟩, h3⟩, h4⟩, h5⟩, h6⟩, h7⟩, h8⟩, h9⟩, h10⟩, h11⟩, h12⟩, h13⟩, h14⟩ := h
  have g1 := ite_sing_nil.1 h1
  have g2 := ite_sing_nil.1 h2
  have g3 := ite_sing_nil.1 h3
  have g4 := ite_sing_nil.1 h4
  have g5 := ite_sing_nil.1 h5
  have g6 := ite_sing_nil.1 h6
  have g7 := ite_sing_nil.1 h7
  have g8 := ite_sing_nil.1 h8
  have g9 := ite_sing_nil.1 h9
  have g10 := ite_sing_nil.1 h10
  have g11 := ite_sing_nil.1 h11
  have g12 := ite_sing_nil.1 h12
  have g13 := ite_sing_nil.1 h13
  have g14 := ite_sing_nil.1 h14
  simp only [List.any_eq_true, List.mem_range, not_exists, not_and, decide_eq_true_eq, Bool.not_eq_true', Bool.not_eq_true] at g2 g3 g4 g5 g6 g7 g8 g9 g10 g11 g12 g13 g14
  have h0 : 0 < o.calls.length := by omega
  refine ⟨h0, ?_, ?_, ?_, ?_⟩
  · by_cases hp : (o.calls.getD 0 (0, [])).2 = payload
    · exact hp
    · exact absurd h0 (g2 hp)
  · intro k hk
    have hk' : k < o.calls.length := by omega
    refine ⟨?_, g4 k hk' hk, g5 k hk' hk (g4 k hk' hk), g9 k hk' hk, ?_, ?_⟩
    · cases hen : c.enabled
      · exact absurd (show o.calls.length > 1 by omega) (g3 hen)
      · rfl
    · rintro ⟨hn, hgt⟩; exact g10 k hk' hk hn hgt
    · exact Classical.not_not.1 (g11 k hk' hk)
  · intro k hk0 hk
    exact ⟨g6 k hk hk0, g7 k hk hk0, fun ⟨hE, hlt⟩ => g8 k hk hk0 hE hlt⟩
  · refine ⟨fun ⟨a, b, c', d, f, g⟩ => g12 h0 a b c' d f g, fun ⟨a, b⟩ => g13 a h0 b, fun ⟨a, b⟩ => ?_⟩
    have := g14 a h0
    simp only [dfltAtt] at b
    rw [b] at this
    exact absurd this (by simp)

/-- **the oracle decides exactly the indexed clauses** (soundness and completeness, every clause) -/
theorem C05_check_iff (c : Cfg) (e : Env) (payload : List Nat) (script : List Attempt) (o : Observed) :
    checkObserved c e payload script o = [] ↔ ObservedAll c e payload script o :=
  ⟨all_of_checkObserved_nil c e payload script o, checkObserved_nil_of_all c e payload script o⟩



/-! ## every allowed trace satisfies the oracle's clauses -/

theorem ndAllowed_some (c : Cfg) (e : Env) (fin w : Nat) (r : Reason) (t : Nat)
    (h : ndAllowed c e fin w (some (r, t)) = true) :
    fin ≤ t ∧ t ≤ fin + w ∧ (r = .exhausted ∨ r = .deadline ∨ r = .shutdown ∨ r = .cancelled) ∧
    (r = .shutdown → ∃ s, e.shutdown = some s ∧ s ≤ t) ∧
    (r ≠ .shutdown → fin < t → sdBefore e t = false) := by
  unfold ndAllowed at h
  simp only [] at h
  by_cases h1 : c.maxElapsed > 0 ∧ c.maxElapsed < fin + w
  · simp only [h1, if_true] at h
    simp at h
    obtain ⟨rfl, rfl⟩ := h
    simp
  · simp only [h1, if_false] at h
    by_cases h2 : olt e.deadline (fin + w) = true
    · simp only [h2, if_true] at h
      simp at h
      obtain ⟨rfl, rfl⟩ := h
      simp
    · simp only [h2] at h
      cases r with
      | ok => simp at h
      | perm => simp at h
      | exhausted => simp at h
      | deadline => simp at h
      | raw => simp at h
      | hang => simp at h
      | cancelled =>
        simp only [Bool.false_eq_true, if_false] at h
        cases hx : e.ctxDone with
        | none => simp [hx] at h
        | some x =>
          simp only [hx] at h
          cases hs : e.shutdown with
          | none =>
            simp [hs, olt] at h
            rcases h with ⟨h, rfl⟩ | ⟨⟨h, h'⟩, rfl⟩ <;> simp [sdBefore, hs, olt] <;> omega
          | some s =>
            simp [hs, olt] at h
            rcases h with ⟨⟨h, rfl⟩, h''⟩ | ⟨⟨⟨h, h'⟩, rfl⟩, h''⟩
            · simp [sdBefore, hs, olt]
            · simp [sdBefore, hs, hx, olt]; omega
      | shutdown =>
        simp only [Bool.false_eq_true, if_false] at h
        cases hs : e.shutdown with
        | none => simp [hs] at h
        | some s =>
          simp [hs] at h
          rcases h with ⟨h, rfl⟩ | ⟨⟨⟨h, h'⟩, rfl⟩, _⟩ <;> simp <;> omega


/-- the library law holds for every draw the script supplies, along the interval sequence from `cur` -/
def LawAlong (c : Cfg) : Nat → List Attempt → Prop
  | _, [] => True
  | cur, a :: as => (c.rfNum ≠ 0 → LibLaw c (curInterval c cur) a.drawn) ∧ LawAlong c (nextCur c (curInterval c cur)) as

theorem allowed_first_call {c : Cfg} {e : Env} {now cur : Nat} {p : List Nat} {s : List Attempt} {tr : Trace}
    (h : Allowed c e now cur p s tr) : ∃ fin rest, tr.calls = ⟨now, fin, p⟩ :: rest := by
  cases s with
  | nil => simp only [Allowed] at h; subst h; exact ⟨_, _, rfl⟩
  | cons a as =>
    simp only [Allowed] at h
    split at h
    · subst h; exact ⟨_, _, rfl⟩
    · split at h
      · subst h; exact ⟨_, _, rfl⟩
      · split at h
        · subst h; exact ⟨_, _, rfl⟩
        · split at h
          · subst h; exact ⟨_, _, rfl⟩
          · rcases h with ⟨r, t, _, rfl⟩ | ⟨_, tr', _, rfl⟩
            · exact ⟨_, _, rfl⟩
            · exact ⟨_, _, rfl⟩

theorem finish_dflt (c : Cfg) (e : Env) (t : Nat) : (finish c e t dfltAtt).getD t = t := by
  simp [finish, dfltAtt]

theorem curInterval_le (c : Cfg) (cur : Nat) (h : cur ≤ c.maxInt) : curInterval c cur ≤ max c.initial c.maxInt := by
  unfold curInterval; split
  · exact Nat.le_max_left _ _
  · exact Nat.le_trans h (Nat.le_max_right _ _)

theorem allowed_goodRec (c : Cfg) (e : Env) (o : Observed) : ∀ (s : List Attempt) (now cur : Nat) (p : List Nat) (first : Bool) (tr : Trace),
    Allowed c e now cur p s tr → tr.reason ≠ .hang → cur ≤ c.maxInt → LawAlong c cur s →
    (first = false → RetryStartOK c e now) →
    o.isNil = (tr.reason == .ok) → o.permFlag = tr.permFlag → o.sdFlag = tr.sdFlag → o.tEnd = tr.tEnd →
    GoodRec c e o first (tr.calls.map (fun cl => (cl.t, cl.payload))) s := by
  intro s
  induction s with
  | nil =>
    intro now cur p first tr h _ _ _ hf hn hp hs ht
    simp only [Allowed] at h; subst h
    simp only [List.map, GoodRec, List.headD]
    refine ⟨hf, ?_, ?_, ?_⟩
    · simp at hn; simp [hn]
    · simp [dfltAtt]
    · simp at hn; simp [hn]
  | cons a as ih =>
    intro now cur p first tr h hh hcur hlaw hf hn hp hs ht
    simp only [Allowed] at h
    split at h
    · subst h; simp at hh
    · rename_i fin hfin
      have hfinD : (finish c e now a).getD now = fin := by rw [hfin]; rfl
      split at h
      · rename_i hok
        subst h
        simp only [List.map, GoodRec, List.headD]
        refine ⟨hf, ?_, ?_, ?_⟩
        · simp at hn; simp [hn]
        · simp [hok]
        · simp at hn; simp [hn]
      · rename_i hok
        split at h
        · rename_i hen
          subst h
          simp only [List.map, GoodRec, List.headD]
          refine ⟨hf, ?_, ?_, ?_⟩
          · simp at hen; simp [hen]
          · simp at hn; simp [hn]
          · simp at hok; simp [hok]
        · rename_i hen
          split at h
          · rename_i hperm
            subst h
            simp only [List.map, GoodRec, List.headD]
            refine ⟨hf, ?_, ?_, ?_⟩
            · simp at hp; simp [hp]
            · simp at hn; simp [hn]
            · simp at hok; simp [hok]
          · rename_i hperm
            have hen' : c.enabled = true := by simpa using hen
            have hok' : a.ok = false := by simpa using hok
            have hperm' : a.perm = false := by simpa using hperm
            rcases h with ⟨r, t, hnd, rfl⟩ | ⟨hnd, tr', htr', rfl⟩
            · obtain ⟨g1, g2, g3, g4, g5⟩ := ndAllowed_some c e fin _ r t hnd
              simp only [List.map, GoodRec, List.headD]
              refine ⟨hf, ?_, ?_, ?_⟩
              · rintro ⟨_, _, hsd, _, hb, hgt⟩
                rw [hfinD, ht] at hgt
                simp only at hgt
                by_cases hr : r = .shutdown
                · subst hr; simp at hs; simp [hs] at hsd
                · have := g5 hr hgt
                  rw [ht] at hb; simp only at hb
                  rw [this] at hb; exact absurd hb (by simp)
              · rintro ⟨hnil, _⟩
                rw [hn] at hnil
                rcases g3 with rfl | rfl | rfl | rfl <;> simp at hnil
              · rintro ⟨_, hk⟩; rw [hok'] at hk; exact absurd hk (by simp)
            · obtain ⟨f2, rest, hcalls⟩ := allowed_first_call htr'
              obtain ⟨b1, b2, b3, b4⟩ := ndAllowed_none c e fin _ hnd
              have hnext : RetryStartOK c e (fin + waitOf c (curInterval c cur) a) := by
                refine ⟨?_, ?_, ?_⟩
                · cases hsd : e.shutdown with
                  | none => simp [olt]
                  | some s => have := b3 s hsd; simp [olt]; omega
                · obtain ⟨dl, cn, sd⟩ := e
                  cases dl <;> cases cn <;> simp [olt, Env.ctxDone, omin] at b2 b4 ⊢ <;> omega
                · rintro ⟨hE, hlt⟩; rcases b1 with b1 | b1 <;> omega
              have ihh := ih (fin + waitOf c (curInterval c cur) a) (nextCur c (curInterval c cur)) (a.rest.getD p) false tr'
                htr' (by simpa using hh) (nextCur_le c _) hlaw.2 (fun _ => hnext) (by simpa using hn) (by simpa using hp) (by simpa using hs) (by simpa using ht)
              simp only [List.map_cons, hcalls] at ihh ⊢
              simp only [GoodRec, List.headD, List.tail_cons]
              refine ⟨hf, ⟨hen', hok', hperm', ?_, ?_, rfl⟩, ihh⟩
              · rw [hfinD]
                have : a.throttle.getD 0 ≤ waitOf c (curInterval c cur) a := by
                  unfold waitOf; cases a.throttle <;> simp <;> omega
                omega
              · rintro ⟨hnone, hgt⟩
                rw [hfinD] at hgt
                have hth : a.throttle = none := by cases hth : a.throttle <;> simp_all
                have henv := C05_wait_envelope c cur a hth hlaw.1
                have hiv := curInterval_le c cur hcur
                have e1 : fin + waitOf c (curInterval c cur) a - fin = waitAfter c cur a := by unfold waitAfter; omega
                rw [e1] at hgt
                have := Nat.mul_le_mul_right (c.rfDen + c.rfNum) hiv
                unfold envelopeHiTimesDen at hgt
                omega



/-! ## main statements over every scheduling order -/

/-- the deterministic model is one of the allowed behaviours -/
theorem C05_run_allowed (c : Cfg) (e : Env) : ∀ (s : List Attempt) (now cur : Nat) (p : List Nat),
    Allowed c e now cur p s (run c e now cur p s) := by
  intro s
  induction s with
  | nil => intro now cur p; simp [Allowed, run]
  | cons a as ih =>
    intro now cur p
    cases hfin : finish c e now a with
    | none => simp [Allowed, run, hfin]
    | some fin =>
      by_cases hok : a.ok = true
      · simp [Allowed, run, hfin, hok]
      · by_cases hen : c.enabled = true
        · by_cases hperm : a.perm = true
          · simp [Allowed, run, hfin, hok, hen, hperm]
          · have hdet := ndAllowed_det c e fin (waitOf c (curInterval c cur) a)
            simp only [Allowed, run, hfin, hok, hen, hperm, Bool.not_true, Bool.false_eq_true, if_false]
            cases haf : afterFailure c e fin (waitOf c (curInterval c cur) a) with
            | none =>
              rw [haf] at hdet
              exact Or.inr ⟨hdet, _, ih _ _ _, rfl⟩
            | some rt =>
              obtain ⟨r, t⟩ := rt
              rw [haf] at hdet
              exact Or.inl ⟨r, t, hdet, rfl⟩
        · simp [Allowed, run, hfin, hok, hen]

/-- **every scheduling order passes the oracle**: each trace the model allows — whatever happens at
equal instants — satisfies all clauses `checkObserved` evaluates (given the library law on the draws;
a trace in which the pusher never returns is not an observation) -/
theorem C05_allowed_passes_check (c : Cfg) (e : Env) (p : List Nat) (s : List Attempt) (tr : Trace)
    (h : Allowed c e 0 0 p s tr) (hh : tr.reason ≠ .hang) (hlaw : LawAlong c 0 s) :
    checkObserved c e p s tr.observed = [] := by
  apply checkObserved_nil_of_all
  have hg := allowed_goodRec c e tr.observed s 0 0 p true tr h hh (Nat.zero_le _) hlaw (by simp) rfl rfl rfl rfl
  obtain ⟨i1, i2, i3, i4⟩ := goodRec_indexed c e tr.observed _ true s hg
  obtain ⟨fin, rest, hc⟩ := allowed_first_call h
  refine ⟨i1, ?_, i2, fun k hk hk' => i3 k (Or.inr hk) hk', i4⟩
  simp [Trace.observed, hc]

/-- **the model's own trace always passes the oracle** -/
theorem C05_model_passes_check (c : Cfg) (e : Env) (p : List Nat) (s : List Attempt)
    (hh : (send c e p s).reason ≠ .hang) (hlaw : LawAlong c 0 s) :
    checkObserved c e p s (send c e p s).observed = [] :=
  C05_allowed_passes_check c e p s _ (C05_run_allowed c e s 0 0 p) hh hlaw

/-- **the property's observable clauses hold for both orders at equal instants** -/
theorem C05_allowed_good (c : Cfg) (e : Env) (p : List Nat) (s : List Attempt) (tr : Trace)
    (h : Allowed c e 0 0 p s tr) (hh : tr.reason ≠ .hang) (hlaw : LawAlong c 0 s) :
    ObservedAll c e p s tr.observed ∧ ObservedGood c e p s tr.observed :=
  ⟨(C05_check_iff c e p s _).1 (C05_allowed_passes_check c e p s tr h hh hlaw),
   C05_check_sound c e p s _ (C05_allowed_passes_check c e p s tr h hh hlaw)⟩

/-- the monitor is sound: what it accepts is the observation of an allowed trace -/
theorem C05_accepts_sound (c : Cfg) (e : Env) (reason : Reason) (tEnd : Nat) (perm sd : Bool) :
    ∀ (s : List Attempt) (now cur : Nat) (p : List Nat) (calls : List (Nat × List Nat)),
    accepts c e reason tEnd perm sd now cur p s calls = true →
    ∃ tr, Allowed c e now cur p s tr ∧ tr.calls.map (fun cl => (cl.t, cl.payload)) = calls ∧
      tr.reason = reason ∧ tr.tEnd = tEnd ∧ tr.permFlag = perm ∧ tr.sdFlag = sd := by
  intro s
  induction s with
  | nil =>
    intro now cur p calls h
    simp only [accepts, Bool.and_eq_true, beq_iff_eq, Bool.not_eq_true'] at h
    obtain ⟨⟨⟨⟨h1, h2⟩, h3⟩, h4⟩, h5⟩ := h
    subst h1 h2 h3 h4 h5
    exact ⟨⟨[⟨tEnd, tEnd, p⟩], .ok, tEnd, false, false⟩, by simp only [Allowed], rfl, rfl, rfl, rfl, rfl⟩
  | cons a as ih =>
    intro now cur p calls h
    simp only [accepts] at h
    split at h
    · simp at h
    · rename_i t pl rest
      simp only [Bool.and_eq_true, beq_iff_eq] at h
      obtain ⟨⟨rfl, rfl⟩, h⟩ := h
      split at h
      · simp at h
      · rename_i fin hfin
        simp only [Allowed, hfin]
        split at h
        · rename_i hok
          simp only [Bool.and_eq_true, beq_iff_eq, Bool.not_eq_true', List.isEmpty_iff] at h
          obtain ⟨⟨⟨⟨rfl, h2⟩, h3⟩, h4⟩, h5⟩ := h
          subst h2 h3 h4 h5
          exact ⟨⟨[⟨t, tEnd, pl⟩], .ok, tEnd, false, false⟩, by simp [hok], rfl, rfl, rfl, rfl, rfl⟩
        · rename_i hok
          split at h
          · rename_i hen
            simp only [Bool.and_eq_true, beq_iff_eq, Bool.not_eq_true', List.isEmpty_iff] at h
            obtain ⟨⟨⟨⟨rfl, h2⟩, h3⟩, h4⟩, h5⟩ := h
            subst h2 h3 h4 h5
            exact ⟨⟨[⟨t, tEnd, pl⟩], .raw, tEnd, a.perm, a.sd⟩, by simp [hok, hen], rfl, rfl, rfl, rfl, rfl⟩
          · rename_i hen
            split at h
            · rename_i hperm
              simp only [Bool.and_eq_true, beq_iff_eq, Bool.not_eq_true', List.isEmpty_iff] at h
              obtain ⟨⟨⟨⟨rfl, h2⟩, h3⟩, h4⟩, h5⟩ := h
              subst h2 h3 h5
              have h4' : perm = true := by simpa using h4
              subst h4'
              exact ⟨⟨[⟨t, tEnd, pl⟩], .perm, tEnd, true, a.sd⟩, by simp [hok, hen, hperm], rfl, rfl, rfl, rfl, rfl⟩
            · rename_i hperm
              simp only [hok, hen, hperm, if_false]
              split at h
              · rename_i hemp
                simp only [Bool.and_eq_true, beq_iff_eq, Bool.not_eq_true'] at h
                obtain ⟨⟨h1, h2⟩, h3⟩ := h
                have : rest = [] := by simpa using hemp
                subst this
                subst h2
                have h3' : sd = (reason == Reason.shutdown || a.sd) := by simpa using h3
                subst h3'
                exact ⟨⟨[⟨t, fin, pl⟩], reason, tEnd, false, reason == .shutdown || a.sd⟩, Or.inl ⟨reason, tEnd, h1, rfl⟩, rfl, rfl, rfl, rfl, rfl⟩
              · simp only [Bool.and_eq_true] at h
                obtain ⟨h1, h2⟩ := h
                obtain ⟨tr', a1, a2, a3, a4, a5, a6⟩ := ih _ _ _ _ h2
                exact ⟨{ tr' with calls := ⟨t, fin, pl⟩ :: tr'.calls }, Or.inr ⟨h1, tr', a1, rfl⟩, by simp [a2], a3, a4, a5, a6⟩

/-! ### payloads only shrink -/

/-- every remainder a failure names is part of what was sent in that attempt -/
def Narrows : List Nat → List Attempt → Prop
  | _, [] => True
  | p, a :: as => (∀ r, a.rest = some r → r ⊆ p) ∧ Narrows (a.rest.getD p) as

theorem narrows_getD {p : List Nat} {a : Attempt} (h : ∀ r, a.rest = some r → r ⊆ p) : a.rest.getD p ⊆ p := by
  cases hr : a.rest with
  | none => simp
  | some r => simpa using h r hr

/-- **payloads only shrink**: when every named remainder is a subset of what was sent, every call carries
a subset of the payload of every earlier call (items not named as undelivered are never sent again),
under every scheduling order -/
theorem C05_payloads_shrink (c : Cfg) (e : Env) : ∀ (s : List Attempt) (now cur : Nat) (p : List Nat) (tr : Trace),
    Allowed c e now cur p s tr → Narrows p s →
    (∀ cl ∈ tr.calls, cl.payload ⊆ p) ∧ tr.calls.Pairwise (fun x y => y.payload ⊆ x.payload) := by
  intro s
  induction s with
  | nil =>
    intro now cur p tr h _
    simp only [Allowed] at h; subst h
    simp
  | cons a as ih =>
    intro now cur p tr h hn
    have single : ∀ (fin : Nat) (tr : Trace), tr.calls = [⟨now, fin, p⟩] →
        (∀ cl ∈ tr.calls, cl.payload ⊆ p) ∧ tr.calls.Pairwise (fun x y => y.payload ⊆ x.payload) := by
      intro fin tr hc; rw [hc]; simp
    simp only [Allowed] at h
    split at h
    · subst h; exact single _ _ rfl
    · split at h
      · subst h; exact single _ _ rfl
      · split at h
        · subst h; exact single _ _ rfl
        · split at h
          · subst h; exact single _ _ rfl
          · rcases h with ⟨r, t, _, rfl⟩ | ⟨_, tr', htr', rfl⟩
            · exact single _ _ rfl
            · obtain ⟨i1, i2⟩ := ih _ _ _ tr' htr' hn.2
              have hsub := narrows_getD hn.1
              refine ⟨?_, ?_⟩
              · intro cl hcl
                simp only [List.mem_cons] at hcl
                rcases hcl with rfl | hcl
                · simp
                · exact fun x hx => hsub (i1 cl hcl hx)
              · simp only [List.pairwise_cons]
                exact ⟨fun cl hcl x hx => hsub (i1 cl hcl hx), i2⟩

theorem C05_model_payloads_shrink (c : Cfg) (e : Env) (p : List Nat) (s : List Attempt) (hn : Narrows p s) :
    (send c e p s).calls.Pairwise (fun x y => y.payload ⊆ x.payload) :=
  (C05_payloads_shrink c e s 0 0 p _ (C05_run_allowed c e s 0 0 p) hn).2

/-! ### the timeout sender and the deadline -/

/-- the pusher's context ends at the earlier of its own deadline and a cancellation of the request -/
theorem C05_attempt_ctx (c : Cfg) (e : Env) (start : Nat) :
    attemptCtxDone c e start = omin (pusherDeadline c e start) e.cancel := by
  obtain ⟨dl, cn, sd⟩ := e
  unfold attemptCtxDone pusherDeadline Env.ctxDone
  cases dl <;> cases cn <;> by_cases ht : c.timeout > 0 <;> simp [omin, ht] <;> omega

/-- the per-attempt timeout is counted from the start of each attempt and bounds an attempt that
honours its context: it returns no later than `start + timeout`, and no later than the request deadline -/
theorem C05_timeout_bounds_attempt (c : Cfg) (e : Env) (start : Nat) (a : Attempt) (fin : Nat)
    (hu : a.untilCtx = true) (hf : finish c e start a = some fin) :
    start ≤ fin ∧ (0 < c.timeout → fin ≤ start + c.timeout) ∧ (∀ d, e.deadline = some d → fin ≤ max start d) := by
  obtain ⟨dl, cn, sd⟩ := e
  unfold finish attemptCtxDone Env.ctxDone at hf
  simp only [hu, if_true] at hf
  cases dl <;> cases cn <;> by_cases ht : c.timeout > 0 <;> simp [omin, ht] at hf <;> (try subst hf) <;> simp <;> omega

/-- an attempt that ran into the *timeout sender's* deadline is retried like any transient failure:
the retry decision looks at the request's own deadline only (the per-attempt context is not stored) -/
theorem C05_timeout_expiry_is_retried (c : Cfg) (cur : Nat) (p : List Nat) (a : Attempt) (as : List Attempt) (now : Nat)
    (hen : c.enabled = true) (ht : 0 < c.timeout) (hu : a.untilCtx = true) (hok : a.ok = false) (hperm : a.perm = false)
    (hE : c.maxElapsed = 0 ∨ now + c.timeout + waitAfter c cur a ≤ c.maxElapsed) :
    ∃ f2 rest, (run c {} now cur p (a :: as)).calls =
      ⟨now, now + c.timeout, p⟩ :: ⟨now + c.timeout + waitAfter c cur a, f2, a.rest.getD p⟩ :: rest := by
  apply C05_next_attempt
  refine ⟨?_, hen, hok, hperm, hE, ?_, ?_, ?_⟩
  · simp [finish, hu, attemptCtxDone, Env.ctxDone, omin, ht]
  all_goals (intro x hx; simp at hx)


/-! ### non-vacuity for the equal-instant relation -/

/-- shutdown at exactly the instant the back-off timer fires (1 s): both "retry at 1" and "shutdown at 1" are allowed, nothing else -/
example : ndAllowed exCfg { shutdown := some 1 } 0 1 none = true ∧ ndAllowed exCfg { shutdown := some 1 } 0 1 (some (.shutdown, 1)) = true ∧
    ndAllowed exCfg { shutdown := some 1 } 0 1 (some (.cancelled, 1)) = false ∧ ndAllowed exCfg { shutdown := some 1 } 0 1 (some (.shutdown, 0)) = false := by decide

/-- the monitor accepts both observations and rejects a retry made after a shutdown strictly before the timer -/
example : accepts exCfg { shutdown := some 1 } .shutdown 1 false true 0 0 [7] [{}, {}] [(0, [7])] = true ∧
    accepts exCfg { shutdown := some 1 } .ok 1 false false 0 0 [7] [{}, { ok := true }] [(0, [7]), (1, [7])] = true ∧
    accepts exCfg { shutdown := some 0 } .ok 1 false false 0 0 [7] [{ dur := 1 }, { ok := true }] [(0, [7]), (2, [7])] = false := by decide

example : LawAlong exCfg 0 (List.replicate 3 {}) := by simp [LawAlong, exCfg, List.replicate]
example : Narrows [1, 2, 3] [{ rest := some [2, 3] }, {}, { rest := some [3] }] := by simp [Narrows]
example : pusherDeadline { exCfg with timeout := 5 } { deadline := some 7 } 0 = some 5 ∧
    pusherDeadline { exCfg with timeout := 5 } { deadline := some 7 } 4 = some 7 := by decide


/-! ## glue: OTLP/gRPC status → retry loop -/

/-- **the delay a gRPC backend asks for reaches the wait**: a retryable status whose `RetryInfo` carries
`d > 0` becomes an error from which the retry loop reads the throttle delay `d`, so the wait is ≥ `d` -/
theorem C05_grpc_throttle_honoured (code d : Nat) (hd : 0 < d) (hr : grpcRetryable code true = true) (hc : code ≠ 0)
    (c : Cfg) (cur dur : Nat) :
    ∃ e, grpcProcess code (some d) = some e ∧ e.isPermanent = false ∧ e.throttleDelay = some d ∧
      d ≤ waitAfter c cur (Attempt.ofErr e dur) := by
  refine ⟨.throttle d .leaf, ?_, by simp [Err.isPermanent, Err.find], by simp [Err.throttleDelay, Err.find], ?_⟩
  · simp [grpcProcess, hc, hr]; omega
  · exact C05_wait_ge_throttle c cur _ d (by simp [Attempt.ofErr, Err.throttleDelay, Err.find])

/-- a non-retryable status is handed over as permanent: the loop makes no further attempt -/
theorem C05_grpc_not_retryable_is_final (code : Nat) (ri : Option Nat) (hc : code ≠ 0) (hr : grpcRetryable code ri.isSome = false)
    (c : Cfg) (e : Env) (now cur dur : Nat) (p : List Nat) (as : List Attempt) :
    ∃ er, grpcProcess code ri = some er ∧ er.isPermanent = true ∧
      (run c e now cur p (Attempt.ofErr er dur :: as)).calls.length = 1 := by
  refine ⟨.perm .leaf, by simp [grpcProcess, hc, hr], by simp [Err.isPermanent, Err.find], ?_⟩
  exact C05_verdict_final_head c e now cur p _ as (Or.inr (by simp [Attempt.ofErr, Err.isPermanent, Err.find]))

example : (grpcProcess 14 (some 7)).map Err.throttleDelay = some (some 7) ∧ (grpcProcess 8 none).map Err.isPermanent = some true ∧
    (grpcProcess 8 (some 0)).map Err.isPermanent = some false ∧ (grpcProcess 3 (some 5)).map Err.isPermanent = some true ∧
    (grpcProcess 0 none).isNone = true := by decide



/-- witness for the converse of `C05_shutdown_reason_classified` being false: the backend answers with an error
that carries a shutdown error and the budget runs out: reason `exhausted`, yet `IsShutdownErr` holds of the result -/
example : (send exCfg {} [1] (List.replicate 12 { sd := true })).reason = .exhausted ∧
    (send exCfg {} [1] (List.replicate 12 { sd := true })).sdFlag = true := by decide

/-- **shutdown pending but the budget (or the deadline) check trips first**: the loop answers
`exhausted` / `deadline`, not shutdown-classified (for a backend error that carries no shutdown error) —
the order of the checks in `retrySender.Send`; during a drain a persistent queue drops such a request.
Outside the clause as worded ("a retry *wait* interrupted by shutdown"): no wait begins. -/
theorem C05_shutdown_pending_but_budget_trips (c : Cfg) (e : Env) (now cur : Nat) (p : List Nat) (a : Attempt) (as : List Attempt) (fin : Nat)
    (hfin : finish c e now a = some fin) (hen : c.enabled = true) (hok : a.ok = false) (hperm : a.perm = false) (hsd : a.sd = false)
    (hE : 0 < c.maxElapsed ∧ c.maxElapsed < fin + waitAfter c cur a) :
    run c e now cur p (a :: as) = { calls := [⟨now, fin, p⟩], reason := .exhausted, tEnd := fin, sdFlag := false } := by
  have haf : afterFailure c e fin (waitAfter c cur a) = some (.exhausted, fin) := by
    unfold afterFailure; simp [hE]
  simp only [waitAfter] at haf
  simp [run, hfin, hen, hok, hperm, haf, hsd]

/-- shutdown at 0, budget 3 s, throttle 7 s: exhausted, not shutdown-classified -/
example : (send { exCfg with maxElapsed := 3 } { shutdown := some 0 } [1] [{ throttle := some 7 }]).reason = .exhausted ∧
    (send { exCfg with maxElapsed := 3 } { shutdown := some 0 } [1] [{ throttle := some 7 }]).sdFlag = false := by decide

/-- `lawAlongB` decides `LawAlong` -/
theorem C05_lawAlongB_iff (c : Cfg) : ∀ (s : List Attempt) (cur : Nat), lawAlongB c cur s = true ↔ LawAlong c cur s := by
  intro s
  induction s with
  | nil => intro cur; simp [lawAlongB, LawAlong]
  | cons a as ih =>
    intro cur
    simp only [lawAlongB, LawAlong, Bool.and_eq_true, Bool.or_eq_true, beq_iff_eq, decide_eq_true_eq, ih]
    constructor
    · rintro ⟨h1, h2⟩
      refine ⟨fun hn => ?_, h2⟩
      rcases h1 with h1 | h1
      · exact absurd h1 hn
      · exact h1
    · rintro ⟨h1, h2⟩
      refine ⟨?_, h2⟩
      by_cases hn : c.rfNum = 0
      · exact Or.inl hn
      · exact Or.inr (h1 hn)


/-! # Round 2 (second session): the model against the definitions regenerated from /repo; per-signal partial-failure constructors; defaults; giving up -/
section Src
open OtelVerif.Gen

/-- `validateBackoff` is the regenerated `BackOffConfig.Validate` (same check order, same index = position of the
`errors.New` in the source) -/
theorem C05_src_validate_backoff (r : RawCfg) : RetryCfg.BackOffConfig.Validate r.toGo = validateBackoff r := by
  unfold RetryCfg.BackOffConfig.Validate validateBackoff RawCfg.toGo
  simp only [Bool.or_eq_true, decide_eq_true_eq, Int.zero_mul, Int.one_mul]

theorem C05_src_validate_timeout (r : RawCfg) : (RetryCfg.TimeoutConfig.Validate r.toGoTimeout = 0) = (validateTimeout r = true) := by
  unfold RetryCfg.TimeoutConfig.Validate validateTimeout RawCfg.toGoTimeout
  by_cases h : r.timeout < 0 <;> simp [h]

/-- `grpcRetryable` is the regenerated `otlpexporter.shouldRetry` -/
theorem C05_src_grpc_retryable (code : Nat) (ri : Bool) : RetryCfg.shouldRetry code ri = grpcRetryable code ri := by
  unfold RetryCfg.shouldRetry grpcRetryable
  by_cases h1 : code = 1 <;> by_cases h4 : code = 4 <;> by_cases h10 : code = 10 <;> by_cases h11 : code = 11 <;>
    by_cases h14 : code = 14 <;> by_cases h15 : code = 15 <;> by_cases h8 : code = 8 <;> simp_all


/-! ## the per-signal partial-failure constructors -/

/-- the regenerated shape tables say what the model of the constructors assumes, for all four signals: each request type's
`OnError` searches exactly the error type its own constructor builds (`errors.As`), the constructor keeps `err` in `Err`
and `data` in `Value`, `Unwrap` returns `Err` and `Data` returns `Value` -/
theorem C05_src_signal_tables : signalTablesOK = true := by decide

/-- **only the named subset is resent, per signal**: when the backend's error is (outermost) a partial-failure error of
the request's own signal naming `data`, the next attempt carries exactly `data`, whatever the error it wraps -/
theorem C05_onError_own_signal (sig : Signal) (e : Err) (data payload : List Nat) :
    onError payload (newSignalErr sig sig e data) = data := by
  simp [onError, newSignalErr, Err.remainder, Err.find]

/-- a partial-failure error of ANOTHER signal is transparent to `OnError`: what is resent is decided by the chain below it
(the whole payload if nothing of the own type is there) -/
theorem C05_onError_other_signal (req sig : Signal) (h : req ≠ sig) (e : Err) (data payload : List Nat) :
    onError payload (newSignalErr req sig e data) = onError payload e := by
  simp [onError, newSignalErr, h, Err.remainder, Err.find]

/-- the constructors do not hide the classification of the error they carry (`Retryable.Unwrap` returns it): permanence,
shutdown classification and the throttle delay are those of the wrapped error, for every pair of signals -/
theorem C05_signal_err_transparent (req sig : Signal) (e : Err) (data : List Nat) :
    (newSignalErr req sig e data).isPermanent = e.isPermanent ∧
    (newSignalErr req sig e data).isShutdown = e.isShutdown ∧
    (newSignalErr req sig e data).throttleDelay = e.throttleDelay := by
  by_cases h : req = sig <;> simp [newSignalErr, h, Err.isPermanent, Err.isShutdown, Err.throttleDelay, Err.find]

example : onError [1, 2, 3] (.wrap (newSignalErr .traces .traces (.throttle 5 .leaf) [2])) = [2] ∧
    onError [1, 2, 3] (newSignalErr .traces .logs .leaf [2]) = [1, 2, 3] := by decide

/-! ## the default configuration -/

/-- the regenerated defaults (`NewDefaultBackOffConfig`: enabled, 5 s initial, rf 0.5, multiplier 1.5, 30 s cap, 5 min budget;
`NewDefaultTimeoutConfig`: 5 s) are accepted by both `Validate`s, and they are a "usual" configuration: the hypotheses of
`C05_interval_exponential` hold, so the un-randomised intervals are 5 s, 7.5 s, 11.25 s, … capped at 30 s -/
theorem C05_default_config_valid :
    validateBackoff defaultRaw = 0 ∧ validateTimeout defaultRaw = true ∧
    defaultCfg.enabled = true ∧ 0 < defaultCfg.initial ∧ defaultCfg.initial ≤ defaultCfg.maxInt ∧
    0 < defaultCfg.mulDen ∧ defaultCfg.mulDen ≤ defaultCfg.mulNum ∧ defaultCfg.rfNum ≤ defaultCfg.rfDen ∧
    defaultCfg.maxInt ≤ defaultCfg.maxElapsed ∧ defaultCfg.timeout = 5000000000 := by decide

example : (List.range 7).map (interval defaultCfg) =
    [5000000000, 7500000000, 11250000000, 16875000000, 25312500000, 30000000000, 30000000000] := by decide

/-- `NewBaseExporter` (regenerated shape): the timeout sender is wrapped around the pusher first, only when
`Timeout != 0`; the retry sender around that, only when `Enabled` — the retry loop is OUTSIDE the per-attempt timeout
(`attemptCtxDone` gives every attempt a fresh `start + timeout`), and a disabled retry leaves the bare chain (`Reason.raw`) -/
theorem C05_src_sender_chain :
    RetryCfg.senderChain = [("timeout", "be.timeoutCfg.Timeout != 0"), ("retry", "be.retryCfg.Enabled")] := by decide

/-! ## giving up: the elapsed-time budget bounds the number of attempts -/

theorem finish_ge {c : Cfg} {e : Env} {now : Nat} {a : Attempt} {fin : Nat} (h : finish c e now a = some fin) : now ≤ fin := by
  unfold finish at h
  split at h
  · cases hd : attemptCtxDone c e now with
    | none => simp [hd] at h
    | some d => simp [hd] at h; omega
  · simp at h; omega

/-- **liveness of giving up.** With a finite `max_elapsed_time`, if every wait the loop can plan is at least `m > 0`
(`P` is any invariant of the library's `currentInterval`), then `Send` makes at most `max_elapsed_time / m + 1` attempts,
HOWEVER long the backend keeps failing (scripts of any length, any throttle / partial failures, any events):
`#calls · m ≤ max_elapsed_time + m` -/
theorem C05_attempts_bounded (c : Cfg) (e : Env) (m : Nat) (P : Nat → Prop)
    (hstep : ∀ cur, P cur → P (nextCur c (curInterval c cur))) (hE : 0 < c.maxElapsed) :
    ∀ (s : List Attempt) (now cur : Nat) (p : List Nat), P cur → now ≤ c.maxElapsed →
      (∀ a ∈ s, ∀ cur, P cur → m ≤ waitAfter c cur a) →
      (run c e now cur p s).calls.length * m ≤ (c.maxElapsed - now) + m := by
  intro s
  induction s with
  | nil => intro now cur p _ _ _; simp [run]
  | cons a as ih =>
    intro now cur p hP hnow hw
    by_cases hc : ∃ fin, RetryCond c e now cur a fin
    · obtain ⟨fin, hc⟩ := hc
      rw [run_retry hc]
      have hfin := finish_ge hc.1
      have hfit := hc.2.2.2.2.1
      have hwa := hw a (List.mem_cons_self ..) cur hP
      have hle : fin + waitAfter c cur a ≤ c.maxElapsed := by rcases hfit with h0 | h0 <;> omega
      have ih' := ih (fin + waitAfter c cur a) (nextCur c (curInterval c cur)) (a.rest.getD p) (hstep cur hP) hle
        (fun a' ha' => hw a' (List.mem_cons_of_mem _ ha'))
      simp only [List.length_cons, Nat.succ_mul]
      omega
    · rw [run_single hc]; omega

/-- instance for the usual configurations without randomisation (positive initial interval not above the cap,
multiplier ≥ 1, `rf = 0`): every wait is at least the initial interval, so at most
`max_elapsed_time / initial_interval + 1` attempts are made for any request -/
theorem C05_gives_up_within_budget (c : Cfg) (e : Env) (p : List Nat) (s : List Attempt)
    (h1 : c.initial ≤ c.maxInt) (hd : 0 < c.mulDen) (hm : c.mulDen ≤ c.mulNum) (hrf : c.rfNum = 0)
    (hE : 0 < c.maxElapsed) :
    (send c e p s).calls.length * c.initial ≤ c.maxElapsed + c.initial := by
  have key := C05_attempts_bounded c e c.initial (fun cur => cur = 0 ∨ c.initial ≤ cur) ?_ hE s 0 0 p (Or.inl rfl) (Nat.zero_le _) ?_
  · simpa [send] using key
  · intro cur hP
    right
    have hiv : c.initial ≤ curInterval c cur := by
      unfold curInterval; split <;> omega
    unfold nextCur
    split
    · exact h1
    · rw [Nat.le_div_iff_mul_le hd]
      exact Nat.le_trans (Nat.mul_le_mul_right _ hiv) (Nat.mul_le_mul_left _ hm)
  · intro a _ cur hP
    have hiv : c.initial ≤ curInterval c cur := by
      unfold curInterval; split <;> omega
    unfold waitAfter waitOf backoffDelay
    cases a.throttle <;> simp [hrf] <;> omega

/-- the same for any randomisation factor, given a lower bound `m ≤ initial_interval` on the library's draws for the script
(under `LibLaw`: `drawn + 1 ≥ interval·(1 − rf) ≥ initial·(1 − rf)`): at most `max_elapsed_time / m + 1` attempts -/
theorem C05_gives_up_within_budget_any_rf (c : Cfg) (e : Env) (p : List Nat) (s : List Attempt) (m : Nat)
    (h1 : c.initial ≤ c.maxInt) (hd : 0 < c.mulDen) (hm : c.mulDen ≤ c.mulNum)
    (hE : 0 < c.maxElapsed) (hmi : m ≤ c.initial) (hdraw : c.rfNum ≠ 0 → ∀ a ∈ s, m ≤ a.drawn) :
    (send c e p s).calls.length * m ≤ c.maxElapsed + m := by
  have key := C05_attempts_bounded c e m (fun cur => cur = 0 ∨ c.initial ≤ cur) ?_ hE s 0 0 p (Or.inl rfl) (Nat.zero_le _) ?_
  · simpa [send] using key
  · intro cur hP
    right
    have hiv : c.initial ≤ curInterval c cur := by
      unfold curInterval; split <;> omega
    unfold nextCur
    split
    · exact h1
    · rw [Nat.le_div_iff_mul_le hd]
      exact Nat.le_trans (Nat.mul_le_mul_right _ hiv) (Nat.mul_le_mul_left _ hm)
  · intro a ha cur hP
    have hiv : c.initial ≤ curInterval c cur := by
      unfold curInterval; split <;> omega
    have hb : m ≤ backoffDelay c (curInterval c cur) a := by
      unfold backoffDelay
      split
      · omega
      · rename_i hrf; exact hdraw hrf a ha
    unfold waitAfter waitOf
    cases a.throttle <;> simp <;> omega

/-- the draws the library law allows are bounded below as `C05_gives_up_within_budget_any_rf` needs -/
theorem libLaw_lower (c : Cfg) (iv d : Nat) (h : LibLaw c iv d) (hi : c.initial ≤ iv) :
    c.initial * (c.rfDen - c.rfNum) ≤ (d + 1) * c.rfDen :=
  Nat.le_trans (Nat.mul_le_mul_right _ hi) h.1

/-- the DEFAULT configuration (regenerated: 5 s, ×1.5, cap 30 s, rf 0.5, budget 5 min) gives up after at most 121
attempts on any request, for draws within the library law's lower end (`≥ 2.5 s − 1 ns`) -/
theorem C05_default_gives_up (e : Env) (p : List Nat) (s : List Attempt) (hdraw : ∀ a ∈ s, 2499999999 ≤ a.drawn) :
    (send defaultCfg e p s).calls.length ≤ 121 := by
  have h := C05_gives_up_within_budget_any_rf defaultCfg e p s 2499999999 (by decide) (by decide) (by decide) (by decide) (by decide)
    (fun _ => hdraw)
  have h2 : defaultCfg.maxElapsed = 300000000000 := by decide
  omega

/-- non-vacuity: the DESIGN probe (1 s initial, ×2, cap 10 s, 60 s budget, rf 0) keeps failing for 40 outcomes: 9 attempts,
within the bound 61 -/
example : let c : Cfg := { enabled := true, initial := 1000000000, maxInt := 10000000000, maxElapsed := 60000000000, mulNum := 2, mulDen := 1, rfNum := 0, rfDen := 1, timeout := 0 }
    (send c {} [1] (List.replicate 40 {})).calls.length = 9 := by decide

example : (send defaultCfg {} [1] (List.replicate 12 { drawn := 2500000000 })).calls.length = 13 ∧ (∀ a ∈ List.replicate 12 ({ drawn := 2500000000 } : Attempt), 2499999999 ≤ a.drawn) := by decide

/-- **the library law is a theorem about the library's formula**: for every interval, every randomisation factor in (0, 1]
and every `random ∈ [0, 1)` the value `getRandomValueFromInterval` computes (exact arithmetic) satisfies `LibLaw` — the
hypothesis of `C05_wait_envelope` / `LawAlong` is what the formula yields, not an extra assumption about the draw -/
theorem C05_library_draw_satisfies_law (c : Cfg) (iv rn rd : Nat) (hrf : c.rfNum ≠ 0) (hle : c.rfNum ≤ c.rfDen)
    (hrd : rn < rd) : LibLaw c iv (libDraw c iv rn rd) := by
  have hden : 0 < c.rfDen := by omega
  have hrd0 : 0 < rd := by omega
  have hD : 0 < c.rfDen * rd := Nat.mul_pos hden hrd0
  unfold libDraw
  rw [if_neg hrf]
  generalize hA : iv * (c.rfDen - c.rfNum) * rd + rn * (2 * iv * c.rfNum + c.rfDen) = A
  have hlo : iv * (c.rfDen - c.rfNum) * rd ≤ A := by omega
  -- A < rd * (iv * (rfDen + rfNum) + rfDen)
  have hhi : A < (iv * (c.rfDen + c.rfNum) + c.rfDen) * rd := by
    have h1 : rn * (2 * iv * c.rfNum + c.rfDen) < rd * (2 * iv * c.rfNum + c.rfDen) :=
      Nat.mul_lt_mul_of_lt_of_le hrd (Nat.le_refl _) (by omega)
    have h2 : iv * (c.rfDen - c.rfNum) * rd + rd * (2 * iv * c.rfNum + c.rfDen) = (iv * (c.rfDen + c.rfNum) + c.rfDen) * rd := by
      have e : c.rfDen + c.rfNum = (c.rfDen - c.rfNum) + 2 * c.rfNum := by omega
      rw [e]
      simp only [Nat.mul_add, Nat.mul_comm, Nat.mul_left_comm]
      omega
    omega
  have hq1 : A < (A / (c.rfDen * rd) + 1) * (c.rfDen * rd) := by
    rw [Nat.mul_comm]; exact Nat.lt_mul_div_succ A hD
  have hq2 : A / (c.rfDen * rd) * (c.rfDen * rd) ≤ A := Nat.div_mul_le_self A _
  constructor
  · -- iv*(rfDen-rfNum) ≤ (drawn+1)*rfDen
    have : iv * (c.rfDen - c.rfNum) * rd < (A / (c.rfDen * rd) + 1) * c.rfDen * rd := by
      rw [Nat.mul_assoc ((A / (c.rfDen * rd) + 1))]; omega
    exact Nat.le_of_lt (Nat.lt_of_mul_lt_mul_right this)
  · -- drawn*rfDen ≤ iv*(rfDen+rfNum) + rfDen
    have : A / (c.rfDen * rd) * c.rfDen * rd < (iv * (c.rfDen + c.rfNum) + c.rfDen) * rd := by
      rw [Nat.mul_assoc (A / (c.rfDen * rd))]; omega
    exact Nat.le_of_lt (Nat.lt_of_mul_lt_mul_right this)

example : libDraw { enabled := true, initial := 0, maxInt := 0, maxElapsed := 0, mulNum := 3, mulDen := 2, rfNum := 1, rfDen := 2, timeout := 0 } 1000 0 1 = 500 ∧
    libDraw { enabled := true, initial := 0, maxInt := 0, maxElapsed := 0, mulNum := 3, mulDen := 2, rfNum := 1, rfDen := 2, timeout := 0 } 1000 999 1000 = 1499 := by decide


/-- `afterFailure` = its four pre-select checks, then the blocking select -/
theorem afterFailure_split (c : Cfg) (e : Env) (fin w : Nat) :
    afterFailure c e fin w = match preSelect c e fin w with
      | some x => some x
      | none => blockingSelect e fin w := by
  unfold afterFailure preSelect blockingSelect
  simp only []
  split
  · rfl
  · split
    · rfl
    · split
      · rfl
      · split
        · rfl
        · rfl

/-- **one iteration of `retrySender.Send`, regenerated**: the decision chain compiled from retry_sender.go, run on the inputs
the model supplies for an attempt that returned at `fin`, gives exactly the model's verdict: `nil` after a success, "not
retryable" after a permanent error, otherwise the throttle-adjusted wait `max(backoff, throttle)` checked against the budget,
the deadline, the closed `stopCh` and `ctx.Err()` in that order, else the blocking select with a timer of that wait — with
`OnError` applied before -/
theorem C05_src_retry_step (c : Cfg) (e : Env) (cur fin : Nat) (a : Attempt) :
    RetryCfg.retryStep (stepInOf c e cur fin a) = modelStep c e cur fin a := by
  unfold RetryCfg.retryStep stepInOf modelStep
  cases hok : a.ok <;> cases hp : a.perm <;> simp
  have hw : (if (optI a.throttle).isSome = true then
        max ((backoffDelay c (curInterval c cur) a : Nat) : Int) ((optI a.throttle).getD 0)
      else ((backoffDelay c (curInterval c cur) a : Nat) : Int)) = ((waitOf c (curInterval c cur) a : Nat) : Int) := by
    cases hth : a.throttle with
    | none => simp [optI, waitOf, hth]
    | some th => simp [optI, waitOf, hth]; omega
  simp only [hw]
  generalize waitOf c (curInterval c cur) a = W
  have h1 : (0 < c.maxElapsed ∧ (if 0 < c.maxElapsed then some (c.maxElapsed : Int) else none).getD 0 < (fin : Int) + (W : Int)) ↔
      (c.maxElapsed > 0 ∧ c.maxElapsed < fin + W) := by
    by_cases h : 0 < c.maxElapsed
    · simp [h]; omega
    · simp [h]
  have h2 : ((optI e.deadline).isSome = true ∧ (optI e.deadline).getD 0 < (fin : Int) + (W : Int)) ↔ olt e.deadline (fin + W) = true := by
    cases hd : e.deadline with
    | none => simp [optI, olt]
    | some d => simp [optI, olt]; omega
  simp only [h1, h2, preSelect]
  by_cases c1 : c.maxElapsed > 0 ∧ c.maxElapsed < fin + W
  · simp [c1, stepOutOf]
  · by_cases c2 : olt e.deadline (fin + W) = true
    · simp [c1, c2, stepOutOf]
    · by_cases c3 : ole e.shutdown fin = true
      · simp [c1, c2, c3, stepOutOf]
      · by_cases c4 : ole e.ctxDone fin = true
        · simp [c1, c2, c3, c4, stepOutOf]
        · simp [c1, c2, c3, c4, stepOutOf]


/-- … and that verdict is what `run` does with the iteration: a pre-select verdict ends `Send` at `fin` with that reason;
otherwise the blocking select decides (`blockingSelect`: the earliest of shutdown / context done / timer), and if the timer
wins the loop goes round with the narrowed payload and the next `currentInterval` -/
theorem C05_run_iteration (c : Cfg) (e : Env) (now cur fin : Nat) (p : List Nat) (a : Attempt) (as : List Attempt)
    (hen : c.enabled = true) (hf : finish c e now a = some fin) (hok : a.ok = false) (hp : a.perm = false) :
    run c e now cur p (a :: as) =
      match preSelect c e fin (waitOf c (curInterval c cur) a) with
      | some (r, t) => { calls := [⟨now, fin, p⟩], reason := r, tEnd := t, sdFlag := (r == .shutdown) || a.sd }
      | none =>
        match blockingSelect e fin (waitOf c (curInterval c cur) a) with
        | some (r, t) => { calls := [⟨now, fin, p⟩], reason := r, tEnd := t, sdFlag := (r == .shutdown) || a.sd }
        | none =>
          { run c e (fin + waitOf c (curInterval c cur) a) (nextCur c (curInterval c cur)) (a.rest.getD p) as with
            calls := ⟨now, fin, p⟩ :: (run c e (fin + waitOf c (curInterval c cur) a) (nextCur c (curInterval c cur)) (a.rest.getD p) as).calls } := by
  simp only [run, hf, hok, hp, hen, afterFailure_split]
  cases h1 : preSelect c e fin (waitOf c (curInterval c cur) a) with
  | some x => simp
  | none =>
    cases h2 : blockingSelect e fin (waitOf c (curInterval c cur) a) with
    | some x => simp
    | none => simp

/-- `timeoutSender.Send`, regenerated: the deadline the pusher sees (`pusherDeadline`, timeout sender installed) is
`context.WithTimeout(ctx, Timeout)` of the REQUEST's context taken at the start of this attempt -/
theorem C05_src_timeout_step (c : Cfg) (e : Env) (start : Nat) (h : 0 < c.timeout) :
    (pusherDeadline c e start).map (fun n => (n : Int)) =
      some (RetryCfg.timeoutSendDeadline (optI e.deadline) (start : Nat) (c.timeout : Nat)) := by
  unfold pusherDeadline RetryCfg.timeoutSendDeadline
  cases hd : e.deadline with
  | none => simp [omin, optI, h]
  | some d => simp [omin, optI, h]; omega

example : RetryCfg.retryStep (stepInOf { enabled := true, initial := 1000, maxInt := 10000, maxElapsed := 0, mulNum := 2, mulDen := 1, rfNum := 0, rfDen := 1, timeout := 0 }
    { shutdown := some 5 } 0 7 { throttle := some 3000 }) = .retShutdown ∧
  RetryCfg.retryStep (stepInOf { enabled := true, initial := 1000, maxInt := 10000, maxElapsed := 0, mulNum := 2, mulDen := 1, rfNum := 0, rfDen := 1, timeout := 0 }
    {} 0 7 { throttle := some 3000 }) = .wait 3000 true := by decide


/-- the blocking select as regenerated: context done → "cancelled or timed out", `stopCh` → shutdown error, timer → next
iteration (what `blockingSelect` models; which ready case wins at equal instants is the Go runtime's choice — `Allowed`) -/
theorem C05_src_retry_select : RetryCfg.retrySelect =
    ["ctx.Done() => .retWrap \"request is cancelled or timed out\"", "rs.stopCh => .retShutdown", "time.After(backoffDelay) => continue"] := rfl


/-- **source pins**: the regenerated statement lists of the functions that are modelled by hand (outside the compiled subset)
are exactly the ones the model was written from — an edit of any of them stops the build until the model has been re-examined -/
theorem C05_src_skeletons : SrcPinned := by
  unfold SrcPinned
  repeat' apply And.intro
  all_goals rfl

end Src

end OtelVerif.C05
