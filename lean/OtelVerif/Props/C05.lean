import OtelVerif.Model.C05
/-! C05 property theorems (stub) -/
namespace OtelVerif.C05
end OtelVerif.C05
