import OtelVerif.Lemmas.C06
import OtelVerif.Lemmas.C06Dag
import OtelVerif.Lemmas.C06DagFlat
import OtelVerif.Lemmas.C06Src
/-!
# C06 — fan-out never lets one consumer's mutation reach another consumer

All statements quantify over **every** capability vector `caps` (any number and ordering of
consumers), read-only or mutable input, every content `c0`, and every behaviour of the consumers:
`syncW` (what a consumer writes while it is being called) and `ws` (what is written afterwards,
asynchronously) are arbitrary unless a hypothesis says otherwise.
-/
namespace OtelVerif.C06

def isMut (caps : List Bool) (c : Nat) : Prop := caps[c]? = some true
def isRO (caps : List Bool) (c : Nat) : Prop := caps[c]? = some false

/-- every consumer is invoked exactly once — whatever earlier ones returned (the loop has no early
exit: `errorsOf` is computed from the same, complete call list) -/
theorem C06_all_called (caps : List Bool) (inputRO : Bool) :
    ((deliveries caps inputRO).map (·.consumer)).Perm (List.range caps.length) := by
  simp only [deliveries, List.map_append, mutDeliveries_consumers, roDeliveries, List.map_map]
  have : (List.map ((fun x => x.consumer) ∘ fun c => ({ consumer := c, obj := Obj.orig } : Delivery)) (readonlyIdx caps)) = readonlyIdx caps := by
    simp [Function.comp_def]
  rw [this, List.range_eq_range']
  exact idxWhere_perm caps 0

/-- the returned error aggregates all failures: it is empty iff no consumer failed, and contains
every failing consumer -/
theorem C06_errors_aggregate (caps : List Bool) (inputRO : Bool) (fails : Nat → Bool) (c : Nat) (hc : c < caps.length) :
    c ∈ errorsOf (deliveries caps inputRO) fails ↔ fails c = true := by
  have hp := C06_all_called caps inputRO
  simp only [errorsOf, List.mem_filter]
  constructor
  · exact fun h => h.2
  · intro h; exact ⟨hp.mem_iff.2 (List.mem_range.2 hc), h⟩

/-- content delivered to each consumer equals the content sent — **for any behaviour of the
consumers during their calls**, declared or not -/
theorem C06_equal_at_call (caps : List Bool) (inputRO : Bool) (c0 : Nat) (syncW : Nat → Option Nat) :
    ∀ s ∈ (runFan caps inputRO c0 syncW).2, s.atCall = some c0 := by
  intro s hs
  simp only [runFan, List.mem_append] at hs
  have hA := heapA_spec caps inputRO c0 syncW
  rcases hs with hs | hs
  · exact hA.1 s hs
  · -- read-only phase: the original is untouched so far unless there is no read-only consumer
    cases hr : readonlyIdx caps with
    | nil => rw [hr] at hs; simp [roDeliveries, callAll] at hs
    | cons c rest =>
      have hL : lastGetsOrig caps inputRO = false := by simp [lastGetsOrig, hr]
      have horig := hA.2.2 hL
      cases rest with
      | nil =>
        rw [hr] at hs
        have := phaseB_single syncW c _ s hs
        rw [this, markRO_orig, horig]
      | cons c' rest' =>
        have hro : (markRO (marksRO caps inputRO) (heapA caps inputRO c0 syncW).1).origRO = true := by
          rw [marked_origRO, hr]; simp
        have := ((phaseB_ro syncW (readonlyIdx caps) _ hro).2 s hs).1
        rw [this, markRO_orig, horig]

/-- each mutating consumer works on an object nobody else is handed; and the original is handed to
a mutating consumer only if it was not read-only -/
theorem C06_exclusive (caps : List Bool) (inputRO : Bool) :
    (deliveries caps inputRO).Pairwise
      (fun a b => (isMut caps a.consumer ∨ isMut caps b.consumer) → a.obj ≠ b.obj) ∧
    (∀ d ∈ deliveries caps inputRO, isMut caps d.consumer → d.obj = .orig → inputRO = false) := by
  constructor
  · simp only [deliveries, List.pairwise_append]
    have hpm : (mutDeliveries (lastGetsOrig caps inputRO) (mutableIdx caps) 0).Pairwise
        (fun a b => (isMut caps a.consumer ∨ isMut caps b.consumer) → a.obj ≠ b.obj) := by
      have := mutDeliveries_pairwise (lastGetsOrig caps inputRO) (mutableIdx caps) 0
      exact List.Pairwise.imp (S := fun (a b : Delivery) => (isMut caps a.consumer ∨ isMut caps b.consumer) → a.obj ≠ b.obj) (fun h _ => h) this
    refine ⟨hpm, ?_, ?_⟩
    · -- two read-only consumers: the premise is false
      simp only [roDeliveries, List.pairwise_map]
      refine List.Pairwise.imp_of_mem ?_ (List.pairwise_of_forall (R := fun _ _ => True) (fun _ _ => trivial))
      intro a b ha hb _ hab
      have h1 := (mem_readonlyIdx caps a).1 ha
      have h2 := (mem_readonlyIdx caps b).1 hb
      rcases hab with h | h <;> simp [isMut, h1, h2] at h
    · intro a ha b hb _
      simp only [roDeliveries, List.mem_map] at hb
      obtain ⟨c, hc, rfl⟩ := hb
      rcases mutDeliveries_obj _ _ _ a ha with ⟨_, hL⟩ | ⟨j, hj, _⟩
      · simp only [lastGetsOrig, Bool.and_eq_true, List.isEmpty_iff] at hL
        rw [hL.1] at hc; simp at hc
      · simp [hj]
  · intro d hd hm ho
    simp only [deliveries, List.mem_append] at hd
    rcases hd with hd | hd
    · rcases mutDeliveries_obj _ _ _ d hd with ⟨_, hL⟩ | ⟨j, hj, _⟩
      · simp only [lastGetsOrig, Bool.and_eq_true, Bool.not_eq_true'] at hL; exact hL.2
      · rw [hj] at ho; cases ho
    · simp only [roDeliveries, List.mem_map] at hd
      obtain ⟨c, hc, rfl⟩ := hd
      have := (mem_readonlyIdx caps c).1 hc
      simp [isMut, this] at hm

/-- a consumer that does not declare mutation is handed the original … -/
theorem C06_readonly_gets_orig (caps : List Bool) (inputRO : Bool) (c : Nat) (hc : isRO caps c) :
    objOf (deliveries caps inputRO) c = some .orig := by
  have hr : c ∈ readonlyIdx caps := (mem_readonlyIdx caps c).2 hc
  have hL : lastGetsOrig caps inputRO = false := by
    cases h : readonlyIdx caps with
    | nil => rw [h] at hr; simp at hr
    | cons a b => simp [lastGetsOrig, h]
  rcases objOf_append_clone_or_ro (mutDeliveries false (mutableIdx caps) 0) (readonlyIdx caps) c
      (mutDeliveries_false_clone _ _) with h | ⟨j, hj⟩ | ⟨h, _⟩
  · -- not found: impossible, c is among the read-only deliveries
    exfalso
    simp only [objOf, Option.map_eq_none_iff, List.find?_eq_none, List.mem_append, decide_eq_true_eq] at h
    exact h ⟨c, .orig⟩ (Or.inr (by simp [roDeliveries, hr])) rfl
  · -- found among the mutable deliveries: impossible, c is not mutating
    exfalso
    simp only [objOf, Option.map_eq_some_iff] at hj
    obtain ⟨d, hd, _⟩ := hj
    rw [List.find?_append] at hd
    cases hf : (mutDeliveries false (mutableIdx caps) 0).find? (fun d => decide (d.consumer = c)) with
    | none =>
      rw [hf] at hd
      simp only [Option.none_or] at hd
      have hmem := List.mem_of_find?_eq_some hd
      simp only [roDeliveries, List.mem_map] at hmem
      obtain ⟨c', _, rfl⟩ := hmem
      simp_all
    | some d' =>
      have hmem := List.mem_of_find?_eq_some hf
      have hp := List.find?_some hf
      simp only [decide_eq_true_eq] at hp
      have hcm : d'.consumer ∈ (mutDeliveries false (mutableIdx caps) 0).map (·.consumer) := List.mem_map_of_mem hmem
      rw [mutDeliveries_consumers, hp, mem_mutableIdx] at hcm
      simp [isRO] at hc
      rw [hc] at hcm; cases hcm
  · simpa [deliveries, hL] using h

/-- … and **never observes a change made by any other consumer**, during the calls or at any later
time: for every behaviour `syncW`/`ws` of all the *other* consumers (declared mutators or not), the
object a non-mutating consumer `c` holds still has the content that was sent.  (Only `c` itself is
assumed not to write.) -/
theorem C06_noninterference (caps : List Bool) (inputRO : Bool) (c0 : Nat) (syncW : Nat → Option Nat)
    (ws : List (Nat × Nat)) (c : Nat) (hc : isRO caps c)
    (hself : syncW c = none) (hws : ∀ p ∈ ws, p.1 ≠ c) :
    (asyncWrites (deliveries caps inputRO) (runFan caps inputRO c0 syncW).1 ws).read .orig = some c0 := by
  have hr : c ∈ readonlyIdx caps := (mem_readonlyIdx caps c).2 hc
  have hL : lastGetsOrig caps inputRO = false := by
    cases h : readonlyIdx caps with
    | nil => rw [h] at hr; simp at hr
    | cons a b => simp [lastGetsOrig, h]
  have hA := heapA_spec caps inputRO c0 syncW
  have hAo := hA.2.2 hL
  simp only [Heap.read, Option.some.injEq]
  have hds : deliveries caps inputRO = mutDeliveries false (mutableIdx caps) 0 ++ roDeliveries (readonlyIdx caps) := by
    simp [deliveries, hL]
  rw [hds]
  simp only [runFan]
  by_cases hshared : inputRO = true ∨ (readonlyIdx caps).length > 1
  · -- the original is read-only while the non-mutating consumers run and ever after
    have hro2 : (markRO (marksRO caps inputRO) (heapA caps inputRO c0 syncW).1).origRO = true := by
      rw [marked_origRO]; rcases hshared with h | h <;> simp [h]
    rw [(phaseB_ro syncW (readonlyIdx caps) _ hro2).1]
    rw [asyncWrites_orig _ _ c _ ws (mutDeliveries_false_clone _ _) hws (Or.inl hro2), markRO_orig, hAo]
  · -- `c` is the only non-mutating consumer and the input is mutable
    have hlen : (readonlyIdx caps).length ≤ 1 := by
      have : ¬ (readonlyIdx caps).length > 1 := fun h => hshared (Or.inr h)
      omega
    have honly : ∀ c' ∈ readonlyIdx caps, c' = c := by
      intro c' hc'
      cases hl : readonlyIdx caps with
      | nil => rw [hl] at hc'; simp at hc'
      | cons a rest =>
        rw [hl] at hc' hr hlen
        cases rest with
        | nil => simp at hc' hr; rw [hc', hr]
        | cons b rest' => simp at hlen
    have hsil : ∀ c' ∈ readonlyIdx caps, syncW c' = none := by
      intro c' hc'; rw [honly c' hc']; exact hself
    rw [phaseB_silent syncW _ _ hsil]
    rw [asyncWrites_orig _ _ c _ ws (mutDeliveries_false_clone _ _) hws (Or.inr honly), markRO_orig, hAo]

/-- data shared by several non-mutating consumers is marked read-only (every one of them sees
`IsReadOnly() = true`), so an undeclared mutation panics and changes nothing -/
theorem C06_ro_marked (caps : List Bool) (inputRO : Bool) (c0 : Nat) (syncW : Nat → Option Nat)
    (hmany : (readonlyIdx caps).length > 1) :
    (runFan caps inputRO c0 syncW).1.origRO = true ∧
    (∀ s ∈ (runFan caps inputRO c0 syncW).2, isRO caps s.consumer → s.ro = true) ∧
    (∀ v, (runFan caps inputRO c0 syncW).1.write .orig v = ((runFan caps inputRO c0 syncW).1, true)) := by
  have hro2 : (markRO (marksRO caps inputRO) (heapA caps inputRO c0 syncW).1).origRO = true := by
    rw [marked_origRO]; simp [hmany]
  have hB := phaseB_ro syncW (readonlyIdx caps) _ hro2
  have hfin : (runFan caps inputRO c0 syncW).1.origRO = true := by
    simp only [runFan]; rw [hB.1]; exact hro2
  refine ⟨hfin, ?_, fun v => write_ro_noop _ v hfin⟩
  intro s hs hsro
  simp only [runFan, List.mem_append] at hs
  rcases hs with hs | hs
  · -- a seen record of the mutable phase belongs to a mutating consumer
    exfalso
    have := callAll_consumers syncW _ _ s hs
    rw [mutDeliveries_consumers, mem_mutableIdx] at this
    simp [isRO] at hsro
    rw [hsro] at this; cases this
  · exact (hB.2 s hs).2

/-- the fan-out advertises itself as mutating exactly when it may hand the caller's own object to
a mutating consumer -/
theorem C06_fan_cap (caps : List Bool) :
    fanCap caps = true ↔ ∃ d ∈ deliveries caps false, d.obj = .orig ∧ isMut caps d.consumer := by
  constructor
  · intro h
    simp only [fanCap, Bool.and_eq_true, Bool.not_eq_true', List.isEmpty_iff] at h
    obtain ⟨hm, hr⟩ := h
    cases hmm : mutableIdx caps with
    | nil => simp [hmm] at hm
    | cons a rest =>
      -- the last mutating consumer gets the original
      have hL : lastGetsOrig caps false = true := by simp [lastGetsOrig, hr]
      have key : ∀ (m : List Nat) (k : Nat), m ≠ [] → ∃ d ∈ mutDeliveries true m k, d.obj = .orig ∧ d.consumer ∈ m := by
        intro m
        induction m with
        | nil => intro k h; exact absurd rfl h
        | cons c rest ih =>
          intro k _
          cases rest with
          | nil => exact ⟨⟨c, .orig⟩, by simp [mutDeliveries], rfl, by simp⟩
          | cons c' rest' =>
            obtain ⟨d, hd, ho, hc⟩ := ih (k + 1) (by simp)
            exact ⟨d, by simp only [mutDeliveries, List.mem_cons]; exact Or.inr hd, ho, by simp only [List.mem_cons] at hc ⊢; exact Or.inr hc⟩
      obtain ⟨d, hd, ho, hc⟩ := key (mutableIdx caps) 0 (by simp [hmm])
      refine ⟨d, ?_, ho, (mem_mutableIdx caps _).1 hc⟩
      simp only [deliveries, hL, List.mem_append]; exact Or.inl hd
  · rintro ⟨d, hd, ho, hm⟩
    simp only [deliveries, List.mem_append] at hd
    rcases hd with hd | hd
    · rcases mutDeliveries_obj _ _ _ d hd with ⟨_, hL⟩ | ⟨j, hj, _⟩
      · simp only [lastGetsOrig, Bool.and_eq_true, List.isEmpty_iff] at hL
        have hmem : d.consumer ∈ mutableIdx caps := (mem_mutableIdx caps _).2 hm
        simp only [fanCap, Bool.and_eq_true, Bool.not_eq_true', List.isEmpty_iff, hL.1, and_true]
        cases hmm : mutableIdx caps with
        | nil => rw [hmm] at hmem; simp at hmem
        | cons a b => simp
      · rw [hj] at ho; cases ho
    · simp only [roDeliveries, List.mem_map] at hd
      obtain ⟨c, hc, rfl⟩ := hd
      have := (mem_readonlyIdx caps c).1 hc
      simp [isMut, this] at hm

theorem idxWhere_nil_iff (b : Bool) (caps : List Bool) (s : Nat) : idxWhere b caps s = [] ↔ ∀ c ∈ caps, c ≠ b := by
  induction caps generalizing s with
  | nil => simp [idxWhere]
  | cons c cs ih =>
    by_cases hc : c = b
    · simp [idxWhere, hc]
    · simp [idxWhere, hc, ih]

/-- the fan-out's capability does not depend on the order of its consumers (the graph hands them
over in map-iteration order): it is "there is a consumer and all of them mutate" -/
theorem C06_fanCap_all (caps : List Bool) : fanCap caps = (!caps.isEmpty && caps.all id) := by
  have h1 := idxWhere_nil_iff true caps 0
  have h2 := idxWhere_nil_iff false caps 0
  simp only [fanCap, mutableIdx, readonlyIdx]
  cases caps with
  | nil => simp [idxWhere]
  | cons c cs =>
    rw [Bool.eq_iff_iff]
    simp only [Bool.and_eq_true, Bool.not_eq_true', List.isEmpty_eq_false_iff, ne_eq, List.isEmpty_iff, h1, h2,
      List.all_eq_true, id]
    constructor
    · rintro ⟨_, hall⟩
      exact ⟨by simp, fun x hx => by have := hall x hx; cases x <;> simp_all⟩
    · rintro ⟨_, hall⟩
      refine ⟨?_, fun x hx => by simp [hall x hx]⟩
      intro hno
      have := hno c (by simp)
      have := hall c (by simp)
      simp_all

theorem C06_fanCap_perm (a b : List Bool) (h : a.Perm b) : fanCap a = fanCap b := by
  rw [C06_fanCap_all, C06_fanCap_all]
  have h1 : a.isEmpty = b.isEmpty := by
    cases a <;> cases b <;> simp_all
  have h2 : a.all id = b.all id := by
    rw [Bool.eq_iff_iff]; simp only [List.all_eq_true]; exact ⟨fun hh x hx => hh x (h.mem_iff.2 hx), fun hh x hx => hh x (h.mem_iff.1 hx)⟩
  rw [h1, h2]

/-- a pipeline advertises itself as mutating exactly when one of its processors mutates or its
exporter stage may mutate the original payload -/
theorem C06_pipeline_cap (procs exporters : List Bool) :
    pipelineCap procs exporters = true ↔
      (∃ p ∈ procs, p = true) ∨ ∃ d ∈ deliveries exporters false, d.obj = .orig ∧ isMut exporters d.consumer := by
  simp only [pipelineCap, Bool.or_eq_true, C06_fan_cap, List.any_eq_true, id]
  constructor
  · rintro (h | h); exact Or.inr h; exact Or.inl h
  · rintro (h | h); exact Or.inr h; exact Or.inl h

/-- two-level isolation: a pipeline that does **not** advertise mutation has no mutating processor
and its exporter stage hands the payload it received only to non-mutating exporters (every mutating
exporter works on a clone) — so whoever feeds several pipelines may share one object among the
non-advertising ones, and `C06_exclusive` gives each advertising pipeline its own copy -/
theorem C06_two_level (procs exporters : List Bool) (inputRO : Bool) (h : pipelineCap procs exporters = false) :
    (∀ p ∈ procs, p = false) ∧
    ∀ d ∈ deliveries exporters inputRO, isMut exporters d.consumer → ∃ j, d.obj = .clone j := by
  simp only [pipelineCap, Bool.or_eq_false_iff, List.any_eq_false, id] at h
  obtain ⟨hf, hp⟩ := h
  refine ⟨fun p hp' => by simpa using hp p hp', ?_⟩
  intro d hd hm
  -- fanCap = false and a mutating exporter exists ⇒ some non-mutating exporter exists ⇒ last does not get the original
  have hmem : d.consumer ∈ mutableIdx exporters := (mem_mutableIdx _ _).2 hm
  have hL : lastGetsOrig exporters inputRO = false := by
    simp only [fanCap, Bool.and_eq_false_iff, Bool.not_eq_false', List.isEmpty_iff] at hf
    rcases hf with hf | hf
    · rw [hf] at hmem; simp at hmem
    · simp [lastGetsOrig, hf]
  simp only [deliveries, hL, List.mem_append] at hd
  rcases hd with hd | hd
  · exact mutDeliveries_false_clone _ _ d hd
  · simp only [roDeliveries, List.mem_map] at hd
    obtain ⟨c, hc, rfl⟩ := hd
    have := (mem_readonlyIdx exporters c).1 hc
    simp [isMut, this] at hm

/-- a same-signal connector advertises mutation whenever it or any pipeline it feeds does (it may
pass the object it received straight on) -/
/- (definitional: an unfolding of `aggregateCap`, tied to `connector.go` by the graph differential; not counted as an obligation) -/
theorem aggregateCap_spec (base : Bool) (nexts : List Bool) :
    aggregateCap base nexts = true ↔ base = true ∨ ∃ n ∈ nexts, n = true := by
  simp [aggregateCap]


/-! ## end to end: a receiver (or connector) feeding several pipelines -/

/-- a pipeline as the graph sees it: declared `MutatesData` of its processors (in order) and of its
exporter stage (exporters and connectors) -/
structure Pipe where
  procs : List Bool
  exps : List Bool
deriving Repr

def Pipe.cap (p : Pipe) : Bool := pipelineCap p.procs p.exps

/-- read-only state of the object a pipeline is handed by the upstream fan-out -/
def objRO (caps : List Bool) (inputRO : Bool) : Obj → Bool
  | .clone _ => false
  | .orig => inputRO || marksRO caps inputRO

theorem objOf_mem {ds : List Delivery} {c : Nat} {o : Obj} (h : objOf ds c = some o) :
    ∃ d ∈ ds, d.consumer = c ∧ d.obj = o := by
  simp only [objOf, Option.map_eq_some_iff] at h
  obtain ⟨d, hd, rfl⟩ := h
  exact ⟨d, List.mem_of_find?_eq_some hd, by simpa using List.find?_some hd, rfl⟩

theorem pairwise_symm_forall {α : Type} {R : α → α → Prop} (hs : ∀ a b, R a b → R b a) {l : List α}
    (h : l.Pairwise R) : ∀ a ∈ l, ∀ b ∈ l, a ≠ b → R a b := by
  induction l with
  | nil => intro a ha; cases ha
  | cons x xs ih =>
    rw [List.pairwise_cons] at h
    intro a ha b hb hab
    simp only [List.mem_cons] at ha hb
    rcases ha with rfl | ha <;> rcases hb with rfl | hb
    · exact absurd rfl hab
    · exact h.1 b hb
    · exact hs _ _ (h.1 a ha)
    · exact ih h.2 a ha b hb hab

/-- a mutating exporter is handed the pipeline's own object only when that object is mutable -/
theorem orig_to_mutator_needs_mutable (exps : List Bool) (ro : Bool) (d : Delivery)
    (hd : d ∈ deliveries exps ro) (ho : d.obj = .orig) (hm : isMut exps d.consumer) :
    ro = false ∧ d ∈ deliveries exps false := by
  have hro := (C06_exclusive exps ro).2 d hd hm ho
  subst hro
  exact ⟨rfl, hd⟩

/-- **End-to-end isolation.**  A fan-out (receiver or connector router) hands one payload to the
pipelines `pipes`, each advertising `Pipe.cap`.  If anything in pipeline `i` may write to the object the
pipeline was handed — a processor that declares mutation, or a mutating exporter/connector that the
pipeline's own fan-out hands that very object — then that object is handed to no other pipeline and is
not read-only: the write cannot panic and cannot be seen by any other pipeline. -/
theorem C06_end_to_end (pipes : List Pipe) (inputRO : Bool) (i : Nat) (p : Pipe) (hp : pipes[i]? = some p)
    (o : Obj) (ho : objOf (deliveries (pipes.map Pipe.cap) inputRO) i = some o)
    (hw : (∃ b ∈ p.procs, b = true) ∨
      ∃ d ∈ deliveries p.exps (objRO (pipes.map Pipe.cap) inputRO o), d.obj = .orig ∧ isMut p.exps d.consumer) :
    (∀ j, j ≠ i → objOf (deliveries (pipes.map Pipe.cap) inputRO) j ≠ some o) ∧
      objRO (pipes.map Pipe.cap) inputRO o = false := by
  -- the pipeline advertises mutation
  have hcap : p.cap = true := by
    rw [Pipe.cap, C06_pipeline_cap]
    rcases hw with h | ⟨d, hd, hdo, hdm⟩
    · exact Or.inl h
    · exact Or.inr ⟨d, (orig_to_mutator_needs_mutable _ _ d hd hdo hdm).2, hdo, hdm⟩
  have hmut : isMut (pipes.map Pipe.cap) i := by
    simp only [isMut, List.getElem?_map, hp, Option.map_some, hcap]
  obtain ⟨di, hdi, hdic, hdio⟩ := objOf_mem ho
  have hex := C06_exclusive (pipes.map Pipe.cap) inputRO
  constructor
  · intro j hj hoj
    obtain ⟨dj, hdj, hdjc, hdjo⟩ := objOf_mem hoj
    have hne : di ≠ dj := by intro e; rw [e, hdjc] at hdic; exact hj hdic
    have := pairwise_symm_forall (R := fun a b => (isMut (pipes.map Pipe.cap) a.consumer ∨ isMut (pipes.map Pipe.cap) b.consumer) → a.obj ≠ b.obj)
      (fun a b h hab => fun e => h (hab.symm) e.symm) hex.1 di hdi dj hdj hne
    exact this (Or.inl (by rw [hdic]; exact hmut)) (by rw [hdio, hdjo])
  · cases o with
    | clone k => rfl
    | orig =>
      have hin : inputRO = false := hex.2 di hdi (by rw [hdic]; exact hmut) hdio
      -- the original goes to a mutating pipeline only when no pipeline is non-mutating, hence no marking
      have hL : lastGetsOrig (pipes.map Pipe.cap) inputRO = true := by
        simp only [deliveries, List.mem_append] at hdi
        rcases hdi with hdi | hdi
        · rcases mutDeliveries_obj _ _ _ di hdi with ⟨_, hL⟩ | ⟨k, hk, _⟩
          · exact hL
          · rw [hk] at hdio; cases hdio
        · simp only [roDeliveries, List.mem_map] at hdi
          obtain ⟨c, hc, rfl⟩ := hdi
          have := (mem_readonlyIdx _ c).1 hc
          simp only [isMut] at hmut
          rw [← hdic] at hmut
          simp [this] at hmut
      simp only [lastGetsOrig, Bool.and_eq_true, List.isEmpty_iff] at hL
      simp [objRO, hin, marksRO, hL.1]

/-- conversely, a pipeline that does not advertise mutation never writes to the object it was handed
(`C06_two_level`), so sharing that object among such pipelines — read-only when there are several —
is safe -/
theorem end_to_end_quiet (pipes : List Pipe) (i : Nat) (p : Pipe) (hp : pipes[i]? = some p) (hc : p.cap = false) (ro : Bool) :
    (∀ b ∈ p.procs, b = false) ∧ ∀ d ∈ deliveries p.exps ro, isMut p.exps d.consumer → ∃ k, d.obj = .clone k := by
  have _ := hp
  exact C06_two_level p.procs p.exps ro hc


/-- the hypotheses of `C06_end_to_end` are met by a concrete two-pipeline configuration: the first
pipeline has a mutating processor and is handed clone 0, the second one is handed the original -/
example : objOf (deliveries ([(⟨[true], [false]⟩ : Pipe), ⟨[], [false, false]⟩].map Pipe.cap) false) 0 = some (.clone 0) ∧
    objOf (deliveries ([(⟨[true], [false]⟩ : Pipe), ⟨[], [false, false]⟩].map Pipe.cap) false) 1 = some .orig := by decide

/-- an exporter that batches (merges/splits what it is given after `Consume` returned) always advertises
mutation, whatever it declared itself — so the fan-out in front of it never hands it an object it
shares (`C06_exclusive`) -/
/- (definitional: case split on `exporterCap`, tied to `base_exporter.go` by the exporter differential; not counted as an obligation) -/
theorem exporterCap_spec (declared : Option Bool) :
    exporterCap declared true = true ∧ exporterCap declared false = declared.getD false := by
  cases declared <;> simp [exporterCap]

/-! ## non-vacuity -/

example : deliveries [true, false, true, false] false =
    [⟨0, .clone 0⟩, ⟨2, .clone 1⟩, ⟨1, .orig⟩, ⟨3, .orig⟩] := by decide
example : deliveries [true, true] false = [⟨0, .clone 0⟩, ⟨1, .orig⟩] := by decide
example : deliveries [true, true] true = [⟨0, .clone 0⟩, ⟨1, .clone 1⟩] := by decide
example : (runFan [true, false, false] false 7 (fun c => if c = 0 then some 9 else none)).1.origRO = true := by decide
example : isRO [true, false, false] 1 ∧ (readonlyIdx [true, false, false]).length > 1 := by simp [isRO]; decide


/-! ## whole graphs: one payload travelling through ANY tree of pipelines, connectors and exporters

`Dag.fan f o h` is the operational semantics (every fan-out clones / shares / marks as `Consume*` does, every inner node
advertises what `graph.go` / `connector.go` compute, declared mutators write to the object they are handed);
`Dag.specAll f t` is the abstract semantics "every consumer works on a private copy".  No bound on depth, width, number of
processors, sharing pattern; any heap, any object. -/

/-- **Refinement.**  What every exporter anywhere below a fan-out is shown at its call is exactly what the private-copy
semantics prescribes — the payload that was sent plus the tags of the declared mutators on ITS OWN path, nothing written by
any sibling, cousin or other pipeline — in serving order (`specFan`) and, order-free, as a permutation of `specAll`. -/
theorem C06_dag_refines (f : Dag.Forest) (o : Nat) (h : Dag.Heap) (ho : o < h.next) :
    (Dag.fan f o h).2.map Dag.Obs.proj = Dag.specFan f (h.content o) ∧
    ((Dag.fan f o h).2.map Dag.Obs.proj).Perm (Dag.specAll f (h.content o)) := by
  have F := Dag.fan_good f o h ho
  exact ⟨F.obs, by rw [F.obs]; exact Dag.specFan_perm f _⟩

/-- … and it stays so: after the whole graph has run (all siblings at every level, everything downstream of them), the object
each exporter was handed holds exactly what it was shown plus its own declared write. -/
theorem C06_dag_final (f : Dag.Forest) (o : Nat) (h : Dag.Heap) (ho : o < h.next) :
    ∀ ob ∈ (Dag.fan f o h).2, (Dag.fan f o h).1.content ob.obj = ob.content ++ ob.own :=
  (Dag.fan_good f o h ho).final

/-- no declared mutator at any depth (processor, connector, exporter) is ever handed a read-only object: nothing panics, and
a mutating exporter sees `IsReadOnly() = false` -/
theorem C06_dag_no_panic (f : Dag.Forest) (o : Nat) (h : Dag.Heap) (ho : o < h.next) :
    (Dag.fan f o h).1.panics = h.panics ∧ ∀ ob ∈ (Dag.fan f o h).2, ob.own ≠ [] → ob.ro = false :=
  ⟨(Dag.fan_good f o h ho).panics, (Dag.fan_good f o h ho).wr⟩

/-- frame: a fan-out call touches no object that existed before except the one it was given, and it does not change even that
one's content unless it advertises mutation (`fanCap`: some consumer mutates and none is non-mutating) — `C06_two_level` at
any depth -/
theorem C06_dag_frame (f : Dag.Forest) (o : Nat) (h : Dag.Heap) (ho : o < h.next) :
    (∀ x, x < h.next → x ≠ o → (Dag.fan f o h).1.content x = h.content x ∧ (Dag.fan f o h).1.ro x = h.ro x) ∧
    (fanCap (Dag.caps f) = false → (Dag.fan f o h).1.content o = h.content o) ∧
    (h.ro o = true → (Dag.fan f o h).1.ro o = true) := by
  have F := Dag.fan_good f o h ho
  refine ⟨F.frame, fun hc => F.quiet ?_, F.roKeep⟩
  exact Dag.fanCap_false _ hc

/-- a pipeline / connector that does not advertise mutation never changes the object it is handed, whatever is below it -/
theorem C06_dag_quiet_node (k : Dag.Kind) (ws : List (Nat × Bool)) (kids : Dag.Forest) (o : Nat) (h : Dag.Heap) (ho : o < h.next)
    (hc : Dag.innerCap k ws (Dag.caps kids) = false) :
    (Dag.fan kids o (Dag.writeAll ws o h)).1.content o = h.content o := by
  obtain ⟨hw, hq⟩ := Dag.innerCap_false k ws kids hc
  rw [(Dag.writeAll_none ws o h hw).1]
  exact (Dag.fan_good kids o h ho).quiet hq

/-- **shared ⇒ read-only, anywhere in the graph**: any two exporter calls (same fan-out, different pipelines, different depth …) that
are handed the SAME object both see it read-only — an undeclared mutation by either panics (`Dag.Heap.write` on a read-only object
only records the panic) instead of corrupting the other -/
theorem C06_dag_shared_readonly (f : Dag.Forest) (o : Nat) (h : Dag.Heap) (ho : o < h.next) :
    (Dag.fan f o h).2.Pairwise (fun a b => a.obj = b.obj → a.ro = true ∧ b.ro = true) :=
  (Dag.fan_good f o h ho).pw

/-- **exclusive**: the object of an exporter that declares mutation is handed to no other exporter call of the whole graph -/
theorem C06_dag_exclusive (f : Dag.Forest) (o : Nat) (h : Dag.Heap) (ho : o < h.next) :
    (Dag.fan f o h).2.Pairwise (fun a b => (a.own ≠ [] ∨ b.own ≠ []) → a.obj ≠ b.obj) := by
  have F := Dag.fan_good f o h ho
  have hmem : (Dag.fan f o h).2.Pairwise (fun a b => a ∈ (Dag.fan f o h).2 ∧ b ∈ (Dag.fan f o h).2) := by
    apply List.Pairwise.imp_of_mem (R := fun _ _ => True)
    · intro a b ha hb _; exact ⟨ha, hb⟩
    · exact List.pairwise_of_forall (fun _ _ => trivial)
  refine (F.pw.and hmem).imp ?_
  rintro a b ⟨hab, ha, hb⟩ hown e
  have := hab e
  rcases hown with hw | hw
  · have := F.wr a ha hw; simp_all
  · have := F.wr b hb hw; simp_all

theorem pairwise_getElem?_ne {α : Type} {R : α → α → Prop} (hs : ∀ a b, R a b → R b a) {l : List α} (h : l.Pairwise R)
    {i j : Nat} {a b : α} (hij : i ≠ j) (ha : l[i]? = some a) (hb : l[j]? = some b) : R a b := by
  obtain ⟨hi, rfl⟩ := List.getElem?_eq_some_iff.1 ha
  obtain ⟨hj, rfl⟩ := List.getElem?_eq_some_iff.1 hb
  rcases Nat.lt_or_gt_of_ne hij with hlt | hgt
  · exact (List.pairwise_iff_getElem.1 h) i j hi hj hlt
  · exact hs _ _ ((List.pairwise_iff_getElem.1 h) j i hj hi hgt)

/-- **asynchronous mutation**: whatever the declared mutators write LATER (any number of writes, any order, after the whole graph
has returned) to the objects they hold, every other exporter call's object still holds exactly what that call was shown plus its
own write -/
theorem C06_dag_async (f : Dag.Forest) (o : Nat) (h : Dag.Heap) (ho : o < h.next) (ws : List (Nat × Nat)) (j : Nat) (ob : Dag.Obs)
    (hj : (Dag.fan f o h).2[j]? = some ob) (hws : ∀ w ∈ ws, w.1 ≠ j) :
    (Dag.later (Dag.fan f o h).2 (Dag.fan f o h).1 ws).content ob.obj = ob.content ++ ob.own := by
  have hex := C06_dag_exclusive f o h ho
  have hfin := C06_dag_final f o h ho ob (List.mem_of_getElem? hj)
  have key : ∀ (ws : List (Nat × Nat)) (H : Dag.Heap), (∀ w ∈ ws, w.1 ≠ j) →
      (Dag.later (Dag.fan f o h).2 H ws).content ob.obj = H.content ob.obj := by
    intro ws
    induction ws with
    | nil => intro H _; rfl
    | cons w ws ih =>
      intro H hw
      obtain ⟨i, tag⟩ := w
      have hi : i ≠ j := hw (i, tag) (by simp)
      have hrest : ∀ w ∈ ws, w.1 ≠ j := fun w hw' => hw w (by simp [hw'])
      simp only [Dag.later]
      cases hob : (Dag.fan f o h).2[i]? with
      | none => exact ih H hrest
      | some ob' =>
        simp only []
        by_cases he : ob'.own.isEmpty = true
        · simp only [he, if_true]; exact ih H hrest
        · simp only [he, Bool.false_eq_true, if_false]
          rw [ih _ hrest]
          have hne : ob'.obj ≠ ob.obj :=
            pairwise_getElem?_ne (R := fun a b => (a.own ≠ [] ∨ b.own ≠ []) → a.obj ≠ b.obj)
              (fun a b hab hor e => hab (hor.symm) e.symm) hex hi hob hj
              (Or.inl (by intro e; simp [e] at he))
          exact Dag.write_content_ne _ _ _ _ (Ne.symm hne)
  rw [key ws _ hws]; exact hfin

/-- every exporter below is called whatever its siblings return, and the error the caller gets back aggregates every failing call:
the failing calls are exactly (as a multiset) the failing entries of the private-copy semantics -/
theorem C06_dag_errors (f : Dag.Forest) (o : Nat) (h : Dag.Heap) (ho : o < h.next) (fails : Nat → Bool) :
    (((Dag.fan f o h).2.filter (fun ob => fails ob.id)).map Dag.Obs.proj).Perm
      ((Dag.specAll f (h.content o)).filter (fun e => fails e.1)) := by
  have hp := ((C06_dag_refines f o h ho).2).filter (fun e => fails e.1)
  have : ((Dag.fan f o h).2.filter (fun ob => fails ob.id)).map Dag.Obs.proj =
      ((Dag.fan f o h).2.map Dag.Obs.proj).filter (fun e => fails e.1) := by
    rw [List.filter_map]; rfl
  rw [this]; exact hp

/-- **the whole-graph semantics is built from the code-tied fan-out model**: one fan-out of `Dag.fan` over plain exporters with
capabilities `caps` hands every consumer exactly the object `deliveries caps` says (the caller's object, or the `k`-th object
allocated from `h.next` on for `.clone k`), in the same order, and shows it the read-only flag `seenRO` says — for every heap -/
theorem C06_dag_flat (caps : List Bool) (o : Nat) (h : Dag.Heap) (ho : o < h.next) :
    (Dag.fan (Dag.ofCaps caps 0) o h).2.map (fun ob => (ob.id, ob.obj)) =
      (deliveries caps (h.ro o)).map (fun d => (d.consumer, Dag.objNum o h.next d.obj)) ∧
    (∀ ob ∈ (Dag.fan (Dag.ofCaps caps 0) o h).2, ob.ro = seenRO caps (h.ro o) ob.id) ∧
    Dag.caps (Dag.ofCaps caps 0) = caps :=
  ⟨(Dag.fan_ofCaps caps o h ho).1, (Dag.fan_ofCaps caps o h ho).2, Dag.caps_ofCaps caps 0⟩

example : (Dag.fan (Dag.ofCaps [true, false, true, false] 0) 0 (Dag.Heap.init [] false)).2.map (fun ob => (ob.id, ob.obj, ob.ro)) =
    [(0, 1, false), (2, 2, false), (1, 0, true), (3, 0, true)] := by decide

/-- the driver's oracle on the implementation's observations is sound: it accepts only permutations of the private-copy semantics -/
theorem C06_dag_check_sound (f : Dag.Forest) (t : Dag.Trail) (seen : List (Nat × Dag.Trail))
    (h : Dag.checkLeaves f t seen = true) : seen.Perm (Dag.specAll f t) := by
  simpa [Dag.checkLeaves, List.isPerm_iff] using h

/-- non-vacuity: receiver → [pipeline A (mutating processor 1; exporters 2 (mutating), 3; connector 4 → pipeline B (exporters 5, 6)),
pipeline C (exporter 7)].  A advertises mutation and gets a clone; C shares the original. -/
def Dag.ex1 : Dag.Forest :=
  .inner .pipe [(1, true)]
    (.exp 2 true (.exp 3 false (.inner .conn [(4, false)] (.inner .pipe [] (.exp 5 false (.exp 6 false .nil)) .nil) .nil)))
    (.inner .pipe [] (.exp 7 false .nil) .nil)

example : Dag.caps Dag.ex1 = [true, false] := by decide
example : (Dag.later (Dag.fan Dag.ex1 0 (Dag.Heap.init [] false)).2 (Dag.fan Dag.ex1 0 (Dag.Heap.init [] false)).1 [(0, 2), (0, 2)]).content 2 =
    [1, 2, 2, 2] := by decide
example : (Dag.fan Dag.ex1 0 (Dag.Heap.init [] false)).2 =
    [⟨2, 2, [1], false, [2]⟩, ⟨3, 1, [1], true, []⟩, ⟨5, 1, [1], true, []⟩, ⟨6, 1, [1], true, []⟩, ⟨7, 0, [], false, []⟩] := by
  decide
example : Dag.specAll Dag.ex1 [] = [(2, [1]), (3, [1]), (5, [1]), (6, [1]), (7, [])] := by decide
example : Dag.checkLeaves Dag.ex1 [] [(7, []), (2, [1]), (3, [1]), (5, [1]), (6, [1])] = true := by decide
example : Dag.checkLeaves Dag.ex1 [] [(7, [1]), (2, [1]), (3, [1]), (5, [1]), (6, [1])] = false := by decide


/-! ## the SOURCE of the four fan-out files means the model

`Gen.FanoutShape.{logs,metrics,traces,profiles}` are regenerated on every run from `internal/fanoutconsumer/*.go` by
`translators/cmd/fanoutshape` (statement-by-statement translation of `New*`, `Capabilities`, `Consume*`, `clone*`). -/

/-- for EACH of the four signals and every capability vector: running the translated `Consume*` on the slices the translated
`New*` builds performs exactly the calls / clones / marking of the model, with the model's effect on every heap and every
behaviour of the consumers; the translated `Capabilities()` is `fanCap`; a clone is a fresh copy -/
theorem C06_src_fanout (name : String) (p : Src.Fan) (hp : (name, p) ∈ Gen.FanoutShape.all)
    (caps : List Bool) (inputRO : Bool) (c0 : Nat) (syncW : Nat → Option Nat) :
    Src.part p.part caps 0 = (mutableIdx caps, readonlyIdx caps) ∧
    (Src.exec p.consume (Src.part p.part caps 0).1 (Src.part p.part caps 0).2 ⟨[], 0, inputRO⟩).evs = Src.planEvs caps inputRO ∧
    Src.runEvs syncW { orig := c0, origRO := inputRO }
        (Src.exec p.consume (Src.part p.part caps 0).1 (Src.part p.part caps 0).2 ⟨[], 0, inputRO⟩).evs =
      runFan caps inputRO c0 syncW ∧
    (∀ r, Src.evalB p.capExp (Src.part p.part caps 0).1 (Src.part p.part caps 0).2 r = fanCap caps) ∧
    p.cloneIsFreshCopy = true := by
  have hcanon : p = Src.canon := by
    obtain ⟨h1, h2, h3, h4⟩ := Src.gen_eq_canon
    simp only [Gen.FanoutShape.all, List.mem_cons, Prod.mk.injEq, List.mem_nil_iff, or_false] at hp
    rcases hp with ⟨_, rfl⟩ | ⟨_, rfl⟩ | ⟨_, rfl⟩ | ⟨_, rfl⟩ <;> assumption
  subst hcanon
  have hpart : Src.part Src.canon.part caps 0 = (mutableIdx caps, readonlyIdx caps) := Src.part_canon caps 0
  refine ⟨hpart, ?_, ?_, ?_, rfl⟩
  · rw [hpart]; exact Src.exec_canon caps inputRO
  · rw [hpart]; simp only []; rw [Src.exec_canon, Src.runEvs_plan]
  · intro r; rw [hpart]; exact Src.evalB_canon_cap caps r

/-- `New*` returns the single consumer itself when it does not mutate (every one of the four files does): unobservable — the
wrapper would call it exactly once with the caller's object, never mark, and advertise non-mutating -/
theorem C06_src_unwrap_unobservable (inputRO : Bool) :
    (∀ p ∈ Gen.FanoutShape.all, p.2.unwrapSingleRO = true) ∧
    deliveries [false] inputRO = [⟨0, .orig⟩] ∧ marksRO [false] inputRO = false ∧ fanCap [false] = false := by
  refine ⟨by decide, ?_, ?_, by decide⟩ <;> cases inputRO <;> decide

/-- the graph's capability glue, regenerated from `connector.go` / `graph.go` / `capabilityconsumer`: `aggregateCap`'s loop is
`aggregateCap`, the capabilities node's loop is `pipelineCap` (of the fan-out node's capability), and for every signal the
same-signal connector arm / the capabilities node arm expose a consumer that advertises exactly that value, while every
cross-signal connector arm exposes the connector unwrapped (its own declared capability: for the pipeline that feeds it, it is a leaf
of the whole-graph model) -/
theorem C06_src_graph_glue (base : Bool) (nexts procs exporters : List Bool) (fo : Bool) :
    Src.evalCap Gen.FanoutShape.aggregateCapExp base fo nexts procs = aggregateCap base nexts ∧
    Src.evalCap Gen.FanoutShape.capNodeExp base (fanCap exporters) nexts procs = pipelineCap procs exporters ∧
    (∀ s ∈ ["logs", "metrics", "traces", "profiles"],
      Gen.FanoutShape.connectorWraps.lookup s = some true ∧ Gen.FanoutShape.capNodeWraps.lookup s = some true ∧
      Gen.FanoutShape.capConsumerAdvertisesRequested.lookup s = some true ∧
      Gen.FanoutShape.connectorCrossUnwrapped.lookup s = some true) := by
  refine ⟨?_, ?_, by decide⟩
  · simp [Gen.FanoutShape.aggregateCapExp, Src.evalCap, Src.orLoop_eq, aggregateCap]
  · simp [Gen.FanoutShape.capNodeExp, Src.evalCap, Src.orLoop_eq, pipelineCap]

example : ("metrics", Gen.FanoutShape.metrics) ∈ Gen.FanoutShape.all := by decide

/-! ## connector routers (regenerated from `connector/*_router.go`, `connector/internal/router.go`, `xconnector/profiles_router.go`) -/

theorem filter_length_all (p : Nat → Bool) (l : List Nat) : (l.filter p).length = l.length ↔ l.all p = true := by
  induction l with
  | nil => simp
  | cons x xs ih =>
    by_cases hx : p x = true
    · simp [hx, ih]
    · have hx' : p x = false := by simpa using hx
      have hle := List.length_filter_le p xs
      have hf : (x :: xs).filter p = xs.filter p := by simp [hx']
      rw [hf]
      simp only [List.all_cons, hx', Bool.false_and, List.length_cons]
      constructor
      · intro h; omega
      · intro h; cases h

/-- for EACH of the four signals the router's `Consumer(ids…)` accepts exactly the non-empty selections of known pipelines
(`routerSelect`, what the router differential runs), and the consumer it returns is the signal's fan-out over the selected
pipelines' consumers in the order given, repeats included — so everything proved about `deliveries`/`runFan` applies to it with
`caps` = the capabilities of the selection; the router itself consumes through the fan-out over all its pipelines -/
theorem C06_src_router (name : String) (r : Src.Route) (hr : (name, r) ∈ Gen.FanoutShape.routers) (n : Nat) (sel : List Nat) :
    r.select n sel = routerSelect n sel ∧ (∀ l, routerSelect n sel = some l → l = sel ∧ sel ≠ [] ∧ ∀ i ∈ sel, i < n) ∧
    r.lookupInOrder = true ∧ r.fanoutOverFound = true ∧ r.defaultOverAll = true := by
  have hall : r = ⟨true, true, true, true, true⟩ := by
    simp only [Gen.FanoutShape.routers, List.mem_cons, Prod.mk.injEq, List.mem_nil_iff, or_false] at hr
    rcases hr with ⟨_, rfl⟩ | ⟨_, rfl⟩ | ⟨_, rfl⟩ | ⟨_, rfl⟩ <;> rfl
  subst hall
  refine ⟨?_, ?_, rfl, rfl, rfl⟩
  · simp only [Src.Route.select, routerSelect, Bool.true_and]
    by_cases he : sel.isEmpty = true
    · simp [he]
    · have he' : sel.isEmpty = false := by simpa using he
      simp only [he', Bool.false_eq_true, if_false]
      by_cases ha : sel.all (fun x => decide (x < n)) = true
      · have hl := (filter_length_all (fun x => decide (x < n)) sel).2 ha
        have hf : sel.filter (fun x => decide (x < n)) = sel := List.filter_eq_self.2 (by simpa using ha)
        simp [ha, hf]
      · have hl : (sel.filter (fun x => decide (x < n))).length ≠ sel.length :=
          fun h => ha ((filter_length_all _ sel).1 h)
        simp [ha, hl]
  · intro l hl
    simp only [routerSelect] at hl
    by_cases he : sel.isEmpty = true
    · simp [he] at hl
    · have he' : sel.isEmpty = false := by simpa using he
      simp only [he', Bool.false_eq_true, if_false] at hl
      by_cases ha : sel.all (fun x => decide (x < n)) = true
      · simp only [ha, if_true, Option.some.injEq] at hl
        refine ⟨hl.symm, ?_, ?_⟩
        · intro e; simp [e] at he
        · intro i hi; simpa using (List.all_eq_true.1 ha) i hi
      · simp [ha] at hl

example : routerSelect 3 [2, 0, 2] = some [2, 0, 2] ∧ routerSelect 3 [] = none ∧ routerSelect 3 [1, 3] = none := by decide

/-! ## declared → advertised capability through the helpers (constants regenerated from the source) -/

theorem getLastD_cons (c : Bool) (cs : List Bool) (a b : Bool) : (c :: cs).getLast?.getD a = (c :: cs).getLast?.getD b := by
  cases h : (c :: cs).getLast? with
  | none => simp at h
  | some x => rfl

theorem applyCaps_last (d : Bool) (l : List Bool) : applyCaps d l = l.getLast?.getD d := by
  induction l generalizing d with
  | nil => rfl
  | cons c cs ih =>
    rw [applyCaps, ih]
    cases cs with
    | nil => rfl
    | cons c' cs' => rw [List.getLast?_cons_cons]; exact getLastD_cons _ _ _ _

/-- a processor built with the processor helper (either flavour) advertises its LAST own declaration, and **mutation when it
declares nothing** — so the fan-out in front of a pipeline with such a processor always gives that pipeline its own copy -/
theorem C06_helper_processor (decls : List Bool) :
    processorCapH Gen.FanoutShape.consumerDefaultMutates Gen.FanoutShape.processorHelperDefaults decls = decls.getLast?.getD true ∧
    processorCapH Gen.FanoutShape.consumerDefaultMutates Gen.FanoutShape.xprocessorHelperDefaults decls = decls.getLast?.getD true := by
  simp only [processorCapH, applyCaps_last, Gen.FanoutShape.processorHelperDefaults, Gen.FanoutShape.xprocessorHelperDefaults]
  cases decls with
  | nil => simp
  | cons c cs =>
    have : ([true] ++ c :: cs).getLast? = (c :: cs).getLast? := by simp [List.getLast?_cons_cons]
    simp only [this]
    exact ⟨getLastD_cons _ _ _ _, getLastD_cons _ _ _ _⟩

/-- an exporter built with the exporter helper that batches advertises mutation whatever it declared; otherwise its last own
declaration, non-mutating by default (`exporterCap`, the model the exporter differential has been using) -/
theorem C06_helper_exporter (decls : List Bool) (batching : Bool) :
    exporterCapH Gen.FanoutShape.consumerDefaultMutates Gen.FanoutShape.exporterBatchingDeclares decls true = true ∧
    exporterCapH Gen.FanoutShape.consumerDefaultMutates Gen.FanoutShape.exporterBatchingDeclares decls false = decls.getLast?.getD false ∧
    exporterCapH Gen.FanoutShape.consumerDefaultMutates Gen.FanoutShape.exporterBatchingDeclares decls batching =
      exporterCap decls.getLast? batching ∧
    Gen.FanoutShape.exporterBatchingCond = "be.batcherCfg.Enabled || be.queueCfg.Batch != nil" := by
  simp only [exporterCapH, applyCaps_last, Gen.FanoutShape.exporterBatchingDeclares, Gen.FanoutShape.consumerDefaultMutates, exporterCap]
  refine ⟨by simp [List.getLast?_append], by simp, ?_, by decide⟩
  cases batching <;> simp [List.getLast?_append]

example : processorCapH false [true] [] = true ∧ processorCapH false [true] [true, false] = false ∧
    exporterCapH false true [false] true = true ∧ exporterCapH false true [true, false] false = false := by decide

/-! ## order-independent summary (what the graph harness can observe whatever order the graph hands the consumers over in) -/

/-- the read-only flag every consumer sees at its call, for every behaviour of the consumers: a mutating consumer never sees a
read-only object; a non-mutating one sees read-only iff the input was, or several non-mutating consumers share it -/
theorem C06_seen_ro (caps : List Bool) (inputRO : Bool) (c0 : Nat) (syncW : Nat → Option Nat) :
    ∀ s ∈ (runFan caps inputRO c0 syncW).2, s.ro = seenRO caps inputRO s.consumer := by
  intro s hs
  simp only [runFan, List.mem_append] at hs
  rcases hs with hs | hs
  · have hro := phaseA_seen_ro syncW (lastGetsOrig caps inputRO) (mutableIdx caps) 0 { orig := c0, origRO := inputRO }
      (by intro h; simp only [lastGetsOrig, Bool.and_eq_true, Bool.not_eq_true'] at h; exact h.2) s hs
    have hc := callAll_consumers syncW _ _ s hs
    rw [mutDeliveries_consumers] at hc
    have := (mem_mutableIdx caps s.consumer).1 hc
    simp [seenRO, this, hro]
  · have hro := phaseB_seen_ro syncW (readonlyIdx caps) _ s hs
    have hc := callAll_consumers syncW _ _ s hs
    simp only [roDeliveries, List.map_map] at hc
    have hc' : s.consumer ∈ readonlyIdx caps := by simpa using hc
    have := (mem_readonlyIdx caps s.consumer).1 hc'
    have hm : (markRO (marksRO caps inputRO) (heapA caps inputRO c0 syncW).1).origRO =
        (inputRO || decide ((readonlyIdx caps).length > 1)) := marked_origRO caps inputRO c0 syncW
    rw [hro, hm]
    simp [seenRO, this]

/-- at most one mutating consumer is handed the original: exactly one when there is a mutating consumer, no non-mutating one
and the input is mutable; none otherwise -/
theorem C06_origMut (caps : List Bool) (inputRO : Bool) :
    origMut caps inputRO = if lastGetsOrig caps inputRO && !(mutableIdx caps).isEmpty then 1 else 0 :=
  mutDeliveries_origCount _ _ _

theorem idxWhere_length_perm (b : Bool) (a c : List Bool) (h : a.Perm c) (s t : Nat) :
    (idxWhere b a s).length = (idxWhere b c t).length := by
  have key : ∀ (l : List Bool) (s : Nat), (idxWhere b l s).length = l.count b := by
    intro l
    induction l with
    | nil => intro s; simp [idxWhere]
    | cons x xs ih =>
      intro s
      by_cases hx : x = b
      · subst hx; simp [idxWhere, ih]
      · have : (x == b) = false := by simpa using hx
        simp [idxWhere, hx, ih]
  rw [key, key, h.count_eq]

/-- the summary does not depend on the order of the consumers -/
theorem C06_summary_perm (a b : List Bool) (h : a.Perm b) (inputRO : Bool) :
    origMut a inputRO = origMut b inputRO ∧ (readonlyIdx a).length = (readonlyIdx b).length ∧
      (mutableIdx a).length = (mutableIdx b).length := by
  have hr := idxWhere_length_perm false a b h 0 0
  have hm := idxWhere_length_perm true a b h 0 0
  refine ⟨?_, hr, hm⟩
  rw [C06_origMut, C06_origMut]
  have e1 : (readonlyIdx a).isEmpty = (readonlyIdx b).isEmpty := by
    simp only [readonlyIdx] at hr ⊢
    cases h1 : idxWhere false a 0 <;> cases h2 : idxWhere false b 0 <;> simp_all
  have e2 : (mutableIdx a).isEmpty = (mutableIdx b).isEmpty := by
    simp only [mutableIdx] at hm ⊢
    cases h1 : idxWhere true a 0 <;> cases h2 : idxWhere true b 0 <;> simp_all
  simp only [lastGetsOrig, e1, e2]
  rfl

example : origMut [true, true] false = 1 ∧ origMut [true, false] false = 0 ∧ origMut [true, true] true = 0 ∧
    seenRO [false, false, true] false 0 = true ∧ seenRO [false, true] false 0 = false := by decide

end OtelVerif.C06
