import OtelVerif.Model.C06
/-! C06 property theorems (stub) -/
namespace OtelVerif.C06
end OtelVerif.C06
