import OtelVerif.Model.C07
import OtelVerif.Lemmas.C07
import OtelVerif.Lemmas.C07Map
import OtelVerif.Lemmas.C07Nest
import OtelVerif.Lemmas.C07NestOps
import OtelVerif.Model.C07Prim
import OtelVerif.Model.C07Msg
import OtelVerif.Gen.PdataCensus
import OtelVerif.Gen.PdataSlices
import OtelVerif.Lemmas.C07State
import OtelVerif.Lemmas.C07NestRaw
import OtelVerif.Lemmas.C07NestAll
/-!
# C07 — data-model copy, move, remove and read-only operations have value semantics

Theorems about the heap model of generated pointer slices (`Model/C07.lean`, repaired `CopyTo`):
for **every** program of public operations over any number of slices, starting from **any**
well-separated state (arbitrary contents, arbitrary garbage beyond `len`), what the readers show is
what plain lists with assignment semantics would show (`C07_refines`), distinct slices never share
an element (`C07_separation`), and the clauses of the property follow.
-/
namespace OtelVerif.C07

/-! ## small lemmas -/

theorem upd_same {β : Type} (f : Nat → β) (i : Nat) (v : β) : upd f i v i = v := by simp [upd]
theorem upd_other {β : Type} (f : Nat → β) (i j : Nat) (v : β) (h : j ≠ i) : upd f i v j = f j := by simp [upd, h]

theorem map_upd_of_not_mem (f : Nat → Nat) (x v : Nat) (l : List Nat) (h : x ∉ l) : l.map (upd f x v) = l.map f := by
  apply List.map_congr_left
  intro y hy
  exact upd_other f x y v (fun e => h (e ▸ hy))

theorem map_upd_nodup (f : Nat → Nat) (o v : Nat) (l : List Nat) (i : Nat) (hn : l.Nodup) (hi : l[i]? = some o) :
    l.map (upd f o v) = (l.map f).set i v := by
  induction l generalizing i with
  | nil => simp at hi
  | cons x xs ih =>
    have hx := (List.nodup_cons.mp hn)
    cases i with
    | zero =>
      simp at hi; subst hi
      simp [upd_same, map_upd_of_not_mem f x v xs hx.1]
    | succ j =>
      simp at hi
      have ho : o ∈ xs := List.mem_of_getElem? hi
      have : x ≠ o := fun e => hx.1 (e ▸ ho)
      simp [upd_other f o x v this, ih j hx.2 hi]

theorem assign_frame (objs : Nat → Nat) (ds xs : List Nat) (x : Nat) (h : x ∉ ds) : assign objs ds xs x = objs x := by
  induction ds generalizing objs xs with
  | nil => simp [assign]
  | cons d ds ih =>
    cases xs with
    | nil => simp [assign]
    | cons y ys =>
      simp only [assign]
      rw [ih _ _ (fun hm => h (List.mem_cons_of_mem _ hm))]
      exact upd_other _ _ _ _ (fun e => h (e ▸ List.mem_cons_self))

/-- element-wise copy into pairwise distinct destinations that are not sources = parallel assignment -/
theorem assign_map (objs : Nat → Nat) (ds xs : List Nat) (hn : ds.Nodup) (hd : ∀ d ∈ ds, d ∉ xs)
    (hl : ds.length = xs.length) : ds.map (assign objs ds xs) = xs.map objs := by
  induction ds generalizing objs xs with
  | nil => cases xs with
    | nil => rfl
    | cons _ _ => simp at hl
  | cons d ds ih =>
    cases xs with
    | nil => simp at hl
    | cons y ys =>
      have hnd := List.nodup_cons.mp hn
      have hdy : d ∉ y :: ys := hd d List.mem_cons_self
      simp only [assign, List.map_cons]
      rw [assign_frame _ _ _ _ hnd.1, upd_same]
      rw [ih (upd objs d (objs y)) ys hnd.2
        (fun e he hm => hd e (List.mem_cons_of_mem _ he) (List.mem_cons_of_mem _ hm)) (by simpa using hl)]
      rw [map_upd_of_not_mem _ _ _ _ (fun hm => hdy (List.mem_cons_of_mem _ hm))]

/-! ## separation invariant -/

/-- distinct live handles reach disjoint objects; nothing is assumed about the slots beyond `len` -/
structure Inv (s : St) : Prop where
  lt : ∀ a, ∀ o ∈ (s.hd a).live, o < s.next
  nodup : ∀ a, (s.hd a).live.Nodup
  disj : ∀ a b, a ≠ b → ∀ o ∈ (s.hd a).live, o ∉ (s.hd b).live

/-- copy and move are between distinct values -/
def WfOp : Op → Prop
  | .copyTo a b => a ≠ b
  | .moveAndAppendTo a b _ => a ≠ b
  | _ => True

instance (op : Op) : Decidable (WfOp op) := by cases op <;> simp only [WfOp] <;> infer_instance

theorem inv_init : Inv St.init := ⟨by simp [St.init], by simp [St.init], by simp [St.init]⟩

/-- one handle gets a new live list made of some of its old elements and fresh objects -/
theorem inv_update {s : St} (hi : Inv s) (a : Nat) (l : List Nat) (t : List (Option Nat)) (objs' : Nat → Nat)
    (next' : Nat) (ro' : Nat → Bool) (hnext : s.next ≤ next') (hnd : l.Nodup)
    (hmem : ∀ o ∈ l, (o ∈ (s.hd a).live ∨ s.next ≤ o) ∧ o < next') :
    Inv { objs := objs', next := next', hd := upd s.hd a ⟨l, t⟩, ro := ro' } := by
  refine ⟨?_, ?_, ?_⟩
  · intro c o ho
    by_cases hc : c = a
    · subst hc; simp only [upd_same] at ho; exact (hmem o ho).2
    · simp only [upd_other _ _ _ _ hc] at ho; exact Nat.lt_of_lt_of_le (hi.lt c o ho) hnext
  · intro c
    by_cases hc : c = a
    · subst hc; simpa only [upd_same] using hnd
    · simpa only [upd_other _ _ _ _ hc] using hi.nodup c
  · intro c d hcd o ho
    by_cases hc : c = a
    · subst hc
      have hd : d ≠ c := fun e => hcd e.symm
      simp only [upd_same] at ho
      simp only [upd_other _ _ _ _ hd]
      rcases (hmem o ho).1 with h | h
      · exact hi.disj c d hcd o h
      · intro hm; have := hi.lt d o hm; omega
    · simp only [upd_other _ _ _ _ hc] at ho
      by_cases hd : d = a
      · subst hd
        simp only [upd_same]
        intro hm
        rcases (hmem o hm).1 with h | h
        · exact hi.disj c d hcd o ho h
        · have := hi.lt c o ho; omega
      · simp only [upd_other _ _ _ _ hd]; exact hi.disj c d hcd o ho

theorem PSt.ext' (p q : PSt) (hv : p.val = q.val) (hr : p.ro = q.ro) : p = q := by
  cases p; cases q; simp_all

/-- contents after an update of one handle -/
theorem abs_update_val (s : St) (a : Nat) (h' : Hdr) (objs' : Nat → Nat) (next' : Nat) (v : List Nat)
    (ha : h'.live.map objs' = v)
    (hframe : ∀ c, c ≠ a → ∀ o ∈ (s.hd c).live, objs' o = s.objs o) :
    (abs { objs := objs', next := next', hd := upd s.hd a h', ro := s.ro }).val = upd (abs s).val a v := by
  funext c
  by_cases hc : c = a
  · subst hc; simp [abs, upd_same, ha]
  · simp only [abs, upd_other _ _ _ _ hc]
    exact List.map_congr_left (hframe c hc)

/-! ## each operation: invariant kept, readers show the pure result -/

theorem append_spec {s : St} (hi : Inv s) (a c : Nat) :
    Inv (appendEmpty s a c) ∧ (abs (appendEmpty s a c)).val = upd (abs s).val a ((abs s).val a ++ [0]) := by
  have hfresh : ∀ d, s.next ∉ (s.hd d).live := fun d hm => Nat.lt_irrefl _ (hi.lt d _ hm)
  constructor
  · apply inv_update hi a _ _ _ _ _ (Nat.le_succ _)
    · refine List.nodup_append.mpr ⟨hi.nodup a, by simp, ?_⟩
      intro x hx y hy; simp at hy; subst hy; intro e; subst e; exact hfresh a hx
    · intro o ho
      simp only [List.mem_append, List.mem_singleton] at ho
      rcases ho with h | h
      · exact ⟨Or.inl h, Nat.lt_succ_of_lt (hi.lt a o h)⟩
      · subst h; exact ⟨Or.inr (Nat.le_refl _), Nat.lt_succ_self _⟩
  · apply abs_update_val
    · simp only [List.map_append, List.map_cons, List.map_nil, upd_same, abs]
      rw [map_upd_of_not_mem _ _ _ _ (hfresh a)]
    · intro d _ o ho
      exact upd_other _ _ _ _ (fun e => hfresh d (e ▸ ho))

theorem removeIf_spec {s : St} (hi : Inv s) (a : Nat) (m : List Bool) :
    Inv (removeIf s a m) ∧ (abs (removeIf s a m)).val = upd (abs s).val a (keep ((abs s).val a) m) := by
  have hsub := keep_sublist (s.hd a).live m
  constructor
  · exact inv_update hi a _ _ _ _ _ (Nat.le_refl _) ((hi.nodup a).sublist hsub)
      (fun o ho => ⟨Or.inl (hsub.subset ho), hi.lt a o (hsub.subset ho)⟩)
  · apply abs_update_val
    · simp [abs, map_keep]
    · intros; rfl

theorem ensureCap_spec {s : St} (hi : Inv s) (a n : Nat) :
    Inv (ensureCap s a n) ∧ (abs (ensureCap s a n)).val = (abs s).val := by
  unfold ensureCap
  by_cases h : n ≤ (s.hd a).cap
  · simp [h, hi]
  · simp only [h, if_false]
    constructor
    · exact inv_update hi a _ _ _ _ _ (Nat.le_refl _) (hi.nodup a) (fun o ho => ⟨Or.inl ho, hi.lt a o ho⟩)
    · funext c
      by_cases hc : c = a
      · subst hc; simp [abs, upd_same]
      · simp [abs, upd_other _ _ _ _ hc]

def leNat : Nat → Nat → Bool := fun x y => decide (x ≤ y)

theorem sort_spec {s : St} (hi : Inv s) (a : Nat) :
    Inv (sortH s a) ∧ (abs (sortH s a)).val = upd (abs s).val a (((abs s).val a).mergeSort leNat) := by
  have hp := List.mergeSort_perm (s.hd a).live (fun x y => decide (s.objs x ≤ s.objs y))
  constructor
  · exact inv_update hi a _ _ _ _ _ (Nat.le_refl _) (hp.nodup_iff.mpr (hi.nodup a))
      (fun o ho => ⟨Or.inl (hp.mem_iff.mp ho), hi.lt a o (hp.mem_iff.mp ho)⟩)
  · apply abs_update_val
    · simp only [abs]
      exact List.map_mergeSort (fun _ _ _ _ => rfl)
    · intros; rfl

theorem set_spec {s : St} (hi : Inv s) (a i v o : Nat) (ho : (s.hd a).live[i]? = some o) :
    Inv { s with objs := upd s.objs o v } ∧
    (abs { s with objs := upd s.objs o v }).val = upd (abs s).val a (((abs s).val a).set i v) := by
  constructor
  · exact ⟨hi.lt, hi.nodup, hi.disj⟩
  · have hmem : o ∈ (s.hd a).live := List.mem_of_getElem? ho
    funext c
    by_cases hc : c = a
    · subst hc
      simp only [abs, upd_same]
      exact map_upd_nodup _ _ _ _ _ (hi.nodup c) ho
    · simp only [abs, upd_other _ _ _ _ hc]
      exact map_upd_of_not_mem _ _ _ _ (fun hm => hi.disj a c (fun e => hc e.symm) o hmem hm)

/-- the common core of both branches of the repaired `CopyTo`: the destination becomes some of its
own old elements followed by fresh ones, then the element-wise copy -/
theorem copy_core {s : St} (hi : Inv s) (a b : Nat) (hab : a ≠ b) (reused : List Nat) (k : Nat) (t : List (Option Nat))
    (hsub : reused.Sublist (s.hd b).live) (hlen : reused.length + k = (s.hd a).live.length) :
    let nl := reused ++ List.range' s.next k
    let s' : St := { objs := assign s.objs nl (s.hd a).live, next := s.next + k, hd := upd s.hd b ⟨nl, t⟩, ro := s.ro }
    Inv s' ∧ (abs s').val = upd (abs s).val b ((abs s).val a) := by
  intro nl s'
  have hr_lt : ∀ o ∈ reused, o < s.next := fun o ho => hi.lt b o (hsub.subset ho)
  have hf_ge : ∀ o ∈ List.range' s.next k, s.next ≤ o ∧ o < s.next + k := by
    intro o ho; simp [List.mem_range'_1] at ho; exact ho
  have hnd : nl.Nodup := by
    refine List.nodup_append.mpr ⟨(hi.nodup b).sublist hsub, List.nodup_range', ?_⟩
    intro x hx y hy e; subst e
    have := hr_lt x hx; have := (hf_ge x hy).1; omega
  have hmem : ∀ o ∈ nl, (o ∈ (s.hd b).live ∨ s.next ≤ o) ∧ o < s.next + k := by
    intro o ho
    rcases List.mem_append.mp ho with h | h
    · exact ⟨Or.inl (hsub.subset h), Nat.lt_of_lt_of_le (hr_lt o h) (Nat.le_add_right _ _)⟩
    · exact ⟨Or.inr (hf_ge o h).1, (hf_ge o h).2⟩
  have hnotsrc : ∀ d ∈ nl, d ∉ (s.hd a).live := by
    intro d hd hm
    rcases (hmem d hd).1 with h | h
    · exact hi.disj b a (fun e => hab e.symm) d h hm
    · have := hi.lt a d hm; omega
  constructor
  · exact inv_update hi b nl t _ _ _ (Nat.le_add_right _ _) hnd hmem
  · apply abs_update_val
    · simp only [abs]
      exact assign_map _ _ _ hnd hnotsrc (by simp [nl, hlen])
    · intro c hc o ho
      apply assign_frame
      intro hm
      rcases (hmem o hm).1 with h | h
      · exact hi.disj c b hc o ho h
      · have := hi.lt c o ho; omega

theorem copyTo_spec {s : St} (hi : Inv s) (a b : Nat) (hab : a ≠ b) :
    Inv (copyTo s a b) ∧ (abs (copyTo s a b)).val = upd (abs s).val b ((abs s).val a) := by
  unfold copyTo
  by_cases h : (s.hd a).live.length ≤ (s.hd b).cap
  · simp only [h, if_true]
    exact copy_core hi a b hab _ _ _ (List.take_sublist _ _) (by simp [List.length_take]; omega)
  · simp only [h, if_false]
    have := copy_core hi a b hab [] (s.hd a).live.length [] (List.nil_sublist _) (by simp)
    simpa using this

theorem moveAndAppendTo_live (s : St) (a b c : Nat) (hab : a ≠ b) :
    ((moveAndAppendTo s a b c).hd b).live = (s.hd b).live ++ (s.hd a).live ∧ ((moveAndAppendTo s a b c).hd a).live = [] ∧
    ∀ d, d ≠ a → d ≠ b → (moveAndAppendTo s a b c).hd d = s.hd d := by
  have hba : b ≠ a := fun e => hab e.symm
  refine ⟨?_, by simp [moveAndAppendTo, upd_same], fun d hda hdb => by simp [moveAndAppendTo, upd_other _ _ _ _ hda, upd_other _ _ _ _ hdb]⟩
  simp only [moveAndAppendTo, upd_other _ _ _ _ hba, upd_same]
  by_cases hn : (s.hd b).isNil = true
  · have : (s.hd b).live = [] := by
      simp only [Hdr.isNil, Bool.and_eq_true, List.isEmpty_iff] at hn; exact hn.1
    simp [hn, this]
  · simp only [hn]
    by_cases hl : (s.hd a).live.length ≤ (s.hd b).tail.length <;> simp [hl]

theorem moveAndAppendTo_spec {s : St} (hi : Inv s) (a b c : Nat) (hab : a ≠ b) :
    Inv (moveAndAppendTo s a b c) ∧
    (abs (moveAndAppendTo s a b c)).val = upd (upd (abs s).val b ((abs s).val b ++ (abs s).val a)) a [] := by
  obtain ⟨hb, ha, hother⟩ := moveAndAppendTo_live s a b c hab
  have hobjs : (moveAndAppendTo s a b c).objs = s.objs := rfl
  have hnext : (moveAndAppendTo s a b c).next = s.next := rfl
  have hba : b ≠ a := fun e => hab e.symm
  -- membership in a live list after the move
  have hlive : ∀ d o, o ∈ ((moveAndAppendTo s a b c).hd d).live →
      (d = b ∧ (o ∈ (s.hd b).live ∨ o ∈ (s.hd a).live)) ∨ (d ≠ a ∧ d ≠ b ∧ o ∈ (s.hd d).live) := by
    intro d o ho
    by_cases hda : d = a
    · subst hda; rw [ha] at ho; simp at ho
    · by_cases hdb : d = b
      · subst hdb; rw [hb] at ho; exact Or.inl ⟨rfl, List.mem_append.mp ho⟩
      · rw [hother d hda hdb] at ho; exact Or.inr ⟨hda, hdb, ho⟩
  constructor
  · refine ⟨?_, ?_, ?_⟩
    · intro d o ho
      rw [hnext]
      rcases hlive d o ho with ⟨_, h | h⟩ | ⟨_, _, h⟩
      · exact hi.lt b o h
      · exact hi.lt a o h
      · exact hi.lt d o h
    · intro d
      by_cases hda : d = a
      · subst hda; rw [ha]; exact List.nodup_nil
      · by_cases hdb : d = b
        · subst hdb; rw [hb]
          exact List.nodup_append.mpr ⟨hi.nodup d, hi.nodup a, fun x hx y hy e => hi.disj d a hda x hx (e ▸ hy)⟩
        · rw [hother d hda hdb]; exact hi.nodup d
    · intro d e hde o ho hm
      rcases hlive d o ho with ⟨rfl, h⟩ | ⟨hda, hdb, h⟩
      · rcases hlive e o hm with ⟨rfl, _⟩ | ⟨hea, heb, h'⟩
        · exact hde rfl
        · rcases h with h | h
          · exact hi.disj d e hde o h h'
          · exact hi.disj a e (fun x => hea x.symm) o h h'
      · rcases hlive e o hm with ⟨rfl, h'⟩ | ⟨_, _, h'⟩
        · rcases h' with h' | h'
          · exact hi.disj d e hde o h h'
          · exact hi.disj d a hda o h h'
        · exact hi.disj d e hde o h h'
  · funext d
    simp only [abs, hobjs]
    by_cases hda : d = a
    · subst hda; rw [ha]; simp [upd_same]
    · by_cases hdb : d = b
      · subst hdb; rw [hb]; simp [upd_other _ _ _ _ hda, upd_same]
      · rw [hother d hda hdb]; simp [upd_other _ _ _ _ hda, upd_other _ _ _ _ hdb]

/-! ## one step -/

theorem step_spec {s : St} (hi : Inv s) (op : Op) (hw : WfOp op) :
    Inv (step s op).1 ∧ abs (step s op).1 = (pstep (abs s) op).1 ∧ (step s op).2 = (pstep (abs s) op).2 := by
  have habs_ro : (abs s).ro = s.ro := rfl
  cases op with
  | append a c =>
    simp only [step, pstep, habs_ro]
    by_cases hr : s.ro a = true
    · simp [hr, hi]
    · simp only [hr, Bool.false_eq_true, ↓reduceIte]
      obtain ⟨h1, h2⟩ := append_spec hi a c
      exact ⟨h1, PSt.ext' _ _ h2 rfl, by first | rfl | trivial⟩
  | set a i v =>
    simp only [step, pstep, habs_ro]
    by_cases hr : s.ro a = true
    · simp [hr, hi]
    · simp only [hr, Bool.false_eq_true, ↓reduceIte]
      cases ho : (s.hd a).live[i]? with
      | none =>
        have : ¬ i < ((abs s).val a).length := by
          simp only [abs, List.length_map]; exact fun h => by simp at ho; omega
        simp [this, hi]
      | some o =>
        have : i < ((abs s).val a).length := by
          simp only [abs, List.length_map]; exact (List.getElem?_eq_some_iff.mp ho).1
        obtain ⟨h1, h2⟩ := set_spec hi a i v o ho
        simp only [this, if_true]
        exact ⟨h1, PSt.ext' _ _ h2 rfl, by first | rfl | trivial⟩
  | removeIf a m =>
    simp only [step, pstep, habs_ro]
    by_cases hr : s.ro a = true
    · simp [hr, hi]
    · simp only [hr, Bool.false_eq_true, ↓reduceIte]
      obtain ⟨h1, h2⟩ := removeIf_spec hi a m
      exact ⟨h1, PSt.ext' _ _ h2 rfl, by first | rfl | trivial⟩
  | ensureCap a n =>
    simp only [step, pstep, habs_ro]
    by_cases hr : s.ro a = true
    · simp [hr, hi]
    · simp only [hr, Bool.false_eq_true, ↓reduceIte]
      obtain ⟨h1, h2⟩ := ensureCap_spec hi a n
      refine ⟨h1, PSt.ext' _ _ h2 ?_, by first | rfl | trivial⟩
      unfold ensureCap; by_cases h : n ≤ (s.hd a).cap <;> simp [h, abs]
  | sort a =>
    simp only [step, pstep, habs_ro]
    by_cases hr : s.ro a = true
    · simp [hr, hi]
    · simp only [hr, Bool.false_eq_true, ↓reduceIte]
      obtain ⟨h1, h2⟩ := sort_spec hi a
      exact ⟨h1, PSt.ext' _ _ h2 rfl, by first | rfl | trivial⟩
  | copyTo a b =>
    simp only [step, pstep, habs_ro]
    by_cases hr : s.ro b = true
    · simp [hr, hi]
    · simp only [hr, Bool.false_eq_true, ↓reduceIte]
      obtain ⟨h1, h2⟩ := copyTo_spec hi a b hw
      refine ⟨h1, PSt.ext' _ _ h2 ?_, by first | rfl | trivial⟩
      unfold copyTo; by_cases h : (s.hd a).live.length ≤ (s.hd b).cap <;> simp [h, abs]
  | moveAndAppendTo a b c =>
    simp only [step, pstep, habs_ro]
    by_cases hr : (s.ro a || s.ro b) = true
    · simp [hr, hi]
    · simp only [hr, Bool.false_eq_true, ↓reduceIte]
      obtain ⟨h1, h2⟩ := moveAndAppendTo_spec hi a b c hw
      exact ⟨h1, PSt.ext' _ _ h2 rfl, by first | rfl | trivial⟩
  | markRO a =>
    simp only [step, pstep]
    refine ⟨⟨hi.lt, hi.nodup, hi.disj⟩, ?_, ?_⟩ <;> first | rfl | trivial

/-! ## the property theorems -/

/-- **separation / independence invariant**: from any well-separated state, every program of public
operations (copy and move between distinct values) leads to a state in which distinct slices share
no element — whatever garbage the backing arrays hold beyond `len` -/
theorem C07_separation (prog : List Op) (s : St) (hi : Inv s) (hw : ∀ op ∈ prog, WfOp op) : Inv (run s prog) := by
  induction prog generalizing s with
  | nil => exact hi
  | cons op ops ih =>
    exact ih _ (step_spec hi op (hw op List.mem_cons_self)).1 (fun o ho => hw o (List.mem_cons_of_mem _ ho))

/-- **refinement**: what the readers show after any program is what plain lists with assignment
semantics give -/
theorem C07_refines (prog : List Op) (s : St) (hi : Inv s) (hw : ∀ op ∈ prog, WfOp op) :
    abs (run s prog) = prun (abs s) prog := by
  induction prog generalizing s with
  | nil => rfl
  | cons op ops ih =>
    obtain ⟨h1, h2, _⟩ := step_spec hi op (hw op List.mem_cons_self)
    simp only [run, prun]
    rw [ih _ h1 (fun o ho => hw o (List.mem_cons_of_mem _ ho)), h2]

/-- … and after every step of it (every prefix), for every handle -/
theorem C07_refines_every_step (pre suf : List Op) (s : St) (hi : Inv s) (hw : ∀ op ∈ pre ++ suf, WfOp op) (a : Nat) :
    (abs (run s pre)).val a = (prun (abs s) pre).val a := by
  rw [C07_refines pre s hi (fun o ho => hw o (List.mem_append_left _ ho))]

/-- panics are exactly those of the specification (mutator on read-only data, index out of range) -/
theorem C07_step_panics (s : St) (hi : Inv s) (op : Op) (hw : WfOp op) : (step s op).2 = (pstep (abs s) op).2 :=
  (step_spec hi op hw).2.2

/-- copying makes the destination equal to the source, whatever the destination was (empty, shorter,
longer, previously filtered, pre-sized), and changes nothing else -/
theorem C07_copy_eq (s : St) (hi : Inv s) (a b : Nat) (hab : a ≠ b) (hro : s.ro b = false) :
    (abs (step s (.copyTo a b)).1).val b = (abs s).val a ∧
    ∀ c, c ≠ b → (abs (step s (.copyTo a b)).1).val c = (abs s).val c := by
  have h := (step_spec hi (.copyTo a b) hab).2.1
  rw [h]
  have : (abs s).ro b = false := hro
  simp only [pstep, this]
  exact ⟨upd_same _ _ _, fun c hc => upd_other _ _ _ _ hc⟩

/-- an operation changes only the values it targets: mutation of one value never changes another -/
theorem C07_independent (s : St) (hi : Inv s) (op : Op) (hw : WfOp op) (c : Nat) (hc : c ∉ targets op) :
    (abs (step s op).1).val c = (abs s).val c := by
  rw [(step_spec hi op hw).2.1]
  cases op with
  | append a n => simp only [targets, List.mem_singleton] at hc; simp only [pstep]; split <;> simp [upd_other _ _ _ _ hc]
  | set a i v =>
    simp only [targets, List.mem_singleton] at hc; simp only [pstep]
    split
    · rfl
    · split <;> simp [upd_other _ _ _ _ hc]
  | removeIf a m => simp only [targets, List.mem_singleton] at hc; simp only [pstep]; split <;> simp [upd_other _ _ _ _ hc]
  | ensureCap a n => simp only [pstep]; split <;> rfl
  | sort a => simp only [targets, List.mem_singleton] at hc; simp only [pstep]; split <;> simp [upd_other _ _ _ _ hc]
  | copyTo a b => simp only [targets, List.mem_singleton] at hc; simp only [pstep]; split <;> simp [upd_other _ _ _ _ hc]
  | moveAndAppendTo a b n =>
    simp only [targets, List.mem_cons, List.not_mem_nil, or_false, not_or] at hc
    simp only [pstep]; split <;> simp [upd_other _ _ _ _ hc.1, upd_other _ _ _ _ hc.2]
  | markRO a => rfl

/-- full independence after a copy (or at any time): a value is what it was as long as no later
operation of an arbitrary program targets it -/
theorem C07_frame_run (prog : List Op) (s : St) (hi : Inv s) (hw : ∀ op ∈ prog, WfOp op) (c : Nat)
    (hc : ∀ op ∈ prog, c ∉ targets op) : (abs (run s prog)).val c = (abs s).val c := by
  induction prog generalizing s with
  | nil => rfl
  | cons op ops ih =>
    have hwo := hw op List.mem_cons_self
    simp only [run]
    rw [ih _ (step_spec hi op hwo).1 (fun o ho => hw o (List.mem_cons_of_mem _ ho)) (fun o ho => hc o (List.mem_cons_of_mem _ ho))]
    exact C07_independent s hi op hwo c (hc op List.mem_cons_self)

/-- the copy stays equal to what its source was, whatever is later done to the source or to any
other value -/
theorem C07_copy_independent (s : St) (hi : Inv s) (a b : Nat) (hab : a ≠ b) (hro : s.ro b = false) (prog : List Op)
    (hw : ∀ op ∈ prog, WfOp op) (hc : ∀ op ∈ prog, b ∉ targets op) :
    (abs (run s (.copyTo a b :: prog))).val b = (abs s).val a := by
  simp only [run]
  rw [C07_frame_run prog _ (step_spec hi (.copyTo a b) hab).1 hw b hc]
  exact (C07_copy_eq s hi a b hab hro).1

theorem C07_move_empties_src (s : St) (hi : Inv s) (a b n : Nat) (hab : a ≠ b) (hra : s.ro a = false) (hrb : s.ro b = false) :
    (abs (step s (.moveAndAppendTo a b n)).1).val a = [] := by
  rw [(step_spec hi (.moveAndAppendTo a b n) hab).2.1]
  have h1 : (abs s).ro a = false := hra
  have h2 : (abs s).ro b = false := hrb
  simp [pstep, h1, h2, upd_same]

theorem C07_move_append (s : St) (hi : Inv s) (a b n : Nat) (hab : a ≠ b) (hra : s.ro a = false) (hrb : s.ro b = false) :
    (abs (step s (.moveAndAppendTo a b n)).1).val b = (abs s).val b ++ (abs s).val a := by
  rw [(step_spec hi (.moveAndAppendTo a b n) hab).2.1]
  have h1 : (abs s).ro a = false := hra
  have h2 : (abs s).ro b = false := hrb
  simp [pstep, h1, h2, upd_same, upd_other _ _ _ _ (fun e => hab e.symm : b ≠ a)]

/-- remove-if keeps exactly the elements for which the predicate answered false, in order -/
theorem C07_remove_if_filter (s : St) (hi : Inv s) (a : Nat) (hro : s.ro a = false) (p : Nat → Bool) :
    (abs (step s (.removeIf a (((abs s).val a).map p))).1).val a = ((abs s).val a).filter (fun x => !p x) := by
  rw [(step_spec hi (.removeIf a (((abs s).val a).map p)) trivial).2.1]
  have h1 : (abs s).ro a = false := hro
  simp [pstep, h1, upd_same, keep_map_pred]

theorem C07_remove_if_mask (s : St) (hi : Inv s) (a : Nat) (hro : s.ro a = false) (m : List Bool) :
    (abs (step s (.removeIf a m)).1).val a = keep ((abs s).val a) m := by
  rw [(step_spec hi (.removeIf a m) trivial).2.1]
  have h1 : (abs s).ro a = false := hro
  simp [pstep, h1, upd_same]

/-- sorting permutes without loss and orders -/
theorem C07_sort_perm (s : St) (hi : Inv s) (a : Nat) (hro : s.ro a = false) :
    ((abs (step s (.sort a)).1).val a).Perm ((abs s).val a) ∧
    ((abs (step s (.sort a)).1).val a).Pairwise (· ≤ ·) := by
  rw [(step_spec hi (.sort a) trivial).2.1]
  have h1 : (abs s).ro a = false := hro
  simp only [pstep, h1, Bool.false_eq_true, ↓reduceIte, upd_same]
  refine ⟨List.mergeSort_perm _ _, ?_⟩
  have := List.pairwise_mergeSort (le := fun x y : Nat => decide (x ≤ y))
    (fun a b c hab hbc => by simp at *; omega) (fun a b => by simp; omega) ((abs s).val a)
  simpa using this

/-- read-only: every mutator targeting a read-only value panics and changes nothing at all
(so every reader of every value agrees with before) -/
theorem C07_readonly (s : St) (op : Op) (a : Nat) (hro : s.ro a = true) (ha : a ∈ targets op) : step s op = (s, true) := by
  cases op with
  | append b n => simp only [targets, List.mem_singleton] at ha; subst ha; simp [step, hro]
  | set b i v => simp only [targets, List.mem_singleton] at ha; subst ha; simp [step, hro]
  | removeIf b m => simp only [targets, List.mem_singleton] at ha; subst ha; simp [step, hro]
  | ensureCap b n => simp only [targets, List.mem_singleton] at ha; subst ha; simp [step, hro]
  | sort b => simp only [targets, List.mem_singleton] at ha; subst ha; simp [step, hro]
  | copyTo b c => simp only [targets, List.mem_singleton] at ha; subst ha; simp [step, hro]
  | moveAndAppendTo b c n =>
    simp only [targets, List.mem_cons, List.not_mem_nil, or_false] at ha
    rcases ha with rfl | rfl <;> simp [step, hro]
  | markRO b => simp [targets] at ha

theorem C07_markRO (s : St) (a : Nat) : (step s (.markRO a)).1.ro a = true ∧ abs (step s (.markRO a)).1 = { abs s with ro := upd s.ro a true } :=
  ⟨by simp [step, upd_same], rfl⟩

theorem ro_mono (s : St) (op : Op) (a : Nat) (hro : s.ro a = true) : (step s op).1.ro a = true := by
  cases op <;> simp only [step] <;> (try split) <;> (try split) <;>
    simp_all [appendEmpty, removeIf, ensureCap, sortH, copyTo, moveAndAppendTo, upd] <;> (try split) <;> simp_all

/-- once read-only, always read-only, and frozen: no program whatsoever changes the value again,
while every reader keeps working (`abs` is total) -/
theorem C07_readonly_frozen (prog : List Op) (s : St) (hi : Inv s) (hw : ∀ op ∈ prog, WfOp op) (a : Nat) (hro : s.ro a = true) :
    (run s prog).ro a = true ∧ (abs (run s prog)).val a = (abs s).val a := by
  induction prog generalizing s with
  | nil => exact ⟨hro, rfl⟩
  | cons op ops ih =>
    have hwo := hw op List.mem_cons_self
    have := ih _ (step_spec hi op hwo).1 (fun o ho => hw o (List.mem_cons_of_mem _ ho)) (ro_mono s op a hro)
    simp only [run]
    refine ⟨this.1, ?_⟩
    rw [this.2]
    by_cases ha : a ∈ targets op
    · rw [C07_readonly s op a hro ha]
    · exact C07_independent s hi op hwo a ha

/-- soundness of the search oracle the driver evaluates on the implementation's observations -/
theorem C07_check_sound (H : Nat) (before : PSt) (op : Op) (after : Nat → List Nat) (p : Bool)
    (h : obsStep H before op after p = true) :
    (pstep before op).2 = p ∧ ∀ a, a < H → (pstep before op).1.val a = after a := by
  simp only [obsStep, eqUpTo, Bool.and_eq_true, beq_iff_eq, List.all_eq_true, List.mem_range] at h
  exact ⟨h.1, fun a ha => h.2 a ha⟩

/-- The property for the modelled family, in one statement.  **Partial** with respect to the property
as stated ("every slice, map, value and struct type"): proved for generated pointer slices whose
elements carry scalar fields (here) and for `pcommon.Map` with empty / scalar / bytes values
(`C07_map_*` below); nested elements and nested maps/arrays (deep copy by recursion through the
heap), `pcommon.Slice`, generated value slices, primitive slices and message structs with optional /
one-of fields have no Lean model and are checked on the real code by reference-model oracles only
(harnesses `tree`, `metric`, `witness`). -/
theorem C07_value_semantics_partial (prog : List Op) (s : St) (hi : Inv s) (hw : ∀ op ∈ prog, WfOp op) :
    Inv (run s prog) ∧ abs (run s prog) = prun (abs s) prog ∧
    (∀ c, (∀ op ∈ prog, c ∉ targets op) → (abs (run s prog)).val c = (abs s).val c) ∧
    (∀ a, s.ro a = true → (run s prog).ro a = true ∧ (abs (run s prog)).val a = (abs s).val a) :=
  ⟨C07_separation prog s hi hw, C07_refines prog s hi hw, fun c hc => C07_frame_run prog s hi hw c hc,
   fun a hro => C07_readonly_frozen prog s hi hw a hro⟩

/-! ## part B: `pcommon.Map` with one-of wrappers (`Model/C07Map.lean`, repaired `Map.CopyTo`)

Same statements for the heap model of attribute maps whose values are empty, scalar or bytes:
`M.Inv` = the bytes wrappers reachable from live slots are pairwise distinct within and across maps
(nothing is assumed of the slots beyond `len`, which alias live wrappers after `Remove`/`RemoveIf`). -/

theorem C07_map_separation (prog : List M.Op) (s : M.St) (hi : M.Inv s) (hw : ∀ op ∈ prog, M.WfOp op) : M.Inv (M.run s prog) := by
  induction prog generalizing s with
  | nil => exact hi
  | cons op ops ih =>
    exact ih _ (M.step_spec hi op (hw op List.mem_cons_self)).1 (fun o ho => hw o (List.mem_cons_of_mem _ ho))

/-- what `Range`/`Get` show after any program of Put*/Remove/RemoveIf/EnsureCapacity/Clear/CopyTo/MoveTo/
bytes edits/MarkReadOnly is what association lists with assignment semantics give -/
theorem C07_map_refines (prog : List M.Op) (s : M.St) (hi : M.Inv s) (hw : ∀ op ∈ prog, M.WfOp op) :
    M.abs (M.run s prog) = M.prun (M.abs s) prog := by
  induction prog generalizing s with
  | nil => rfl
  | cons op ops ih =>
    obtain ⟨h1, h2, _⟩ := M.step_spec hi op (hw op List.mem_cons_self)
    simp only [M.run, M.prun]
    rw [ih _ h1 (fun o ho => hw o (List.mem_cons_of_mem _ ho)), h2]

theorem C07_map_step_panics (s : M.St) (hi : M.Inv s) (op : M.Op) (hw : M.WfOp op) : (M.step s op).2 = (M.pstep (M.abs s) op).2 :=
  (M.step_spec hi op hw).2.2

theorem C07_map_copy_eq (s : M.St) (hi : M.Inv s) (a b : Nat) (hab : a ≠ b) (hro : s.ro b = false) :
    (M.abs (M.step s (.copyTo a b)).1).val b = (M.abs s).val a ∧
    ∀ c, c ≠ b → (M.abs (M.step s (.copyTo a b)).1).val c = (M.abs s).val c := by
  have h := (M.step_spec hi (.copyTo a b) hab).2.1
  rw [h]
  have : (M.abs s).ro b = false := hro
  simp only [M.pstep, this]
  exact ⟨M.upd_same _ _ _, fun c hc => M.upd_other _ _ _ _ hc⟩

theorem C07_map_independent (s : M.St) (hi : M.Inv s) (op : M.Op) (hw : M.WfOp op) (c : Nat) (hc : c ∉ M.targets op) :
    (M.abs (M.step s op).1).val c = (M.abs s).val c := by
  rw [(M.step_spec hi op hw).2.1]
  cases op <;> simp only [M.targets, List.mem_cons, List.not_mem_nil, or_false, not_or] at hc <;>
    simp only [M.pstep] <;> (repeat' split) <;> first
      | rfl
      | simp [M.upd_other _ _ _ _ hc]
      | simp [M.upd_other _ _ _ _ hc.1, M.upd_other _ _ _ _ hc.2]

theorem C07_map_frame_run (prog : List M.Op) (s : M.St) (hi : M.Inv s) (hw : ∀ op ∈ prog, M.WfOp op) (c : Nat)
    (hc : ∀ op ∈ prog, c ∉ M.targets op) : (M.abs (M.run s prog)).val c = (M.abs s).val c := by
  induction prog generalizing s with
  | nil => rfl
  | cons op ops ih =>
    have hwo := hw op List.mem_cons_self
    simp only [M.run]
    rw [ih _ (M.step_spec hi op hwo).1 (fun o ho => hw o (List.mem_cons_of_mem _ ho)) (fun o ho => hc o (List.mem_cons_of_mem _ ho))]
    exact C07_map_independent s hi op hwo c (hc op List.mem_cons_self)

/-- a copied map stays equal to what its source was under any later program that does not target it:
editing a bytes value of the source in place, overwriting a scalar with the same scalar type,
removing, copying the source elsewhere … -/
theorem C07_map_copy_independent (s : M.St) (hi : M.Inv s) (a b : Nat) (hab : a ≠ b) (hro : s.ro b = false) (prog : List M.Op)
    (hw : ∀ op ∈ prog, M.WfOp op) (hc : ∀ op ∈ prog, b ∉ M.targets op) :
    (M.abs (M.run s (.copyTo a b :: prog))).val b = (M.abs s).val a := by
  simp only [M.run]
  rw [C07_map_frame_run prog _ (M.step_spec hi (.copyTo a b) hab).1 hw b hc]
  exact (C07_map_copy_eq s hi a b hab hro).1

theorem C07_map_move (s : M.St) (hi : M.Inv s) (a b : Nat) (hab : a ≠ b) (hra : s.ro a = false) (hrb : s.ro b = false) :
    (M.abs (M.step s (.moveTo a b)).1).val b = (M.abs s).val a ∧ (M.abs (M.step s (.moveTo a b)).1).val a = [] := by
  rw [(M.step_spec hi (.moveTo a b) hab).2.1]
  have h1 : (M.abs s).ro a = false := hra
  have h2 : (M.abs s).ro b = false := hrb
  simp [M.pstep, h1, h2, M.upd_same, M.upd_other _ _ _ _ (fun e => hab e.symm : b ≠ a)]

theorem C07_map_remove_if (s : M.St) (hi : M.Inv s) (a : Nat) (hro : s.ro a = false) (m : List Bool) :
    (M.abs (M.step s (.removeIf a m)).1).val a = keep ((M.abs s).val a) m := by
  rw [(M.step_spec hi (.removeIf a m) trivial).2.1]
  have h1 : (M.abs s).ro a = false := hro
  simp [M.pstep, h1, M.upd_same]

theorem C07_map_readonly (s : M.St) (op : M.Op) (a : Nat) (hro : s.ro a = true) (ha : a ∈ M.targets op) : M.step s op = (s, true) := by
  cases op <;> simp only [M.targets, List.mem_cons, List.not_mem_nil, or_false] at ha <;>
    first
      | (subst ha; simp [M.step, hro])
      | (rcases ha with rfl | rfl <;> simp [M.step, hro])
      | exact absurd ha (by simp)

theorem C07_map_check_sound (H : Nat) (before : M.PSt) (op : M.Op) (after : Nat → List M.Entry) (p : Bool)
    (h : M.obsStep H before op after p = true) :
    (M.pstep before op).2 = p ∧ ∀ a, a < H → (M.pstep before op).1.val a = after a := by
  simp only [M.obsStep, M.eqUpTo, Bool.and_eq_true, beq_iff_eq, List.all_eq_true, List.mem_range] at h
  exact ⟨h.1, fun a ha => h.2 a ha⟩

/-- non-vacuity: `Remove` leaves a stale slot beyond `len` that aliases a live bytes wrapper; the
repaired copy of a longer map into it is equal to its source and independent of it -/
def mapWitness : M.St :=
  M.run M.St.init [.putBytes 1 1 [1] 0, .putScalar 1 2 0 5 0, .putBytes 1 3 [3] 0, .remove 1 1,
    .putBytes 0 4 [4] 0, .putScalar 0 5 0 6 0, .putBytes 0 6 [6] 0]

example : (mapWitness.hd 1).live = [⟨3, .bytes 1⟩, ⟨2, .scalar 0 5⟩] ∧ (mapWitness.hd 1).tail = [⟨3, .bytes 1⟩] := by decide
example : M.Inv mapWitness := C07_map_separation _ _ M.inv_init (by decide)
example : (M.abs (M.run mapWitness [.copyTo 0 1, .bytesAppend 1 4 9, .bytesAppend 0 6 7])).val 1
    = [(4, .bytes [4, 9]), (5, .scalar 0 6), (6, .bytes [6])] := by decide

/-! ## part C: nested `pcommon.Value` / `Map` / `Slice` (`Model/C07Nest.lean`): deep copy at every depth

Values hold scalars, bytes wrappers and kvlist / array wrappers whose slots hold values again;
`pcommon.Slice` is a value slice (struct copies in `RemoveIf` leave aliasing slots beyond `len`).
`N.Pre d h sv dv`: the source is nested at most `d` deep, the destination's footprint (the wrappers
reachable from it through live slots) is duplicate-free and disjoint from the source's; nothing is
assumed of the slots beyond `len` at any level, nor of the destination's shape, kinds or capacities. -/

/-- **deep copy, any depth, any destination**: afterwards the destination shows exactly what the
source shows (`abs_eq`); only wrappers of the destination's own old footprint and newly allocated
ones were written (`frame`), so the source and every other value are untouched; the result's
footprint is duplicate-free and consists of the destination's old footprint and new wrappers only
(`foot`, `nodup`): it shares nothing with the source or with any other value — full independence -/
theorem C07_nest_copy_deep (d : Nat) (h : N.Heap) (sv dv : N.V) (pre : N.Pre d h sv dv) :
    N.Post d h sv dv (N.copyVal d h sv dv) := N.copyVal_spec d h sv dv pre

/-- the same for `Map.CopyTo` / `Slice.CopyTo` between two containers (headers), children nested ≤ `d` deep -/
theorem C07_nest_copy_container (d : Nat) (h : N.Heap) (src dst : N.Hdr)
    (hfit : ∀ kv ∈ src.live, N.fits d h kv.val) (hslt : ∀ i ∈ N.reachL d h src.live, i < h.next)
    (hdlt : ∀ i ∈ N.reachL d h dst.live, i < h.next) (hdnd : (N.reachL d h dst.live).Nodup)
    (hdis : ∀ i ∈ N.reachL d h src.live, i ∉ N.reachL d h dst.live) :
    N.HdrPost d h src.live dst.live (N.copyHdrWith (N.copyVal d) h src dst) :=
  N.copyHdrWith_spec d (N.copyVal d) (N.copyVal_spec d) h src dst hfit hslt hdlt hdnd hdis

/-- a value untouched by the copy (footprint allocated before and disjoint from the destination's)
reads the same afterwards: the source itself, and every other value -/
theorem C07_nest_copy_frame (d : Nat) (h : N.Heap) (sv dv x : N.V) (pre : N.Pre d h sv dv)
    (hlt : ∀ i ∈ N.reachV d h x, i < h.next) (hdis : ∀ i ∈ N.reachV d h x, i ∉ N.reachV d h dv) :
    N.absV d (N.copyVal d h sv dv).1 x = N.absV d h x ∧ N.reachV d (N.copyVal d h sv dv).1 x = N.reachV d h x := by
  have post := N.copyVal_spec d h sv dv pre
  have ag : N.Agree h (N.copyVal d h sv dv).1 (N.reachV d h x) := fun i hi => post.frame i (hlt i hi) (hdis i hi)
  exact ⟨N.abs_congr d _ _ _ ag, N.reach_congr d _ _ _ ag⟩

/-- root-level programs stay well-formed along the run -/
def WfRootProg : N.St → List N.Op → Prop
  | _, [] => True
  | s, op :: ops => N.WfRootOp s op ∧ WfRootProg (N.step s op).1 ops

/-- forest invariant over the named roots, for every program of whole-value operations (set, deep
copy between distinct roots, move, in-place bytes edit, mark-read-only) from any well-separated state
with arbitrarily nested contents -/
theorem C07_nest_separation (prog : List N.Op) (s : N.St) (hi : N.Inv s) (hw : WfRootProg s prog) : N.Inv (N.run s prog) := by
  induction prog generalizing s with
  | nil => exact hi
  | cons op ops ih => exact ih _ (N.step_root_spec hi op hw.1).1 hw.2

theorem C07_nest_refines (prog : List N.Op) (s : N.St) (hi : N.Inv s) (hw : WfRootProg s prog) :
    N.abs (N.run s prog) = N.prun (N.abs s) prog := by
  induction prog generalizing s with
  | nil => rfl
  | cons op ops ih =>
    obtain ⟨h1, h2, _⟩ := N.step_root_spec hi op hw.1
    simp only [N.run, N.prun]
    rw [ih _ h1 hw.2, h2]

theorem C07_nest_copy_eq (s : N.St) (hi : N.Inv s) (a b : Nat) (hab : a ≠ b) (hro : s.ro b = false) :
    N.absRoot (N.step s (.copyVal a (.root a) b (.root b))).1 b = N.absRoot s a ∧
    ∀ c, c ≠ b → N.absRoot (N.step s (.copyVal a (.root a) b (.root b))).1 c = N.absRoot s c := by
  have h := (N.step_root_spec hi (.copyVal a (.root a) b (.root b)) ⟨rfl, rfl, hab⟩).2.1
  have hv : (N.abs (N.step s (.copyVal a (.root a) b (.root b))).1).val = ((N.pstep (N.abs s) (.copyVal a (.root a) b (.root b))).1).val := by rw [h]
  have hb : (N.abs s).ro b = false := hro
  simp only [N.pstep, hb, Bool.false_eq_true, ↓reduceIte] at hv
  constructor
  · have := congrFun hv b; simpa [N.abs, N.upd_same] using this
  · intro c hc; have := congrFun hv c; simpa [N.abs, N.upd_other _ _ _ _ hc] using this

/-- read-only, for EVERY operation of the nested model (also those addressing nested containers):
if the payload whose flag the call checks is read-only the call panics and nothing changes -/
def nestChecked : N.Op → List Nat
  | .setRoot r _ | .setSlot r .. | .bytesAppend r .. | .remove r .. | .removeIf r .. | .ensureCap r .. | .clear r _ => [r]
  | .copyVal _ _ rd _ => [rd]
  | .copyList _ _ rd _ => [rd]
  | .moveAppend rs _ rd _ _ => [rs, rd]
  | .moveRoot a b => [a, b]
  | .markRO _ => []

theorem C07_nest_readonly (s : N.St) (op : N.Op) (r : Nat) (hro : s.ro r = true) (hr : r ∈ nestChecked op) : N.step s op = (s, true) := by
  cases op <;> simp only [nestChecked, List.mem_cons, List.not_mem_nil, or_false] at hr <;>
    first
      | (subst hr; simp [N.step, hro])
      | (rcases hr with rfl | rfl <;> simp [N.step, hro])
      | exact absurd hr (by simp)

/-! ### all operations, also on NESTED targets ("local update", `Lemmas/C07NestLU.lean`, `Lemmas/C07NestOps.lean`)

`N.WfOp s op`: the targeted container / position belongs to the forest below the named root
(`ownsList`), copies are between distinct values (disjoint footprints, the destination slot's container
is not inside the source).  `N.lift`: replacing the header of a container nested ANYWHERE below a value
under the header contract re-establishes the replacement contract of the whole value. -/

/-- programs of all operations stay well-formed along the run -/
def WfNestProg : N.St → List N.Op → Prop
  | _, [] => True
  | s, op :: ops => N.WfOp s op ∧ WfNestProg (N.step s op).1 ops

instance wfNestProgDec : ∀ (s : N.St) (prog : List N.Op), Decidable (WfNestProg s prog)
  | _, [] => isTrue trivial
  | s, op :: ops =>
    have := wfNestProgDec (N.step s op).1 ops
    inferInstanceAs (Decidable (N.WfOp s op ∧ WfNestProg (N.step s op).1 ops))

/-- one step of ANY operation — `Set*`/`Put*`/`AppendEmpty`, in-place bytes edit, `Remove`, `RemoveIf`,
`EnsureCapacity`, `Clear` on a container at any depth, `Value.CopyTo` between any two positions (roots or
nested slots), `Map.CopyTo`/`Slice.CopyTo` between any two containers, `Value.MoveTo`, read-only —
keeps the forest invariant, and every root the operation does not target reads exactly as before -/
theorem C07_nest_step_all (s : N.St) (hi : N.Inv s) (op : N.Op) (hw : N.WfOp s op) :
    N.Inv (N.step s op).1 ∧ ∀ c, c ∉ N.touched op → N.absRoot (N.step s op).1 c = N.absRoot s c :=
  N.step_all_spec hi op hw

/-- separation for all programs of all operations, from any forest state with arbitrarily nested contents -/
theorem C07_nest_separation_all (prog : List N.Op) (s : N.St) (hi : N.Inv s) (hw : WfNestProg s prog) : N.Inv (N.run s prog) := by
  induction prog generalizing s with
  | nil => exact hi
  | cons op ops ih => exact ih _ (N.step_all_spec hi op hw.1).1 hw.2

/-- independence for all programs: a root value that no operation of the program targets reads the same
after it — whatever is done to any other value, at any depth -/
theorem C07_nest_frame_all (prog : List N.Op) (s : N.St) (hi : N.Inv s) (hw : WfNestProg s prog) (c : Nat)
    (hc : ∀ op ∈ prog, c ∉ N.touched op) : N.absRoot (N.run s prog) c = N.absRoot s c := by
  induction prog generalizing s with
  | nil => rfl
  | cons op ops ih =>
    obtain ⟨h1, h2⟩ := N.step_all_spec hi op hw.1
    simp only [N.run]
    rw [ih _ h1 hw.2 (fun o ho => hc o (List.mem_cons_of_mem _ ho))]
    exact h2 c (hc op List.mem_cons_self)

/-- `Value.CopyTo` into a NESTED slot (a map entry / slice element at any depth) from any position:
the slot then reads exactly as the source read before -/
theorem C07_nest_copy_eq_nested (s : N.St) (hi : N.Inv s) (rs : Nat) (src : N.Loc) (rd o i : Nat)
    (hw : N.WfOp s (.copyVal rs src rd (.slot o i))) (hro : s.ro rd = false) (sv : N.V) (hrs : N.readLoc s src = some sv)
    (hin : i < (s.h.wl o).live.length) :
    ∃ v', N.readLoc (N.step s (.copyVal rs src rd (.slot o i))).1 (.slot o i) = some v' ∧
      N.absV (N.step s (.copyVal rs src rd (.slot o i))).1.dep (N.step s (.copyVal rs src rd (.slot o i))).1.h v' = N.absV s.dep s.h sv :=
  N.copy_slot_abs hi rs src rd o i hw hro sv hrs hin

/-- `Slice.MoveAndAppendTo`: the destination gets its old elements followed by the source's; the source
keeps neither elements nor a backing array (header `{}`, capacity 0), every other wrapper is untouched —
so refilling the emptied source can never write into the array the destination now owns (the class
of the seeded `[:0]` defect) -/
theorem C07_nest_move_append (s : N.St) (rs o1 rd o2 c : Nat) (hro : (s.ro rs || s.ro rd) = false) (h12 : o1 ≠ o2) :
    ((N.step s (.moveAppend rs o1 rd o2 c)).1.h.wl o2).live = (s.h.wl o2).live ++ (s.h.wl o1).live ∧
    (N.step s (.moveAppend rs o1 rd o2 c)).1.h.wl o1 = {} ∧ ((N.step s (.moveAppend rs o1 rd o2 c)).1.h.wl o1).cap = 0 ∧
    (∀ x, x ≠ o1 → x ≠ o2 → (N.step s (.moveAppend rs o1 rd o2 c)).1.h.wl x = s.h.wl x) ∧
    (N.step s (.moveAppend rs o1 rd o2 c)).1.h.wb = s.h.wb :=
  N.move_append_hdr s rs o1 rd o2 c hro h12

/-! ### result of the non-copy operations on a NESTED target: the header is the pure list operation, the kept children read the same -/

/-- `RemoveIf` on a container at any depth keeps exactly the unselected entries, in order, and each of them reads as before -/
theorem C07_nest_remove_if_result (s : N.St) (hi : N.Inv s) (r o : Nat) (m : List Bool)
    (ho : N.ownsList s.dep s.h (s.root r) o) (hro : s.ro r = false) :
    ((N.step s (.removeIf r o m)).1.h.wl o).live = keep (s.h.wl o).live m ∧
    ∀ kv ∈ (s.h.wl o).live, N.absV (N.step s (.removeIf r o m)).1.dep (N.step s (.removeIf r o m)).1.h kv.val = N.absV s.dep s.h kv.val := by
  simp only [N.step, hro, Bool.false_eq_true, ↓reduceIte, N.upd_same, N.removeIfH, true_and]
  exact N.kept_children_same hi r o ho _ (fun x hx _ => ⟨rfl, N.upd_other _ _ _ _ hx⟩)

/-- `Map.Remove` on a map at any depth: the entry is replaced by the last one and the last slot dropped (`premove` shape), every entry reads as before -/
theorem C07_nest_remove_result (s : N.St) (hi : N.Inv s) (r o k : Nat)
    (ho : N.ownsList s.dep s.h (s.root r) o) (hro : s.ro r = false) :
    (N.step s (.remove r o k)).1.h.wl o = N.removeKey (s.h.wl o) k ∧
    ∀ kv ∈ (s.h.wl o).live, N.absV (N.step s (.remove r o k)).1.dep (N.step s (.remove r o k)).1.h kv.val = N.absV s.dep s.h kv.val := by
  simp only [N.step, hro, Bool.false_eq_true, ↓reduceIte, N.upd_same, true_and]
  exact N.kept_children_same hi r o ho _ (fun x hx _ => ⟨rfl, N.upd_other _ _ _ _ hx⟩)

/-- `Put*` / `Set*` / `AppendEmpty` on a container at any depth: the header is `place` of the new value, every old entry reads as before -/
theorem C07_nest_set_slot_result (s : N.St) (hi : N.Inv s) (r o : Nat) (sel : N.Sel) (x : N.NewV) (c : Nat) (hd : N.Hdr)
    (ho : N.ownsList s.dep s.h (s.root r) o) (hro : s.ro r = false)
    (hp : N.place ((N.mkNew s.h x).1.wl o) sel (N.mkNew s.h x).2 c = some hd) :
    (N.step s (.setSlot r o sel x c)).1.h.wl o = hd ∧
    ∀ kv ∈ (s.h.wl o).live, N.absV (N.step s (.setSlot r o sel x c)).1.dep (N.step s (.setSlot r o sel x c)).1.h kv.val = N.absV s.dep s.h kv.val := by
  obtain ⟨d0, hd0⟩ : ∃ d, s.dep = d + 1 := ⟨s.dep - 1, by have := hi.pos; omega⟩
  simp only [N.step, hro, Bool.false_eq_true, ↓reduceIte, hp, N.upd_same, true_and]
  exact N.kept_children_same hi r o ho _ (fun y hy hlt => by
    obtain ⟨a, b⟩ := (N.mkNew_spec s.h x d0).2.1 y hlt
    exact ⟨a, by simp only [N.upd_other _ _ _ _ hy]; exact b⟩)

/-- non-vacuity: a reachable nested state whose map has a stale slot beyond `len` aliasing a live nested
map; the deep copy of a longer map into it is equal to its source and the two are independent -/
def nestWitness : N.St :=
  N.run N.St.init [.setRoot 1 (.list true), .setSlot 1 0 (.key 1) (.list true) 0, .setSlot 1 1 (.key 1) (.bytes [1]) 0,
    .setSlot 1 0 (.key 2) (.scalar 0 5) 0, .setSlot 1 0 (.key 3) (.list true) 0, .setSlot 1 3 (.key 1) (.bytes [3]) 0,
    .remove 1 0 1,
    .setRoot 0 (.list true), .setSlot 0 5 (.key 4) (.list true) 0, .setSlot 0 6 (.key 1) (.bytes [4]) 0,
    .setSlot 0 5 (.key 5) (.scalar 0 6) 0, .setSlot 0 5 (.key 6) (.list true) 0, .setSlot 0 8 (.key 1) (.bytes [6]) 0]

example : (nestWitness.h.wl 0).live = [⟨3, .list true 3⟩, ⟨2, .scalar 0 5⟩] ∧ (nestWitness.h.wl 0).tail = [⟨3, .list true 3⟩] := by decide
/-- the witness state satisfies the forest invariant (it is reached by a well-formed program of nested operations) -/
example : N.Inv nestWitness := C07_nest_separation_all _ _ N.inv_init (by decide)

example : N.Pre 3 nestWitness.h (nestWitness.root 0) (nestWitness.root 1) :=
  ⟨by decide, by decide, by decide, by decide, by decide⟩
example : N.absRoot (N.step nestWitness (.copyVal 0 (.root 0) 1 (.root 1))).1 1 = N.absRoot nestWitness 0 := by decide

/-- non-vacuity of the all-operations theorems: a program with nested targets (put into a nested map,
copy a nested map into a nested slot of another root, remove, remove-if on a nested slice) is well-formed -/
example : WfNestProg N.St.init [.setRoot 0 (.list true), .setSlot 0 0 (.key 1) (.list true) 0, .setSlot 0 1 (.key 2) (.bytes [7]) 0,
    .setRoot 1 (.list false), .setSlot 1 3 .push .nil 0, .setSlot 1 3 (.idx 0) (.list true) 0,
    .copyVal 0 (.slot 0 0) 1 (.slot 3 0), .bytesAppend 1 5 9, .remove 0 1 2, .removeIf 1 3 [false]] := by
  decide

/-! ### from-raw with NESTED raw input (`Model/C07NestRaw.lean`, `Lemmas/C07NestRaw.lean`): `Value.FromRaw` / `Map.FromRaw` / `Slice.FromRaw`

`Value.FromRaw(iv)` at a position is, as in `pcommon/value.go`, `Set*` / `SetEmptyBytes().FromRaw` / `SetEmptyMap()` / `SetEmptySlice()`
(`setRoot` / `setSlot`) followed, for a map or slice input, by `Map.FromRaw` / `Slice.FromRaw` on the NEW container (`OpR.fromRawList`).
The `nest` differential runs exactly this decomposition against the real `Value.FromRaw` at random positions. -/

/-- **from-raw, heap level, any heap, any raw input of any depth and width**: nothing allocated before is written; the value built
consists of NEW wrappers only (its footprint lies in `[h.next, h'.next)`: it shares nothing with any existing value, in particular not
with another value filled from the same raw input), is duplicate-free, and reads exactly as the raw input -/
theorem C07_nest_fromraw_deep (h : N.Heap) (r : N.Raw) : N.RawPost h r (N.fromRaw h r) := N.fromRaw_spec r h

/-- one step of the extended programs (every operation of the nested model on targets at any depth, or `Map.FromRaw` / `Slice.FromRaw` on a
container at any depth): forest invariant kept, every root not targeted reads as before -/
theorem C07_nest_fromraw_step (s : N.St) (hi : N.Inv s) (op : N.OpR) (hw : N.WfOpR s op) :
    N.Inv (N.stepR s op).1 ∧ ∀ c, c ∉ N.touchedR op → N.absRoot (N.stepR s op).1 c = N.absRoot s c :=
  N.stepR_spec hi op hw

theorem C07_nest_fromraw_separation_all (prog : List N.OpR) (s : N.St) (hi : N.Inv s) (hw : N.WfProgR s prog) : N.Inv (N.runR s prog) := by
  induction prog generalizing s with
  | nil => exact hi
  | cons op ops ih => exact ih _ (N.stepR_spec hi op hw.1).1 hw.2

theorem C07_nest_fromraw_frame_all (prog : List N.OpR) (s : N.St) (hi : N.Inv s) (hw : N.WfProgR s prog) (c : Nat)
    (hc : ∀ op ∈ prog, c ∉ N.touchedR op) : N.absRoot (N.runR s prog) c = N.absRoot s c := by
  induction prog generalizing s with
  | nil => rfl
  | cons op ops ih =>
    obtain ⟨h1, h2⟩ := N.stepR_spec hi op hw.1
    simp only [N.runR]
    rw [ih _ h1 hw.2 (fun o ho => hc o (List.mem_cons_of_mem _ ho))]
    exact h2 c (hc op List.mem_cons_self)

/-- result of `Map.FromRaw` / `Slice.FromRaw` on a container at any depth: its header is a NEW array of exactly as many slots as the input
has entries (nothing beyond `len`: no stale slot survives), and its entries read exactly as the raw input -/
theorem C07_nest_fromraw_result (s : N.St) (hi : N.Inv s) (r o : Nat) (kids : N.RawL)
    (ho : N.ownsList s.dep s.h (s.root r) o) (hro : s.ro r = false) :
    ((N.stepR s (.fromRawList r o kids)).1.h.wl o).tail = [] ∧ ((N.stepR s (.fromRawList r o kids)).1.h.wl o).live.length = N.lenL kids ∧
    ((N.stepR s (.fromRawList r o kids)).1.h.wl o).live.flatMap
        (fun kv => N.Tok.key kv.key :: N.absV (max s.dep (N.depthL kids)) (N.stepR s (.fromRawList r o kids)).1.h kv.val) = N.absRawL kids :=
  (N.fromRawList_spec hi r o kids ho hro).2.2

/-- end to end for a root value: `Value.FromRaw` of a map / slice input of any depth and width (done as the code does it: `SetEmptyMap()` /
`SetEmptySlice()`, then `Map.FromRaw` / `Slice.FromRaw` on the container just made) makes the root read EXACTLY as the raw input, keeps the
forest invariant (the new value shares nothing with any other value — in particular not with another root filled from the same input) and
leaves every other root reading as before -/
theorem C07_nest_fromraw_root_reads (s : N.St) (hi : N.Inv s) (r : Nat) (km : Bool) (kids : N.RawL) (hro : s.ro r = false) :
    N.Inv (N.fromRawRoot s r km kids) ∧ N.absRoot (N.fromRawRoot s r km kids) r = N.absRaw (.list km kids) ∧
    ∀ c, c ≠ r → N.absRoot (N.fromRawRoot s r km kids) c = N.absRoot s c :=
  N.fromRawRoot_reads hi r km kids hro

/-- read-only: `Map.FromRaw` / `Slice.FromRaw` below a read-only root panics with the state unchanged (definitional, like `C07_nest_readonly`) -/
theorem C07_nest_fromraw_readonly (s : N.St) (r o : Nat) (kids : N.RawL) (hro : s.ro r = true) :
    N.stepR s (.fromRawList r o kids) = (s, true) := by simp [N.stepR, hro]

/-- non-vacuity: two roots filled from the SAME nested raw input (a map holding bytes, a nested map and a slice with a map in it), then
edited on one side: well-formed by `decide`; both read the raw input right after the fill -/
def rawDemo : N.RawL :=
  .cons 1 (.bytes [7, 8]) (.cons 2 (.list true (.cons 5 (.scalar 0 3) .nil)) (.cons 3 (.list false (.cons 0 (.list true .nil) (.cons 0 (.bytes []) .nil))) .nil))

example : N.WfProgR N.St.init [.base (.setRoot 0 (.list true)), .fromRawList 0 0 rawDemo, .base (.setRoot 1 (.list true)), .fromRawList 1 6 rawDemo,
    .base (.bytesAppend 0 1 9), .base (.remove 1 6 2)] := by decide

example : let s := N.runR N.St.init [.base (.setRoot 0 (.list true)), .fromRawList 0 0 rawDemo, .base (.setRoot 1 (.list true)), .fromRawList 1 6 rawDemo]
    N.absRoot s 0 = N.absRaw (.list true rawDemo) ∧ N.absRoot s 1 = N.absRaw (.list true rawDemo) := by decide

/-! ### `Slice.MoveAndAppendTo` at PROGRAM level (root slices) and programs of ALL operations (`Lemmas/C07NestMove.lean`, `Lemmas/C07NestAll.lean`)

`N.WfOp (.moveAppend …) = False`: the replacement contracts cannot express that the destination ADOPTS the source's children.  For two slices
held by distinct roots (top-level `pcommon.Slice`s with arbitrarily nested elements, any capacities, any garbage beyond `len`) the step is
proved directly from the definition of the forest invariant, for all three branches of the code. -/

/-- move-and-append between the slices of two distinct roots: forest invariant kept (so the moved elements are owned by the destination only —
nothing is shared), every other root reads as before, the source reads empty, the destination reads as its old elements followed by the
source's old elements, each reading as before (order kept) -/
theorem C07_nest_move_append_roots (s : N.St) (hi : N.Inv s) (rs rd o1 o2 c : Nat) (k1 k2 : Bool) (hne : rs ≠ rd)
    (h1 : s.root rs = .list k1 o1) (h2 : s.root rd = .list k2 o2) :
    N.Inv (N.step s (.moveAppend rs o1 rd o2 c)).1 ∧
    (∀ x, x ≠ rs → x ≠ rd → N.absRoot (N.step s (.moveAppend rs o1 rd o2 c)).1 x = N.absRoot s x) ∧
    ((s.ro rs || s.ro rd) = false →
      N.absRoot (N.step s (.moveAppend rs o1 rd o2 c)).1 rs = [.opn k1 0] ∧
      ∃ d0, s.dep = d0 + 1 ∧
        N.absRoot (N.step s (.moveAppend rs o1 rd o2 c)).1 rd =
          .opn k2 ((s.h.wl o2).live.length + (s.h.wl o1).live.length) ::
            ((s.h.wl o2).live ++ (s.h.wl o1).live).flatMap (fun kv => N.Tok.key kv.key :: N.absV d0 s.h kv.val)) :=
  N.move_append_roots_spec hi rs rd o1 o2 c k1 k2 hne h1 h2

/-- **`Slice.MoveAndAppendTo` between slices nested ANYWHERE** (`Lemmas/C07NestAdopt.lean`: the local-update lemma generalised by a list of
ADOPTED ids — orphans reachable from no root — and a list of ids that must have become unreachable; the move = unlink the source's children
(they become orphans), then link them under the destination): for two containers of the forest, distinct, neither inside the other — under
one root or two, all three branches of the code — the forest invariant is kept (the moved elements are owned by the destination alone, the
emptied source shares nothing with it) and every root above neither of them reads as before.  This discharges the exclusion
`N.WfOp (.moveAppend …) = False`. -/
theorem C07_nest_move_append_nested (s : N.St) (hi : N.Inv s) (rs o1 rd o2 c : Nat) (hw : N.WfMove s rs o1 rd o2) :
    N.Inv (N.step s (.moveAppend rs o1 rd o2 c)).1 ∧
    ∀ x, x ∉ N.touched (.moveAppend rs o1 rd o2 c) → N.absRoot (N.step s (.moveAppend rs o1 rd o2 c)).1 x = N.absRoot s x :=
  N.move_append_spec hi rs o1 rd o2 c hw

/-- …and its result ("move-and-append keeps exactly the expected elements in order"), for slices nested anywhere: the destination holds its
old elements followed by the source's old elements, in order, each reading exactly as before; the source keeps neither elements nor an array -/
theorem C07_nest_move_append_nested_result (s : N.St) (hi : N.Inv s) (rs o1 rd o2 c : Nat) (hw : N.WfMove s rs o1 rd o2)
    (hro : (s.ro rs || s.ro rd) = false) :
    ((N.step s (.moveAppend rs o1 rd o2 c)).1.h.wl o2).live = (s.h.wl o2).live ++ (s.h.wl o1).live ∧
    (N.step s (.moveAppend rs o1 rd o2 c)).1.h.wl o1 = {} ∧
    ∀ kv ∈ (s.h.wl o2).live ++ (s.h.wl o1).live,
      N.absV s.dep (N.step s (.moveAppend rs o1 rd o2 c)).1.h kv.val = N.absV s.dep s.h kv.val :=
  N.move_append_children_same hi rs o1 rd o2 c hw hro

/-- separation for programs of ALL operations: everything in `N.WfOp` on targets at any depth, `Map.FromRaw` / `Slice.FromRaw` on containers
at any depth, `Slice.MoveAndAppendTo` between slices at any depth -/
theorem C07_nest_separation_full (prog : List N.OpR) (s : N.St) (hi : N.Inv s) (hw : N.WfProgX s prog) : N.Inv (N.runR s prog) := by
  induction prog generalizing s with
  | nil => exact hi
  | cons op ops ih => exact ih _ (N.stepX_spec hi op hw.1).1 hw.2

/-- independence for programs of ALL operations: a root no operation targets reads the same afterwards -/
theorem C07_nest_frame_full (prog : List N.OpR) (s : N.St) (hi : N.Inv s) (hw : N.WfProgX s prog) (c : Nat)
    (hc : ∀ op ∈ prog, c ∉ N.touchedR op) : N.absRoot (N.runR s prog) c = N.absRoot s c := by
  induction prog generalizing s with
  | nil => rfl
  | cons op ops ih =>
    obtain ⟨h1, h2⟩ := N.stepX_spec hi op hw.1
    simp only [N.runR]
    rw [ih _ h1 hw.2 (fun o ho => hc o (List.mem_cons_of_mem _ ho))]
    exact h2 c (hc op List.mem_cons_self)

/-- non-vacuity: two root slices with nested elements (a map holding bytes; a scalar), move-and-append into the NEVER-USED destination and
into a used one, refill the source, edit the destination's adopted element, fill from raw: well-formed by `decide` -/
example : N.WfProgX N.St.init [.base (.setRoot 0 (.list false)), .base (.setSlot 0 0 .push (.list true) 1), .base (.setSlot 0 1 (.key 4) (.bytes [7]) 1),
    .base (.setSlot 0 0 .push (.scalar 0 5) 2), .base (.setRoot 1 (.list false)), .base (.moveAppend 0 0 1 3 0),
    .base (.setSlot 0 0 .push (.scalar 0 9) 1), .base (.bytesAppend 1 2 8), .base (.moveAppend 0 0 1 3 4), .fromRawList 1 1 rawDemo] := by decide

/-- …and with NESTED slices: a map whose entries 1 and 2 are slices (ids 1, 2), entry 1 holding a map with bytes; move-and-append from the
slice under key 1 to the slice under key 2 of the SAME root, then edit the adopted element through its new owner -/
example : N.WfProgX N.St.init [.base (.setRoot 0 (.list true)), .base (.setSlot 0 0 (.key 1) (.list false) 1), .base (.setSlot 0 0 (.key 2) (.list false) 2),
    .base (.setSlot 0 1 .push (.list true) 1), .base (.setSlot 0 3 (.key 7) (.bytes [5]) 1), .base (.setSlot 0 2 .push (.scalar 0 1) 1),
    .base (.moveAppend 0 1 0 2 2), .base (.bytesAppend 0 4 6), .base (.setSlot 0 1 .push (.scalar 0 2) 1), .base (.moveAppend 0 2 0 1 3)] := by decide

/-! ## part D: primitive slices (`Model/C07Prim.lean`): elements by value, arrays re-used by `copyX` -/

theorem P.PSt.ext' (p q : P.PSt) (hv : p.val = q.val) (hr : p.ro = q.ro) : p = q := by
  cases p; cases q; simp_all

theorem P.abs_upd (s : P.St) (a : Nat) (h' : P.Hdr) :
    (P.abs { s with hd := upd s.hd a h' }).val = upd (P.abs s).val a h'.live := by
  funext c; by_cases hc : c = a
  · subst hc; simp [P.abs, upd_same]
  · simp [P.abs, upd_other _ _ _ _ hc]

theorem P.appendH_live (h : P.Hdr) (xs : List Nat) (c : Nat) : (P.appendH h xs c).live = h.live ++ xs := by
  unfold P.appendH; split <;> rfl

theorem P.step_spec (s : P.St) (op : P.Op) :
    P.abs (P.step s op).1 = (P.pstep (P.abs s) op).1 ∧ (P.step s op).2 = (P.pstep (P.abs s) op).2 := by
  have habs_ro : (P.abs s).ro = s.ro := rfl
  cases op with
  | append a xs c =>
    simp only [P.step, P.pstep, habs_ro]
    by_cases hr : s.ro a = true
    · simp [hr]
    · simp only [hr, Bool.false_eq_true, ↓reduceIte]
      exact ⟨P.PSt.ext' _ _ (by rw [P.abs_upd, P.appendH_live]; rfl) rfl, by first | rfl | trivial⟩
  | setAt a i v =>
    simp only [P.step, P.pstep, habs_ro]
    by_cases hr : s.ro a = true
    · simp [hr]
    · simp only [hr, Bool.false_eq_true, ↓reduceIte]
      have hl : ((P.abs s).val a).length = (s.hd a).live.length := rfl
      rw [hl]
      by_cases hi : i < (s.hd a).live.length
      · simp only [hi, ↓reduceIte]
        exact ⟨P.PSt.ext' _ _ (by rw [P.abs_upd]; rfl) rfl, by first | rfl | trivial⟩
      · simp only [hi, ↓reduceIte]; exact ⟨by first | rfl | trivial, by first | rfl | trivial⟩
  | ensureCap a n =>
    simp only [P.step, P.pstep, habs_ro]
    by_cases hr : s.ro a = true
    · simp [hr]
    · simp only [hr, Bool.false_eq_true, ↓reduceIte]
      by_cases hn : n ≤ (s.hd a).cap
      · simp only [hn, ↓reduceIte]; exact ⟨by first | rfl | trivial, by first | rfl | trivial⟩
      · simp only [hn, ↓reduceIte]
        refine ⟨P.PSt.ext' _ _ ?_ rfl, by first | rfl | trivial⟩
        rw [P.abs_upd]; funext c; by_cases hc : c = a
        · subst hc; simp [P.abs, upd_same]
        · simp [upd_other _ _ _ _ hc]
  | fromRaw a xs c =>
    simp only [P.step, P.pstep, habs_ro]
    by_cases hr : s.ro a = true
    · simp [hr]
    · simp only [hr, Bool.false_eq_true, ↓reduceIte]
      exact ⟨P.PSt.ext' _ _ (by rw [P.abs_upd, P.overwrite, P.appendH_live]; rfl) rfl, by first | rfl | trivial⟩
  | copyTo a b c =>
    simp only [P.step, P.pstep, habs_ro]
    by_cases hr : s.ro b = true
    · simp [hr]
    · simp only [hr, Bool.false_eq_true, ↓reduceIte]
      exact ⟨P.PSt.ext' _ _ (by rw [P.abs_upd, P.overwrite, P.appendH_live]; rfl) rfl, by first | rfl | trivial⟩
  | moveTo a b =>
    simp only [P.step, P.pstep, habs_ro]
    by_cases hr : (s.ro a || s.ro b) = true
    · simp [hr]
    · simp only [hr, Bool.false_eq_true, ↓reduceIte]
      refine ⟨P.PSt.ext' _ _ ?_ rfl, by first | rfl | trivial⟩
      have : (P.abs { s with hd := upd (upd s.hd b (s.hd a)) a {} }).val = upd (P.abs { s with hd := upd s.hd b (s.hd a) }).val a [] :=
        P.abs_upd { s with hd := upd s.hd b (s.hd a) } a {}
      rw [this, P.abs_upd]; rfl
  | markRO a => exact ⟨rfl, rfl⟩

/-- primitive slices: every program (append, set-at, ensure-capacity, from-raw, copy-to, move-to,
mark-read-only; any capacities, any array re-use) shows what plain lists with assignment semantics show -/
theorem C07_prim_refines (prog : List P.Op) (s : P.St) : P.abs (P.run s prog) = P.prun (P.abs s) prog := by
  induction prog generalizing s with
  | nil => rfl
  | cons op ops ih => simp only [P.run, P.prun]; rw [ih, (P.step_spec s op).1]

theorem C07_prim_step_panics (s : P.St) (op : P.Op) : (P.step s op).2 = (P.pstep (P.abs s) op).2 := (P.step_spec s op).2

theorem C07_prim_copy_eq (s : P.St) (a b c : Nat) (hro : s.ro b = false) :
    (P.abs (P.step s (.copyTo a b c)).1).val b = (P.abs s).val a ∧
    ∀ x, x ≠ b → (P.abs (P.step s (.copyTo a b c)).1).val x = (P.abs s).val x := by
  rw [(P.step_spec s (.copyTo a b c)).1]
  have : (P.abs s).ro b = false := hro
  simp only [P.pstep, this, Bool.false_eq_true, ↓reduceIte]
  exact ⟨upd_same _ _ _, fun x hx => upd_other _ _ _ _ hx⟩

theorem C07_prim_independent (s : P.St) (op : P.Op) (c : Nat) (hc : c ∉ P.targets op) :
    (P.abs (P.step s op).1).val c = (P.abs s).val c := by
  rw [(P.step_spec s op).1]
  cases op <;> simp only [P.targets, List.mem_cons, List.not_mem_nil, or_false, not_or] at hc <;>
    simp only [P.pstep] <;> (repeat' split) <;> first
      | rfl
      | simp [upd_other _ _ _ _ hc]
      | simp [upd_other _ _ _ _ hc.1, upd_other _ _ _ _ hc.2]

theorem C07_prim_readonly (s : P.St) (op : P.Op) (a : Nat) (hro : s.ro a = true) (ha : a ∈ P.targets op) : P.step s op = (s, true) := by
  cases op <;> simp only [P.targets, List.mem_cons, List.not_mem_nil, or_false] at ha <;>
    first
      | (subst ha; simp [P.step, hro])
      | (rcases ha with rfl | rfl <;> simp [P.step, hro])
      | exact absurd ha (by simp)

theorem C07_prim_check_sound (H : Nat) (before : P.PSt) (op : P.Op) (after : Nat → List Nat) (p : Bool)
    (h : P.obsStep H before op after p = true) :
    (P.pstep before op).2 = p ∧ ∀ a, a < H → (P.pstep before op).1.val a = after a := by
  simp only [P.obsStep, P.eqUpTo, Bool.and_eq_true, beq_iff_eq, List.all_eq_true, List.mem_range] at h
  exact ⟨h.1, fun a ha => h.2 a ha⟩

example : (P.abs (P.run P.St.init [.append 0 [1, 2, 3] 4, .fromRaw 1 [7] 1, .copyTo 1 0 0, .append 0 [9] 0, .setAt 1 0 5, .moveTo 0 2])).val 2 = [7, 9] ∧
    ((P.run P.St.init [.append 0 [1, 2, 3] 4, .fromRaw 1 [7] 1, .copyTo 1 0 0]).hd 0).tail = [2, 3, 0] := by decide

/-! ## part E: generated message structs with optional and one-of fields (`Model/C07Msg.lean`)

The schema `Gen.PdataMsg.msgs` is regenerated on every run from the generated `CopyTo`/`MoveTo` bodies
(every statement must have one of four known shapes, else the translator fails). -/

theorem Msg.copyField_eq (k : Gen.PdataMsg.Kind) (s d : Msg.FV) (hc : Msg.clears k = true) (ht : Msg.typed k s = true) :
    Msg.copyField k s d = s := by
  cases k <;> cases s <;> simp_all [Msg.copyField, Msg.typed, Msg.clears] <;>
    (rename_i o; cases o <;> simp_all)

/-- for ANY schema whose optional / one-of fields have the clearing branch: copying a message into
any destination of the same shape (whatever optional fields / one-of alternative it carried) makes
it equal to the source -/
theorem C07_msg_copy_eq (ks : List Gen.PdataMsg.Kind) (src dst : List Msg.FV)
    (hc : ∀ k ∈ ks, Msg.clears k = true) (ht : Msg.wellTyped ks src = true) (hl : dst.length = src.length) :
    Msg.copyMsg ks src dst = src := by
  induction ks generalizing src dst with
  | nil => cases src <;> simp_all [Msg.wellTyped, Msg.copyMsg]
  | cons k ks ih =>
    cases src with
    | nil => simp [Msg.wellTyped] at ht
    | cons s ss =>
      cases dst with
      | nil => simp at hl
      | cons d ds =>
        simp only [Msg.wellTyped, Bool.and_eq_true] at ht
        simp only [Msg.copyMsg]
        rw [Msg.copyField_eq k s d (hc k List.mem_cons_self) ht.1,
          ih ss ds (fun k' hk' => hc k' (List.mem_cons_of_mem _ hk')) ht.2 (by simpa using hl)]

/-- tie to the current source: in every one of the generated message structs every optional / one-of
field has the clearing branch, `CopyTo` mentions every setter and every wrapper getter of the struct
(no field forgotten), and `MoveTo` is `*dest = *ms; *ms = T{}` -/
theorem C07_msg_schema_good :
    ∀ m ∈ Gen.PdataMsg.msgs, (∀ f ∈ m.fields, Msg.clears f.2 = true) ∧ m.uncovered = [] ∧ m.moveOk = true := by decide

theorem C07_msg_schema_nonvacuous :
    30 ≤ Gen.PdataMsg.msgs.length ∧
    Gen.PdataMsg.tableOptional ≤ ((Gen.PdataMsg.msgs.flatMap (·.fields)).filter (fun f => match f.2 with | .optional _ => true | _ => false)).length ∧
    Gen.PdataMsg.tableOneOf ≤ ((Gen.PdataMsg.msgs.flatMap (·.fields)).filter (fun f => match f.2 with | .oneof _ _ => true | _ => false)).length := by
  decide

/-- hence for every generated message struct: `CopyTo` into any destination yields the source -/
theorem C07_msg_all_copy_eq (m : Gen.PdataMsg.Msg) (hm : m ∈ Gen.PdataMsg.msgs) (src dst : List Msg.FV)
    (ht : Msg.wellTyped (m.fields.map (·.2)) src = true) (hl : dst.length = src.length) :
    Msg.copyMsg (m.fields.map (·.2)) src dst = src := by
  apply C07_msg_copy_eq _ _ _ _ ht hl
  intro k hk
  obtain ⟨f, hf, rfl⟩ := List.mem_map.mp hk
  exact (C07_msg_schema_good m hm).1 f hf

/-- moving transfers the content and leaves the source empty -/
theorem C07_msg_move (ks : List Gen.PdataMsg.Kind) (src dst : List Msg.FV) :
    (Msg.moveMsg ks src dst).2 = src ∧ (Msg.moveMsg ks src dst).1 = ks.map Msg.zeroOf := ⟨rfl, rfl⟩

/-- what the repair was for: without the clearing branch (the pinned generator) a destination that
carries the optional field / a one-of alternative keeps it -/
theorem C07_msg_pinned_copy_fails :
    Msg.copyMsg [.optional false] [.opt none] [.opt (some 7)] ≠ [.opt none] ∧
    Msg.copyMsg [.oneof 2 false] [.one none] [.one (some (1, 3))] ≠ [.one none] := by decide

example : Msg.copyMsg [.prim, .optional true, .oneof 2 true, .nested] [.prim 1, .opt none, .one (some (0, 4)), .nested 9]
    [.prim 5, .opt (some 2), .one (some (1, 8)), .nested 3] = [.prim 1, .opt none, .one (some (0, 4)), .nested 9] := by decide

/-! ## tie of the read-only clause to the source (regenerated census, `Gen/PdataCensus.lean`)

The model's `step` lets every mutator check the read-only flag before anything else.  The census
(go/ast walk over every exported value-receiver method of the wrapper types in pcommon, plog,
pmetric, ptrace, pprofile) says the same of the code: no method that writes through `orig` lacks
`AssertMutable()` as its first statement; the only mutators by name that do not assert themselves
are the four top-level `CopyTo`, which only call `….CopyTo` of the slice below (guarded). -/

theorem C07_census_no_unguarded : Gen.PdataCensus.unguarded = [] := by decide

theorem C07_census_delegating_reviewed :
    Gen.PdataCensus.delegating =
      [("plog", "Logs", "CopyTo"), ("pmetric", "Metrics", "CopyTo"), ("pprofile", "Profiles", "CopyTo"), ("ptrace", "Traces", "CopyTo")] := by
  decide

theorem C07_census_nonvacuous : 400 ≤ Gen.PdataCensus.nGuarded ∧ 300 ≤ Gen.PdataCensus.nReaders := by decide

/-- tightened census (audit follow-up): every guarded mutator asserts the RIGHT state (`CopyTo`: the destination's; `MoveTo` /
`MoveAndAppendTo`: the receiver's, then the destination's; every other mutator: the receiver's); no reader asserts mutability
anywhere in its body ("readers keep working"); every child wrapper an accessor builds gets the parent's own state (in `CopyTo`:
source-side wrappers the receiver's, destination-side wrappers the destination's), over all child constructions found -/
theorem C07_census_right_state :
    Gen.PdataCensus.wrongAssert = [] ∧ Gen.PdataCensus.readerAsserts = [] ∧ Gen.PdataCensus.badChildState = [] ∧
    200 ≤ Gen.PdataCensus.nChildCtors := by decide

/-- regenerated by `translators/cmd/pdataslices`, which FAILS unless every function of every `generated_*slice.go` is textually the
template instance (slice / element / origin names replaced): all generated slices are instances of the two element-slice templates,
all primitive slices (and their internal wrappers) of the primitive template; the one reviewed exception is the stale
`pcommon.IntSlice`, which lacks `All` and `Equal` (both readers) but is otherwise the template -/
theorem C07_slices_template_instances :
    25 ≤ Gen.PdataSlices.elemSlices.length ∧
    (∀ e ∈ Gen.PdataSlices.elemSlices, e.2.2.2 = "ptr" ∨ e.2.2.2 = "value") ∧
    6 ≤ Gen.PdataSlices.primSlices.length ∧
    Gen.PdataSlices.incomplete = [("pcommon", "IntSlice", "All,Equal")] := by decide

/-! ## part F: the read-only discipline with state propagation (`Model/C07State.lean`, regenerated `Gen/PdataState.lean`)

Unlike `C07_readonly` / `C07_map_readonly` / `C07_nest_readonly` / `C07_prim_readonly` (which take the checked root as an input of the
op), here a wrapper carries a state CELL, accessors hand a cell to the child wrapper, `MarkReadOnly` writes the cell of the payload and
every mutator runs its leading `AssertMutable` statements — all of it interpreted from the table `pdatastate` regenerates from the
source on every run (whose state each leading assertion checks, whose state every constructed child wrapper gets, for all 822 exported
methods of all wrapper types). -/
section PartF
open OtelVerif.Gen.PdataState

set_option maxRecDepth 200000 in
/-- the regenerated method table passes the checks (decided over all methods of all wrapper types) -/
theorem C07_state_table_ok :
    chunks.all (fun ch => ch.all (fun m => S.methOk m && S.delegOk meths payloads m && S.noPayloadChild payloads m)) = true ∧
    600 ≤ nMeths ∧ meths.length = nMeths ∧ payloads.length = 4 ∧ 4 ≤ nRootCtors := by
  refine ⟨by decide, by decide, by decide, by decide, by decide⟩

/-- **State propagation**: from a payload (or any) wrapper, along EVERY accessor path of the regenerated method table — any
length, through slices, elements, maps, values, maps in values … — the wrapper reached carries the very state cell of the root -/
theorem C07_state_reaches_root_cell (cs : S.Cells) (root : S.W) (steps : List S.Step)
    (hv : S.Valid meths root.ty steps) (hn : S.NoCopy steps) : (S.follow cs root steps).cell = root.cell :=
  S.follow_cell cs meths (fun _ hm => by have := (S.table_ok hm).1; simp only [S.methOk, Bool.and_eq_true] at this; exact this.1) steps root hv hn

/-- no method of any wrapper type ever builds a wrapper with a fresh or foreign state: it is the receiver's or (inside `CopyTo`) the destination's -/
theorem C07_state_no_foreign_state (cs : S.Cells) (m : Meth) (hm : m ∈ meths) (c : Child) (hc : c ∈ m.children) (recv param : Nat) :
    S.cellOf cs recv param c.who = recv ∨ S.cellOf cs recv param c.who = param :=
  S.child_cell_mem cs m (by have := (S.table_ok hm).1; simp only [S.methOk, Bool.and_eq_true] at this; exact this.1) c hc recv param

/-- **Read-only clause, not definitional**: mark a payload read-only; take ANY value reachable from it through accessors (any path of
the regenerated table) and ANY guarded mutator `m` of the type reached.  Calling `m` on that value panics at its FIRST statement; using the
value as the destination of `CopyTo` panics at the first statement; using it as the destination of `MoveTo` / `MoveAndAppendTo` from a
mutable source panics at the second statement, the first being the other assertion: in every case before anything was written. -/
theorem C07_readonly_reachable_mutators (cs : S.Cells) (root : S.W) (steps : List S.Step)
    (hv : S.Valid meths root.ty steps) (hn : S.NoCopy steps)
    (m : Meth) (hm : m ∈ meths) (hg : m.cls = .guarded) (other : Nat) :
    let cs' := S.markRO cs root
    let w := S.follow cs' root steps
    (m.role ≠ .copy → S.call cs' m w.cell other = .panicked 0) ∧
    (m.role = .copy → S.call cs' m other w.cell = .panicked 0) ∧
    (m.role = .move → cs'.ro other = false → S.call cs' m other w.cell = .panicked 1) := by
  intro cs' w
  have hc : w.cell = root.cell := C07_state_reaches_root_cell cs' root steps hv hn
  have hro : cs'.ro w.cell = true := by rw [hc]; exact S.markRO_ro cs root
  have hok : S.assertsOk m = true := by
    have := (S.table_ok hm).1; simp only [S.methOk, Bool.and_eq_true] at this; exact this.2
  obtain ⟨h1, _, _⟩ := S.guarded_panics cs' m hok hg w.cell other
  obtain ⟨_, h2, h3⟩ := S.guarded_panics cs' m hok hg other w.cell
  exact ⟨fun hne => h1 hne hro, fun he => h2 he hro, fun he ho => h3 he ho hro⟩

/-- every mutator is covered by the previous theorem: a method of the table is a reader, a guarded mutator, or one of the payload
`CopyTo`s whose body is `ms.A().CopyTo(dest.A())` with `A().CopyTo` guarded on the destination (there is no unguarded writer) -/
theorem C07_readonly_mutators_classified (m : Meth) (hm : m ∈ meths) :
    m.cls = .reader ∨ m.cls = .guarded ∨
    (m.cls = .delegating ∧ m.role = .copy ∧ m.typ ∈ payloads ∧
      ∃ c ∈ m.children, c.who = .recv ∧ ∃ m' ∈ meths, m'.typ = c.typ ∧ m'.role = .copy ∧ m'.cls = .guarded ∧ m'.asserts = [.param]) := by
  obtain ⟨h1, h2, _⟩ := S.table_ok hm
  simp only [S.methOk, Bool.and_eq_true] at h1
  have ha := h1.2
  cases hc : m.cls with
  | reader => exact Or.inl rfl
  | guarded => exact Or.inr (Or.inl rfl)
  | unguarded => simp [S.assertsOk, hc] at ha
  | delegating =>
    refine Or.inr (Or.inr ⟨rfl, ?_, ?_, ?_⟩)
    · simp only [S.assertsOk, hc, Bool.and_eq_true, beq_iff_eq] at ha; exact ha.1.1.1
    · simp only [S.delegOk, hc, bne_self_eq_false, Bool.false_or, Bool.and_eq_true, List.contains_eq_mem, decide_eq_true_eq] at h2
      exact h2.1
    · simp only [S.delegOk, hc, bne_self_eq_false, Bool.false_or, Bool.and_eq_true, List.any_eq_true, beq_iff_eq] at h2
      obtain ⟨_, c, hcm, hw, m', hm', hq⟩ := h2
      exact ⟨c, hcm, hw, m', hm', hq.1.1.1, hq.1.1.2, hq.1.2, hq.2⟩

/-- "…while all readers keep working": a reader of the table asserts nothing anywhere and writes nothing; it runs on every value
reachable from a read-only payload; and `CopyTo` FROM such a value into a mutable destination runs too (a consumer's clone) -/
theorem C07_readonly_readers_work (cs : S.Cells) (root : S.W) (steps : List S.Step)
    (m : Meth) (hm : m ∈ meths) (other : Nat) :
    let cs' := S.markRO cs root
    let w := S.follow cs' root steps
    (m.cls = .reader → S.call cs' m w.cell other = .ran ∧ m.later = false ∧ m.writes = false) ∧
    (m.cls = .guarded → m.role = .copy → cs'.ro other = false → S.call cs' m w.cell other = .ran) := by
  intro cs' w
  have hok : S.assertsOk m = true := by
    have := (S.table_ok hm).1; simp only [S.methOk, Bool.and_eq_true] at this; exact this.2
  exact ⟨fun hr => S.reader_runs cs' m hok hr _ _, fun hg he ho => (S.guarded_runs cs' m hok hg w.cell other).1 he ho⟩

/-- marking one payload read-only does not freeze another: values reachable from a payload with a different cell stay mutable for
every guarded mutator (so the clause is about THIS payload's cell, not a global flag) -/
theorem C07_readonly_other_payload_mutable (cs : S.Cells) (root root2 : S.W) (hne : root2.cell ≠ root.cell) (h2 : cs.ro root2.cell = false)
    (steps : List S.Step) (hv : S.Valid meths root2.ty steps) (hn : S.NoCopy steps)
    (m : Meth) (hm : m ∈ meths) (hg : m.cls = .guarded) (he : m.role = .other) (other : Nat) :
    S.call (S.markRO cs root) m (S.follow (S.markRO cs root) root2 steps).cell other = .ran := by
  have hc := C07_state_reaches_root_cell (S.markRO cs root) root2 steps hv hn
  have hok : S.assertsOk m = true := by
    have := (S.table_ok hm).1; simp only [S.methOk, Bool.and_eq_true] at this; exact this.2
  refine (S.guarded_runs _ m hok hg _ other).2.2 he ?_
  rw [hc, S.markRO_other cs root _ hne]; exact h2

/-- the four payload `CopyTo`s (bodies `ms.A().CopyTo(dest.A())`, shape checked by the translator): copying INTO a read-only payload
panics in the first statement of the child's `CopyTo` — the delegating body has written nothing; into a mutable payload it runs,
whatever the source's state -/
theorem C07_readonly_delegating_copy (cs : S.Cells) (m : Meth) (hm : m ∈ meths) (hd : m.cls = .delegating) (recv param : Nat) :
    (cs.ro param = true → S.callD meths cs m recv param = .panicked 0) ∧
    (cs.ro param = false → S.callD meths cs m recv param = .ran) :=
  S.callD_delegating meths payloads cs m hd (S.table_ok hm).2.1 recv param

/-- payload wrappers are roots only (no accessor builds one), so "reachable from a payload" never re-enters another payload -/
theorem C07_state_payloads_are_roots (m : Meth) (hm : m ∈ meths) (c : Child) (hc : c ∈ m.children) : c.typ ∉ payloads := by
  have := (S.table_ok hm).2.2
  simp only [S.noPayloadChild, List.all_eq_true, Bool.not_eq_true', List.contains_eq_mem, decide_eq_false_iff_not] at this
  exact this c hc

/-- per-type operation table of the generated element slices (regenerated by `pdatastate`), cross-checked against the template-instance
list of `pdataslices`: the same 29 types, and each has exactly the operation set of its template (`Sort` on pointer slices only) -/
theorem C07_slice_op_tables :
    sliceOps.map (fun e => (e.1, e.2.1, e.2.2.contains "Sort")) = Gen.PdataSlices.elemSlices.map (fun e => (e.1, e.2.1, e.2.2.2 == "ptr")) ∧
    (∀ e ∈ sliceOps, e.2.2 = ["All", "AppendEmpty", "At", "CopyTo", "EnsureCapacity", "Len", "MoveAndAppendTo", "RemoveIf", "Sort"] ∨
                     e.2.2 = ["All", "AppendEmpty", "At", "CopyTo", "EnsureCapacity", "Len", "MoveAndAppendTo", "RemoveIf"]) := by
  refine ⟨by decide, by decide⟩


/-! non-vacuity: a concrete access path of the regenerated table, found by NAME (`S.pathOf`; so it does not depend on the numbering):
Logs → ResourceLogs() → At → ScopeLogs() → At → LogRecords() → At → Attributes() → Get → Map() → Get → Slice() → At → Map(), 13 accessor steps -/

set_option maxRecDepth 200000 in
example : S.demoPath.map (fun ss => ss.length == 13 && ss.all (fun s => s.m.role != .copy && s.c.who == .recv) &&
      S.endTy (S.tyOf "plog.Logs") ss == S.tyOf "pcommon.Map" && payloads.contains (S.tyOf "plog.Logs")) = some true := by decide

example : ∀ ss, S.demoPath = some ss → S.Valid meths (S.tyOf "plog.Logs") ss := fun ss h => S.pathOf_valid meths _ _ ss h


end PartF

/-! ## all families in one statement

`C07_value_semantics_partial` above bundles part A only.  This is the bundle over every modelled family; what keeps it **partial**
with respect to the property text is named in the report (record embedding and message ∘ container composition are differentials,
nested `Value.MoveTo` / `Map.MoveTo` are outside `N.WfProgX`). -/
theorem C07_value_semantics_all_partial :
    -- (A) generated pointer slices: separation + refinement to lists with assignment semantics, every program
    (∀ (prog : List Op) (s : St), Inv s → (∀ op ∈ prog, WfOp op) → Inv (run s prog) ∧ abs (run s prog) = prun (abs s) prog) ∧
    -- (B) attribute maps: separation + refinement to association lists, every program
    (∀ (prog : List M.Op) (s : M.St), M.Inv s → (∀ op ∈ prog, M.WfOp op) →
      M.Inv (M.run s prog) ∧ M.abs (M.run s prog) = M.prun (M.abs s) prog) ∧
    -- (C) nested values: forest invariant + independence of every untouched root, every program of operations at any depth incl.
    -- from-raw on containers at any depth and move-and-append between slices at any depth
    (∀ (prog : List N.OpR) (s : N.St), N.Inv s → N.WfProgX s prog →
      N.Inv (N.runR s prog) ∧ ∀ c, (∀ op ∈ prog, c ∉ N.touchedR op) → N.absRoot (N.runR s prog) c = N.absRoot s c) ∧
    -- (D) primitive slices: refinement, every program
    (∀ (prog : List P.Op) (s : P.St), P.abs (P.run s prog) = P.prun (P.abs s) prog) ∧
    -- (E) every generated message struct: copy into any same-shaped destination = source
    (∀ m ∈ Gen.PdataMsg.msgs, ∀ (src dst : List Msg.FV), Msg.wellTyped (m.fields.map (·.2)) src = true → dst.length = src.length →
      Msg.copyMsg (m.fields.map (·.2)) src dst = src) ∧
    -- (F) read-only: every guarded mutator of the regenerated table, at every value reachable from a payload marked read-only, panics
    -- at its first statement
    (∀ (cs : S.Cells) (root : S.W) (steps : List S.Step), S.Valid Gen.PdataState.meths root.ty steps → S.NoCopy steps →
      ∀ m ∈ Gen.PdataState.meths, m.cls = .guarded → m.role ≠ .copy → ∀ other,
        S.call (S.markRO cs root) m (S.follow (S.markRO cs root) root steps).cell other = .panicked 0) :=
  ⟨fun prog s hi hw => ⟨C07_separation prog s hi hw, C07_refines prog s hi hw⟩,
   fun prog s hi hw => ⟨C07_map_separation prog s hi hw, C07_map_refines prog s hi hw⟩,
   fun prog s hi hw => ⟨C07_nest_separation_full prog s hi hw, fun c hc => C07_nest_frame_full prog s hi hw c hc⟩,
   C07_prim_refines,
   fun m hm src dst ht hl => C07_msg_all_copy_eq m hm src dst ht hl,
   fun cs root steps hv hn m hm hg hr other => (C07_readonly_reachable_mutators cs root steps hv hn m hm hg other).1 hr⟩

/-! ## the pinned `CopyTo` does not have the property (what the repair is for) -/

def fill3 (a x y z : Nat) : List Op :=
  [.append a 0, .set a 0 x, .append a 0, .set a 1 y, .append a 0, .set a 2 z]

/-- a slice that had its middle element removed, then receives a copy of `[1,2,3]` -/
def pinnedWitness : St := run St.init (fill3 0 1 2 3 ++ fill3 1 4 5 6 ++ [.removeIf 1 [false, true, false]])

theorem C07_pinned_copy_aliases :
    ((copyToPinned pinnedWitness 0 1).map (fun s => (abs s).val 1)) = some [1, 3, 3] ∧
    (abs (copyTo pinnedWitness 0 1)).val 1 = [1, 2, 3] := by
  constructor <;> decide

theorem C07_pinned_copy_nil_deref :
    (copyToPinned (run St.init [.append 0 0, .append 0 0, .ensureCap 1 4]) 0 1).isNone = true := by decide

/-! ## non-vacuity -/

example : Inv pinnedWitness := C07_separation _ _ inv_init (by decide)
/-- the witness state really has a stale pointer beyond `len` that aliases a live element -/
example : (pinnedWitness.hd 1).live = [3, 5] ∧ (pinnedWitness.hd 1).tail = [some 5] := by decide
example : (abs (run St.init (fill3 0 1 2 3 ++ [.copyTo 0 1, .set 0 0 9, .moveAndAppendTo 0 1 8, .markRO 1, .append 1 9]))).val 1
    = [1, 2, 3, 9, 2, 3] := by decide

end OtelVerif.C07
