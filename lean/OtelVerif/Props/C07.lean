import OtelVerif.Model.C07
/-! C07 property theorems (stub) -/
namespace OtelVerif.C07
end OtelVerif.C07
