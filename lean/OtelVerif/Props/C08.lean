import OtelVerif.Lemmas.C08
import OtelVerif.Lemmas.C08Json
import OtelVerif.Gen.OtlpSchema
/-!
# C08 — OTLP protobuf and JSON codecs are lossless, consistent and total

Theorems about the generic codec model of `Model/C08.lean`, for EVERY well-formed schema, every conforming
value (any nesting depth, any repetition count, extreme integers, NaN/Inf bit patterns) and every byte string —
then instantiated at the schema regenerated from `/repo` (`Gen/OtlpSchema.lean`).
-/
namespace OtelVerif.C08
open OtelVerif.Wire OtelVerif.Proto

abbrev otlp : Schema := Gen.OtlpSchema.schema
abbrev otlpD : List Val := defaults otlp

/-! ## the regenerated schema is well formed (tie obligations over `Gen`) -/

set_option maxRecDepth 100000 in
/-- distinct legal field numbers per message, admissible (type, cardinality) pairs, one-of alternatives found by
their number, and `defaults` is the fixed point of "`&T{}` with every `nullable=false` message filled in". -/
theorem C08_schema_wf : WF otlp otlpD = true := by decide

/-! ## size -/

/-- `Size()` equals the length of `Marshal()` — for every schema and EVERY value tree (no conformance needed). -/
theorem C08_size (S : Schema) (m : Nat) (v : Val) : size S m v = (encode S m v).length :=
  sz_eq_length S _ v

/-! ## protobuf round trip -/

theorem wf_slots {S : Schema} {D : List Val} (h : WF S D = true) (m : Nat) :
    slotsOkFrom (S.slots m) (S.slots m) 0 = true := by
  simp only [WF, Bool.and_eq_true, List.all_eq_true] at h
  simp only [Schema.slots]
  cases hm : S.msgs[m]? with
  | none => simp [slotsOkFrom]
  | some msg => simpa using h.1.1 msg (List.mem_of_getElem? hm)

theorem wf_defaults {S : Schema} {D : List Val} (h : WF S D = true) (sub : Nat) :
    D.getD sub .nil = msgDefault D (S.slots sub) := by
  simp only [WF, Bool.and_eq_true, DefaultsOk, beq_iff_eq, defaultsStep] at h
  have hD := h.1.2
  simp only [Schema.slots]
  have : D[sub]? = (S.msgs[sub]?).map (fun m => msgDefault D m.slots) := by
    conv => lhs; rw [← hD]
    simp
  rw [List.getD_eq_getElem?_getD, this]
  cases S.msgs[sub]? <;> simp [msgDefault, Val.ofList]

/-- **Lossless (protobuf).** For every well-formed schema and every conforming value, decoding what the marshaler
produced yields exactly the original value.  (`hlen`: a Go slice is shorter than 2^63 bytes.) -/
theorem C08_pb_roundtrip (S : Schema) (D : List Val) (hwf : WF S D = true) (m : Nat) (v : Val)
    (hc : Conforms S m v) (hlen : (encode S m v).length < 2 ^ 63) :
    decode S D m (encode S m v) = some v := by
  have h := rt_all S D (wf_slots hwf) (wf_defaults hwf) (.slots (S.slots m)) v m [] [] [] (by simp) rfl hc hlen
  simp only [List.nil_append, List.append_nil] at h
  rw [decode, encode, wf_defaults hwf m, msgDefault, h, decMsg_nil,
    ofList_toList v (conf_slots_proper S false v _ hc)]

/-- … in particular for the schema regenerated from the Go sources of `/repo`, all signals and wrappers. -/
theorem C08_pb_roundtrip_otlp (m : Nat) (v : Val) (hc : Conforms otlp m v) (hlen : (encode otlp m v).length < 2 ^ 63) :
    decode otlp otlpD m (encode otlp m v) = some v :=
  C08_pb_roundtrip otlp otlpD C08_schema_wf m v hc hlen

/-- consequently the marshaler is injective on conforming values (two different payloads never share an encoding) -/
theorem C08_pb_injective (S : Schema) (D : List Val) (hwf : WF S D = true) (m : Nat) (v w : Val)
    (hv : Conforms S m v) (hw : Conforms S m w) (hl : (encode S m v).length < 2 ^ 63)
    (he : encode S m v = encode S m w) : v = w := by
  have h1 := C08_pb_roundtrip S D hwf m v hv hl
  have h2 := C08_pb_roundtrip S D hwf m w hw (he ▸ hl)
  rw [he, h2] at h1
  exact (Option.some.inj h1).symm

/-- **Fixed point (partial).** Whatever conforming value a decode returns re-encodes to a fixed point: decoding the
re-encoding returns the same value, and encoding that again the same bytes.  PARTIAL: that the decoder's result is
canonical (`Conforms`, up to the `-0.0` of plain double fields) is checked on the implementation by the harness
(`C08/total/not-a-fixpoint-*`) and on the model by the differential, not proved here.  Totality of the model decoder
is by construction (`decMsg` is a total terminating function on every byte list); absence of panics/hangs of the Go
code is observed by the harness on the malformed streams. -/
theorem C08_total_fixpoint_partial (S : Schema) (D : List Val) (hwf : WF S D = true) (m : Nat) (b : Bytes) (v : Val)
    (_hd : decode S D m b = some v) (hc : Conforms S m v) (hlen : (encode S m v).length < 2 ^ 63) :
    decode S D m (encode S m v) = some v ∧
    ∀ v', decode S D m (encode S m v) = some v' → encode S m v' = encode S m v := by
  have h := C08_pb_roundtrip S D hwf m v hc hlen
  exact ⟨h, fun v' hv' => by rw [h] at hv'; rw [← Option.some.inj hv']⟩

/-! ### the full statement fails on the pinned tree: a Go-nil bytes alternative is not written -/

/-- index of `common.AnyValue` in the regenerated schema -/
def anyValueIdx : Nat := (otlp.msgs.findIdx? (fun m => m.name == "common.AnyValue")).getD 0

/-- what `pcommon.NewValueBytes()` / `Value.SetEmptyBytes()` build: alternative 7 selected, Go-nil slice -/
def nilBytesValue : Val := .cons (.cons (.num 7) .nil) .nil
/-- the empty `AnyValue` (`ValueTypeEmpty`) -/
def emptyValue : Val := .cons .nil .nil

/-- lossless for every shape the public API can build -/
def C08_pb_roundtrip_full : Prop :=
  ∀ m v, ApiShape otlp m v → (encode otlp m v).length < 2 ^ 63 → decode otlp otlpD m (encode otlp m v) = some v

set_option maxRecDepth 100000 in
/-- read off the regenerated schema: `AnyValue` is a single one-of whose alternative 7 is a `bytes` field -/
theorem anyValue_shape : ∃ g alts a, otlp.slots anyValueIdx = [Slot.oneof g alts] ∧ findAlt alts 7 = some a ∧ a.ty = .bytes := by
  have h : (match otlp.slots anyValueIdx with
      | [Slot.oneof _ alts] => (match findAlt alts 7 with | some a => a.ty == .bytes | none => false)
      | _ => false) = true := by decide
  split at h
  · next g alts hs =>
    split at h
    · next a ha => exact ⟨g, alts, a, hs, ha, by simpa using h⟩
    · simp at h
  · simp at h

theorem nilBytes_encodes_empty : encode otlp anyValueIdx nilBytesValue = [] := by
  obtain ⟨g, alts, a, hs, _, _⟩ := anyValue_shape
  rw [encode, hs, nilBytesValue, enc_slots_cons, enc_slots_nil]
  rw [enc]
  · rfl
  · intro k p h; cases h

set_option maxRecDepth 100000 in
/-- kernel-checked witness: an API-built empty-bytes value and the empty value have the same (empty) encoding, so the
bytes value comes back as `ValueTypeEmpty`.  Replayed on the real code by corpus case 1 of the harness
(`C08/pb/roundtrip/oneof-nil-bytes-not-encoded`). -/
theorem C08_pb_roundtrip_full_fails : ¬ C08_pb_roundtrip_full := by
  intro h
  have hshape : ApiShape otlp anyValueIdx nilBytesValue := by
    obtain ⟨g, alts, a, hs, ha, hty⟩ := anyValue_shape
    rw [ApiShape, hs, nilBytesValue]
    simp [conf, ha, hty]
  have := h anyValueIdx nilBytesValue hshape (by rw [nilBytes_encodes_empty]; decide)
  rw [nilBytes_encodes_empty, decode, decMsg_nil] at this
  have hd : otlpD.getD anyValueIdx .nil = emptyValue := by decide
  rw [hd] at this
  exact absurd (Option.some.inj this) (by decide)


/-! ## JSON -/

def fieldsOf (m : Msg) : List Field :=
  m.slots.flatMap (fun s => match s with | .one f => [f] | .oneof _ alts => alts)

/-- (message, Go field) pairs whose JSON name or proto name is NOT a `case` label of the message's hand-written reader -/
def uncovered (S : Schema) : List (String × String) :=
  S.msgs.flatMap (fun m => (fieldsOf m).filterMap (fun f =>
    if m.jsonKeys.contains f.json && m.jsonKeys.contains f.orig then none else some (m.name, f.go)))

set_option maxRecDepth 100000 in
/-- **Every field has its `case`, in both spellings** — a tie obligation over the regenerated reader tables.
The only fields the JSON readers do not know are the three deprecated scope lists, which the public API cannot set
(and which `otlp.Migrate*` clears on every decode path).  A reader that forgets a field (as `plog` did for
`event_name`, `pmetric` for `zero_threshold`) makes this theorem fail to check. -/
theorem C08_json_cases_cover :
    uncovered otlp = [("logs.ResourceLogs", "DeprecatedScopeLogs"), ("metrics.ResourceMetrics", "DeprecatedScopeMetrics"),
      ("trace.ResourceSpans", "DeprecatedScopeSpans")] := by decide

theorem parseInt_dec (T : Txt) (h : DecLaws T) (signed : Bool) (w n : Nat)
    (hn : n < (if signed then 2 ^ (w - 1) else 2 ^ w)) : parseInt T signed w (T.dec n) = some n := by
  unfold parseInt
  split
  · next ds heq => exact absurd heq (h.dec_nosign n ds)
  · simp [h.undec_dec, hn]

/-- **64-bit integers as strings or as numbers — same result** (`json.ReadInt64/ReadUint64`: the `NumberValue` and the
`StringValue` branch), for every text. -/
theorem C08_json_int64_variants (S : Schema) (T : Txt) (ty : Ty) (t : List Nat)
    (hty : ty = .u64 ∨ ty = .i64 ∨ ty = .fixed64 ∨ ty = .sfixed64) :
    readLeaf S T ty (.num t) = readLeaf S T ty (.str t) := by
  rcases hty with h | h | h | h <;> subst h <;> rfl

/-- … and both spellings of a 64-bit value that the marshaler can produce decode to that value. -/
theorem C08_json_int64_value (S : Schema) (T : Txt) (h : DecLaws T) (n : Nat) (hn : n < 2 ^ 64) :
    readLeaf S T .u64 (.num (T.dec n)) = some (.num n) ∧ readLeaf S T .u64 (.str (T.dec n)) = some (.num n) := by
  have := parseInt_dec T h false 64 n (by simpa using hn)
  simp [readLeaf, this]

/-- **Enum values as numbers or as names — same result** (`json.ReadEnumValue`), for every enum of every schema:
the name of a value and its decimal number decode to the same stored value. -/
theorem C08_json_enum_variants (S : Schema) (T : Txt) (h : DecLaws T) (e : Nat) (en : EnumT) (name : String) (val : Nat)
    (he : S.enums[e]? = some en)
    (hf : en.values.find? (fun p => str p.1 == str name) = some (name, val)) (hv : val < 2 ^ 31) :
    readLeaf S T (.enum e) (.str (str name)) = some (.num val) ∧
    readLeaf S T (.enum e) (.num (T.dec val)) = some (.num val) := by
  have := parseInt_dec T h true 32 val (by simpa using hv)
  simp [readLeaf, enumByName, he, hf, this]

set_option maxRecDepth 100000 in
/-- non-vacuity: in the regenerated schema every enum name is found by `find?` at its own value and all values fit -/
theorem C08_json_enum_names_ok :
    otlp.enums.all (fun en => en.values.all (fun p =>
      (en.values.find? (fun q => str q.1 == str p.1)).map (·.2) == some p.2 && decide (p.2 < 2 ^ 31))) = true := by decide

/-- the full JSON statements; proved at field level above, at message level tied by the byte/value-exact differential
(`jenc`/`jdec` ops) and the harness oracles (`C08/json/roundtrip/*`, `C08/json/pb-inconsistent/*`).  PARTIAL: the
message-level induction for `fromJ ∘ toJ` (same shape as `rt_all`) is not written. -/
def C08_json_roundtrip_full : Prop :=
  ∀ (T : Txt), DecLaws T → ∀ m v, Conforms otlp m v →
    ∃ v', fromJson otlp T otlpD m (toJson otlp T m v) = some v' ∧ encode otlp m v' = encode otlp m (canon otlp (.slots (otlp.slots m)) v)


/-! ## JSON: message-level round trip and protobuf/JSON consistency (theorems; supersede the `def` above) -/

theorem toJ_slots_isObj (S : Schema) (T : Txt) : ∀ (v : Val) (rem : List Slot),
    toJ S T (.slots rem) v = .onil ∨ ∃ k j tl, toJ S T (.slots rem) v = .ocons k j tl := by
  intro v
  induction v with
  | cons x xs _ ih =>
    intro rem
    cases rem with
    | nil => exact Or.inl (toJ_slots_nil S T _)
    | cons s ss =>
      cases s with
      | one f =>
        rw [toJ_slots_one]
        split
        · exact ih ss
        · exact Or.inr ⟨_, _, _, rfl⟩
      | oneof g alts =>
        rw [toJ_slots_oneof]
        split
        · exact Or.inr ⟨_, _, _, rfl⟩
        · exact ih ss
  | _ => intro rem; left; rw [toJ]; intro s ss x xs h; cases h

/-- **Lossless (JSON).** For every well-formed schema whose reader tables are consistent (`JWF`), every lawful text codec,
every conforming value that is JSON-representable (`jcov`: no field is populated that the reader of its message has no
`case` for — for OTLP only the deprecated scope lists, `C08_json_cases_cover` — and bytes are bytes):
reading back what the marshaler wrote yields the original value with every NaN canonicalised (`normV`; the marshaler
prints `"NaN"`).  Any nesting depth, any one-of alternative, recursive `AnyValue`s included. -/
theorem C08_json_roundtrip (S : Schema) (D : List Val) (T : Txt) (hwf : WF S D = true) (hj : JWF S = true)
    (hT : TxtLaws T) (m : Nat) (v : Val) (hc : Conforms S m v) (hcov : jcov S m (.slots (S.slots m)) v = true) :
    fromJson S T D m (toJson S T m v) = some (normV S (.slots (S.slots m)) v) := by
  have h := jrt_all S T D hT (wf_slots hwf) (jwf_slots hj) (wf_defaults hwf) (.slots (S.slots m)) v m [] []
    (by simp) rfl hc hcov
  simp only [List.nil_append] at h
  have hp := proper_normV_slots S v (S.slots m) (conf_slots_proper S false v _ hc)
  have hd : Val.ofList (List.map (slotDefault D) (S.slots m)) = D.getD m .nil := by
    rw [wf_defaults hwf m, msgDefault]
  rw [hd, ofList_toList _ hp] at h
  rcases toJ_slots_isObj S T v (S.slots m) with ho | ⟨k, j, tl, ho⟩
  · rw [ho] at h; simp only [toJson, fromJson, ho]; exact h
  · rw [ho] at h; simp only [toJson, fromJson, ho]; exact h

/-- **Consistent.** Decoding the JSON form and encoding the result as protobuf gives the bytes of the (NaN-normalised)
original; for a payload without non-canonical NaNs exactly the bytes of the original. -/
theorem C08_consistent (S : Schema) (D : List Val) (T : Txt) (hwf : WF S D = true) (hj : JWF S = true)
    (hT : TxtLaws T) (m : Nat) (v : Val) (hc : Conforms S m v) (hcov : jcov S m (.slots (S.slots m)) v = true) :
    ∃ v', fromJson S T D m (toJson S T m v) = some v' ∧ encode S m v' = encode S m (normV S (.slots (S.slots m)) v) ∧
      (normV S (.slots (S.slots m)) v = v → encode S m v' = encode S m v) :=
  ⟨_, C08_json_roundtrip S D T hwf hj hT m v hc hcov, rfl, fun h => by rw [h]⟩

set_option maxRecDepth 100000 in
/-- the regenerated reader tables are consistent with the regenerated schema: every field that has a `case` is found by
its JSON name at its own slot (no two fields of a message share a JSON/proto name) -/
theorem C08_json_wf : JWF otlp = true := by decide

/-- … in particular for OTLP, all signals and wrappers. -/
theorem C08_json_roundtrip_otlp (T : Txt) (hT : TxtLaws T) (m : Nat) (v : Val) (hc : Conforms otlp m v)
    (hcov : jcov otlp m (.slots (otlp.slots m)) v = true) :
    fromJson otlp T otlpD m (toJson otlp T m v) = some (normV otlp (.slots (otlp.slots m)) v) :=
  C08_json_roundtrip otlp otlpD T C08_schema_wf C08_json_wf hT m v hc hcov

/-! ## non-vacuity: a small schema using every slot discipline, a conforming value with extreme numerics -/
def S0 : Schema := { msgs := [
  { name := "t.Inner", slots := [.one { num := 1, go := "A", json := "a", orig := "a", ty := .u64 }], jsonKeys := ["a"] },
  { name := "t.Outer", slots := [
      .one { num := 1, go := "N", json := "n", orig := "n", ty := .i32 },
      .one { num := 2, go := "In", json := "in", orig := "in", ty := .msg 0, card := .req },
      .one { num := 3, go := "Rs", json := "rs", orig := "rs", ty := .msg 0, card := .rep },
      .oneof "V" [{ num := 4, go := "S", json := "s", orig := "s", ty := .string }, { num := 7, go := "B", json := "b", orig := "b", ty := .bytes }],
      .one { num := 9, go := "P", json := "p", orig := "p", ty := .double, card := .packed }],
    jsonKeys := ["n", "in", "rs", "s", "b", "p"] }], enums := [], roots := [("outer", 1)] }

/-- N = -1, In = {A: 300}, Rs = [{}, {A: 2^64-1}], V = S:"hi", P = [NaN, -0.0] -/
def v0 : Val := Val.ofList [.num (2 ^ 32 - 1), Val.ofList [.num 300], Val.ofList [Val.ofList [.num 0], Val.ofList [.num (2 ^ 64 - 1)]],
  Val.ofList [.num 4, .bytes [104, 105]], Val.ofList [.num 0x7FF8000000000001, .num (2 ^ 63)]]

example : WF S0 (defaults S0) = true := by decide
example : Conforms S0 1 v0 := by
  simp [Conforms, v0, S0, Schema.slots, Val.ofList, conf, leafOk, scalarOk, packedOk, findAlt]
example : decode S0 (defaults S0) 1 (encode S0 1 v0) = some v0 :=
  C08_pb_roundtrip S0 (defaults S0) (by decide) 1 v0
    (by simp [Conforms, v0, S0, Schema.slots, Val.ofList, conf, leafOk, scalarOk, packedOk, findAlt])
    (by rw [← C08_size]; simp [size, v0, S0, Schema.slots, Val.ofList, sz, findAlt, leafSize, scalarSize, packedSize, isZero, isScalar, wireType, Val.isCons, sext32]; simp [sov])

end OtelVerif.C08
