import OtelVerif.Model.C08
/-! C08 property theorems (stub) -/
namespace OtelVerif.C08
end OtelVerif.C08
