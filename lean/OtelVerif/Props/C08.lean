import OtelVerif.Gen.OtlpSchemaX
import OtelVerif.Lemmas.C08
import OtelVerif.Lemmas.C08Json
import OtelVerif.Lemmas.C08Dec
import OtelVerif.Lemmas.C08Mig
import OtelVerif.Lemmas.C08Txt
import OtelVerif.Lemmas.C08Api
import OtelVerif.Lemmas.C08Root
import OtelVerif.Lemmas.C08JFix
import OtelVerif.Gen.OtlpSchema
/-!
# C08 — OTLP protobuf and JSON codecs are lossless, consistent and total

Theorems about the generic codec model of `Model/C08.lean`, for EVERY well-formed schema, every conforming
value (any nesting depth, any repetition count, extreme integers, NaN/Inf bit patterns) and every byte string —
then instantiated at the schema regenerated from `/repo` (`Gen/OtlpSchema.lean`).
-/
namespace OtelVerif.C08
open OtelVerif.Wire OtelVerif.Proto

abbrev otlp : Schema := Gen.OtlpSchema.schema
abbrev otlpD : List Val := defaults otlp

/-! ## the regenerated schema is well formed (tie obligations over `Gen`) -/

set_option maxRecDepth 100000 in
/-- distinct legal field numbers per message, admissible (type, cardinality) pairs, one-of alternatives found by
their number, and `defaults` is the fixed point of "`&T{}` with every `nullable=false` message filled in". -/
theorem C08_schema_wf : WF otlp otlpD = true := by decide +kernel

/-! ## size -/

/-- `Size()` equals the length of `Marshal()` — for every schema and EVERY value tree (no conformance needed). -/
theorem C08_size (S : Schema) (m : Nat) (v : Val) : size S m v = (encode S m v).length :=
  sz_eq_length S _ v

/-! ## protobuf round trip -/

theorem wf_slots {S : Schema} {D : List Val} (h : WF S D = true) (m : Nat) :
    slotsOkFrom (S.slots m) (S.slots m) 0 = true := by
  simp only [WF, Bool.and_eq_true, List.all_eq_true] at h
  simp only [Schema.slots]
  cases hm : S.msgs[m]? with
  | none => simp [slotsOkFrom]
  | some msg => simpa using h.1.1 msg (List.mem_of_getElem? hm)

theorem wf_defaults {S : Schema} {D : List Val} (h : WF S D = true) (sub : Nat) :
    D.getD sub .nil = msgDefault D (S.slots sub) := by
  simp only [WF, Bool.and_eq_true, DefaultsOk, beq_iff_eq, defaultsStep] at h
  have hD := h.1.2
  simp only [Schema.slots]
  have : D[sub]? = (S.msgs[sub]?).map (fun m => msgDefault D m.slots) := by
    conv => lhs; rw [← hD]
    simp
  rw [List.getD_eq_getElem?_getD, this]
  cases S.msgs[sub]? <;> simp [msgDefault, Val.ofList]

/-- **Lossless (protobuf).** For every well-formed schema and every conforming value, decoding what the marshaler
produced yields exactly the original value.  (`hlen`: a Go slice is shorter than 2^63 bytes.) -/
theorem C08_pb_roundtrip (S : Schema) (D : List Val) (hwf : WF S D = true) (m : Nat) (v : Val)
    (hc : Conforms S m v) (hlen : (encode S m v).length < 2 ^ 63) :
    decode S D m (encode S m v) = some v := by
  have h := rt_all S D (wf_slots hwf) (wf_defaults hwf) (.slots (S.slots m)) v m [] [] [] (by simp) rfl hc hlen
  simp only [List.nil_append, List.append_nil] at h
  rw [decode, encode, wf_defaults hwf m, msgDefault, h, decMsg_nil,
    ofList_toList v (conf_slots_proper S false v _ hc)]

/-- … in particular for the schema regenerated from the Go sources of `/repo`, all signals and wrappers. -/
theorem C08_pb_roundtrip_otlp (m : Nat) (v : Val) (hc : Conforms otlp m v) (hlen : (encode otlp m v).length < 2 ^ 63) :
    decode otlp otlpD m (encode otlp m v) = some v :=
  C08_pb_roundtrip otlp otlpD C08_schema_wf m v hc hlen

/-- consequently the marshaler is injective on conforming values (two different payloads never share an encoding) -/
theorem C08_pb_injective (S : Schema) (D : List Val) (hwf : WF S D = true) (m : Nat) (v w : Val)
    (hv : Conforms S m v) (hw : Conforms S m w) (hl : (encode S m v).length < 2 ^ 63)
    (he : encode S m v = encode S m w) : v = w := by
  have h1 := C08_pb_roundtrip S D hwf m v hv hl
  have h2 := C08_pb_roundtrip S D hwf m w hw (he ▸ hl)
  rw [he, h2] at h1
  exact (Option.some.inj h1).symm

/-- SUPERSEDED by `C08_total_fixpoint` / `C08_total_fixpoint_root` (kept because theorems are never removed; it is still counted as
an obligation but adds nothing). **Fixed point (partial).** Whatever conforming value a decode returns re-encodes to a fixed point: decoding the
re-encoding returns the same value, and encoding that again the same bytes.  PARTIAL: that the decoder's result is
canonical (`Conforms`, up to the `-0.0` of plain double fields) is checked on the implementation by the harness
(`C08/total/not-a-fixpoint-*`) and on the model by the differential, not proved here.  Totality of the model decoder
is by construction (`decMsg` is a total terminating function on every byte list); absence of panics/hangs of the Go
code is observed by the harness on the malformed streams. -/
theorem superseded_total_fixpoint_partial (S : Schema) (D : List Val) (hwf : WF S D = true) (m : Nat) (b : Bytes) (v : Val)
    (_hd : decode S D m b = some v) (hc : Conforms S m v) (hlen : (encode S m v).length < 2 ^ 63) :
    decode S D m (encode S m v) = some v ∧
    ∀ v', decode S D m (encode S m v) = some v' → encode S m v' = encode S m v := by
  have h := C08_pb_roundtrip S D hwf m v hc hlen
  exact ⟨h, fun v' hv' => by rw [h] at hv'; rw [← Option.some.inj hv']⟩

/-! ### the full statement fails on the pinned tree: a Go-nil bytes alternative is not written -/

/-- index of `common.AnyValue` in the regenerated schema -/
def anyValueIdx : Nat := (otlp.msgs.findIdx? (fun m => m.name == "common.AnyValue")).getD 0

/-- what `pcommon.NewValueBytes()` / `Value.SetEmptyBytes()` build: alternative 7 selected, Go-nil slice -/
def nilBytesValue : Val := .cons (.cons (.num 7) .nil) .nil
/-- the empty `AnyValue` (`ValueTypeEmpty`) -/
def emptyValue : Val := .cons .nil .nil

/-- lossless for every shape the public API can build -/
def C08_pb_roundtrip_full : Prop :=
  ∀ m v, ApiShape otlp m v → (encode otlp m v).length < 2 ^ 63 → decode otlp otlpD m (encode otlp m v) = some v

set_option maxRecDepth 100000 in
/-- read off the regenerated schema: `AnyValue` is a single one-of whose alternative 7 is a `bytes` field -/
theorem anyValue_shape : ∃ g alts a, otlp.slots anyValueIdx = [Slot.oneof g alts] ∧ findAlt alts 7 = some a ∧ a.ty = .bytes := by
  have h : (match otlp.slots anyValueIdx with
      | [Slot.oneof _ alts] => (match findAlt alts 7 with | some a => a.ty == .bytes | none => false)
      | _ => false) = true := by decide +kernel
  split at h
  · next g alts hs =>
    split at h
    · next a ha => exact ⟨g, alts, a, hs, ha, by simpa using h⟩
    · simp at h
  · simp at h

theorem nilBytes_encodes_empty : encode otlp anyValueIdx nilBytesValue = [] := by
  obtain ⟨g, alts, a, hs, _, _⟩ := anyValue_shape
  rw [encode, hs, nilBytesValue, enc_slots_cons, enc_slots_nil]
  rw [enc]
  · rfl
  · intro k p h; cases h

set_option maxRecDepth 100000 in
/-- kernel-checked witness: an API-built empty-bytes value and the empty value have the same (empty) encoding, so the
bytes value comes back as `ValueTypeEmpty`.  Replayed on the real code by corpus case 1 of the harness
(`C08/pb/roundtrip/oneof-nil-bytes-not-encoded`). -/
theorem C08_pb_roundtrip_full_fails : ¬ C08_pb_roundtrip_full := by
  intro h
  have hshape : ApiShape otlp anyValueIdx nilBytesValue := by
    obtain ⟨g, alts, a, hs, ha, hty⟩ := anyValue_shape
    rw [ApiShape, hs, nilBytesValue]
    simp [conf, ha, hty]
  have := h anyValueIdx nilBytesValue hshape (by rw [nilBytes_encodes_empty]; decide)
  rw [nilBytes_encodes_empty, decode, decMsg_nil] at this
  have hd : otlpD.getD anyValueIdx .nil = emptyValue := by decide +kernel
  rw [hd] at this
  exact absurd (Option.some.inj this) (by decide)


/-! ## JSON -/

def fieldsOf (m : Msg) : List Field :=
  m.slots.flatMap (fun s => match s with | .one f => [f] | .oneof _ alts => alts)

/-- (message, Go field) pairs whose JSON name or proto name is NOT a `case` label of the message's hand-written reader -/
def uncovered (S : Schema) : List (String × String) :=
  S.msgs.flatMap (fun m => (fieldsOf m).filterMap (fun f =>
    if m.jsonKeys.contains f.json && m.jsonKeys.contains f.orig then none else some (m.name, f.go)))

set_option maxRecDepth 100000 in
/-- **Every field has its `case`, in both spellings** — a tie obligation over the regenerated reader tables.
The only fields the JSON readers do not know are the three deprecated scope lists, which the public API cannot set
(and which `otlp.Migrate*` clears on every decode path).  A reader that forgets a field (as `plog` did for
`event_name`, `pmetric` for `zero_threshold`) makes this theorem fail to check. -/
theorem C08_json_cases_cover :
    uncovered otlp = [("logs.ResourceLogs", "DeprecatedScopeLogs"), ("metrics.ResourceMetrics", "DeprecatedScopeMetrics"),
      ("trace.ResourceSpans", "DeprecatedScopeSpans")] := by decide +kernel

theorem parseInt_dec (T : Txt) (h : DecLaws T) (signed : Bool) (w n : Nat)
    (hn : n < (if signed then 2 ^ (w - 1) else 2 ^ w)) : parseInt T signed w (T.dec n) = some n := by
  unfold parseInt
  split
  · next ds heq => exact absurd heq (h.dec_nosign n ds)
  · next ds heq => exact absurd heq (h.dec_noplus n ds)
  · simp [h.undec_dec, hn]

/-- **64-bit integers as strings or as numbers — same result** (`json.ReadInt64/ReadUint64`, `pdata/internal/json/number.go`).
Round 2: the model now has the TWO branches of the code — `NumberValue → iter.ReadInt64/ReadUint64` (jsoniter's digit loop
`parseNum`, with the library's own overflow test) and `StringValue → strconv.ParseInt/ParseUint` (`parseInt`) — so this is no
longer `rfl`.  For each of the four 64-bit types and EVERY text `t`: if the STRING spelling `"t"` is accepted and `t` is
also a legal JSON number token (`jsonIntLit`: optional `-`, then `0` or a digit string without leading zero — the texts
that can be written both ways), the NUMBER spelling `t` is accepted with the same result.  (The former statement "for every
text, equal" is false for the code as it is: see `C08_json_int64_variants_alltext_fails`.) -/
theorem C08_json_int64_variants (S : Schema) (ffmt : Nat → List Nat) (fparse : List Nat → Option Nat) (ty : Ty) (t : List Nat)
    (hty : ty = .u64 ∨ ty = .i64 ∨ ty = .fixed64 ∨ ty = .sfixed64) (hlit : jsonIntLit t = true) (x : Val)
    (hs : readLeaf S (mkTxtF ffmt fparse) ty (.str t) = some x) :
    readLeaf S (mkTxtF ffmt fparse) ty (.num t) = some x := by
  rcases hty with h | h | h | h <;> subst h <;> simp only [readLeaf, Option.map_eq_some_iff] at hs ⊢ <;>
    obtain ⟨n, hn, hx⟩ := hs
  · exact ⟨n, parseNum_of_parseInt _ _ false 64 t n (by decide) hlit hn, hx⟩
  · exact ⟨n, parseNum_of_parseInt _ _ true 64 t n (by decide) hlit hn, hx⟩
  · exact ⟨n, parseNum_of_parseInt _ _ false 64 t n (by decide) hlit hn, hx⟩
  · exact ⟨n, parseNum_of_parseInt _ _ true 64 t n (by decide) hlit hn, hx⟩

/-- the same for the 32-bit readers (`json.ReadInt32/ReadUint32`) -/
theorem C08_json_int32_variants (S : Schema) (ffmt : Nat → List Nat) (fparse : List Nat → Option Nat) (ty : Ty) (t : List Nat)
    (hty : ty = .u32 ∨ ty = .i32 ∨ ty = .fixed32) (hlit : jsonIntLit t = true) (x : Val)
    (hs : readLeaf S (mkTxtF ffmt fparse) ty (.str t) = some x) :
    readLeaf S (mkTxtF ffmt fparse) ty (.num t) = some x := by
  rcases hty with h | h | h <;> subst h <;> simp only [readLeaf, Option.map_eq_some_iff] at hs ⊢ <;>
    obtain ⟨n, hn, hx⟩ := hs
  · exact ⟨n, parseNum_of_parseInt _ _ false 32 t n (by decide) hlit hn, hx⟩
  · exact ⟨n, parseNum_of_parseInt _ _ true 32 t n (by decide) hlit hn, hx⟩
  · exact ⟨n, parseNum_of_parseInt _ _ false 32 t n (by decide) hlit hn, hx⟩

/-- non-vacuity of the two theorems above: `-9223372036854775808` is a JSON integer literal the string branch accepts -/
example : jsonIntLit (str "-9223372036854775808") = true ∧
    readLeaf otlp (mkTxtF (fun _ => []) (fun _ => none)) .i64 (.str (str "-9223372036854775808")) = some (.num (2 ^ 63)) := by
  constructor <;> decide +kernel

/-- … and `4294967295` for the 32-bit readers -/
example : jsonIntLit (str "4294967295") = true ∧
    readLeaf otlp (mkTxtF (fun _ => []) (fun _ => none)) .u32 (.str (str "4294967295")) = some (.num (2 ^ 32 - 1)) := by
  constructor <;> decide +kernel

/-- OBSERVATION (not a violation of the property, which speaks of 64-bit integers): the statement "for EVERY text the two
spellings give the same result" is false for the code as it is, in both directions — (a) jsoniter's overflow test
(`value*10+d < value` after wrap-around) misses `27670116110564327420 > 2^64`: the NUMBER is accepted as
`9223372036854775804` while the STRING is a range error; (b) `strconv.ParseInt` accepts a leading `+` and leading zeros,
which are not JSON numbers.  Kernel-checked witnesses; the harness replays them on the real readers (`intspell` block). -/
theorem C08_json_int64_variants_alltext_fails :
    ¬ (∀ (t : List Nat), readLeaf otlp (mkTxtF (fun _ => []) (fun _ => none)) .u64 (.num t)
        = readLeaf otlp (mkTxtF (fun _ => []) (fun _ => none)) .u64 (.str t)) := by
  intro h
  have := h (str "27670116110564327420")
  revert this
  decide +kernel

/-- **The NUMBER branch is exact on every in-range literal** (jsoniter's digit loop, whose overflow test is incomplete, never
mis-reads a number that fits): for every JSON natural-number literal `t` (`0` or digits without leading zero) of value `n < 2^64`,
`json.ReadUint64` on the number token `t` returns `n`; and for `n < 2^63`, `json.ReadInt64` returns `n` on `t` and `-n` on `-t`. -/
theorem C08_json_int64_number_exact (S : Schema) (T : Txt) (t : List Nat) (n : Nat) (hl : natLit t = true)
    (hv : undecDigits t = some n) :
    (n < 2 ^ 64 → readLeaf S T .u64 (.num t) = some (.num n)) ∧
    (n < 2 ^ 63 → readLeaf S T .i64 (.num t) = some (.num n) ∧
      readLeaf S T .i64 (.num (45 :: t)) = some (.num ((2 ^ 64 - n) % 2 ^ 64))) := by
  have hns := natLit_noSign t hl
  constructor
  · intro hn
    have hj := jiterUint_of_undec 64 t n hl hv hn
    simp only [readLeaf, parseNum]
    split
    · exact absurd rfl (hns.1 _)
    · simp [hj]
  · intro hn
    have hj := jiterUint_of_undec 64 t n hl hv (by omega)
    constructor
    · simp only [readLeaf, parseNum]
      split
      · exact absurd rfl (hns.1 _)
      · have : ¬ (n ≥ 2 ^ (64 - 1)) := by omega
        simp [hj, this]
    · have : ¬ (n > 2 ^ (64 - 1)) := by omega
      simp [readLeaf, parseNum, hj, this]

/-- non-vacuity: `18446744073709551615` is such a literal -/
example : natLit (str "18446744073709551615") = true ∧ undecDigits (str "18446744073709551615") = some (2 ^ 64 - 1) := by
  constructor <;> decide +kernel

/-- **Both spellings of every 64-bit integer literal give that integer** — the clause of the property, for ARBITRARY literals (not
only the marshaler's own text): for every JSON natural-number literal `t` of value `n`, `n < 2^64` ⇒ the `uint64` readers return
`n` for the number `t` and for the string `"t"`; `n < 2^63` ⇒ the `int64` readers return `n` for `t` / `"t"` and `-n` for `-t` / `"-t"`
(number branch: jsoniter; string branch: strconv — two different functions). -/
theorem C08_json_int64_literal_agree (S : Schema) (ffmt : Nat → List Nat) (fparse : List Nat → Option Nat) (t : List Nat) (n : Nat)
    (hl : natLit t = true) (hv : undecDigits t = some n) :
    (n < 2 ^ 64 → readLeaf S (mkTxtF ffmt fparse) .u64 (.num t) = some (.num n) ∧
                  readLeaf S (mkTxtF ffmt fparse) .u64 (.str t) = some (.num n)) ∧
    (n < 2 ^ 63 → (readLeaf S (mkTxtF ffmt fparse) .i64 (.num t) = some (.num n) ∧
                   readLeaf S (mkTxtF ffmt fparse) .i64 (.str t) = some (.num n)) ∧
                  (readLeaf S (mkTxtF ffmt fparse) .i64 (.num (45 :: t)) = some (.num ((2 ^ 64 - n) % 2 ^ 64)) ∧
                   readLeaf S (mkTxtF ffmt fparse) .i64 (.str (45 :: t)) = some (.num ((2 ^ 64 - n) % 2 ^ 64)))) := by
  have hns := natLit_noSign t hl
  have hstr : ∀ (signed : Bool), n < (if signed then 2 ^ 63 else 2 ^ 64) →
      parseInt (mkTxtF ffmt fparse) signed 64 t = some n := by
    intro signed hn
    unfold parseInt
    split
    · exact absurd rfl (hns.1 _)
    · exact absurd rfl (hns.2 _)
    · simp only [mkTxtF, hv]
      cases signed <;> simp at hn ⊢ <;> omega
  constructor
  · intro hn
    have hj := jiterUint_of_undec 64 t n hl hv hn
    refine ⟨?_, by simp [readLeaf, hstr false (by simpa using hn)]⟩
    simp only [readLeaf, parseNum]
    split
    · exact absurd rfl (hns.1 _)
    · simp [hj]
  · intro hn
    have hj := jiterUint_of_undec 64 t n hl hv (by omega)
    refine ⟨⟨?_, by simp [readLeaf, hstr true (by simpa using hn)]⟩, ?_, ?_⟩
    · simp only [readLeaf, parseNum]
      split
      · exact absurd rfl (hns.1 _)
      · have : ¬ (n ≥ 2 ^ (64 - 1)) := by omega
        simp [hj, this]
    · have : ¬ (n > 2 ^ (64 - 1)) := by omega
      simp [readLeaf, parseNum, hj, this]
    · have : n ≤ 2 ^ (64 - 1) := by omega
      simp [readLeaf, parseInt, mkTxtF, hv, this]

/-- non-vacuity: `9223372036854775807` (and hence `-9223372036854775807`) is such a literal -/
example : natLit (str "9223372036854775807") = true ∧ undecDigits (str "9223372036854775807") = some (2 ^ 63 - 1) := by
  constructor <;> decide +kernel

/-- … and both spellings of EVERY 64-bit value, written as the marshaler writes it (unsigned / signed decimal), decode to
that value — through the two different branches. -/
theorem C08_json_int64_value (S : Schema) (T : Txt) (h : DecLaws T) (n : Nat) (hn : n < 2 ^ 64) :
    (readLeaf S T .u64 (.num (T.dec n)) = some (.num n) ∧ readLeaf S T .u64 (.str (T.dec n)) = some (.num n)) ∧
    (readLeaf S T .i64 (.num (sdec T 64 n)) = some (.num n) ∧ readLeaf S T .i64 (.str (sdec T 64 n)) = some (.num n)) := by
  have h1 := parseInt_dec T h false 64 n (by simpa using hn)
  have h2 := parseNum_dec' T h false 64 n (by decide) (by simpa using hn)
  have h3 := parseInt_sdec T h 64 n (by decide) hn
  have h4 := parseNum_sdec T h 64 n (by decide) hn
  simp [readLeaf, h1, h2, h3, h4]

/-- **Enum values as numbers or as names — same result** (`json.ReadEnumValue`), for every enum of every schema:
the name of a value and its decimal number decode to the same stored value. -/
theorem C08_json_enum_variants (S : Schema) (T : Txt) (h : DecLaws T) (e : Nat) (en : EnumT) (name : String) (val : Nat)
    (he : S.enums[e]? = some en)
    (hf : en.values.find? (fun p => str p.1 == str name) = some (name, val)) (hv : val < 2 ^ 31) :
    readLeaf S T (.enum e) (.str (str name)) = some (.num val) ∧
    readLeaf S T (.enum e) (.num (T.dec val)) = some (.num val) := by
  have := parseNum_dec' T h true 32 val (by decide) (by simpa using hv)
  simp [readLeaf, enumByName, he, hf, this]

set_option maxRecDepth 100000 in
/-- non-vacuity: in the regenerated schema every enum name is found by `find?` at its own value and all values fit -/
theorem C08_json_enum_names_ok :
    otlp.enums.all (fun en => en.values.all (fun p =>
      (en.values.find? (fun q => str q.1 == str p.1)).map (·.2) == some p.2 && decide (p.2 < 2 ^ 31))) = true := by decide +kernel

/-- DEAD / SUPERSEDED definition (kept only because nothing is removed): the theorems `C08_json_roundtrip*`, `C08_consistent`,
`C08_wrappers_*` below are the statements.  The full JSON statements; proved at field level above, at message level tied by the byte/value-exact differential
(`jenc`/`jdec` ops) and the harness oracles (`C08/json/roundtrip/*`, `C08/json/pb-inconsistent/*`).  PARTIAL: the
message-level induction for `fromJ ∘ toJ` (same shape as `rt_all`) is not written. -/
def C08_json_roundtrip_full : Prop :=
  ∀ (T : Txt), DecLaws T → ∀ m v, Conforms otlp m v →
    ∃ v', fromJson otlp T otlpD m (toJson otlp T m v) = some v' ∧ encode otlp m v' = encode otlp m (canon otlp (.slots (otlp.slots m)) v)


/-! ## JSON: message-level round trip and protobuf/JSON consistency (theorems; supersede the `def` above) -/

theorem toJ_slots_isObj (S : Schema) (T : Txt) : ∀ (v : Val) (rem : List Slot),
    toJ S T (.slots rem) v = .onil ∨ ∃ k j tl, toJ S T (.slots rem) v = .ocons k j tl := by
  intro v
  induction v with
  | cons x xs _ ih =>
    intro rem
    cases rem with
    | nil => exact Or.inl (toJ_slots_nil S T _)
    | cons s ss =>
      cases s with
      | one f =>
        rw [toJ_slots_one]
        split
        · exact ih ss
        · exact Or.inr ⟨_, _, _, rfl⟩
      | oneof g alts =>
        rw [toJ_slots_oneof]
        split
        · exact Or.inr ⟨_, _, _, rfl⟩
        · exact ih ss
  | _ => intro rem; left; rw [toJ]; intro s ss x xs h; cases h

/-- **Lossless (JSON).** For every well-formed schema whose reader tables are consistent (`JWF`), every lawful text codec,
every conforming value that is JSON-representable (`jcov`: no field is populated that the reader of its message has no
`case` for — for OTLP only the deprecated scope lists, `C08_json_cases_cover` — and bytes are bytes):
reading back what the marshaler wrote yields the original value with every NaN canonicalised (`normV`; the marshaler
prints `"NaN"`).  Any nesting depth, any one-of alternative, recursive `AnyValue`s included. -/
theorem C08_json_roundtrip (S : Schema) (D : List Val) (T : Txt) (hwf : WF S D = true) (hj : JWF S = true)
    (hT : TxtLaws T) (m : Nat) (v : Val) (hc : Conforms S m v) (hcov : jcov S m (.slots (S.slots m)) v = true) :
    fromJson S T D m (toJson S T m v) = some (normV S (.slots (S.slots m)) v) := by
  have h := jrt_all S T D hT (wf_slots hwf) (jwf_slots hj) (wf_defaults hwf) (.slots (S.slots m)) v m [] []
    (by simp) rfl hc hcov
  simp only [List.nil_append] at h
  have hp := proper_normV_slots S v (S.slots m) (conf_slots_proper S false v _ hc)
  have hd : Val.ofList (List.map (slotDefault D) (S.slots m)) = D.getD m .nil := by
    rw [wf_defaults hwf m, msgDefault]
  rw [hd, ofList_toList _ hp] at h
  rcases toJ_slots_isObj S T v (S.slots m) with ho | ⟨k, j, tl, ho⟩
  · rw [ho] at h; simp only [toJson, fromJson, ho]; exact h
  · rw [ho] at h; simp only [toJson, fromJson, ho]; exact h

/-- **Consistent.** Decoding the JSON form and encoding the result as protobuf gives the bytes of the (NaN-normalised)
original; for a payload without non-canonical NaNs exactly the bytes of the original. -/
theorem C08_consistent (S : Schema) (D : List Val) (T : Txt) (hwf : WF S D = true) (hj : JWF S = true)
    (hT : TxtLaws T) (m : Nat) (v : Val) (hc : Conforms S m v) (hcov : jcov S m (.slots (S.slots m)) v = true) :
    ∃ v', fromJson S T D m (toJson S T m v) = some v' ∧ encode S m v' = encode S m (normV S (.slots (S.slots m)) v) ∧
      (normV S (.slots (S.slots m)) v = v → encode S m v' = encode S m v) :=
  ⟨_, C08_json_roundtrip S D T hwf hj hT m v hc hcov, rfl, fun h => by rw [h]⟩

/-- one message of the reader-table check -/
abbrev jwfAt (m : Nat) : Bool := jslotsOkFrom otlp m (otlp.slots m) (otlp.slots m) 0

-- the check is split into chunks of 15 messages so that the kernel evaluations run in parallel
set_option maxRecDepth 100000 in
theorem jwf_chunk0 : ∀ k, k < 15 → jwfAt k = true := by decide +kernel
set_option maxRecDepth 100000 in
theorem jwf_chunk1 : ∀ k, k < 15 → jwfAt (15 + k) = true := by decide +kernel
set_option maxRecDepth 100000 in
theorem jwf_chunk2 : ∀ k, k < 15 → jwfAt (30 + k) = true := by decide +kernel
set_option maxRecDepth 100000 in
theorem jwf_chunk3 : ∀ k, k < 15 → jwfAt (45 + k) = true := by decide +kernel
set_option maxRecDepth 100000 in
theorem jwf_chunk4 : ∀ k, k < otlp.msgs.length - 60 → jwfAt (60 + k) = true := by decide +kernel

/-- the regenerated reader tables are consistent with the regenerated schema: every field that has a `case` is found by
its JSON name at its own slot (no two fields of a message share a JSON/proto name) -/
theorem C08_json_wf : JWF otlp = true := by
  simp only [JWF, List.all_eq_true, List.mem_range]
  intro m hm
  by_cases h0 : m < 15
  · exact jwf_chunk0 m h0
  · by_cases h1 : m < 30
    · have := jwf_chunk1 (m - 15) (by omega); rwa [show 15 + (m - 15) = m by omega] at this
    · by_cases h2 : m < 45
      · have := jwf_chunk2 (m - 30) (by omega); rwa [show 30 + (m - 30) = m by omega] at this
      · by_cases h3 : m < 60
        · have := jwf_chunk3 (m - 45) (by omega); rwa [show 45 + (m - 45) = m by omega] at this
        · have := jwf_chunk4 (m - 60) (by omega); rwa [show 60 + (m - 60) = m by omega] at this

/-- … in particular for OTLP, all signals and wrappers. -/
theorem C08_json_roundtrip_otlp (T : Txt) (hT : TxtLaws T) (m : Nat) (v : Val) (hc : Conforms otlp m v)
    (hcov : jcov otlp m (.slots (otlp.slots m)) v = true) :
    fromJson otlp T otlpD m (toJson otlp T m v) = some (normV otlp (.slots (otlp.slots m)) v) :=
  C08_json_roundtrip otlp otlpD T C08_schema_wf C08_json_wf hT m v hc hcov


/-! ## total: whatever decodes successfully is canonical and re-encodes to a fixed point (no `_partial`) -/

set_option maxRecDepth 100000 in
/-- no `nullable=false` embedding cycle in the regenerated schema (ranking computed by iteration, checked by `decide`) -/
theorem C08_schema_rank : reqRankOk otlp (reqRanks otlp) = true := by decide +kernel

/-- **The decoder's result is canonical**, for EVERY byte string: it has the decoder shape (`confD`: every slot filled, scalars
within their Go width, ids empty-or-n-bytes, one-ofs well formed at any depth), and what the API observes of it (`canon`:
a stored `-0.0` of a plain double field reads as `+0.0`) is a conforming value. -/
theorem C08_decode_canonical (S : Schema) (D : List Val) (r : List Nat) (hwf : WF S D = true) (hr : reqRankOk S r = true)
    (m : Nat) (b : Bytes) (v : Val) (hd : decode S D m b = some v) :
    confD S (.slots (S.slots m)) v = true ∧ Conforms S m (canon S (.slots (S.slots m)) v) := by
  have hdef : ∀ sub, confD S (.slots (S.slots sub)) (D.getD sub .nil) = true :=
    fun sub => defaults_confD S D r (wf_slots hwf) (wf_defaults hwf) hr _ sub (Nat.le_refl _)
  have h := decMsg_confD S D (wf_slots hwf) hdef b.length b (Nat.le_refl _) m _ v (hdef m) hd
  exact ⟨h, canon_conf S _ v h⟩

/-- **Fixed point.** For every byte string that decodes, re-encoding the result gives bytes `b1` such that decoding `b1`
succeeds and yields the canonical value `c`, `c` encodes to `b1` again, and decoding that returns `c` again:
`decode ∘ encode` is stationary after one step, at value and at byte level.  (`hlen`: Go slice length.) -/
theorem C08_total_fixpoint (S : Schema) (D : List Val) (r : List Nat) (hwf : WF S D = true) (hr : reqRankOk S r = true)
    (m : Nat) (b : Bytes) (v : Val) (hd : decode S D m b = some v) (hlen : (encode S m v).length < 2 ^ 63) :
    encode S m (canon S (.slots (S.slots m)) v) = encode S m v ∧
    decode S D m (encode S m v) = some (canon S (.slots (S.slots m)) v) ∧
    decode S D m (encode S m (canon S (.slots (S.slots m)) v)) = some (canon S (.slots (S.slots m)) v) := by
  obtain ⟨_, hc⟩ := C08_decode_canonical S D r hwf hr m b v hd
  have he : encode S m (canon S (.slots (S.slots m)) v) = encode S m v := canon_enc S _ v
  have hrt := C08_pb_roundtrip S D hwf m _ hc (by rw [he]; exact hlen)
  exact ⟨he, by rw [← he]; exact hrt, hrt⟩

/-- … for OTLP: every byte string offered to any of the protobuf unmarshalers. -/
theorem C08_total_fixpoint_otlp (m : Nat) (b : Bytes) (v : Val) (hd : decode otlp otlpD m b = some v)
    (hlen : (encode otlp m v).length < 2 ^ 63) :
    decode otlp otlpD m (encode otlp m v) = some (canon otlp (.slots (otlp.slots m)) v) ∧
    decode otlp otlpD m (encode otlp m (canon otlp (.slots (otlp.slots m)) v)) = some (canon otlp (.slots (otlp.slots m)) v) :=
  (C08_total_fixpoint otlp otlpD _ C08_schema_wf C08_schema_rank m b v hd hlen).2


/-! ## migration of the deprecated scope fields; export request / response wrappers -/

/-- **`otlp.Migrate*` is idempotent** on every payload whose deprecated list slot holds a list (true of every decoder result
and every API value) — for any schema in which fields 2 and 1000 of the resource message are different slots. -/
theorem C08_migrate_idem (S : Schema) (m : Nat) (v : Val)
    (h : ∀ f rest r, S.slots m = .one f :: rest → f.ty = .msg r → MigOk (S.slots r) (Val.get v 0)) :
    migrate S m (migrate S m v) = migrate S m v := migrate_idem_aux S m v h

/-- … and leaves a payload without deprecated data untouched. -/
theorem C08_migrate_noop (S : Schema) (m : Nat) (v : Val)
    (h : ∀ f rest r, S.slots m = .one f :: rest → f.ty = .msg r → ∀ rv, rv ∈ Val.toList (Val.get v 0) →
      (∀ d, slotIdx (S.slots r) 1000 = some d → Val.get rv d = .nil) ∧
      (∀ i, slotIdx (S.slots r) 2 = some i → chainy (Val.get rv i))) :
    migrate S m v = v := migrate_noop_aux S m v h

set_option maxRecDepth 100000 in
/-- in the regenerated schema the regular (2) and the deprecated (1000) scope list are different slots of every message
that has both -/
theorem C08_migrate_slots_distinct :
    otlp.msgs.all (fun msg => match slotIdx msg.slots 2, slotIdx msg.slots 1000 with
      | some i, some d => i != d
      | _, _ => true) = true := by decide +kernel

/-- **Wrappers, protobuf.** For every root (the four `*Data` payloads, the four `Export*ServiceRequest`s — which run
`otlp.Migrate*` after `Unmarshal` — and the four `Export*ServiceResponse`s): decoding what the wrapper marshalled returns the
original, for every conforming payload without deprecated data (`migrate v = v`, see `C08_migrate_noop`). -/
theorem C08_wrappers_pb (S : Schema) (D : List Val) (hwf : WF S D = true) (root : String) (m : Nat) (v : Val)
    (hc : Conforms S m v) (hlen : (encode S m v).length < 2 ^ 63) (hm : migratesPb root = true → migrate S m v = v) :
    decodeRoot S D root m (encode S m v) = some v := by
  rw [decodeRoot, C08_pb_roundtrip S D hwf m v hc hlen]
  cases hr : migratesPb root
  · simp
  · simp [hm hr]

/-- **Wrappers, JSON.** The same through `MarshalJSON` / `UnmarshalJSON` of every root, up to NaN canonicalisation. -/
theorem C08_wrappers_json (S : Schema) (D : List Val) (T : Txt) (hwf : WF S D = true) (hj : JWF S = true) (hT : TxtLaws T)
    (root : String) (m : Nat) (v : Val) (hc : Conforms S m v) (hcov : jcov S m (.slots (S.slots m)) v = true)
    (hm : migratesJson root = true → migrate S m (normV S (.slots (S.slots m)) v) = normV S (.slots (S.slots m)) v) :
    fromJsonRoot S T D root m (toJson S T m v) = some (normV S (.slots (S.slots m)) v) := by
  rw [fromJsonRoot, C08_json_roundtrip S D T hwf hj hT m v hc hcov]
  cases hr : migratesJson root
  · simp
  · simp [hm hr]


/-! ## the text codecs, concretely: only float64 ↔ text stays a hypothesis -/

/-- **Decimal, hex and base64 are proved**: the model's concrete codecs (`strconv` decimal integers, `encoding/hex`,
`encoding/base64` std with padding — the ones the driver runs against the real code) satisfy every law the JSON theorems
use, for all naturals and all byte strings; what remains a hypothesis is the float64 text pair. -/
theorem C08_txt_laws (ffmt : Nat → List Nat) (fparse : List Nat → Option Nat) (h : FloatLaws ffmt fparse) :
    TxtLaws (mkTxtF ffmt fparse) where
  undec_dec := undec_dec
  dec_nosign := dec_nosign
  dec_noplus := dec_noplus
  jnum_dec := jiter_dec
  fparse_ffmt := h.fparse_ffmt
  fparse_nan := h.fparse_nan
  fparse_pinf := h.fparse_pinf
  fparse_ninf := h.fparse_ninf
  unb64_b64 := b64Read_b64enc
  unhex_hex := hexDec_hexEnc
  hex_length := hexEnc_length
  hex_noquote := hexEnc_noquote

/-! ## the non-float text leaves, as the code does them: nothing assumed (ids in hex, bytes in base64) -/

/-- **Trace/span/profile ids in JSON, as `pdata/internal/data/{traceid,spanid,profileid,bytesid}.go` do it**, for an id type of ANY
size `n` and every `n`-byte id `p` (all-zero included): (1) `UnmarshalJSON(MarshalJSON p) = p` — the zero id through `""`, any
other through its `2n` LOWER-case hex digits; (2) the same with the literal quotes `MarshalJSON` returns; (3) UPPER-case digits are
accepted with the same result (`hex.Decode`); (4) a non-empty text is REJECTED when `len/2 ≠ n` (too short, too long), when its
length is odd, or when it holds a non-hex byte; (5) the model's id reader composed with the model's id writer (canonical form:
zero id ≡ empty) is the identity — `readLeaf` is `idUnmarshalJSON` by `readLeaf_id_eq`. No hypothesis about a text codec. -/
theorem C08_hexid_roundtrip (n : Nat) (p : List Nat) (hl : p.length = n) (hb : bytesOk p = true) :
    idUnmarshalJSON n (idMarshalJSON p) = some p ∧
    idUnmarshalJSON n (34 :: idMarshalJSON p ++ [34]) = some p ∧
    idUnmarshalJSON n ((idMarshalJSON p).map hexUp) = some p ∧
    (∀ t, (stripQuotes t).isEmpty = false →
      ((stripQuotes t).length / 2 ≠ n ∨ (stripQuotes t).length % 2 = 1 ∨ ∃ c ∈ stripQuotes t, hexVal c = none) →
      idUnmarshalJSON n t = none) ∧
    (∀ (S : Schema) (ffmt : Nat → List Nat) (fparse : List Nat → Option Nat),
      readLeaf S (mkTxtF ffmt fparse) (.id n) (leafJson (mkTxtF ffmt fparse) (.id n) (.bytes (if allZero p then [] else p)))
        = some (.bytes (if allZero p then [] else p))) := by
  have hrt := idJSON_roundtrip n p hl hb
  refine ⟨hrt, ?_, ?_, ?_, ?_⟩
  · -- quoted
    have : idUnmarshalJSON n (34 :: idMarshalJSON p ++ [34]) = idUnmarshalJSON n (idMarshalJSON p) := by
      have hs : stripQuotes (idMarshalJSON p) = idMarshalJSON p := by
        unfold idMarshalJSON; split
        · rfl
        · exact hexEnc_noquote p
      simp only [idUnmarshalJSON, stripQuotes_quoted, hs]
    rw [this]; exact hrt
  · -- upper case
    by_cases hz : allZero p = true
    · have : (idMarshalJSON p).map hexUp = idMarshalJSON p := by simp [idMarshalJSON, hz]
      rw [this]; exact hrt
    · have hm : idMarshalJSON p = hexEnc p := by simp [idMarshalJSON, hz]
      have hs : stripQuotes ((hexEnc p).map hexUp) = (hexEnc p).map hexUp := by
        apply stripQuotes_noquote
        cases p with
        | nil => simp [hexEnc]
        | cons x xs => simp [hexEnc, hexChar_up_ne_quote]
      have hs0 : stripQuotes (hexEnc p) = hexEnc p := hexEnc_noquote p
      rw [hm] at hrt ⊢
      simp only [idUnmarshalJSON, hs, hs0, List.isEmpty_map, List.length_map, hexDec_map_hexUp] at hrt ⊢
      exact hrt
  · -- rejections
    intro t hne hbad
    simp only [idUnmarshalJSON, hne, Bool.false_eq_true, if_false]
    rcases hbad with h | h | ⟨c, hc, hv⟩
    · have : n ≠ (stripQuotes t).length / 2 := fun hh => h hh.symm
      simp [this]
    · split
      · rfl
      · exact hexDec_odd _ h
    · split
      · rfl
      · cases hd : hexDec (stripQuotes t) with
        | none => rfl
        | some b => have := hexDec_hexchars _ b hd c hc; simp [hv] at this
  · intro S ffmt fparse
    have : leafJson (mkTxtF ffmt fparse) (.id n) (.bytes (if allZero p then [] else p)) = .str (idMarshalJSON p) := by
      unfold idMarshalJSON
      by_cases hz : allZero p = true <;> simp [hz, leafJson, mkTxtF, hexEnc]
    rw [this, readLeaf_id_eq, hrt]; rfl


/-- … instantiated at the REGENERATED id sizes (`Gen.OtlpSchemaX.idTypes`: TraceID 16, SpanID 8, ProfileID 16) -/
theorem C08_hexid_roundtrip_otlp (ty : String) (n : Nat) (_h : (ty, n) ∈ Gen.OtlpSchemaX.idTypes) (p : List Nat)
    (hl : p.length = n) (hb : bytesOk p = true) : idUnmarshalJSON n (idMarshalJSON p) = some p :=
  (C08_hexid_roundtrip n p hl hb).1

/-- non-vacuity: a span id with a single non-zero byte, and the zero trace id -/
example : ("data.SpanID", 8) ∈ Gen.OtlpSchemaX.idTypes ∧ idMarshalJSON [0, 0, 0, 0, 0, 0, 0, 171] = str "00000000000000ab" ∧
    idUnmarshalJSON 8 (str "00000000000000AB") = some [0, 0, 0, 0, 0, 0, 0, 171] ∧
    idUnmarshalJSON 16 (idMarshalJSON (List.replicate 16 0)) = some (List.replicate 16 0) := by decide +kernel

/-- **base64, as the reader does it** — for EVERY byte string, no length bound: `DecodeString(EncodeToString b) = b`; `\r`/`\n` are
ignored wherever they stand; a text whose length (without them) is not a multiple of four — in particular an UNPADDED one — is
rejected; so is any character outside the std alphabet, in particular the url-safe `-` and `_`; and the model's `bytes` reader is
exactly this function on the string content (`null` ↦ empty). -/
theorem C08_base64_roundtrip (b : List Nat) (hb : bytesOk b = true) :
    b64Read (b64enc b) = some b ∧
    (∀ pre post, b64Read (pre ++ 10 :: post) = b64Read (pre ++ post) ∧ b64Read (pre ++ 13 :: 10 :: post) = b64Read (pre ++ post)) ∧
    (∀ t, (t.filter (fun c => c != 10 && c != 13)).length % 4 ≠ 0 → b64Read t = none) ∧
    (∀ t c, c ∈ t → c ≠ 10 → c ≠ 13 → c ≠ 61 → b64val c = none → b64Read t = none) ∧
    (b64val 45 = none ∧ b64val 95 = none ∧ b64val 32 = none) ∧
    (∀ (S : Schema) (ffmt : Nat → List Nat) (fparse : List Nat → Option Nat) (t : List Nat),
      readLeaf S (mkTxtF ffmt fparse) .bytes (.str t) = (b64Read t).map .bytes) ∧
    (∀ (S : Schema) (ffmt : Nat → List Nat) (fparse : List Nat → Option Nat),
      readLeaf S (mkTxtF ffmt fparse) .bytes (leafJson (mkTxtF ffmt fparse) .bytes (.bytes b)) = some (.bytes b)) := by
  refine ⟨b64Read_b64enc b hb, ?_, ?_, ?_, by decide, ?_, ?_⟩
  · intro pre post
    constructor <;> simp [b64Read, List.filter_append, List.filter_cons]
  · intro t hlen
    cases hd : b64Read t with
    | none => rfl
    | some out => exact absurd (b64dec_len _ out hd) hlen
  · intro t c hc h1 h2 h3 hv
    cases hd : b64Read t with
    | none => rfl
    | some out =>
      rcases b64Read_chars t out hd c hc with h | h | h | h
      · exact absurd h h1
      · exact absurd h h2
      · exact absurd h h3
      · simp [hv] at h
  · intro S ffmt fparse t; rfl
  · intro S ffmt fparse
    simp [readLeaf, leafJson, mkTxtF, b64Read_b64enc b hb]


/-- non-vacuity / the observed reader behaviours, evaluated: padded accepted, unpadded / url-safe / padding-in-the-middle rejected,
`\n` ignored also inside the padding, non-zero trailing bits tolerated -/
example : b64Read (str "QUI=") = some [65, 66] ∧ b64Read (str "QUI") = none ∧ b64Read (str "-_-_") = none ∧
    b64Read (str "QQ==QUJD") = none ∧ b64Read [81, 81, 61, 10, 61] = some [65] ∧ b64Read (str "QR==") = some [65] := by decide +kernel

/-- JSON round trip for OTLP with the concrete codecs: the only assumption left is the float text law. -/
theorem C08_json_roundtrip_otlp_concrete (ffmt : Nat → List Nat) (fparse : List Nat → Option Nat) (h : FloatLaws ffmt fparse)
    (m : Nat) (v : Val) (hc : Conforms otlp m v) (hcov : jcov otlp m (.slots (otlp.slots m)) v = true) :
    fromJson otlp (mkTxtF ffmt fparse) otlpD m (toJson otlp (mkTxtF ffmt fparse) m v)
      = some (normV otlp (.slots (otlp.slots m)) v) :=
  C08_json_roundtrip_otlp _ (C08_txt_laws ffmt fparse h) m v hc hcov

/-- 64-bit integers at the extremes survive both spellings (what the seeded "read through float64" defect breaks) -/
theorem C08_json_int64_extremes (S : Schema) (ffmt : Nat → List Nat) (fparse : List Nat → Option Nat) :
    ∀ n ∈ [2 ^ 53 + 1, 2 ^ 63 - 1, 2 ^ 63, 2 ^ 64 - 1],
      readLeaf S (mkTxtF ffmt fparse) .u64 (.num (decDigits n)) = some (.num n) ∧
      readLeaf S (mkTxtF ffmt fparse) .i64 (.str (sdec (mkTxtF ffmt fparse) 64 n)) = some (.num n) := by
  intro n hn
  have hd : DecLaws (mkTxtF ffmt fparse) := ⟨undec_dec, dec_nosign, dec_noplus, jiter_dec⟩
  have hlt : n < 2 ^ 64 := by
    simp only [List.mem_cons, List.mem_nil_iff, or_false] at hn
    rcases hn with h | h | h | h <;> subst h <;> decide
  exact ⟨(C08_json_int64_value S _ hd n hlt).1.1, (C08_json_int64_value S _ hd n hlt).2.2⟩


/-! ## malformed ids are rejected (never written past the destination) -/

/-- **Wrong-length id ⇒ error.** A trace/span/profile id whose text (after the optional pair of literal quotes the reader
strips) is non-empty and not exactly `2·n` characters — too long by any amount, too short, odd — is rejected by the id
reader, whatever its characters; for every text codec. (`bytesid.go unmarshalJSON`: `len(dst) != hex.DecodedLen(nLen)`.) -/
theorem C08_json_id_wrong_length (S : Schema) (T : Txt) (n : Nat) (b : List Nat)
    (h0 : (stripQuotes b).isEmpty = false) (hl : (stripQuotes b).length ≠ 2 * n) :
    readLeaf S T (.id n) (.str b) = none := by
  simp [readLeaf, h0, hl]

/-- … and so is the whole document: a member whose key selects an id field and whose value has the wrong length makes
`fromJ` fail (no partial result, no out-of-range write), wherever it sits in the message. -/
theorem C08_json_bad_id_rejected (S : Schema) (T : Txt) (D : List Val) (m : Nat) (acc : Val) (k b : List Nat) (tl : Json)
    (hit : Hit) (n : Nat)
    (hkey : (jsonKeysOf S m).any (fun s => str s == k) = true) (hfind : findKey (S.slots m) 0 k = some hit)
    (hty : hit.f.ty = .id n) (halt : hit.alt = false) (hcard : hit.f.card = .req)
    (h0 : (stripQuotes b).isEmpty = false) (hl : (stripQuotes b).length ≠ 2 * n) :
    fromJ S T D m acc (.ocons k (.str b) tl) = none := by
  rw [fromJ_step S T D m acc k _ tl hit hkey hfind]
  simp [slotRead, hty, halt, hcard, C08_json_id_wrong_length S T n b h0 hl]


/-! ## unknown members: skipped, but not unread (`iter.Skip()` of jsoniter's strict build validates numbers) -/

/-- **An unknown member is skipped exactly when `iter.Skip()` accepts its value**: for a key no `case` of the reader names, the
member contributes nothing to the result and the rest of the object is read — unless the value (at any depth) holds a number
literal that the fast scanner hands to `ReadFloat64` and that `strconv.ParseFloat` rejects (an exponent literal beyond the
float64 range, e.g. `1e400`), in which case the WHOLE document is an error, not a panic and not a partial result. -/
theorem C08_json_unknown_member (S : Schema) (T : Txt) (D : List Val) (m : Nat) (acc : Val) (k : List Nat) (v tl : Json)
    (hkey : (jsonKeysOf S m).any (fun s => str s == k) = false) :
    fromJ S T D m acc (.ocons k v tl) = if skipOk T v then fromJ S T D m acc tl else none := by
  rw [fromJ]
  simp only [jsonKeysOf] at hkey
  simp only [hkey, Bool.not_false, if_true]

/-- a number literal without an exponent mark (digits, sign, one dot) is never handed to the float reader: skipping it cannot
fail, whatever its magnitude (`12345678901234567890123` in an unknown member is fine) -/
theorem C08_json_skip_plain_number (T : Txt) (t : List Nat) (h : skipNeedsFloat t = false) : skipOk T (.num t) = true := by
  simp [skipOk, h]

/-- strings, `true` / `false` / `null`, empty containers always skip; containers skip iff every value inside does -/
theorem C08_json_skip_structural (T : Txt) (b k : List Nat) (h v t : Json) :
    skipOk T (.str b) = true ∧ skipOk T .null = true ∧ skipOk T .tt = true ∧ skipOk T .ff = true ∧
    skipOk T .anil = true ∧ skipOk T .onil = true ∧
    skipOk T (.acons h t) = (skipOk T h && skipOk T t) ∧ skipOk T (.ocons k v t) = (skipOk T v && skipOk T t) := by
  simp [skipOk]

/-- non-vacuity (tests, labelled as tests): `1e400` and `1E+2` go to the float reader, `5`, `-7`, `2.5` and a 23-digit integer do not;
with a float reader that rejects everything, an unknown member `1e400` fails the object and `2.5` does not -/
example : skipNeedsFloat (str "1e400") = true ∧ skipNeedsFloat (str "1E+2") = true ∧ skipNeedsFloat (str "5") = false ∧
    skipNeedsFloat (str "-7") = false ∧ skipNeedsFloat (str "2.5") = false ∧
    skipNeedsFloat (str "12345678901234567890123") = false := by decide

/-! ## the size formula of the generated code -/

/-- **`sovX(x) = (bits.Len64(x|1)+6)/7` is the varint byte count**, for every `x`: the `sov` summands of `C08_size` are the
formula the generated `Size()` evaluates (`bitLen` = `bits.Len64`). -/
theorem C08_sov_formula (n : Nat) : sovBits n = sov n ∧ sovBits n = (varint n).length := by
  rw [sovBits_eq_sov, varint_length]; exact ⟨rfl, rfl⟩

/-! ## payloads built through the public API: the OTLP instances without side hypotheses -/

set_option maxRecDepth 100000 in
/-- regenerated reader tables: every field that is not a `Deprecated*` repeated list has its `case` (both in a one-of or plain) -/
theorem C08_api_cov : covOk otlp = true := by decide +kernel

set_option maxRecDepth 100000 in
/-- wherever a message has field 1000 it is a `Deprecated*` repeated list and field 2 is a repeated list -/
theorem C08_api_mig_shape : migShapeOk otlp = true := by decide +kernel

set_option maxRecDepth 100000 in
/-- every root on which some decode path migrates starts with the repeated resource list -/
theorem C08_api_roots : otlp.roots.all (fun rm => !(migratesPb rm.1 || migratesJson rm.1) ||
    (match otlp.slots rm.2 with | .one f :: _ => f.card == .rep | _ => false)) = true := by decide +kernel

/-- **`jcov` is derived**: a payload built through the public API is JSON-representable, for every schema whose readers cover
all non-deprecated fields. -/
theorem C08_api_jcov (S : Schema) (hcov : covOk S = true) (m : Nat) (v : Val)
    (ha : apiVal S (.slots (S.slots m)) v = true) : jcov S m (.slots (S.slots m)) v = true :=
  jcov_of_apiVal S (fun m s hs => covOk_mem hcov m s hs) m _ v ha (fun s hs => covOk_mem hcov m s hs)

/-- **JSON round trip for OTLP, no side hypothesis**: every payload built through the public pdata API (`ApiBuilt`: canonical,
`Deprecated*` never populated because no accessor reaches it, bytes are bytes) of every signal / wrapper message comes back
from `UnmarshalJSON(MarshalJSON(v))` as `v` with NaNs canonicalised. -/
theorem C08_json_roundtrip_otlp_api (T : Txt) (hT : TxtLaws T) (m : Nat) (v : Val) (h : ApiBuilt otlp m v) :
    fromJson otlp T otlpD m (toJson otlp T m v) = some (normV otlp (.slots (otlp.slots m)) v) :=
  C08_json_roundtrip_otlp T hT m v h.1 (C08_api_jcov otlp C08_api_cov m v h.2)

/-- **All public entry points, both codecs, no side hypothesis**: for every root of the regenerated schema (the four payloads,
the four export requests, the four export responses) and every payload built through the public API, the protobuf entry point
returns the payload and the JSON entry point returns it with NaNs canonicalised — `otlp.Migrate*`, which every decode path
now runs, is a no-op on such payloads (derived, not assumed). -/
theorem C08_wrappers_otlp_api (T : Txt) (hT : TxtLaws T) (root : String) (m : Nat) (hroot : (root, m) ∈ otlp.roots)
    (v : Val) (h : ApiBuilt otlp m v) (hlen : (encode otlp m v).length < 2 ^ 63) :
    decodeRoot otlp otlpD root m (encode otlp m v) = some v ∧
    fromJsonRoot otlp T otlpD root m (toJson otlp T m v) = some (normV otlp (.slots (otlp.slots m)) v) := by
  have hr := C08_api_roots
  simp only [List.all_eq_true] at hr
  have hrm := hr (root, m) hroot
  simp only [Bool.or_eq_true, Bool.not_eq_true', Bool.or_eq_false_iff] at hrm
  have hfirst : (migratesPb root = true ∨ migratesJson root = true) →
      ∀ f rest, otlp.slots m = .one f :: rest → f.card = .rep := by
    intro hmig f rest hs
    rcases hrm with ⟨h1, h2⟩ | h3
    · rcases hmig with hh | hh
      · rw [h1] at hh; cases hh
      · rw [h2] at hh; cases hh
    · rw [hs] at h3; simpa using h3
  constructor
  · exact C08_wrappers_pb otlp otlpD C08_schema_wf root m v h.1 hlen
      (fun hm => migrate_noop_api otlp C08_api_mig_shape m v (hfirst (Or.inl hm)) h.1 h.2)
  · exact C08_wrappers_json otlp otlpD T C08_schema_wf C08_json_wf hT root m v h.1
      (C08_api_jcov otlp C08_api_cov m v h.2)
      (fun hm => migrate_noop_api otlp C08_api_mig_shape m _ (hfirst (Or.inr hm))
        (conf_normV otlp _ v h.1) (apiVal_normV otlp _ v h.2))


/-! ## ids are values with a zero test: a non-zero id is always written -/

/-- **Non-zero id ⇒ encoded, in both codecs.** For an id field (`TraceID`/`SpanID`/`ProfileID`, always `nullable=false`) holding
a conforming non-empty value `b` — i.e. exactly `n` bytes, NOT all zero, wherever the non-zero byte sits (one-hot at any
position, high half zero, low half zero) — the protobuf marshaler writes tag, length and all `n` bytes, and the JSON
marshaler writes the hex string of all `n` bytes.  (The canonical form makes "empty" and "all zero" the same value, which is
what `IsEmpty` must compute: any byte non-zero ⇒ not empty.) -/
theorem C08_id_nonzero_encoded (S : Schema) (T : Txt) (f : Field) (n : Nat) (b : List Nat)
    (hty : f.ty = .id n) (hcard : f.card = .req) (hb : b ≠ [])
    (hc : conf S false (.slot (.one f)) (.bytes b) = true) :
    b.length = n ∧ allZero b = false ∧
    enc S (.slot (.one f)) (.bytes b) = tag f.num 2 ++ lenPrefixed b ∧
    toJ S T (.slot (.one f)) (.bytes b) = .str (T.hex b) := by
  have hty' : ∀ sub, f.ty ≠ .msg sub := by intro sub h; rw [hty] at h; cases h
  rw [conf_slot_one] at hc
  simp only [hcard] at hc
  rw [conf_elem_leaf S f _ hty', hty] at hc
  simp only [leafOk, Bool.or_eq_true, Bool.and_eq_true, beq_iff_eq, Bool.not_eq_true', List.isEmpty_iff] at hc
  rcases hc with h0 | ⟨hl, hz⟩
  · exact absurd h0 hb
  · refine ⟨hl, hz, ?_, ?_⟩
    · have : enc S (.slot (.one f)) (.bytes b) = enc S (.elem f) (.bytes b) := by
        (conv => lhs; rw [enc]); simp [hcard]
      rw [this, enc_elem_leaf S f _ hty', hty]; simp [wireType, leaf, isScalar]
    · rw [toJ_slot_one]; simp only [hcard]
      rw [toJ_elem_leaf S T f _ hty', hty]; rfl


/-! ## fixed point through the PUBLIC protobuf entry points (`decodeRoot = otlp.Migrate* ∘ Unmarshal`) -/

set_option maxRecDepth 100000 in
/-- wherever a message has fields 2 and 1000 they are different repeated slots of the same element type -/
theorem C08_migrate_shape2 : migShape2Ok otlp = true := by decide +kernel

/-- **Fixed point at root level, for EVERY byte string** — including inputs that carry the deprecated scope field 1000, on which
`otlp.Migrate*` really moves data: if the public entry point of `root` decodes `b` to `w`, then re-encoding `w` gives bytes whose
decoding *through the same entry point* (Unmarshal, then migration again) is the canonical observation `c = canon w`; `c` encodes
to the same bytes and decodes to itself.  Composes `C08_decode_canonical`, `confD_migrate` (migration keeps the decoder shape),
`migrate_canon_migrate` (stationarity through migration) and `C08_pb_roundtrip`. -/
theorem C08_total_fixpoint_root (S : Schema) (D : List Val) (r : List Nat) (hwf : WF S D = true) (hr : reqRankOk S r = true)
    (hsh : migShape2Ok S = true) (root : String) (m : Nat)
    (hfirst : migratesPb root = true → ∀ f rest, S.slots m = .one f :: rest → f.card = .rep)
    (b : Bytes) (w : Val) (hd : decodeRoot S D root m b = some w) (hlen : (encode S m w).length < 2 ^ 63) :
    encode S m (canon S (.slots (S.slots m)) w) = encode S m w ∧
    decodeRoot S D root m (encode S m w) = some (canon S (.slots (S.slots m)) w) ∧
    decodeRoot S D root m (encode S m (canon S (.slots (S.slots m)) w)) = some (canon S (.slots (S.slots m)) w) := by
  simp only [decodeRoot, Option.map_eq_some_iff] at hd
  obtain ⟨v, hv, hw⟩ := hd
  obtain ⟨hcv, _⟩ := C08_decode_canonical S D r hwf hr m b v hv
  have he : encode S m (canon S (.slots (S.slots m)) w) = encode S m w := canon_enc S _ w
  cases hmig : migratesPb root
  · -- no migration on this root
    simp only [hmig, Bool.false_eq_true, if_false] at hw
    subst hw
    have hc := canon_conf S _ v hcv
    have hrt := C08_pb_roundtrip S D hwf m _ hc (by rw [he]; exact hlen)
    refine ⟨he, ?_, ?_⟩ <;> simp only [decodeRoot, hmig, Bool.false_eq_true, if_false]
    · rw [← he, hrt]; rfl
    · rw [hrt]; rfl
  · simp only [hmig, if_true] at hw
    subst hw
    have hf := hfirst hmig
    have hcw := confD_migrate S hsh m v hf hcv
    have hc := canon_conf S _ _ hcw
    have hrt := C08_pb_roundtrip S D hwf m _ hc (by rw [he]; exact hlen)
    have hst := migrate_canon_migrate S hsh m v hf hcv
    refine ⟨he, ?_, ?_⟩ <;> simp only [decodeRoot, hmig, if_true]
    · rw [← he, hrt]; simp only [Option.map_some]; rw [hst]
    · rw [hrt]; simp only [Option.map_some]; rw [hst]

/-- … for every public protobuf entry point of OTLP (4 payload unmarshalers, 4 export requests, 4 export responses). -/
theorem C08_total_fixpoint_root_otlp (root : String) (m : Nat) (hroot : (root, m) ∈ otlp.roots) (b : Bytes) (w : Val)
    (hd : decodeRoot otlp otlpD root m b = some w) (hlen : (encode otlp m w).length < 2 ^ 63) :
    decodeRoot otlp otlpD root m (encode otlp m w) = some (canon otlp (.slots (otlp.slots m)) w) ∧
    decodeRoot otlp otlpD root m (encode otlp m (canon otlp (.slots (otlp.slots m)) w))
      = some (canon otlp (.slots (otlp.slots m)) w) := by
  have hr := C08_api_roots
  simp only [List.all_eq_true] at hr
  have hrm := hr (root, m) hroot
  simp only [Bool.or_eq_true, Bool.not_eq_true', Bool.or_eq_false_iff] at hrm
  have hfirst : migratesPb root = true → ∀ f rest, otlp.slots m = .one f :: rest → f.card = .rep := by
    intro hmig f rest hs
    rcases hrm with ⟨h1, _⟩ | h3
    · rw [h1] at hmig; cases hmig
    · rw [hs] at h3; simpa using h3
  exact (C08_total_fixpoint_root otlp otlpD _ C08_schema_wf C08_schema_rank C08_migrate_shape2 root m hfirst b w hd hlen).2


/-! ## the readers, clause by clause (static tie) -/

set_option maxRecDepth 100000 in
/-- **Every `case` of every hand-written JSON reader assigns the field named by its labels, through the `Read*` helper the model
assumes for that field's type**: regenerated per clause by the translator (labels, assigned Go field, helper calls) and decided
against the schema — `label ↦ field`, `64-bit ↦ json.ReadInt64/ReadUint64`, `enum ↦ json.ReadEnumValue`, `bytes ↦ base64`,
`id ↦ UnmarshalJSON`, `sint32 ↦ iter.ReadInt32`, repeated ↦ `ReadArrayCB`, message ↦ its reader.  A clause that writes another
field (`droppedLinksCount` into `DroppedEventsCount`), reads an enum with `ReadInt32`, or bytes with `ReadStringAsSlice`
(three of the five repaired defects) no longer type-checks here, before any input is generated. -/
theorem C08_json_readers_typed : readersOk otlp Gen.OtlpSchema.readers = true := by decide +kernel


set_option maxRecDepth 100000 in
/-- **Unknown members are skipped by every reader** (round 2; tie for the `fromJ` branch `if !(keys.any …) then fromJ … tl`):
regenerated per reader — the `default:` clause of the key switch is exactly `iter.Skip()` on the callback's iterator and the
callback's only `return` is the trailing `return true` (a reader that stops at, or does not consume, an unknown member fails
here statically; dynamically the `mixed` variant stream adds unknown members to every message). One entry per message. -/
theorem C08_json_readers_skip_unknown :
    List.all Gen.OtlpSchemaX.readerDefaults (fun r => r.2.1 == "skip" && r.2.2) = true ∧
    List.map (·.1) Gen.OtlpSchemaX.readerDefaults = otlp.msgs.map (·.name) := by
  constructor <;> decide +kernel

/-- **Id sizes are regenerated** (round 2): the `n` of every `Ty.id n` field of the schema is the `const <x>Size` of its Go customtype
in `pdata/internal/data/{traceid,spanid,profileid}.go` (the translator also pins the straight-line code of their six methods and of
`bytesid.go` to the shape `Ty.id` models: `Size`/`IsEmpty`/`MarshalTo`/`Unmarshal`/`MarshalJSON`/`UnmarshalJSON`, exit 2 otherwise);
here: three id types, and every id field of the schema has one of their sizes. -/
theorem C08_id_sizes_tie :
    List.map (·.1) Gen.OtlpSchemaX.idTypes = ["data.ProfileID", "data.SpanID", "data.TraceID"] ∧
    otlp.msgs.all (fun m => (fieldsOf m).all (fun f => match f.ty with
      | .id n => (List.map (·.2) Gen.OtlpSchemaX.idTypes).contains n
      | _ => true)) = true := by
  constructor <;> decide +kernel


set_option maxRecDepth 100000 in
/-- **Per-package copies of the varint helpers** (round 2): every `*.pb.go` carries its own `encodeVarint<X>` / `sov<X>` /
`soz<X>` / `skip<X>`; the model has ONE `varint` / `sov` (`C08_sov_formula`) / `skipLoop`.  The translator compares each copy,
suffix renamed away, with the shape the model was written against (exit 2 otherwise) and lists the packages that passed; here:
every message of the schema lives in such a package, and every listed package has a message.  (Dynamically: the
`sizeboundary` block drives 2- and 3-byte length prefixes through a message of every package of every root.) -/
theorem C08_pb_helpers_tie :
    otlp.msgs.all (fun m => List.any Gen.OtlpSchemaX.pbHelperPkgs (fun p => (p ++ ".").toList.isPrefixOf m.name.toList)) = true ∧
    List.all Gen.OtlpSchemaX.pbHelperPkgs (fun p => otlp.msgs.any (fun m => (p ++ ".").toList.isPrefixOf m.name.toList)) = true := by
  constructor <;> decide +kernel


/-- **The jsonpb configuration `toJ` models** (round 2): the `jsonpb.Marshaler{…}` literal of `pdata/internal/json/json.go`, regenerated —
enums as numbers (`EnumsAsInts: true`), lowerCamel names (`OrigName` absent or false), defaults omitted (`EmitDefaults` absent or
false), no indentation, no other field (an `AnyResolver`, say); `json.Marshal` is `marshaler.Marshal(out, pb)` (translator, exit 2). -/
theorem C08_jsonpb_config_tie :
    List.lookup "EnumsAsInts" Gen.OtlpSchemaX.jsonpbConfig = some "true" ∧
    (List.lookup "OrigName" Gen.OtlpSchemaX.jsonpbConfig).getD "false" = "false" ∧
    (List.lookup "EmitDefaults" Gen.OtlpSchemaX.jsonpbConfig).getD "false" = "false" ∧
    (List.lookup "Indent" Gen.OtlpSchemaX.jsonpbConfig).getD "\"\"" = "\"\"" ∧
    List.all Gen.OtlpSchemaX.jsonpbConfig (fun kv => ["EnumsAsInts", "OrigName", "EmitDefaults", "Indent"].contains kv.1) = true := by
  decide +kernel


/-! ## OBSERVATION about the bit-exact reading: `-0.0` in a plain proto3 double field comes back as `+0.0`

Not a violation of the property: payload equality is Go's `==` / `reflect.DeepEqual`, under which `-0.0 == +0.0`, and proto3 does not
serialise a zero default.  The canonical form `Conforms` identifies the two, exactly like `==`; the theorem below records precisely
what that identification gives up. -/

/-- index of `metrics.SummaryDataPoint_ValueAtQuantile` (two plain doubles: `quantile`, `value`) -/
def quantileIdx : Nat := (otlp.msgs.findIdx? (fun m => m.name == "metrics.SummaryDataPoint_ValueAtQuantile")).getD 0

/-- `ValueAtQuantile{Quantile: -0.0, Value: 0}` as the decoder / the setters store it -/
def negZeroQuantile : Val := .cons (.num (2 ^ 63)) (.cons (.num 0) .nil)

/-- lossless **bit for bit** for every decoder-shaped value (`confD` admits the stored `-0.0`; `Conforms` excludes it) -/
def C08_pb_bitwise_full : Prop :=
  ∀ m v, confD otlp (.slots (otlp.slots m)) v = true → (encode otlp m v).length < 2 ^ 63 →
    decode otlp otlpD m (encode otlp m v) = some v

set_option maxRecDepth 100000 in
theorem quantile_shape : ∃ f1 f2, otlp.slots quantileIdx = [.one f1, .one f2] ∧
    f1.card = .opt ∧ f1.ty = .double ∧ f2.card = .opt ∧ f2.ty = .double := by
  have h : (match otlp.slots quantileIdx with
      | [.one f1, .one f2] => f1.card == .opt && f1.ty == .double && f2.card == .opt && f2.ty == .double
      | _ => false) = true := by decide +kernel
  split at h
  · next f1 f2 hs =>
    simp only [Bool.and_eq_true, beq_iff_eq] at h
    exact ⟨f1, f2, hs, h.1.1.1, h.1.1.2, h.1.2, h.2⟩
  · cases h

theorem negZero_encodes_empty : encode otlp quantileIdx negZeroQuantile = [] := by
  obtain ⟨f1, f2, hs, hc1, ht1, hc2, ht2⟩ := quantile_shape
  rw [encode, hs, negZeroQuantile, enc_slots_cons, enc_slots_cons, enc_slots_nil]
  have h1 : enc otlp (.slot (.one f1)) (.num (2 ^ 63)) = [] := by
    (conv => lhs; rw [enc]); simp [hc1, ht1, isZero]
  have h2 : enc otlp (.slot (.one f2)) (.num 0) = [] := by
    (conv => lhs; rw [enc]); simp [hc2, ht2, isZero]
  rw [h1, h2]; rfl

set_option maxRecDepth 100000 in
/-- **Observation (kernel-checked), not a finding**: under a BIT-EXACT reading of "equal" the round trip would fail — the generated
marshaler tests a plain double with `!= 0`, which is false for `-0.0`, so the field is not written and comes back as `+0.0`
(`SummaryDataPoint.sum`, `ValueAtQuantile.quantile/value`, `ExponentialHistogramDataPoint.zero_threshold`).  The property's
equality is Go's `==`, which identifies the two zeros, so this is outside the statement; the harness counts it as
`stat negative_zero_sign_lost` (corpus case 4) and raises nothing.  NaN is different: `==` does not identify NaNs, so the
protobuf theorems and oracles compare NaN bit patterns exactly, and the JSON ones up to `normV` (both NaN). -/
theorem C08_pb_bitwise_full_fails : ¬ C08_pb_bitwise_full := by
  intro h
  obtain ⟨f1, f2, hs, hc1, ht1, hc2, ht2⟩ := quantile_shape
  have hconf : confD otlp (.slots (otlp.slots quantileIdx)) negZeroQuantile = true := by
    rw [hs, negZeroQuantile, confD_slots_cons, confD_slots_cons, confD_slots_nil, confD_slot_one, confD_slot_one]
    simp [hc1, hc2, ht1, ht2, leafOk, scalarOk]
  have := h quantileIdx negZeroQuantile hconf (by rw [negZero_encodes_empty]; decide)
  rw [negZero_encodes_empty, decode, decMsg_nil] at this
  have hd : otlpD.getD quantileIdx .nil = .cons (.num 0) (.cons (.num 0) .nil) := by decide +kernel
  rw [hd] at this
  exact absurd (Option.some.inj this) (by decide)


/-! ## which entry points migrate: the hand-written root tables are tied to the callers of `otlp.Migrate*` -/

/-- the resource message of root `m` carries a deprecated field 1000 (otherwise `migrate` is the identity on it) -/
def rootHasDep (S : Schema) (m : Nat) : Bool :=
  match S.slots m with
  | .one f :: _ => (match f.ty with | .msg r => (slotIdx (S.slots r) 1000).isSome | _ => false)
  | _ => false

set_option maxRecDepth 100000 in
/-- `migratesPb` / `migratesJson` (Model) agree with the REGENERATED lists of decode entry points that call `otlp.Migrate*`
(`ProtoUnmarshaler.Unmarshal*`, `JSONUnmarshaler.Unmarshal*`, `ExportRequest.UnmarshalProto/UnmarshalJSON`), on every root on which
migration can do anything.  An entry point that forgets `Migrate*` (as `pmetricotlp` and the plain `ProtoUnmarshaler`s did) makes
this fail statically. -/
theorem C08_migrate_roots_tie : otlp.roots.all (fun rm => !rootHasDep otlp rm.2 ||
    (migratesPb rm.1 == Gen.OtlpSchema.migratesPbRoots.contains rm.1 &&
     migratesJson rm.1 == Gen.OtlpSchema.migratesJsonRoots.contains rm.1)) = true := by decide +kernel


/-- steps of the entry point (root, op) in the regenerated table -/
def entrySteps (eps : List (String × String × List String)) (root op : String) : Option (List String) :=
  (eps.find? (fun e => e.1 == root && e.2.1 == op)).map (·.2.2)

/-- the steps of a direct JSON decode entry point: iterator borrowed and returned, the message reader, the error test -/
def jdecBase : List String := ["BorrowIterator", "ReturnIterator", "unmarshalJsoniter", "iter.Error"]

/-- the pipeline `encode` / `size` / `decodeRoot` / `toJson` / `fromJsonRoot` assume for one root -/
def entryOk (S : Schema) (eps : List (String × String × List String)) (rm : String × Nat) : Bool :=
  let root := rm.1
  let dep := rootHasDep S rm.2
  let direct := fun (r : String) (st : List String) =>
    (st == jdecBase || st == jdecBase ++ ["Migrate"]) && (!dep || ((st == jdecBase ++ ["Migrate"]) == migratesJson r))
  entrySteps eps root "pbenc" == some ["Marshal"] &&
  entrySteps eps root "jenc" == some ["json.Marshal"] &&
  (match entrySteps eps root "size" with
   | some st => st == ["Size"]
   | none => true) &&
  (match entrySteps eps root "pbdec" with
   | some st => (st == ["Unmarshal"] || st == ["Unmarshal", "Migrate"]) &&
                (!dep || ((st == ["Unmarshal", "Migrate"]) == migratesPb root))
   | none => false) &&
  (match entrySteps eps root "jdec" with
   | some [d] =>   -- ExportRequest.UnmarshalJSON delegates to the JSONUnmarshaler of its payload: that one must be direct, and migrate alike
     S.roots.any (fun pr => d == "delegate:" ++ pr.1 && migratesJson root == migratesJson pr.1 &&
       (match entrySteps eps pr.1 "jdec" with
        | some st => direct pr.1 st
        | none => false))
   | some st => direct root st
   | none => false)

set_option maxRecDepth 100000 in
/-- **The glue between the modelled core and the public API, entry point by entry point** (round 2): for each of the 12 roots the
translator lists the steps of `ProtoMarshaler.Marshal*` / `*Size` / `ProtoUnmarshaler.Unmarshal*` / `JSONMarshaler.Marshal*` /
`JSONUnmarshaler.Unmarshal*` / `ExportRequest|ExportResponse.{Marshal,Unmarshal}{Proto,JSON}` over a closed vocabulary (an unknown
call is `?name`).  Decided here: marshal = the generated `Marshal` alone (`encode`), size = `Size` alone (`size`; also every
sub-message sizer), JSON marshal = `json.Marshal` alone (`toJson`), protobuf decode = `Unmarshal` then — exactly where
`migratesPb` says — `otlp.Migrate*` (`decodeRoot`), JSON decode = borrow/return the iterator, the message reader, the `iter.Error`
test, then — exactly where `migratesJson` says — `otlp.Migrate*` (`fromJsonRoot`), or a delegation to the payload's
`JSONUnmarshaler` that migrates alike.  Subsumes the caller lists of `C08_migrate_roots_tie` and adds order and exclusivity. -/
theorem C08_entry_points_tie :
    otlp.roots.all (entryOk otlp Gen.OtlpSchemaX.entryPoints) = true ∧
    List.all Gen.OtlpSchemaX.entryPoints (fun e => !("size:".toList.isPrefixOf e.2.1.toList) || e.2.2 == ["Size"]) = true := by
  constructor <;> decide +kernel


/-! ## JSON: whatever decodes successfully re-encodes to a fixed point (every document tree) -/

set_option maxRecDepth 100000 in
/-- ties over the regenerated tables: enum values fit `int32`; a reader with a `case` for a proto name has one for the JSON name; no
reader has a `case` for a deprecated list -/
theorem C08_json_fix_ties : enumsOk otlp = true ∧ keysSymOk otlp = true ∧ depUncovOk otlp = true := by decide +kernel

/-- the concrete decoders return well-formed data; for the float parser that is the (assumed) `fparse_lt` -/
theorem C08_txt_out (ffmt : Nat → List Nat) (fparse : List Nat → Option Nat) (hlt : ∀ t n, fparse t = some n → n < 2 ^ 64) :
    TxtOut (mkTxtF ffmt fparse) where
  fparse_lt := hlt
  unb64_bytes := b64Read_out
  unhex_bytes := hexDec_out

/-- **The JSON readers' results are canonical, for EVERY document tree**: a successful `fromJson` returns a decoder-shaped value
(`confD`) that is JSON-representable (`jcov`: only fields with a `case` were written; bytes are bytes). -/
theorem C08_json_decode_canonical (S : Schema) (D : List Val) (T : Txt) (r : List Nat) (hwf : WF S D = true)
    (hr : reqRankOk S r = true) (hcov : covOk S = true) (hsym : keysSymOk S = true) (he : enumsOk S = true) (hTo : TxtOut T)
    (m : Nat) (j : Json) (v : Val) (hd : fromJson S T D m j = some v) : CJ S m v := by
  have hdef : ∀ sub, CJ S sub (D.getD sub .nil) := fun sub =>
    ⟨defaults_confD S D r (wf_slots hwf) (wf_defaults hwf) hr _ sub (Nat.le_refl _),
     defaults_jcov S D r hcov (wf_defaults hwf) hr _ sub (Nat.le_refl _)⟩
  have H : JHyp S T D := ⟨wf_slots hwf, hsym, hTo, he, hdef⟩
  have hA := (fromJ_CJ S T D H j.size).1 j (Nat.le_refl _) m (D.getD m .nil) v (hdef m)
  cases j <;> simp only [fromJson] at hd <;> first | exact hA hd | cases hd

/-- **Fixed point (JSON).** For every document tree `j` that the reader of message `m` accepts, with result `v`: the API
observation `c = canon v` is conforming, marshalling it and reading it back gives `normV c` (NaNs canonical), and `normV c` is
stationary: marshal → unmarshal returns it unchanged.  Arbitrary JSON, any depth, unknown / duplicate / reordered members, either
spelling — everything `fromJ` models.  (The lexer, i.e. text → tree, is outside: trusted jsoniter.) -/
theorem C08_json_fixpoint (S : Schema) (D : List Val) (T : Txt) (r : List Nat) (hwf : WF S D = true) (hj : JWF S = true)
    (hr : reqRankOk S r = true) (hcov : covOk S = true) (hsym : keysSymOk S = true) (he : enumsOk S = true)
    (hT : TxtLaws T) (hTo : TxtOut T) (m : Nat) (j : Json) (v : Val) (hd : fromJson S T D m j = some v) :
    Conforms S m (canon S (.slots (S.slots m)) v) ∧
    fromJson S T D m (toJson S T m (canon S (.slots (S.slots m)) v))
      = some (normV S (.slots (S.slots m)) (canon S (.slots (S.slots m)) v)) ∧
    fromJson S T D m (toJson S T m (normV S (.slots (S.slots m)) (canon S (.slots (S.slots m)) v)))
      = some (normV S (.slots (S.slots m)) (canon S (.slots (S.slots m)) v)) := by
  obtain ⟨hc, hjc⟩ := C08_json_decode_canonical S D T r hwf hr hcov hsym he hTo m j v hd
  have hconf : Conforms S m (canon S (.slots (S.slots m)) v) := canon_conf S _ v hc
  have hjcan := jcov_canon S _ v m hjc
  have h1 := C08_json_roundtrip S D T hwf hj hT m _ hconf hjcan
  have hconf2 : Conforms S m (normV S (.slots (S.slots m)) (canon S (.slots (S.slots m)) v)) := conf_normV S _ _ hconf
  have hj2 := jcov_normV S _ _ m hconf hjcan
  have h2 := C08_json_roundtrip S D T hwf hj hT m _ hconf2 hj2
  rw [normV_idem] at h2
  exact ⟨hconf, h1, h2⟩

/-- … through the PUBLIC JSON entry points of OTLP (`JSONUnmarshaler.Unmarshal*`, `ExportRequest/Response.UnmarshalJSON`): the
`otlp.Migrate*` they run is the identity on everything a reader returns (no reader has a `case` for a deprecated list), so the
root-level decode of a document equals `fromJson`, and the fixed point above is a fixed point of the entry point. -/
theorem C08_json_fixpoint_root_otlp (T : Txt) (hT : TxtLaws T) (hTo : TxtOut T) (root : String) (m : Nat)
    (hroot : (root, m) ∈ otlp.roots) (j : Json) (w : Val) (hd : fromJsonRoot otlp T otlpD root m j = some w) :
    fromJson otlp T otlpD m j = some w ∧
    fromJsonRoot otlp T otlpD root m (toJson otlp T m (normV otlp (.slots (otlp.slots m)) (canon otlp (.slots (otlp.slots m)) w)))
      = some (normV otlp (.slots (otlp.slots m)) (canon otlp (.slots (otlp.slots m)) w)) := by
  obtain ⟨he, hsym, hdu⟩ := C08_json_fix_ties
  have hr := C08_api_roots
  simp only [List.all_eq_true] at hr
  have hrm := hr (root, m) hroot
  simp only [Bool.or_eq_true, Bool.not_eq_true', Bool.or_eq_false_iff] at hrm
  have hfirst : migratesJson root = true → ∀ f rest, otlp.slots m = .one f :: rest → f.card = .rep := by
    intro hmig f rest hs
    rcases hrm with ⟨_, h2⟩ | h3
    · rw [h2] at hmig; cases hmig
    · rw [hs] at h3; simpa using h3
  have hnoop : ∀ x, CJ otlp m x → (if migratesJson root = true then migrate otlp m x else x) = x := by
    intro x hx
    cases hmig : migratesJson root
    · simp
    · simp only [if_true]; exact migrate_noop_jcov otlp C08_migrate_shape2 hdu m x (hfirst hmig) hx
  simp only [fromJsonRoot, Option.map_eq_some_iff] at hd
  obtain ⟨v, hv, hw⟩ := hd
  have hcj := C08_json_decode_canonical otlp otlpD T _ C08_schema_wf C08_schema_rank C08_api_cov hsym he hTo m j v hv
  rw [hnoop v hcj] at hw
  subst hw
  refine ⟨hv, ?_⟩
  obtain ⟨_, _, h3⟩ := C08_json_fixpoint otlp otlpD T _ C08_schema_wf C08_json_wf C08_schema_rank C08_api_cov hsym he hT hTo m j v hv
  simp only [fromJsonRoot, h3, Option.map_some]
  have hcj2 := C08_json_decode_canonical otlp otlpD T _ C08_schema_wf C08_schema_rank C08_api_cov hsym he hTo m _ _ h3
  rw [hnoop _ hcj2]

/-! ## non-vacuity on the OTLP schema itself: an `ApiBuilt` export response -/

set_option maxRecDepth 100000 in
/-- `ExportLogsServiceResponse{PartialSuccess{RejectedLogRecords: 3, ErrorMessage: "ok"}}` is `ApiBuilt` for the regenerated schema -/
theorem C08_apibuilt_example : ∃ m, otlp.roots.lookup "logsresp" = some m ∧
    ApiBuilt otlp m (.cons (.cons (.num 3) (.cons (.bytes [111, 107]) .nil)) .nil) := by
  have h : (match otlp.roots.lookup "logsresp" with
      | some m => (match otlp.slots m with
        | [.one f] => f.card == .req && !isDep f && (match f.ty with
          | .msg sub => (match otlp.slots sub with
            | [.one a, .one b] => a.card == .opt && a.ty == .i64 && b.card == .opt && b.ty == .string && !isDep a && !isDep b
            | _ => false)
          | _ => false)
        | _ => false)
      | none => false) = true := by decide +kernel
  split at h
  · next m hm =>
    refine ⟨m, hm, ?_⟩
    split at h
    · next f hs =>
      simp only [Bool.and_eq_true, beq_iff_eq, Bool.not_eq_true'] at h
      obtain ⟨⟨hcard, hdep⟩, h3⟩ := h
      split at h3
      · next sub hty =>
        split at h3
        · next a b hss =>
          simp only [Bool.and_eq_true, beq_iff_eq, Bool.not_eq_true'] at h3
          obtain ⟨⟨⟨⟨⟨hca, hta⟩, hcb⟩, htb⟩, hda⟩, hdb⟩ := h3
          constructor
          · rw [Conforms, hs, conf_slots_cons, conf_slots_nil_nil, conf_slot_one]
            simp only [hcard, Bool.and_true]
            rw [conf]; simp only [hty]
            rw [hss, conf_slots_cons, conf_slots_cons, conf_slots_nil_nil, conf_slot_one, conf_slot_one]
            simp [hca, hcb, hta, htb, leafOk, scalarOk]
          · rw [hs, apiVal_slots_cons, apiVal_slot_one]
            simp only [hcard, hdep, Bool.not_false, Bool.true_or, Bool.true_and]
            rw [apiVal_elem_msg otlp f _ sub hty, hss, apiVal_slots_cons, apiVal_slots_cons, apiVal_slot_one, apiVal_slot_one]
            simp only [hca, hcb, hda, hdb, Bool.not_false, Bool.true_or, Bool.true_and]
            rw [apiVal.eq_def]
            simp [hta, htb, apiVal]
        · cases h3
      · cases h3
    · cases h
  · cases h

/-! ## end-to-end: every public entry point refines a small abstract codec specification (round 2)

The property, stated once, abstractly — payloads `V`, protobuf bytes `B`, JSON documents `J` — and the theorem that each of the
12 public entry points of OTLP (payloads, export requests incl. `otlp.Migrate*`, export responses), as modelled by `encode` /
`decodeRoot` / `size` / `toJson` / `fromJsonRoot`, satisfies it.  The clauses of C08 are the fields of `CodecSpec.Holds`; the
theorems above are their proofs. -/

/-- one codec endpoint -/
structure CodecSpec (V B J : Type) where
  /-- payloads of the data model (what the public API can build) whose encoding fits a Go slice -/
  ok : V → Prop
  enc : V → B
  dec : B → Option V
  size : V → Nat
  len : B → Nat
  jenc : V → J
  jdec : J → Option V
  /-- JSON's representative of a payload (every NaN is `math.NaN()`; identity on NaN-free payloads) -/
  jeq : V → V
  /-- what the API observes of a decoded value (`-0.0` of a plain proto3 double reads as `+0.0`) -/
  obs : V → V
  /-- a decoded value whose re-encoding fits a Go slice -/
  small : V → Prop

/-- the property C08 for one endpoint -/
structure CodecSpec.Holds {V B J : Type} (C : CodecSpec V B J) : Prop where
  /-- decoding what the protobuf marshaler produced yields the original -/
  lossless_pb : ∀ v, C.ok v → C.dec (C.enc v) = some v
  /-- the reported size is the length of the encoding -/
  size_exact : ∀ v, C.size v = C.len (C.enc v)
  /-- decoding what the JSON marshaler produced yields the original (up to the NaN payload) -/
  lossless_json : ∀ v, C.ok v → C.jdec (C.jenc v) = some (C.jeq v)
  /-- the two encodings agree: protobuf of the JSON-decoded value = protobuf of the original -/
  consistent : ∀ v, C.ok v → ∀ v', C.jdec (C.jenc v) = some v' → C.enc v' = C.enc (C.jeq v)
  /-- whatever decodes successfully from ARBITRARY bytes re-encodes to a fixed point -/
  fixpoint_pb : ∀ b w, C.dec b = some w → C.small w →
    C.dec (C.enc w) = some (C.obs w) ∧ C.dec (C.enc (C.obs w)) = some (C.obs w)
  /-- whatever decodes successfully from an ARBITRARY JSON document re-encodes to a fixed point -/
  fixpoint_json : ∀ j w, C.jdec j = some w → C.jdec (C.jenc (C.jeq (C.obs w))) = some (C.jeq (C.obs w))

/-- the model of the public entry point `root` (message `m`) of OTLP as a codec endpoint -/
def otlpCodec (T : Txt) (root : String) (m : Nat) : CodecSpec Val Bytes Json where
  ok v := ApiBuilt otlp m v ∧ (encode otlp m v).length < 2 ^ 63
  enc := encode otlp m
  dec := decodeRoot otlp otlpD root m
  size := size otlp m
  len := List.length
  jenc := toJson otlp T m
  jdec := fromJsonRoot otlp T otlpD root m
  jeq := normV otlp (.slots (otlp.slots m))
  obs := canon otlp (.slots (otlp.slots m))
  small w := (encode otlp m w).length < 2 ^ 63

/-- **Refinement.** Every public entry point of the regenerated OTLP schema satisfies the abstract specification, for every lawful
text codec (the float pair being the only assumed part of it, `C08_txt_laws`): lossless protobuf, exact size, lossless JSON,
consistency, and the fixed point of both decoders on arbitrary input — through `otlp.Migrate*` where the entry point calls it. -/
theorem C08_refines_spec (T : Txt) (hT : TxtLaws T) (hTo : TxtOut T) (root : String) (m : Nat) (hroot : (root, m) ∈ otlp.roots) :
    (otlpCodec T root m).Holds where
  lossless_pb := fun v hv => (C08_wrappers_otlp_api T hT root m hroot v hv.1 hv.2).1
  size_exact := fun v => C08_size otlp m v
  lossless_json := fun v hv => (C08_wrappers_otlp_api T hT root m hroot v hv.1 hv.2).2
  consistent := fun v hv v' h => by
    have h2 := (C08_wrappers_otlp_api T hT root m hroot v hv.1 hv.2).2
    simp only [otlpCodec] at h ⊢
    rw [h2] at h
    rw [← Option.some.inj h]
  fixpoint_pb := fun b w hd hs => C08_total_fixpoint_root_otlp root m hroot b w hd hs
  fixpoint_json := fun j w hd => (C08_json_fixpoint_root_otlp T hT hTo root m hroot j w hd).2

/-- non-vacuity of the specification's `ok` for OTLP: the `ApiBuilt` payload of `C08_apibuilt_example` (an export response with a
partial success) is an `ok` payload of the `logsresp` endpoint — its encoding is 8 bytes long -/
example (T : Txt) : ∃ m v, otlp.roots.lookup "logsresp" = some m ∧ (otlpCodec T "logsresp" m).ok v := by
  obtain ⟨m, hm, ha⟩ := C08_apibuilt_example
  refine ⟨m, _, hm, ha, ?_⟩
  have h2 : otlp.roots.lookup "logsresp" = some 2 := by decide +kernel
  rw [h2] at hm
  have hm' : m = 2 := (Option.some.inj hm).symm
  subst hm'
  have hs2 : otlp.slots 2 = [.one { num := 1, go := "PartialSuccess", json := "partialSuccess", orig := "partial_success", ty := .msg 0, card := .req }] := by
    decide +kernel
  have hs0 : otlp.slots 0 = [.one { num := 1, go := "RejectedLogRecords", json := "rejectedLogRecords", orig := "rejected_log_records", ty := .i64 },
      .one { num := 2, go := "ErrorMessage", json := "errorMessage", orig := "error_message", ty := .string }] := by decide +kernel
  rw [← C08_size]
  simp [size, sz, hs2, hs0, leafSize, scalarSize, isZero, isScalar, wireType, sov]


/-! ## with the concrete codecs ONLY the float pair is assumed (round 2, second item) -/

/-- JSON fixed point through every public entry point, concrete decimal / hex / base64 codecs: assumptions = `FloatLaws` + float range -/
theorem C08_json_fixpoint_root_otlp_concrete (ffmt : Nat → List Nat) (fparse : List Nat → Option Nat) (h : FloatLaws ffmt fparse)
    (hlt : ∀ t n, fparse t = some n → n < 2 ^ 64) (root : String) (m : Nat) (hroot : (root, m) ∈ otlp.roots) (j : Json) (w : Val)
    (hd : fromJsonRoot otlp (mkTxtF ffmt fparse) otlpD root m j = some w) :
    fromJson otlp (mkTxtF ffmt fparse) otlpD m j = some w ∧
    fromJsonRoot otlp (mkTxtF ffmt fparse) otlpD root m
        (toJson otlp (mkTxtF ffmt fparse) m (normV otlp (.slots (otlp.slots m)) (canon otlp (.slots (otlp.slots m)) w)))
      = some (normV otlp (.slots (otlp.slots m)) (canon otlp (.slots (otlp.slots m)) w)) :=
  C08_json_fixpoint_root_otlp _ (C08_txt_laws ffmt fparse h) (C08_txt_out ffmt fparse hlt) root m hroot j w hd

/-- the refinement theorem with the concrete codecs: every clause of the property for every entry point, float pair assumed only -/
theorem C08_refines_spec_concrete (ffmt : Nat → List Nat) (fparse : List Nat → Option Nat) (h : FloatLaws ffmt fparse)
    (hlt : ∀ t n, fparse t = some n → n < 2 ^ 64) (root : String) (m : Nat) (hroot : (root, m) ∈ otlp.roots) :
    (otlpCodec (mkTxtF ffmt fparse) root m).Holds :=
  C08_refines_spec _ (C08_txt_laws ffmt fparse h) (C08_txt_out ffmt fparse hlt) root m hroot


/-! ## non-vacuity: a small schema using every slot discipline, a conforming value with extreme numerics -/
def S0 : Schema := { msgs := [
  { name := "t.Inner", slots := [.one { num := 1, go := "A", json := "a", orig := "a", ty := .u64 }], jsonKeys := ["a"] },
  { name := "t.Outer", slots := [
      .one { num := 1, go := "N", json := "n", orig := "n", ty := .i32 },
      .one { num := 2, go := "In", json := "in", orig := "in", ty := .msg 0, card := .req },
      .one { num := 3, go := "Rs", json := "rs", orig := "rs", ty := .msg 0, card := .rep },
      .oneof "V" [{ num := 4, go := "S", json := "s", orig := "s", ty := .string }, { num := 7, go := "B", json := "b", orig := "b", ty := .bytes }],
      .one { num := 9, go := "P", json := "p", orig := "p", ty := .double, card := .packed }],
    jsonKeys := ["n", "in", "rs", "s", "b", "p"] }], enums := [], roots := [("outer", 1)] }

/-- N = -1, In = {A: 300}, Rs = [{}, {A: 2^64-1}], V = S:"hi", P = [NaN, -0.0] -/
def v0 : Val := Val.ofList [.num (2 ^ 32 - 1), Val.ofList [.num 300], Val.ofList [Val.ofList [.num 0], Val.ofList [.num (2 ^ 64 - 1)]],
  Val.ofList [.num 4, .bytes [104, 105]], Val.ofList [.num 0x7FF8000000000001, .num (2 ^ 63)]]

example : WF S0 (defaults S0) = true := by decide
example : Conforms S0 1 v0 := by
  simp [Conforms, v0, S0, Schema.slots, Val.ofList, conf, leafOk, scalarOk, packedOk, findAlt]
example : covOk S0 = true ∧ JWF S0 = true ∧ migShapeOk S0 = true := by decide
example : ApiBuilt S0 1 v0 :=
  ⟨by simp [Conforms, v0, S0, Schema.slots, Val.ofList, conf, leafOk, scalarOk, packedOk, findAlt],
   by simp [v0, S0, Schema.slots, Val.ofList, apiVal, findAlt, isDep, Val.isCons]⟩
example : decode S0 (defaults S0) 1 (encode S0 1 v0) = some v0 :=
  C08_pb_roundtrip S0 (defaults S0) (by decide) 1 v0
    (by simp [Conforms, v0, S0, Schema.slots, Val.ofList, conf, leafOk, scalarOk, packedOk, findAlt])
    (by rw [← C08_size]; simp [size, v0, S0, Schema.slots, Val.ofList, sz, findAlt, leafSize, scalarSize, packedSize, isZero, isScalar, wireType, Val.isCons, sext32]; simp [sov])

end OtelVerif.C08
