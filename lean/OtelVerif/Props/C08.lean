import OtelVerif.Lemmas.C08
import OtelVerif.Lemmas.C08Json
import OtelVerif.Lemmas.C08Dec
import OtelVerif.Lemmas.C08Mig
import OtelVerif.Lemmas.C08Txt
import OtelVerif.Lemmas.C08Api
import OtelVerif.Lemmas.C08Root
import OtelVerif.Lemmas.C08JFix
import OtelVerif.Gen.OtlpSchema
/-!
# C08 — OTLP protobuf and JSON codecs are lossless, consistent and total

Theorems about the generic codec model of `Model/C08.lean`, for EVERY well-formed schema, every conforming
value (any nesting depth, any repetition count, extreme integers, NaN/Inf bit patterns) and every byte string —
then instantiated at the schema regenerated from `/repo` (`Gen/OtlpSchema.lean`).
-/
namespace OtelVerif.C08
open OtelVerif.Wire OtelVerif.Proto

abbrev otlp : Schema := Gen.OtlpSchema.schema
abbrev otlpD : List Val := defaults otlp

/-! ## the regenerated schema is well formed (tie obligations over `Gen`) -/

set_option maxRecDepth 100000 in
/-- distinct legal field numbers per message, admissible (type, cardinality) pairs, one-of alternatives found by
their number, and `defaults` is the fixed point of "`&T{}` with every `nullable=false` message filled in". -/
theorem C08_schema_wf : WF otlp otlpD = true := by decide +kernel

/-! ## size -/

/-- `Size()` equals the length of `Marshal()` — for every schema and EVERY value tree (no conformance needed). -/
theorem C08_size (S : Schema) (m : Nat) (v : Val) : size S m v = (encode S m v).length :=
  sz_eq_length S _ v

/-! ## protobuf round trip -/

theorem wf_slots {S : Schema} {D : List Val} (h : WF S D = true) (m : Nat) :
    slotsOkFrom (S.slots m) (S.slots m) 0 = true := by
  simp only [WF, Bool.and_eq_true, List.all_eq_true] at h
  simp only [Schema.slots]
  cases hm : S.msgs[m]? with
  | none => simp [slotsOkFrom]
  | some msg => simpa using h.1.1 msg (List.mem_of_getElem? hm)

theorem wf_defaults {S : Schema} {D : List Val} (h : WF S D = true) (sub : Nat) :
    D.getD sub .nil = msgDefault D (S.slots sub) := by
  simp only [WF, Bool.and_eq_true, DefaultsOk, beq_iff_eq, defaultsStep] at h
  have hD := h.1.2
  simp only [Schema.slots]
  have : D[sub]? = (S.msgs[sub]?).map (fun m => msgDefault D m.slots) := by
    conv => lhs; rw [← hD]
    simp
  rw [List.getD_eq_getElem?_getD, this]
  cases S.msgs[sub]? <;> simp [msgDefault, Val.ofList]

/-- **Lossless (protobuf).** For every well-formed schema and every conforming value, decoding what the marshaler
produced yields exactly the original value.  (`hlen`: a Go slice is shorter than 2^63 bytes.) -/
theorem C08_pb_roundtrip (S : Schema) (D : List Val) (hwf : WF S D = true) (m : Nat) (v : Val)
    (hc : Conforms S m v) (hlen : (encode S m v).length < 2 ^ 63) :
    decode S D m (encode S m v) = some v := by
  have h := rt_all S D (wf_slots hwf) (wf_defaults hwf) (.slots (S.slots m)) v m [] [] [] (by simp) rfl hc hlen
  simp only [List.nil_append, List.append_nil] at h
  rw [decode, encode, wf_defaults hwf m, msgDefault, h, decMsg_nil,
    ofList_toList v (conf_slots_proper S false v _ hc)]

/-- … in particular for the schema regenerated from the Go sources of `/repo`, all signals and wrappers. -/
theorem C08_pb_roundtrip_otlp (m : Nat) (v : Val) (hc : Conforms otlp m v) (hlen : (encode otlp m v).length < 2 ^ 63) :
    decode otlp otlpD m (encode otlp m v) = some v :=
  C08_pb_roundtrip otlp otlpD C08_schema_wf m v hc hlen

/-- consequently the marshaler is injective on conforming values (two different payloads never share an encoding) -/
theorem C08_pb_injective (S : Schema) (D : List Val) (hwf : WF S D = true) (m : Nat) (v w : Val)
    (hv : Conforms S m v) (hw : Conforms S m w) (hl : (encode S m v).length < 2 ^ 63)
    (he : encode S m v = encode S m w) : v = w := by
  have h1 := C08_pb_roundtrip S D hwf m v hv hl
  have h2 := C08_pb_roundtrip S D hwf m w hw (he ▸ hl)
  rw [he, h2] at h1
  exact (Option.some.inj h1).symm

/-- SUPERSEDED by `C08_total_fixpoint` / `C08_total_fixpoint_root` (kept because theorems are never removed; it is still counted as
an obligation but adds nothing). **Fixed point (partial).** Whatever conforming value a decode returns re-encodes to a fixed point: decoding the
re-encoding returns the same value, and encoding that again the same bytes.  PARTIAL: that the decoder's result is
canonical (`Conforms`, up to the `-0.0` of plain double fields) is checked on the implementation by the harness
(`C08/total/not-a-fixpoint-*`) and on the model by the differential, not proved here.  Totality of the model decoder
is by construction (`decMsg` is a total terminating function on every byte list); absence of panics/hangs of the Go
code is observed by the harness on the malformed streams. -/
theorem C08_total_fixpoint_partial (S : Schema) (D : List Val) (hwf : WF S D = true) (m : Nat) (b : Bytes) (v : Val)
    (_hd : decode S D m b = some v) (hc : Conforms S m v) (hlen : (encode S m v).length < 2 ^ 63) :
    decode S D m (encode S m v) = some v ∧
    ∀ v', decode S D m (encode S m v) = some v' → encode S m v' = encode S m v := by
  have h := C08_pb_roundtrip S D hwf m v hc hlen
  exact ⟨h, fun v' hv' => by rw [h] at hv'; rw [← Option.some.inj hv']⟩

/-! ### the full statement fails on the pinned tree: a Go-nil bytes alternative is not written -/

/-- index of `common.AnyValue` in the regenerated schema -/
def anyValueIdx : Nat := (otlp.msgs.findIdx? (fun m => m.name == "common.AnyValue")).getD 0

/-- what `pcommon.NewValueBytes()` / `Value.SetEmptyBytes()` build: alternative 7 selected, Go-nil slice -/
def nilBytesValue : Val := .cons (.cons (.num 7) .nil) .nil
/-- the empty `AnyValue` (`ValueTypeEmpty`) -/
def emptyValue : Val := .cons .nil .nil

/-- lossless for every shape the public API can build -/
def C08_pb_roundtrip_full : Prop :=
  ∀ m v, ApiShape otlp m v → (encode otlp m v).length < 2 ^ 63 → decode otlp otlpD m (encode otlp m v) = some v

set_option maxRecDepth 100000 in
/-- read off the regenerated schema: `AnyValue` is a single one-of whose alternative 7 is a `bytes` field -/
theorem anyValue_shape : ∃ g alts a, otlp.slots anyValueIdx = [Slot.oneof g alts] ∧ findAlt alts 7 = some a ∧ a.ty = .bytes := by
  have h : (match otlp.slots anyValueIdx with
      | [Slot.oneof _ alts] => (match findAlt alts 7 with | some a => a.ty == .bytes | none => false)
      | _ => false) = true := by decide +kernel
  split at h
  · next g alts hs =>
    split at h
    · next a ha => exact ⟨g, alts, a, hs, ha, by simpa using h⟩
    · simp at h
  · simp at h

theorem nilBytes_encodes_empty : encode otlp anyValueIdx nilBytesValue = [] := by
  obtain ⟨g, alts, a, hs, _, _⟩ := anyValue_shape
  rw [encode, hs, nilBytesValue, enc_slots_cons, enc_slots_nil]
  rw [enc]
  · rfl
  · intro k p h; cases h

set_option maxRecDepth 100000 in
/-- kernel-checked witness: an API-built empty-bytes value and the empty value have the same (empty) encoding, so the
bytes value comes back as `ValueTypeEmpty`.  Replayed on the real code by corpus case 1 of the harness
(`C08/pb/roundtrip/oneof-nil-bytes-not-encoded`). -/
theorem C08_pb_roundtrip_full_fails : ¬ C08_pb_roundtrip_full := by
  intro h
  have hshape : ApiShape otlp anyValueIdx nilBytesValue := by
    obtain ⟨g, alts, a, hs, ha, hty⟩ := anyValue_shape
    rw [ApiShape, hs, nilBytesValue]
    simp [conf, ha, hty]
  have := h anyValueIdx nilBytesValue hshape (by rw [nilBytes_encodes_empty]; decide)
  rw [nilBytes_encodes_empty, decode, decMsg_nil] at this
  have hd : otlpD.getD anyValueIdx .nil = emptyValue := by decide +kernel
  rw [hd] at this
  exact absurd (Option.some.inj this) (by decide)


/-! ## JSON -/

def fieldsOf (m : Msg) : List Field :=
  m.slots.flatMap (fun s => match s with | .one f => [f] | .oneof _ alts => alts)

/-- (message, Go field) pairs whose JSON name or proto name is NOT a `case` label of the message's hand-written reader -/
def uncovered (S : Schema) : List (String × String) :=
  S.msgs.flatMap (fun m => (fieldsOf m).filterMap (fun f =>
    if m.jsonKeys.contains f.json && m.jsonKeys.contains f.orig then none else some (m.name, f.go)))

set_option maxRecDepth 100000 in
/-- **Every field has its `case`, in both spellings** — a tie obligation over the regenerated reader tables.
The only fields the JSON readers do not know are the three deprecated scope lists, which the public API cannot set
(and which `otlp.Migrate*` clears on every decode path).  A reader that forgets a field (as `plog` did for
`event_name`, `pmetric` for `zero_threshold`) makes this theorem fail to check. -/
theorem C08_json_cases_cover :
    uncovered otlp = [("logs.ResourceLogs", "DeprecatedScopeLogs"), ("metrics.ResourceMetrics", "DeprecatedScopeMetrics"),
      ("trace.ResourceSpans", "DeprecatedScopeSpans")] := by decide +kernel

theorem parseInt_dec (T : Txt) (h : DecLaws T) (signed : Bool) (w n : Nat)
    (hn : n < (if signed then 2 ^ (w - 1) else 2 ^ w)) : parseInt T signed w (T.dec n) = some n := by
  unfold parseInt
  split
  · next ds heq => exact absurd heq (h.dec_nosign n ds)
  · simp [h.undec_dec, hn]

/-- NOTE: holds by `rfl` — the model's `readLeaf` reads `.num t` and `.str t` through ONE branch, i.e. the clause is true by
construction of the model; its content is that the model then agrees with the real readers on both spellings, which is what the
`i64num` / `i64str` / tree-fuzz differential streams check, and `C08_json_readers_typed` pins the helper (`json.ReadInt64/ReadUint64`).
**64-bit integers as strings or as numbers — same result** (`json.ReadInt64/ReadUint64`: the `NumberValue` and the
`StringValue` branch), for every text. -/
theorem C08_json_int64_variants (S : Schema) (T : Txt) (ty : Ty) (t : List Nat)
    (hty : ty = .u64 ∨ ty = .i64 ∨ ty = .fixed64 ∨ ty = .sfixed64) :
    readLeaf S T ty (.num t) = readLeaf S T ty (.str t) := by
  rcases hty with h | h | h | h <;> subst h <;> rfl

/-- … and both spellings of a 64-bit value that the marshaler can produce decode to that value. -/
theorem C08_json_int64_value (S : Schema) (T : Txt) (h : DecLaws T) (n : Nat) (hn : n < 2 ^ 64) :
    readLeaf S T .u64 (.num (T.dec n)) = some (.num n) ∧ readLeaf S T .u64 (.str (T.dec n)) = some (.num n) := by
  have := parseInt_dec T h false 64 n (by simpa using hn)
  simp [readLeaf, this]

/-- **Enum values as numbers or as names — same result** (`json.ReadEnumValue`), for every enum of every schema:
the name of a value and its decimal number decode to the same stored value. -/
theorem C08_json_enum_variants (S : Schema) (T : Txt) (h : DecLaws T) (e : Nat) (en : EnumT) (name : String) (val : Nat)
    (he : S.enums[e]? = some en)
    (hf : en.values.find? (fun p => str p.1 == str name) = some (name, val)) (hv : val < 2 ^ 31) :
    readLeaf S T (.enum e) (.str (str name)) = some (.num val) ∧
    readLeaf S T (.enum e) (.num (T.dec val)) = some (.num val) := by
  have := parseInt_dec T h true 32 val (by simpa using hv)
  simp [readLeaf, enumByName, he, hf, this]

set_option maxRecDepth 100000 in
/-- non-vacuity: in the regenerated schema every enum name is found by `find?` at its own value and all values fit -/
theorem C08_json_enum_names_ok :
    otlp.enums.all (fun en => en.values.all (fun p =>
      (en.values.find? (fun q => str q.1 == str p.1)).map (·.2) == some p.2 && decide (p.2 < 2 ^ 31))) = true := by decide +kernel

/-- DEAD / SUPERSEDED definition (kept only because nothing is removed): the theorems `C08_json_roundtrip*`, `C08_consistent`,
`C08_wrappers_*` below are the statements.  The full JSON statements; proved at field level above, at message level tied by the byte/value-exact differential
(`jenc`/`jdec` ops) and the harness oracles (`C08/json/roundtrip/*`, `C08/json/pb-inconsistent/*`).  PARTIAL: the
message-level induction for `fromJ ∘ toJ` (same shape as `rt_all`) is not written. -/
def C08_json_roundtrip_full : Prop :=
  ∀ (T : Txt), DecLaws T → ∀ m v, Conforms otlp m v →
    ∃ v', fromJson otlp T otlpD m (toJson otlp T m v) = some v' ∧ encode otlp m v' = encode otlp m (canon otlp (.slots (otlp.slots m)) v)


/-! ## JSON: message-level round trip and protobuf/JSON consistency (theorems; supersede the `def` above) -/

theorem toJ_slots_isObj (S : Schema) (T : Txt) : ∀ (v : Val) (rem : List Slot),
    toJ S T (.slots rem) v = .onil ∨ ∃ k j tl, toJ S T (.slots rem) v = .ocons k j tl := by
  intro v
  induction v with
  | cons x xs _ ih =>
    intro rem
    cases rem with
    | nil => exact Or.inl (toJ_slots_nil S T _)
    | cons s ss =>
      cases s with
      | one f =>
        rw [toJ_slots_one]
        split
        · exact ih ss
        · exact Or.inr ⟨_, _, _, rfl⟩
      | oneof g alts =>
        rw [toJ_slots_oneof]
        split
        · exact Or.inr ⟨_, _, _, rfl⟩
        · exact ih ss
  | _ => intro rem; left; rw [toJ]; intro s ss x xs h; cases h

/-- **Lossless (JSON).** For every well-formed schema whose reader tables are consistent (`JWF`), every lawful text codec,
every conforming value that is JSON-representable (`jcov`: no field is populated that the reader of its message has no
`case` for — for OTLP only the deprecated scope lists, `C08_json_cases_cover` — and bytes are bytes):
reading back what the marshaler wrote yields the original value with every NaN canonicalised (`normV`; the marshaler
prints `"NaN"`).  Any nesting depth, any one-of alternative, recursive `AnyValue`s included. -/
theorem C08_json_roundtrip (S : Schema) (D : List Val) (T : Txt) (hwf : WF S D = true) (hj : JWF S = true)
    (hT : TxtLaws T) (m : Nat) (v : Val) (hc : Conforms S m v) (hcov : jcov S m (.slots (S.slots m)) v = true) :
    fromJson S T D m (toJson S T m v) = some (normV S (.slots (S.slots m)) v) := by
  have h := jrt_all S T D hT (wf_slots hwf) (jwf_slots hj) (wf_defaults hwf) (.slots (S.slots m)) v m [] []
    (by simp) rfl hc hcov
  simp only [List.nil_append] at h
  have hp := proper_normV_slots S v (S.slots m) (conf_slots_proper S false v _ hc)
  have hd : Val.ofList (List.map (slotDefault D) (S.slots m)) = D.getD m .nil := by
    rw [wf_defaults hwf m, msgDefault]
  rw [hd, ofList_toList _ hp] at h
  rcases toJ_slots_isObj S T v (S.slots m) with ho | ⟨k, j, tl, ho⟩
  · rw [ho] at h; simp only [toJson, fromJson, ho]; exact h
  · rw [ho] at h; simp only [toJson, fromJson, ho]; exact h

/-- **Consistent.** Decoding the JSON form and encoding the result as protobuf gives the bytes of the (NaN-normalised)
original; for a payload without non-canonical NaNs exactly the bytes of the original. -/
theorem C08_consistent (S : Schema) (D : List Val) (T : Txt) (hwf : WF S D = true) (hj : JWF S = true)
    (hT : TxtLaws T) (m : Nat) (v : Val) (hc : Conforms S m v) (hcov : jcov S m (.slots (S.slots m)) v = true) :
    ∃ v', fromJson S T D m (toJson S T m v) = some v' ∧ encode S m v' = encode S m (normV S (.slots (S.slots m)) v) ∧
      (normV S (.slots (S.slots m)) v = v → encode S m v' = encode S m v) :=
  ⟨_, C08_json_roundtrip S D T hwf hj hT m v hc hcov, rfl, fun h => by rw [h]⟩

/-- one message of the reader-table check -/
abbrev jwfAt (m : Nat) : Bool := jslotsOkFrom otlp m (otlp.slots m) (otlp.slots m) 0

-- the check is split into chunks of 15 messages so that the kernel evaluations run in parallel
set_option maxRecDepth 100000 in
theorem jwf_chunk0 : ∀ k, k < 15 → jwfAt k = true := by decide +kernel
set_option maxRecDepth 100000 in
theorem jwf_chunk1 : ∀ k, k < 15 → jwfAt (15 + k) = true := by decide +kernel
set_option maxRecDepth 100000 in
theorem jwf_chunk2 : ∀ k, k < 15 → jwfAt (30 + k) = true := by decide +kernel
set_option maxRecDepth 100000 in
theorem jwf_chunk3 : ∀ k, k < 15 → jwfAt (45 + k) = true := by decide +kernel
set_option maxRecDepth 100000 in
theorem jwf_chunk4 : ∀ k, k < otlp.msgs.length - 60 → jwfAt (60 + k) = true := by decide +kernel

/-- the regenerated reader tables are consistent with the regenerated schema: every field that has a `case` is found by
its JSON name at its own slot (no two fields of a message share a JSON/proto name) -/
theorem C08_json_wf : JWF otlp = true := by
  simp only [JWF, List.all_eq_true, List.mem_range]
  intro m hm
  by_cases h0 : m < 15
  · exact jwf_chunk0 m h0
  · by_cases h1 : m < 30
    · have := jwf_chunk1 (m - 15) (by omega); rwa [show 15 + (m - 15) = m by omega] at this
    · by_cases h2 : m < 45
      · have := jwf_chunk2 (m - 30) (by omega); rwa [show 30 + (m - 30) = m by omega] at this
      · by_cases h3 : m < 60
        · have := jwf_chunk3 (m - 45) (by omega); rwa [show 45 + (m - 45) = m by omega] at this
        · have := jwf_chunk4 (m - 60) (by omega); rwa [show 60 + (m - 60) = m by omega] at this

/-- … in particular for OTLP, all signals and wrappers. -/
theorem C08_json_roundtrip_otlp (T : Txt) (hT : TxtLaws T) (m : Nat) (v : Val) (hc : Conforms otlp m v)
    (hcov : jcov otlp m (.slots (otlp.slots m)) v = true) :
    fromJson otlp T otlpD m (toJson otlp T m v) = some (normV otlp (.slots (otlp.slots m)) v) :=
  C08_json_roundtrip otlp otlpD T C08_schema_wf C08_json_wf hT m v hc hcov


/-! ## total: whatever decodes successfully is canonical and re-encodes to a fixed point (no `_partial`) -/

set_option maxRecDepth 100000 in
/-- no `nullable=false` embedding cycle in the regenerated schema (ranking computed by iteration, checked by `decide`) -/
theorem C08_schema_rank : reqRankOk otlp (reqRanks otlp) = true := by decide +kernel

/-- **The decoder's result is canonical**, for EVERY byte string: it has the decoder shape (`confD`: every slot filled, scalars
within their Go width, ids empty-or-n-bytes, one-ofs well formed at any depth), and what the API observes of it (`canon`:
a stored `-0.0` of a plain double field reads as `+0.0`) is a conforming value. -/
theorem C08_decode_canonical (S : Schema) (D : List Val) (r : List Nat) (hwf : WF S D = true) (hr : reqRankOk S r = true)
    (m : Nat) (b : Bytes) (v : Val) (hd : decode S D m b = some v) :
    confD S (.slots (S.slots m)) v = true ∧ Conforms S m (canon S (.slots (S.slots m)) v) := by
  have hdef : ∀ sub, confD S (.slots (S.slots sub)) (D.getD sub .nil) = true :=
    fun sub => defaults_confD S D r (wf_slots hwf) (wf_defaults hwf) hr _ sub (Nat.le_refl _)
  have h := decMsg_confD S D (wf_slots hwf) hdef b.length b (Nat.le_refl _) m _ v (hdef m) hd
  exact ⟨h, canon_conf S _ v h⟩

/-- **Fixed point.** For every byte string that decodes, re-encoding the result gives bytes `b1` such that decoding `b1`
succeeds and yields the canonical value `c`, `c` encodes to `b1` again, and decoding that returns `c` again:
`decode ∘ encode` is stationary after one step, at value and at byte level.  (`hlen`: Go slice length.) -/
theorem C08_total_fixpoint (S : Schema) (D : List Val) (r : List Nat) (hwf : WF S D = true) (hr : reqRankOk S r = true)
    (m : Nat) (b : Bytes) (v : Val) (hd : decode S D m b = some v) (hlen : (encode S m v).length < 2 ^ 63) :
    encode S m (canon S (.slots (S.slots m)) v) = encode S m v ∧
    decode S D m (encode S m v) = some (canon S (.slots (S.slots m)) v) ∧
    decode S D m (encode S m (canon S (.slots (S.slots m)) v)) = some (canon S (.slots (S.slots m)) v) := by
  obtain ⟨_, hc⟩ := C08_decode_canonical S D r hwf hr m b v hd
  have he : encode S m (canon S (.slots (S.slots m)) v) = encode S m v := canon_enc S _ v
  have hrt := C08_pb_roundtrip S D hwf m _ hc (by rw [he]; exact hlen)
  exact ⟨he, by rw [← he]; exact hrt, hrt⟩

/-- … for OTLP: every byte string offered to any of the protobuf unmarshalers. -/
theorem C08_total_fixpoint_otlp (m : Nat) (b : Bytes) (v : Val) (hd : decode otlp otlpD m b = some v)
    (hlen : (encode otlp m v).length < 2 ^ 63) :
    decode otlp otlpD m (encode otlp m v) = some (canon otlp (.slots (otlp.slots m)) v) ∧
    decode otlp otlpD m (encode otlp m (canon otlp (.slots (otlp.slots m)) v)) = some (canon otlp (.slots (otlp.slots m)) v) :=
  (C08_total_fixpoint otlp otlpD _ C08_schema_wf C08_schema_rank m b v hd hlen).2


/-! ## migration of the deprecated scope fields; export request / response wrappers -/

/-- **`otlp.Migrate*` is idempotent** on every payload whose deprecated list slot holds a list (true of every decoder result
and every API value) — for any schema in which fields 2 and 1000 of the resource message are different slots. -/
theorem C08_migrate_idem (S : Schema) (m : Nat) (v : Val)
    (h : ∀ f rest r, S.slots m = .one f :: rest → f.ty = .msg r → MigOk (S.slots r) (Val.get v 0)) :
    migrate S m (migrate S m v) = migrate S m v := migrate_idem_aux S m v h

/-- … and leaves a payload without deprecated data untouched. -/
theorem C08_migrate_noop (S : Schema) (m : Nat) (v : Val)
    (h : ∀ f rest r, S.slots m = .one f :: rest → f.ty = .msg r → ∀ rv, rv ∈ Val.toList (Val.get v 0) →
      (∀ d, slotIdx (S.slots r) 1000 = some d → Val.get rv d = .nil) ∧
      (∀ i, slotIdx (S.slots r) 2 = some i → chainy (Val.get rv i))) :
    migrate S m v = v := migrate_noop_aux S m v h

set_option maxRecDepth 100000 in
/-- in the regenerated schema the regular (2) and the deprecated (1000) scope list are different slots of every message
that has both -/
theorem C08_migrate_slots_distinct :
    otlp.msgs.all (fun msg => match slotIdx msg.slots 2, slotIdx msg.slots 1000 with
      | some i, some d => i != d
      | _, _ => true) = true := by decide +kernel

/-- **Wrappers, protobuf.** For every root (the four `*Data` payloads, the four `Export*ServiceRequest`s — which run
`otlp.Migrate*` after `Unmarshal` — and the four `Export*ServiceResponse`s): decoding what the wrapper marshalled returns the
original, for every conforming payload without deprecated data (`migrate v = v`, see `C08_migrate_noop`). -/
theorem C08_wrappers_pb (S : Schema) (D : List Val) (hwf : WF S D = true) (root : String) (m : Nat) (v : Val)
    (hc : Conforms S m v) (hlen : (encode S m v).length < 2 ^ 63) (hm : migratesPb root = true → migrate S m v = v) :
    decodeRoot S D root m (encode S m v) = some v := by
  rw [decodeRoot, C08_pb_roundtrip S D hwf m v hc hlen]
  cases hr : migratesPb root
  · simp
  · simp [hm hr]

/-- **Wrappers, JSON.** The same through `MarshalJSON` / `UnmarshalJSON` of every root, up to NaN canonicalisation. -/
theorem C08_wrappers_json (S : Schema) (D : List Val) (T : Txt) (hwf : WF S D = true) (hj : JWF S = true) (hT : TxtLaws T)
    (root : String) (m : Nat) (v : Val) (hc : Conforms S m v) (hcov : jcov S m (.slots (S.slots m)) v = true)
    (hm : migratesJson root = true → migrate S m (normV S (.slots (S.slots m)) v) = normV S (.slots (S.slots m)) v) :
    fromJsonRoot S T D root m (toJson S T m v) = some (normV S (.slots (S.slots m)) v) := by
  rw [fromJsonRoot, C08_json_roundtrip S D T hwf hj hT m v hc hcov]
  cases hr : migratesJson root
  · simp
  · simp [hm hr]


/-! ## the text codecs, concretely: only float64 ↔ text stays a hypothesis -/

/-- **Decimal, hex and base64 are proved**: the model's concrete codecs (`strconv` decimal integers, `encoding/hex`,
`encoding/base64` std with padding — the ones the driver runs against the real code) satisfy every law the JSON theorems
use, for all naturals and all byte strings; what remains a hypothesis is the float64 text pair. -/
theorem C08_txt_laws (ffmt : Nat → List Nat) (fparse : List Nat → Option Nat) (h : FloatLaws ffmt fparse) :
    TxtLaws (mkTxtF ffmt fparse) where
  undec_dec := undec_dec
  dec_nosign := dec_nosign
  fparse_ffmt := h.fparse_ffmt
  fparse_nan := h.fparse_nan
  fparse_pinf := h.fparse_pinf
  fparse_ninf := h.fparse_ninf
  unb64_b64 := b64dec_b64enc
  unhex_hex := hexDec_hexEnc
  hex_length := hexEnc_length
  hex_noquote := hexEnc_noquote

/-- JSON round trip for OTLP with the concrete codecs: the only assumption left is the float text law. -/
theorem C08_json_roundtrip_otlp_concrete (ffmt : Nat → List Nat) (fparse : List Nat → Option Nat) (h : FloatLaws ffmt fparse)
    (m : Nat) (v : Val) (hc : Conforms otlp m v) (hcov : jcov otlp m (.slots (otlp.slots m)) v = true) :
    fromJson otlp (mkTxtF ffmt fparse) otlpD m (toJson otlp (mkTxtF ffmt fparse) m v)
      = some (normV otlp (.slots (otlp.slots m)) v) :=
  C08_json_roundtrip_otlp _ (C08_txt_laws ffmt fparse h) m v hc hcov

/-- 64-bit integers at the extremes survive both spellings (what the seeded "read through float64" defect breaks) -/
theorem C08_json_int64_extremes (S : Schema) (ffmt : Nat → List Nat) (fparse : List Nat → Option Nat) :
    ∀ n ∈ [2 ^ 53 + 1, 2 ^ 63 - 1, 2 ^ 63, 2 ^ 64 - 1],
      readLeaf S (mkTxtF ffmt fparse) .u64 (.num (decDigits n)) = some (.num n) ∧
      readLeaf S (mkTxtF ffmt fparse) .i64 (.str (sdec (mkTxtF ffmt fparse) 64 n)) = some (.num n) := by
  intro n hn
  have hd : DecLaws (mkTxtF ffmt fparse) := ⟨undec_dec, dec_nosign⟩
  have hlt : n < 2 ^ 64 := by
    simp only [List.mem_cons, List.mem_nil_iff, or_false] at hn
    rcases hn with h | h | h | h <;> subst h <;> decide
  exact ⟨(C08_json_int64_value S _ hd n hlt).1, by simp [readLeaf, parseInt_sdec _ hd 64 n (by decide) hlt]⟩


/-! ## malformed ids are rejected (never written past the destination) -/

/-- **Wrong-length id ⇒ error.** A trace/span/profile id whose text (after the optional pair of literal quotes the reader
strips) is non-empty and not exactly `2·n` characters — too long by any amount, too short, odd — is rejected by the id
reader, whatever its characters; for every text codec. (`bytesid.go unmarshalJSON`: `len(dst) != hex.DecodedLen(nLen)`.) -/
theorem C08_json_id_wrong_length (S : Schema) (T : Txt) (n : Nat) (b : List Nat)
    (h0 : (stripQuotes b).isEmpty = false) (hl : (stripQuotes b).length ≠ 2 * n) :
    readLeaf S T (.id n) (.str b) = none := by
  simp [readLeaf, h0, hl]

/-- … and so is the whole document: a member whose key selects an id field and whose value has the wrong length makes
`fromJ` fail (no partial result, no out-of-range write), wherever it sits in the message. -/
theorem C08_json_bad_id_rejected (S : Schema) (T : Txt) (D : List Val) (m : Nat) (acc : Val) (k b : List Nat) (tl : Json)
    (hit : Hit) (n : Nat)
    (hkey : (jsonKeysOf S m).any (fun s => str s == k) = true) (hfind : findKey (S.slots m) 0 k = some hit)
    (hty : hit.f.ty = .id n) (halt : hit.alt = false) (hcard : hit.f.card = .req)
    (h0 : (stripQuotes b).isEmpty = false) (hl : (stripQuotes b).length ≠ 2 * n) :
    fromJ S T D m acc (.ocons k (.str b) tl) = none := by
  rw [fromJ_step S T D m acc k _ tl hit hkey hfind]
  simp [slotRead, hty, halt, hcard, C08_json_id_wrong_length S T n b h0 hl]


/-! ## the size formula of the generated code -/

/-- **`sovX(x) = (bits.Len64(x|1)+6)/7` is the varint byte count**, for every `x`: the `sov` summands of `C08_size` are the
formula the generated `Size()` evaluates (`bitLen` = `bits.Len64`). -/
theorem C08_sov_formula (n : Nat) : sovBits n = sov n ∧ sovBits n = (varint n).length := by
  rw [sovBits_eq_sov, varint_length]; exact ⟨rfl, rfl⟩

/-! ## payloads built through the public API: the OTLP instances without side hypotheses -/

set_option maxRecDepth 100000 in
/-- regenerated reader tables: every field that is not a `Deprecated*` repeated list has its `case` (both in a one-of or plain) -/
theorem C08_api_cov : covOk otlp = true := by decide +kernel

set_option maxRecDepth 100000 in
/-- wherever a message has field 1000 it is a `Deprecated*` repeated list and field 2 is a repeated list -/
theorem C08_api_mig_shape : migShapeOk otlp = true := by decide +kernel

set_option maxRecDepth 100000 in
/-- every root on which some decode path migrates starts with the repeated resource list -/
theorem C08_api_roots : otlp.roots.all (fun rm => !(migratesPb rm.1 || migratesJson rm.1) ||
    (match otlp.slots rm.2 with | .one f :: _ => f.card == .rep | _ => false)) = true := by decide +kernel

/-- **`jcov` is derived**: a payload built through the public API is JSON-representable, for every schema whose readers cover
all non-deprecated fields. -/
theorem C08_api_jcov (S : Schema) (hcov : covOk S = true) (m : Nat) (v : Val)
    (ha : apiVal S (.slots (S.slots m)) v = true) : jcov S m (.slots (S.slots m)) v = true :=
  jcov_of_apiVal S (fun m s hs => covOk_mem hcov m s hs) m _ v ha (fun s hs => covOk_mem hcov m s hs)

/-- **JSON round trip for OTLP, no side hypothesis**: every payload built through the public pdata API (`ApiBuilt`: canonical,
`Deprecated*` never populated because no accessor reaches it, bytes are bytes) of every signal / wrapper message comes back
from `UnmarshalJSON(MarshalJSON(v))` as `v` with NaNs canonicalised. -/
theorem C08_json_roundtrip_otlp_api (T : Txt) (hT : TxtLaws T) (m : Nat) (v : Val) (h : ApiBuilt otlp m v) :
    fromJson otlp T otlpD m (toJson otlp T m v) = some (normV otlp (.slots (otlp.slots m)) v) :=
  C08_json_roundtrip_otlp T hT m v h.1 (C08_api_jcov otlp C08_api_cov m v h.2)

/-- **All public entry points, both codecs, no side hypothesis**: for every root of the regenerated schema (the four payloads,
the four export requests, the four export responses) and every payload built through the public API, the protobuf entry point
returns the payload and the JSON entry point returns it with NaNs canonicalised — `otlp.Migrate*`, which every decode path
now runs, is a no-op on such payloads (derived, not assumed). -/
theorem C08_wrappers_otlp_api (T : Txt) (hT : TxtLaws T) (root : String) (m : Nat) (hroot : (root, m) ∈ otlp.roots)
    (v : Val) (h : ApiBuilt otlp m v) (hlen : (encode otlp m v).length < 2 ^ 63) :
    decodeRoot otlp otlpD root m (encode otlp m v) = some v ∧
    fromJsonRoot otlp T otlpD root m (toJson otlp T m v) = some (normV otlp (.slots (otlp.slots m)) v) := by
  have hr := C08_api_roots
  simp only [List.all_eq_true] at hr
  have hrm := hr (root, m) hroot
  simp only [Bool.or_eq_true, Bool.not_eq_true', Bool.or_eq_false_iff] at hrm
  have hfirst : (migratesPb root = true ∨ migratesJson root = true) →
      ∀ f rest, otlp.slots m = .one f :: rest → f.card = .rep := by
    intro hmig f rest hs
    rcases hrm with ⟨h1, h2⟩ | h3
    · rcases hmig with hh | hh
      · rw [h1] at hh; cases hh
      · rw [h2] at hh; cases hh
    · rw [hs] at h3; simpa using h3
  constructor
  · exact C08_wrappers_pb otlp otlpD C08_schema_wf root m v h.1 hlen
      (fun hm => migrate_noop_api otlp C08_api_mig_shape m v (hfirst (Or.inl hm)) h.1 h.2)
  · exact C08_wrappers_json otlp otlpD T C08_schema_wf C08_json_wf hT root m v h.1
      (C08_api_jcov otlp C08_api_cov m v h.2)
      (fun hm => migrate_noop_api otlp C08_api_mig_shape m _ (hfirst (Or.inr hm))
        (conf_normV otlp _ v h.1) (apiVal_normV otlp _ v h.2))


/-! ## ids are values with a zero test: a non-zero id is always written -/

/-- **Non-zero id ⇒ encoded, in both codecs.** For an id field (`TraceID`/`SpanID`/`ProfileID`, always `nullable=false`) holding
a conforming non-empty value `b` — i.e. exactly `n` bytes, NOT all zero, wherever the non-zero byte sits (one-hot at any
position, high half zero, low half zero) — the protobuf marshaler writes tag, length and all `n` bytes, and the JSON
marshaler writes the hex string of all `n` bytes.  (The canonical form makes "empty" and "all zero" the same value, which is
what `IsEmpty` must compute: any byte non-zero ⇒ not empty.) -/
theorem C08_id_nonzero_encoded (S : Schema) (T : Txt) (f : Field) (n : Nat) (b : List Nat)
    (hty : f.ty = .id n) (hcard : f.card = .req) (hb : b ≠ [])
    (hc : conf S false (.slot (.one f)) (.bytes b) = true) :
    b.length = n ∧ allZero b = false ∧
    enc S (.slot (.one f)) (.bytes b) = tag f.num 2 ++ lenPrefixed b ∧
    toJ S T (.slot (.one f)) (.bytes b) = .str (T.hex b) := by
  have hty' : ∀ sub, f.ty ≠ .msg sub := by intro sub h; rw [hty] at h; cases h
  rw [conf_slot_one] at hc
  simp only [hcard] at hc
  rw [conf_elem_leaf S f _ hty', hty] at hc
  simp only [leafOk, Bool.or_eq_true, Bool.and_eq_true, beq_iff_eq, Bool.not_eq_true', List.isEmpty_iff] at hc
  rcases hc with h0 | ⟨hl, hz⟩
  · exact absurd h0 hb
  · refine ⟨hl, hz, ?_, ?_⟩
    · have : enc S (.slot (.one f)) (.bytes b) = enc S (.elem f) (.bytes b) := by
        (conv => lhs; rw [enc]); simp [hcard]
      rw [this, enc_elem_leaf S f _ hty', hty]; simp [wireType, leaf, isScalar]
    · rw [toJ_slot_one]; simp only [hcard]
      rw [toJ_elem_leaf S T f _ hty', hty]; rfl


/-! ## fixed point through the PUBLIC protobuf entry points (`decodeRoot = otlp.Migrate* ∘ Unmarshal`) -/

set_option maxRecDepth 100000 in
/-- wherever a message has fields 2 and 1000 they are different repeated slots of the same element type -/
theorem C08_migrate_shape2 : migShape2Ok otlp = true := by decide +kernel

/-- **Fixed point at root level, for EVERY byte string** — including inputs that carry the deprecated scope field 1000, on which
`otlp.Migrate*` really moves data: if the public entry point of `root` decodes `b` to `w`, then re-encoding `w` gives bytes whose
decoding *through the same entry point* (Unmarshal, then migration again) is the canonical observation `c = canon w`; `c` encodes
to the same bytes and decodes to itself.  Composes `C08_decode_canonical`, `confD_migrate` (migration keeps the decoder shape),
`migrate_canon_migrate` (stationarity through migration) and `C08_pb_roundtrip`. -/
theorem C08_total_fixpoint_root (S : Schema) (D : List Val) (r : List Nat) (hwf : WF S D = true) (hr : reqRankOk S r = true)
    (hsh : migShape2Ok S = true) (root : String) (m : Nat)
    (hfirst : migratesPb root = true → ∀ f rest, S.slots m = .one f :: rest → f.card = .rep)
    (b : Bytes) (w : Val) (hd : decodeRoot S D root m b = some w) (hlen : (encode S m w).length < 2 ^ 63) :
    encode S m (canon S (.slots (S.slots m)) w) = encode S m w ∧
    decodeRoot S D root m (encode S m w) = some (canon S (.slots (S.slots m)) w) ∧
    decodeRoot S D root m (encode S m (canon S (.slots (S.slots m)) w)) = some (canon S (.slots (S.slots m)) w) := by
  simp only [decodeRoot, Option.map_eq_some_iff] at hd
  obtain ⟨v, hv, hw⟩ := hd
  obtain ⟨hcv, _⟩ := C08_decode_canonical S D r hwf hr m b v hv
  have he : encode S m (canon S (.slots (S.slots m)) w) = encode S m w := canon_enc S _ w
  cases hmig : migratesPb root
  · -- no migration on this root
    simp only [hmig, Bool.false_eq_true, if_false] at hw
    subst hw
    have hc := canon_conf S _ v hcv
    have hrt := C08_pb_roundtrip S D hwf m _ hc (by rw [he]; exact hlen)
    refine ⟨he, ?_, ?_⟩ <;> simp only [decodeRoot, hmig, Bool.false_eq_true, if_false]
    · rw [← he, hrt]; rfl
    · rw [hrt]; rfl
  · simp only [hmig, if_true] at hw
    subst hw
    have hf := hfirst hmig
    have hcw := confD_migrate S hsh m v hf hcv
    have hc := canon_conf S _ _ hcw
    have hrt := C08_pb_roundtrip S D hwf m _ hc (by rw [he]; exact hlen)
    have hst := migrate_canon_migrate S hsh m v hf hcv
    refine ⟨he, ?_, ?_⟩ <;> simp only [decodeRoot, hmig, if_true]
    · rw [← he, hrt]; simp only [Option.map_some]; rw [hst]
    · rw [hrt]; simp only [Option.map_some]; rw [hst]

/-- … for every public protobuf entry point of OTLP (4 payload unmarshalers, 4 export requests, 4 export responses). -/
theorem C08_total_fixpoint_root_otlp (root : String) (m : Nat) (hroot : (root, m) ∈ otlp.roots) (b : Bytes) (w : Val)
    (hd : decodeRoot otlp otlpD root m b = some w) (hlen : (encode otlp m w).length < 2 ^ 63) :
    decodeRoot otlp otlpD root m (encode otlp m w) = some (canon otlp (.slots (otlp.slots m)) w) ∧
    decodeRoot otlp otlpD root m (encode otlp m (canon otlp (.slots (otlp.slots m)) w))
      = some (canon otlp (.slots (otlp.slots m)) w) := by
  have hr := C08_api_roots
  simp only [List.all_eq_true] at hr
  have hrm := hr (root, m) hroot
  simp only [Bool.or_eq_true, Bool.not_eq_true', Bool.or_eq_false_iff] at hrm
  have hfirst : migratesPb root = true → ∀ f rest, otlp.slots m = .one f :: rest → f.card = .rep := by
    intro hmig f rest hs
    rcases hrm with ⟨h1, _⟩ | h3
    · rw [h1] at hmig; cases hmig
    · rw [hs] at h3; simpa using h3
  exact (C08_total_fixpoint_root otlp otlpD _ C08_schema_wf C08_schema_rank C08_migrate_shape2 root m hfirst b w hd hlen).2


/-! ## the readers, clause by clause (static tie) -/

set_option maxRecDepth 100000 in
/-- **Every `case` of every hand-written JSON reader assigns the field named by its labels, through the `Read*` helper the model
assumes for that field's type**: regenerated per clause by the translator (labels, assigned Go field, helper calls) and decided
against the schema — `label ↦ field`, `64-bit ↦ json.ReadInt64/ReadUint64`, `enum ↦ json.ReadEnumValue`, `bytes ↦ base64`,
`id ↦ UnmarshalJSON`, `sint32 ↦ iter.ReadInt32`, repeated ↦ `ReadArrayCB`, message ↦ its reader.  A clause that writes another
field (`droppedLinksCount` into `DroppedEventsCount`), reads an enum with `ReadInt32`, or bytes with `ReadStringAsSlice`
(three of the five repaired defects) no longer type-checks here, before any input is generated. -/
theorem C08_json_readers_typed : readersOk otlp Gen.OtlpSchema.readers = true := by decide +kernel


/-! ## OBSERVATION about the bit-exact reading: `-0.0` in a plain proto3 double field comes back as `+0.0`

Not a violation of the property: payload equality is Go's `==` / `reflect.DeepEqual`, under which `-0.0 == +0.0`, and proto3 does not
serialise a zero default.  The canonical form `Conforms` identifies the two, exactly like `==`; the theorem below records precisely
what that identification gives up. -/

/-- index of `metrics.SummaryDataPoint_ValueAtQuantile` (two plain doubles: `quantile`, `value`) -/
def quantileIdx : Nat := (otlp.msgs.findIdx? (fun m => m.name == "metrics.SummaryDataPoint_ValueAtQuantile")).getD 0

/-- `ValueAtQuantile{Quantile: -0.0, Value: 0}` as the decoder / the setters store it -/
def negZeroQuantile : Val := .cons (.num (2 ^ 63)) (.cons (.num 0) .nil)

/-- lossless **bit for bit** for every decoder-shaped value (`confD` admits the stored `-0.0`; `Conforms` excludes it) -/
def C08_pb_bitwise_full : Prop :=
  ∀ m v, confD otlp (.slots (otlp.slots m)) v = true → (encode otlp m v).length < 2 ^ 63 →
    decode otlp otlpD m (encode otlp m v) = some v

set_option maxRecDepth 100000 in
theorem quantile_shape : ∃ f1 f2, otlp.slots quantileIdx = [.one f1, .one f2] ∧
    f1.card = .opt ∧ f1.ty = .double ∧ f2.card = .opt ∧ f2.ty = .double := by
  have h : (match otlp.slots quantileIdx with
      | [.one f1, .one f2] => f1.card == .opt && f1.ty == .double && f2.card == .opt && f2.ty == .double
      | _ => false) = true := by decide +kernel
  split at h
  · next f1 f2 hs =>
    simp only [Bool.and_eq_true, beq_iff_eq] at h
    exact ⟨f1, f2, hs, h.1.1.1, h.1.1.2, h.1.2, h.2⟩
  · cases h

theorem negZero_encodes_empty : encode otlp quantileIdx negZeroQuantile = [] := by
  obtain ⟨f1, f2, hs, hc1, ht1, hc2, ht2⟩ := quantile_shape
  rw [encode, hs, negZeroQuantile, enc_slots_cons, enc_slots_cons, enc_slots_nil]
  have h1 : enc otlp (.slot (.one f1)) (.num (2 ^ 63)) = [] := by
    (conv => lhs; rw [enc]); simp [hc1, ht1, isZero]
  have h2 : enc otlp (.slot (.one f2)) (.num 0) = [] := by
    (conv => lhs; rw [enc]); simp [hc2, ht2, isZero]
  rw [h1, h2]; rfl

set_option maxRecDepth 100000 in
/-- **Observation (kernel-checked), not a finding**: under a BIT-EXACT reading of "equal" the round trip would fail — the generated
marshaler tests a plain double with `!= 0`, which is false for `-0.0`, so the field is not written and comes back as `+0.0`
(`SummaryDataPoint.sum`, `ValueAtQuantile.quantile/value`, `ExponentialHistogramDataPoint.zero_threshold`).  The property's
equality is Go's `==`, which identifies the two zeros, so this is outside the statement; the harness counts it as
`stat negative_zero_sign_lost` (corpus case 4) and raises nothing.  NaN is different: `==` does not identify NaNs, so the
protobuf theorems and oracles compare NaN bit patterns exactly, and the JSON ones up to `normV` (both NaN). -/
theorem C08_pb_bitwise_full_fails : ¬ C08_pb_bitwise_full := by
  intro h
  obtain ⟨f1, f2, hs, hc1, ht1, hc2, ht2⟩ := quantile_shape
  have hconf : confD otlp (.slots (otlp.slots quantileIdx)) negZeroQuantile = true := by
    rw [hs, negZeroQuantile, confD_slots_cons, confD_slots_cons, confD_slots_nil, confD_slot_one, confD_slot_one]
    simp [hc1, hc2, ht1, ht2, leafOk, scalarOk]
  have := h quantileIdx negZeroQuantile hconf (by rw [negZero_encodes_empty]; decide)
  rw [negZero_encodes_empty, decode, decMsg_nil] at this
  have hd : otlpD.getD quantileIdx .nil = .cons (.num 0) (.cons (.num 0) .nil) := by decide +kernel
  rw [hd] at this
  exact absurd (Option.some.inj this) (by decide)


/-! ## which entry points migrate: the hand-written root tables are tied to the callers of `otlp.Migrate*` -/

/-- the resource message of root `m` carries a deprecated field 1000 (otherwise `migrate` is the identity on it) -/
def rootHasDep (S : Schema) (m : Nat) : Bool :=
  match S.slots m with
  | .one f :: _ => (match f.ty with | .msg r => (slotIdx (S.slots r) 1000).isSome | _ => false)
  | _ => false

set_option maxRecDepth 100000 in
/-- `migratesPb` / `migratesJson` (Model) agree with the REGENERATED lists of decode entry points that call `otlp.Migrate*`
(`ProtoUnmarshaler.Unmarshal*`, `JSONUnmarshaler.Unmarshal*`, `ExportRequest.UnmarshalProto/UnmarshalJSON`), on every root on which
migration can do anything.  An entry point that forgets `Migrate*` (as `pmetricotlp` and the plain `ProtoUnmarshaler`s did) makes
this fail statically. -/
theorem C08_migrate_roots_tie : otlp.roots.all (fun rm => !rootHasDep otlp rm.2 ||
    (migratesPb rm.1 == Gen.OtlpSchema.migratesPbRoots.contains rm.1 &&
     migratesJson rm.1 == Gen.OtlpSchema.migratesJsonRoots.contains rm.1)) = true := by decide +kernel


/-! ## JSON: whatever decodes successfully re-encodes to a fixed point (every document tree) -/

set_option maxRecDepth 100000 in
/-- ties over the regenerated tables: enum values fit `int32`; a reader with a `case` for a proto name has one for the JSON name; no
reader has a `case` for a deprecated list -/
theorem C08_json_fix_ties : enumsOk otlp = true ∧ keysSymOk otlp = true ∧ depUncovOk otlp = true := by decide +kernel

/-- the concrete decoders return well-formed data; for the float parser that is the (assumed) `fparse_lt` -/
theorem C08_txt_out (ffmt : Nat → List Nat) (fparse : List Nat → Option Nat) (hlt : ∀ t n, fparse t = some n → n < 2 ^ 64) :
    TxtOut (mkTxtF ffmt fparse) where
  fparse_lt := hlt
  unb64_bytes := b64dec_out
  unhex_bytes := hexDec_out

/-- **The JSON readers' results are canonical, for EVERY document tree**: a successful `fromJson` returns a decoder-shaped value
(`confD`) that is JSON-representable (`jcov`: only fields with a `case` were written; bytes are bytes). -/
theorem C08_json_decode_canonical (S : Schema) (D : List Val) (T : Txt) (r : List Nat) (hwf : WF S D = true)
    (hr : reqRankOk S r = true) (hcov : covOk S = true) (hsym : keysSymOk S = true) (he : enumsOk S = true) (hTo : TxtOut T)
    (m : Nat) (j : Json) (v : Val) (hd : fromJson S T D m j = some v) : CJ S m v := by
  have hdef : ∀ sub, CJ S sub (D.getD sub .nil) := fun sub =>
    ⟨defaults_confD S D r (wf_slots hwf) (wf_defaults hwf) hr _ sub (Nat.le_refl _),
     defaults_jcov S D r hcov (wf_defaults hwf) hr _ sub (Nat.le_refl _)⟩
  have H : JHyp S T D := ⟨wf_slots hwf, hsym, hTo, he, hdef⟩
  have hA := (fromJ_CJ S T D H j.size).1 j (Nat.le_refl _) m (D.getD m .nil) v (hdef m)
  cases j <;> simp only [fromJson] at hd <;> first | exact hA hd | cases hd

/-- **Fixed point (JSON).** For every document tree `j` that the reader of message `m` accepts, with result `v`: the API
observation `c = canon v` is conforming, marshalling it and reading it back gives `normV c` (NaNs canonical), and `normV c` is
stationary: marshal → unmarshal returns it unchanged.  Arbitrary JSON, any depth, unknown / duplicate / reordered members, either
spelling — everything `fromJ` models.  (The lexer, i.e. text → tree, is outside: trusted jsoniter.) -/
theorem C08_json_fixpoint (S : Schema) (D : List Val) (T : Txt) (r : List Nat) (hwf : WF S D = true) (hj : JWF S = true)
    (hr : reqRankOk S r = true) (hcov : covOk S = true) (hsym : keysSymOk S = true) (he : enumsOk S = true)
    (hT : TxtLaws T) (hTo : TxtOut T) (m : Nat) (j : Json) (v : Val) (hd : fromJson S T D m j = some v) :
    Conforms S m (canon S (.slots (S.slots m)) v) ∧
    fromJson S T D m (toJson S T m (canon S (.slots (S.slots m)) v))
      = some (normV S (.slots (S.slots m)) (canon S (.slots (S.slots m)) v)) ∧
    fromJson S T D m (toJson S T m (normV S (.slots (S.slots m)) (canon S (.slots (S.slots m)) v)))
      = some (normV S (.slots (S.slots m)) (canon S (.slots (S.slots m)) v)) := by
  obtain ⟨hc, hjc⟩ := C08_json_decode_canonical S D T r hwf hr hcov hsym he hTo m j v hd
  have hconf : Conforms S m (canon S (.slots (S.slots m)) v) := canon_conf S _ v hc
  have hjcan := jcov_canon S _ v m hjc
  have h1 := C08_json_roundtrip S D T hwf hj hT m _ hconf hjcan
  have hconf2 : Conforms S m (normV S (.slots (S.slots m)) (canon S (.slots (S.slots m)) v)) := conf_normV S _ _ hconf
  have hj2 := jcov_normV S _ _ m hconf hjcan
  have h2 := C08_json_roundtrip S D T hwf hj hT m _ hconf2 hj2
  rw [normV_idem] at h2
  exact ⟨hconf, h1, h2⟩

/-- … through the PUBLIC JSON entry points of OTLP (`JSONUnmarshaler.Unmarshal*`, `ExportRequest/Response.UnmarshalJSON`): the
`otlp.Migrate*` they run is the identity on everything a reader returns (no reader has a `case` for a deprecated list), so the
root-level decode of a document equals `fromJson`, and the fixed point above is a fixed point of the entry point. -/
theorem C08_json_fixpoint_root_otlp (T : Txt) (hT : TxtLaws T) (hTo : TxtOut T) (root : String) (m : Nat)
    (hroot : (root, m) ∈ otlp.roots) (j : Json) (w : Val) (hd : fromJsonRoot otlp T otlpD root m j = some w) :
    fromJson otlp T otlpD m j = some w ∧
    fromJsonRoot otlp T otlpD root m (toJson otlp T m (normV otlp (.slots (otlp.slots m)) (canon otlp (.slots (otlp.slots m)) w)))
      = some (normV otlp (.slots (otlp.slots m)) (canon otlp (.slots (otlp.slots m)) w)) := by
  obtain ⟨he, hsym, hdu⟩ := C08_json_fix_ties
  have hr := C08_api_roots
  simp only [List.all_eq_true] at hr
  have hrm := hr (root, m) hroot
  simp only [Bool.or_eq_true, Bool.not_eq_true', Bool.or_eq_false_iff] at hrm
  have hfirst : migratesJson root = true → ∀ f rest, otlp.slots m = .one f :: rest → f.card = .rep := by
    intro hmig f rest hs
    rcases hrm with ⟨_, h2⟩ | h3
    · rw [h2] at hmig; cases hmig
    · rw [hs] at h3; simpa using h3
  have hnoop : ∀ x, CJ otlp m x → (if migratesJson root = true then migrate otlp m x else x) = x := by
    intro x hx
    cases hmig : migratesJson root
    · simp
    · simp only [if_true]; exact migrate_noop_jcov otlp C08_migrate_shape2 hdu m x (hfirst hmig) hx
  simp only [fromJsonRoot, Option.map_eq_some_iff] at hd
  obtain ⟨v, hv, hw⟩ := hd
  have hcj := C08_json_decode_canonical otlp otlpD T _ C08_schema_wf C08_schema_rank C08_api_cov hsym he hTo m j v hv
  rw [hnoop v hcj] at hw
  subst hw
  refine ⟨hv, ?_⟩
  obtain ⟨_, _, h3⟩ := C08_json_fixpoint otlp otlpD T _ C08_schema_wf C08_json_wf C08_schema_rank C08_api_cov hsym he hT hTo m j v hv
  simp only [fromJsonRoot, h3, Option.map_some]
  have hcj2 := C08_json_decode_canonical otlp otlpD T _ C08_schema_wf C08_schema_rank C08_api_cov hsym he hTo m _ _ h3
  rw [hnoop _ hcj2]

/-! ## non-vacuity on the OTLP schema itself: an `ApiBuilt` export response -/

set_option maxRecDepth 100000 in
/-- `ExportLogsServiceResponse{PartialSuccess{RejectedLogRecords: 3, ErrorMessage: "ok"}}` is `ApiBuilt` for the regenerated schema -/
theorem C08_apibuilt_example : ∃ m, otlp.roots.lookup "logsresp" = some m ∧
    ApiBuilt otlp m (.cons (.cons (.num 3) (.cons (.bytes [111, 107]) .nil)) .nil) := by
  have h : (match otlp.roots.lookup "logsresp" with
      | some m => (match otlp.slots m with
        | [.one f] => f.card == .req && !isDep f && (match f.ty with
          | .msg sub => (match otlp.slots sub with
            | [.one a, .one b] => a.card == .opt && a.ty == .i64 && b.card == .opt && b.ty == .string && !isDep a && !isDep b
            | _ => false)
          | _ => false)
        | _ => false)
      | none => false) = true := by decide +kernel
  split at h
  · next m hm =>
    refine ⟨m, hm, ?_⟩
    split at h
    · next f hs =>
      simp only [Bool.and_eq_true, beq_iff_eq, Bool.not_eq_true'] at h
      obtain ⟨⟨hcard, hdep⟩, h3⟩ := h
      split at h3
      · next sub hty =>
        split at h3
        · next a b hss =>
          simp only [Bool.and_eq_true, beq_iff_eq, Bool.not_eq_true'] at h3
          obtain ⟨⟨⟨⟨⟨hca, hta⟩, hcb⟩, htb⟩, hda⟩, hdb⟩ := h3
          constructor
          · rw [Conforms, hs, conf_slots_cons, conf_slots_nil_nil, conf_slot_one]
            simp only [hcard, Bool.and_true]
            rw [conf]; simp only [hty]
            rw [hss, conf_slots_cons, conf_slots_cons, conf_slots_nil_nil, conf_slot_one, conf_slot_one]
            simp [hca, hcb, hta, htb, leafOk, scalarOk]
          · rw [hs, apiVal_slots_cons, apiVal_slot_one]
            simp only [hcard, hdep, Bool.not_false, Bool.true_or, Bool.true_and]
            rw [apiVal_elem_msg otlp f _ sub hty, hss, apiVal_slots_cons, apiVal_slots_cons, apiVal_slot_one, apiVal_slot_one]
            simp only [hca, hcb, hda, hdb, Bool.not_false, Bool.true_or, Bool.true_and]
            rw [apiVal.eq_def]
            simp [hta, htb, apiVal]
        · cases h3
      · cases h3
    · cases h
  · cases h

/-! ## non-vacuity: a small schema using every slot discipline, a conforming value with extreme numerics -/
def S0 : Schema := { msgs := [
  { name := "t.Inner", slots := [.one { num := 1, go := "A", json := "a", orig := "a", ty := .u64 }], jsonKeys := ["a"] },
  { name := "t.Outer", slots := [
      .one { num := 1, go := "N", json := "n", orig := "n", ty := .i32 },
      .one { num := 2, go := "In", json := "in", orig := "in", ty := .msg 0, card := .req },
      .one { num := 3, go := "Rs", json := "rs", orig := "rs", ty := .msg 0, card := .rep },
      .oneof "V" [{ num := 4, go := "S", json := "s", orig := "s", ty := .string }, { num := 7, go := "B", json := "b", orig := "b", ty := .bytes }],
      .one { num := 9, go := "P", json := "p", orig := "p", ty := .double, card := .packed }],
    jsonKeys := ["n", "in", "rs", "s", "b", "p"] }], enums := [], roots := [("outer", 1)] }

/-- N = -1, In = {A: 300}, Rs = [{}, {A: 2^64-1}], V = S:"hi", P = [NaN, -0.0] -/
def v0 : Val := Val.ofList [.num (2 ^ 32 - 1), Val.ofList [.num 300], Val.ofList [Val.ofList [.num 0], Val.ofList [.num (2 ^ 64 - 1)]],
  Val.ofList [.num 4, .bytes [104, 105]], Val.ofList [.num 0x7FF8000000000001, .num (2 ^ 63)]]

example : WF S0 (defaults S0) = true := by decide
example : Conforms S0 1 v0 := by
  simp [Conforms, v0, S0, Schema.slots, Val.ofList, conf, leafOk, scalarOk, packedOk, findAlt]
example : covOk S0 = true ∧ JWF S0 = true ∧ migShapeOk S0 = true := by decide
example : ApiBuilt S0 1 v0 :=
  ⟨by simp [Conforms, v0, S0, Schema.slots, Val.ofList, conf, leafOk, scalarOk, packedOk, findAlt],
   by simp [v0, S0, Schema.slots, Val.ofList, apiVal, findAlt, isDep, Val.isCons]⟩
example : decode S0 (defaults S0) 1 (encode S0 1 v0) = some v0 :=
  C08_pb_roundtrip S0 (defaults S0) (by decide) 1 v0
    (by simp [Conforms, v0, S0, Schema.slots, Val.ofList, conf, leafOk, scalarOk, packedOk, findAlt])
    (by rw [← C08_size]; simp [size, v0, S0, Schema.slots, Val.ofList, sz, findAlt, leafSize, scalarSize, packedSize, isZero, isScalar, wireType, Val.isCons, sext32]; simp [sov])

end OtelVerif.C08
