import OtelVerif.Lemmas.C09Graph
import OtelVerif.Model.C09Dispatch
/-!
# C09 — the built pipeline graph routes data exactly as the configuration says

Model: `Model/C09.lean` (mirror of `service/internal/graph/graph.go`).  All theorems quantify over every
configuration (any number of pipelines, signals, components, connectors, support matrices); no size bounds.

`cfg.WF` = what a Go map of pipelines and `PipelineConfig.Validate` guarantee (distinct pipeline ids, no
processor listed twice in one pipeline).
-/
namespace OtelVerif.C09

/-! ## the routes a configuration describes (no graph involved) -/

/-- nodes visited, after the capabilities node of `p`, by a payload that entered pipeline `p`:
its processors in configured order, then either one of its exporters, or one of its connectors and from
there a pipeline that lists the connector as receiver (supported signal pair), recursively -/
inductive PipeRoute (cfg : Cfg) : Pipeline → List Node → Prop
  | direct (p : Pipeline) (e : CompId) : p ∈ cfg.pipes → e ∈ p.exps → cfg.isConn e = false →
      PipeRoute cfg p (procNodes p ++ Node.fanout p.id :: [Node.exp p.id.sig e])
  | via (p : Pipeline) (c : CompId) (q : Pipeline) (w : List Node) :
      p ∈ cfg.pipes → c ∈ p.exps → cfg.isConn c = true →
      q ∈ cfg.pipes → c ∈ q.recv → cfg.supp c p.id.sig q.id.sig = true →
      PipeRoute cfg q w →
      PipeRoute cfg p (procNodes p ++ Node.fanout p.id :: Node.conn p.id.sig q.id.sig c :: Node.cap q.id :: w)

/-- routes of data emitted by receiver `r` of signal `s`: through every pipeline of that signal that lists `r` -/
def CfgRoute (cfg : Cfg) (s : Sig) (r : CompId) (w : List Node) : Prop :=
  ∃ p, p ∈ cfg.pipes ∧ p.id.sig = s ∧ r ∈ p.recv ∧ cfg.isConn r = false ∧
    ∃ w', PipeRoute cfg p w' ∧ w = Node.cap p.id :: w'

/-! ## routing -/

/-- every route the configuration describes is a walk of the built graph -/
theorem C09_route_is_walk (cfg : Cfg) (p : Pipeline) (w : List Node) (h : PipeRoute cfg p w) :
    IsRouteWalk (edges cfg) (Node.cap p.id) w := by
  induction h with
  | direct p e hp he hc =>
    refine walk_chain (fun x hx => mem_edges.mpr ⟨p, hp, Or.inr (Or.inl hx)⟩) rfl
      (fun x hx => chain_nonexp x (List.mem_cons_of_mem _ hx)) ?_
    exact ⟨rfl, mem_edges.mpr ⟨p, hp, Or.inr (Or.inr ⟨rfl, mem_pipeExpNodes.mpr (Or.inl ⟨e, he, hc, rfl⟩)⟩)⟩, rfl⟩
  | via p c q w hp hce hic hq hcr hs _ ih =>
    refine walk_chain (fun x hx => mem_edges.mpr ⟨p, hp, Or.inr (Or.inl hx)⟩) rfl
      (fun x hx => chain_nonexp x (List.mem_cons_of_mem _ hx)) ?_
    refine ⟨rfl, mem_edges.mpr ⟨p, hp, Or.inr (Or.inr ⟨rfl, mem_pipeExpNodes.mpr (Or.inr ⟨c, hce, hic, q, hq, hcr, hs, rfl⟩)⟩)⟩, ?_⟩
    exact ⟨rfl, mem_edges.mpr ⟨q, hq, Or.inl ⟨mem_pipeRecvNodes.mpr (Or.inr ⟨c, hcr, hic, p, hp, hce, hs, rfl⟩), rfl⟩⟩, ih⟩

/-- every walk of the built graph from a pipeline's entry to an exporter is a route the configuration describes -/
theorem C09_walk_is_route (cfg : Cfg) (wf : cfg.WF) : ∀ (n : Nat) (w : List Node), w.length ≤ n →
    ∀ p, p ∈ cfg.pipes → IsRouteWalk (edges cfg) (Node.cap p.id) w → PipeRoute cfg p w := by
  intro n
  induction n with
  | zero =>
    intro w hlen p _ hw
    have : w = [] := List.eq_nil_of_length_eq_zero (Nat.le_zero.mp hlen)
    subst this
    cases hw
  | succ n ih =>
    intro w hlen p hp hw
    obtain ⟨rest, hr, hz⟩ := walk_forced (procNodes p) (Node.cap p.id) w (chain_nodup wf hp) chain_nonexp
      (fun x y hx hxy => chain_out wf hp hx hxy) hw
    subst hr
    cases rest with
    | nil => cases hz
    | cons e rest' =>
      obtain ⟨_, hE, hw'⟩ := hz
      rcases mem_pipeExpNodes.mp (fanout_out wf hp hE) with ⟨x, hx, hc, rfl⟩ | ⟨c, hce, hic, q, _, _, _, rfl⟩
      · cases rest' with
        | nil => exact PipeRoute.direct p x hp hx hc
        | cons m r => exact absurd hw'.1 (by simp [Node.isExp])
      · cases rest' with
        | nil => exact absurd hw' (by simp [IsRouteWalk, Node.isExp])
        | cons m rest'' =>
          obtain ⟨_, hE2, hw''⟩ := hw'
          obtain ⟨q', hq', hmem, rfl⟩ := src_out (Or.inr ⟨_, _, _, rfl⟩) hE2
          rcases mem_pipeRecvNodes.mp hmem with ⟨r, _, _, h'⟩ | ⟨c', hcr', _, p'', _, _, hs', h'⟩
          · cases h'
          · injection h' with h1 h2 h3
            subst h3
            have hlen' : rest''.length ≤ n := by
              simp only [List.length_append, List.length_cons] at hlen
              omega
            have hroute := ih rest'' hlen' q' hq' hw''
            rw [← h1] at hs'
            rw [h2]
            exact PipeRoute.via p c q' rest'' hp hce hic hq' hcr' hs' hroute

/-- **routing, graph level**: the walks of the built graph from receiver `(s, r)` to exporters are exactly
the routes the configuration describes -/
theorem C09_routing (cfg : Cfg) (wf : cfg.WF) (s : Sig) (r : CompId) (w : List Node) :
    IsRouteWalk (edges cfg) (Node.recv s r) w ↔ CfgRoute cfg s r w := by
  constructor
  · intro hw
    cases w with
    | nil => cases hw
    | cons m w' =>
      obtain ⟨_, hE, hw'⟩ := hw
      obtain ⟨p, hp, hmem, rfl⟩ := src_out (Or.inl ⟨_, _, rfl⟩) hE
      rcases mem_pipeRecvNodes.mp hmem with ⟨r', hr', hc', h'⟩ | ⟨c', _, _, p'', _, _, _, h'⟩
      · injection h' with h1 h2
        subst h2
        exact ⟨p, hp, h1.symm, hr', hc', w', C09_walk_is_route cfg wf w'.length w' (Nat.le_refl _) p hp hw', rfl⟩
      · cases h'
  · rintro ⟨p, hp, rfl, hr, hc, w', hroute, rfl⟩
    exact ⟨rfl, mem_edges.mpr ⟨p, hp, Or.inl ⟨mem_pipeRecvNodes.mpr (Or.inl ⟨r, hr, hc, rfl⟩), rfl⟩⟩,
      C09_route_is_walk cfg p w' hroute⟩

/-- **routing, run time**: when the configuration is accepted, pushing a payload into receiver `(s, r)`
terminates and produces one delivery per configured route and nothing else (`ws` lists the visited nodes of
every delivery; the exporter is the last node, `trailOf` its processors/connectors in order) -/
theorem C09_delivery (cfg : Cfg) (wf : cfg.WF) (hb : build cfg = none) (s : Sig) (r : CompId)
    (hn : Node.recv s r ∈ nodes cfg) :
    ∃ k ws, deliver (succ cfg) k (Node.recv s r) = some ws ∧ ws.Nodup ∧ ∀ w, w ∈ ws ↔ CfgRoute cfg s r w := by
  have hsort : sortable (succ cfg) (nodes cfg) = true := by
    simp only [build] at hb
    by_cases h1 : createNodesOk cfg = true
    · by_cases h2 : sortable (succOf (edges cfg)) (nodes cfg) = true
      · exact h2
      · simp [h1, h2] at hb
    · simp [h1] at hb
  obtain ⟨ws, hws⟩ := peel_deliver _ _ (sortable_mem hsort hn)
  have hspec := deliver_spec (edges cfg) _ _ ws hws
  exact ⟨_, ws, hws, hspec.1, fun w => (hspec.2 w).trans (C09_routing cfg wf s r w)⟩

/-- the outcome does not depend on the fuel given to the model's recursion -/
theorem C09_delivery_unique (cfg : Cfg) (k k' : Nat) (n : Node) (a b : List (List Node))
    (h1 : deliver (succ cfg) k n = some a) (h2 : deliver (succ cfg) k' n = some b) : a = b :=
  deliver_det _ h1 h2

/-- processors in configured order, per pipeline: what the payload shows at the exporter on a direct route -/
theorem C09_trail_direct (p : Pipeline) (e : CompId) :
    trailOf (Node.cap p.id :: (procNodes p ++ Node.fanout p.id :: [Node.exp p.id.sig e])) = procNodes p := by
  simp [trailOf, procNodes]

/-! ## instance sharing -/

/-- one node (= one component instance) per key -/
theorem C09_nodes_nodup (cfg : Cfg) : (nodes cfg).Nodup := nodup_dedup _

/-- receivers: one instance per (signal, id) used, whatever the number of pipelines of that signal listing it -/
theorem C09_sharing_receivers (cfg : Cfg) (s : Sig) (r : CompId) :
    Node.recv s r ∈ nodes cfg ↔ ∃ p, p ∈ cfg.pipes ∧ p.id.sig = s ∧ r ∈ p.recv ∧ cfg.isConn r = false := by
  rw [mem_nodes]
  constructor
  · rintro ⟨p, hp, h⟩
    simp only [pipeNodes, List.mem_append, List.mem_singleton, mem_pipeRecvNodes, mem_pipeExpNodes, procNodes,
      List.mem_map] at h
    rcases h with (((((⟨r', hr', hc', h'⟩ | ⟨_, _, _, _, _, _, _, h'⟩) | h') | ⟨_, _, h'⟩) | h') |
      (⟨_, _, _, h'⟩ | ⟨_, _, _, _, _, _, _, h'⟩)) <;> try cases h'
    exact ⟨p, hp, rfl, hr', hc'⟩
  · rintro ⟨p, hp, rfl, hr, hc⟩
    refine ⟨p, hp, ?_⟩
    simp only [pipeNodes, List.mem_append]
    exact Or.inl (Or.inl (Or.inl (Or.inl (mem_pipeRecvNodes.mpr (Or.inl ⟨r, hr, hc, rfl⟩)))))

theorem C09_sharing_exporters (cfg : Cfg) (s : Sig) (e : CompId) :
    Node.exp s e ∈ nodes cfg ↔ ∃ p, p ∈ cfg.pipes ∧ p.id.sig = s ∧ e ∈ p.exps ∧ cfg.isConn e = false := by
  rw [mem_nodes]
  constructor
  · rintro ⟨p, hp, h⟩
    simp only [pipeNodes, List.mem_append, List.mem_singleton, mem_pipeRecvNodes, mem_pipeExpNodes, procNodes,
      List.mem_map] at h
    rcases h with (((((⟨_, _, _, h'⟩ | ⟨_, _, _, _, _, _, _, h'⟩) | h') | ⟨_, _, h'⟩) | h') |
      (⟨e', he', hc', h'⟩ | ⟨_, _, _, _, _, _, _, h'⟩)) <;> try cases h'
    exact ⟨p, hp, rfl, he', hc'⟩
  · rintro ⟨p, hp, rfl, he, hc⟩
    refine ⟨p, hp, ?_⟩
    simp only [pipeNodes, List.mem_append]
    exact Or.inr (mem_pipeExpNodes.mpr (Or.inl ⟨e, he, hc, rfl⟩))

/-- processors: one instance per (pipeline, id) occurrence -/
theorem C09_sharing_processors (cfg : Cfg) (pid : PipeId) (x : CompId) :
    Node.proc pid x ∈ nodes cfg ↔ ∃ p, p ∈ cfg.pipes ∧ p.id = pid ∧ x ∈ p.procs := by
  rw [mem_nodes]
  constructor
  · rintro ⟨p, hp, h⟩
    simp only [pipeNodes, List.mem_append, List.mem_singleton, mem_pipeRecvNodes, mem_pipeExpNodes, procNodes,
      List.mem_map] at h
    rcases h with (((((⟨_, _, _, h'⟩ | ⟨_, _, _, _, _, _, _, h'⟩) | h') | ⟨x', hx', h'⟩) | h') |
      (⟨_, _, _, h'⟩ | ⟨_, _, _, _, _, _, _, h'⟩)) <;> try cases h'
    exact ⟨p, hp, rfl, hx'⟩
  · rintro ⟨p, hp, rfl, hx⟩
    refine ⟨p, hp, ?_⟩
    simp only [pipeNodes, List.mem_append, procNodes, List.mem_map]
    exact Or.inl (Or.inl (Or.inr ⟨x, hx, rfl⟩))

/-- connectors: one instance per (exporter-side signal, receiver-side signal) pair it is used for and supports -/
theorem C09_sharing_connectors (cfg : Cfg) (es rs : Sig) (c : CompId) :
    Node.conn es rs c ∈ nodes cfg ↔
      cfg.isConn c = true ∧ cfg.supp c es rs = true ∧
      (∃ p, p ∈ cfg.pipes ∧ p.id.sig = es ∧ c ∈ p.exps) ∧ (∃ q, q ∈ cfg.pipes ∧ q.id.sig = rs ∧ c ∈ q.recv) := by
  rw [mem_nodes]
  constructor
  · rintro ⟨p, hp, h⟩
    simp only [pipeNodes, List.mem_append, List.mem_singleton, mem_pipeRecvNodes, mem_pipeExpNodes, procNodes,
      List.mem_map] at h
    rcases h with (((((⟨_, _, _, h'⟩ | ⟨c', hc', hic, p', hp', hce, hs, h'⟩) | h') | ⟨_, _, h'⟩) | h') |
      (⟨_, _, _, h'⟩ | ⟨c', hc', hic, q', hq', hcr, hs, h'⟩)) <;> try cases h'
    · exact ⟨hic, hs, ⟨p', hp', rfl, hce⟩, ⟨p, hp, rfl, hc'⟩⟩
    · exact ⟨hic, hs, ⟨p, hp, rfl, hc'⟩, ⟨q', hq', rfl, hcr⟩⟩
  · rintro ⟨hic, hs, ⟨p, hp, rfl, hce⟩, ⟨q, hq, rfl, hcr⟩⟩
    refine ⟨p, hp, ?_⟩
    simp only [pipeNodes, List.mem_append]
    exact Or.inr (mem_pipeExpNodes.mpr (Or.inr ⟨c, hce, hic, q, hq, hcr, hs, rfl⟩))

/-! ## rejection: unsupported connector use -/

/-- a configured connector is listed in some pipeline whose signal has no supported counterpart among the
pipelines on its other side (this includes a connector used on one side only) -/
def UnsupportedUse (cfg : Cfg) : Prop :=
  ∃ c, cfg.isConn c = true ∧
    ((∃ p, p ∈ cfg.pipes ∧ c ∈ p.exps ∧ ∀ q, q ∈ cfg.pipes → c ∈ q.recv → cfg.supp c p.id.sig q.id.sig = false) ∨
     (∃ q, q ∈ cfg.pipes ∧ c ∈ q.recv ∧ ∀ p, p ∈ cfg.pipes → c ∈ p.exps → cfg.supp c p.id.sig q.id.sig = false))

theorem mem_usedConns {cfg : Cfg} {c : CompId} :
    c ∈ usedConns cfg ↔ cfg.isConn c = true ∧ ∃ p, p ∈ cfg.pipes ∧ (c ∈ p.recv ∨ c ∈ p.exps) := by
  simp only [usedConns, mem_dedup, List.mem_flatMap, List.mem_filter, List.mem_append]
  constructor
  · rintro ⟨p, hp, h, hc⟩; exact ⟨hc, p, hp, h⟩
  · rintro ⟨hc, p, hp, h⟩; exact ⟨p, hp, h, hc⟩

theorem createNodesOk_false {cfg : Cfg} : createNodesOk cfg = false ↔ UnsupportedUse cfg := by
  constructor
  · intro h
    have : ¬ ∀ c, c ∈ usedConns cfg → connValid cfg c = true := by
      intro hall
      have : createNodesOk cfg = true := by simpa [createNodesOk, List.all_eq_true] using hall
      rw [this] at h; cases h
    have : ∃ c, c ∈ usedConns cfg ∧ connValid cfg c = false := by
      apply Classical.byContradiction
      intro hne
      apply this
      intro c hc
      cases hv : connValid cfg c with
      | true => rfl
      | false => exact absurd ⟨c, hc, hv⟩ hne
    obtain ⟨c, hc, hv⟩ := this
    obtain ⟨hic, _⟩ := mem_usedConns.mp hc
    refine ⟨c, hic, ?_⟩
    simp only [connValid, Bool.and_eq_false_iff, List.all_eq_false, asExp, asRecv, List.mem_filter,
      decide_eq_true_eq, expOk, recvOk, List.any_eq_true, not_exists, not_and, Bool.not_eq_true] at hv
    rcases hv with ⟨p, ⟨hp, hce⟩, hno⟩ | ⟨q, ⟨hq, hcr⟩, hno⟩
    · exact Or.inl ⟨p, hp, hce, fun q hq hcr => hno q ⟨hq, hcr⟩⟩
    · exact Or.inr ⟨q, hq, hcr, fun p hp hce => hno p ⟨hp, hce⟩⟩
  · rintro ⟨c, hic, h⟩
    cases hok : createNodesOk cfg with
    | false => rfl
    | true =>
      exfalso
      simp only [createNodesOk, List.all_eq_true] at hok
      rcases h with ⟨p, hp, hce, hno⟩ | ⟨q, hq, hcr, hno⟩
      · have hv := hok c (mem_usedConns.mpr ⟨hic, p, hp, Or.inr hce⟩)
        simp only [connValid, Bool.and_eq_true, List.all_eq_true, asExp, asRecv, List.mem_filter,
          decide_eq_true_eq, expOk, List.any_eq_true] at hv
        obtain ⟨q, ⟨hq, hcr⟩, hs⟩ := hv.1 p ⟨hp, hce⟩
        rw [hno q hq hcr] at hs; cases hs
      · have hv := hok c (mem_usedConns.mpr ⟨hic, q, hq, Or.inl hcr⟩)
        simp only [connValid, Bool.and_eq_true, List.all_eq_true, asExp, asRecv, List.mem_filter,
          decide_eq_true_eq, recvOk, List.any_eq_true] at hv
        obtain ⟨p, ⟨hp, hce⟩, hs⟩ := hv.2 q ⟨hq, hcr⟩
        rw [hno p hp hce] at hs; cases hs

/-- **rejection (connector)**: the build fails with the connector error exactly when some connector use has no
supported counterpart -/
theorem C09_unsupported (cfg : Cfg) : build cfg = some .connector ↔ UnsupportedUse cfg := by
  rw [← createNodesOk_false]
  simp only [build]
  cases createNodesOk cfg with
  | false => simp
  | true =>
    by_cases h2 : sortable (succOf (edges cfg)) (nodes cfg) = true <;> simp [h2]

/-! ## rejection: connector cycles -/

/-- one or more connector hops between pipelines -/
inductive FeedsPath (cfg : Cfg) : Pipeline → Pipeline → Prop
  | single {p q : Pipeline} : p ∈ cfg.pipes → q ∈ cfg.pipes → feeds cfg p q = true → FeedsPath cfg p q
  | cons {p q r : Pipeline} : p ∈ cfg.pipes → q ∈ cfg.pipes → feeds cfg p q = true → FeedsPath cfg q r → FeedsPath cfg p r

/-- the connector usage of the configuration forms a cycle -/
def ConnectorCycle (cfg : Cfg) : Prop := ∃ p, FeedsPath cfg p p

theorem feeds_path {cfg : Cfg} {p q : Pipeline} (hp : p ∈ cfg.pipes) (hq : q ∈ cfg.pipes) (h : feeds cfg p q = true) :
    Path (edges cfg) (Node.cap p.id) (Node.cap q.id) := by
  simp only [feeds, List.any_eq_true, Bool.and_eq_true, decide_eq_true_eq] at h
  obtain ⟨c, hce, ⟨hic, hcr⟩, hs⟩ := h
  have h1 : Path (edges cfg) (Node.cap p.id) (Node.fanout p.id) :=
    path_chain (l := procNodes p) (fun x hx => mem_edges.mpr ⟨p, hp, Or.inr (Or.inl hx)⟩)
  have h2 : (Node.fanout p.id, Node.conn p.id.sig q.id.sig c) ∈ edges cfg :=
    mem_edges.mpr ⟨p, hp, Or.inr (Or.inr ⟨rfl, mem_pipeExpNodes.mpr (Or.inr ⟨c, hce, hic, q, hq, hcr, hs, rfl⟩)⟩)⟩
  have h3 : (Node.conn p.id.sig q.id.sig c, Node.cap q.id) ∈ edges cfg :=
    mem_edges.mpr ⟨q, hq, Or.inl ⟨mem_pipeRecvNodes.mpr (Or.inr ⟨c, hcr, hic, p, hp, hce, hs, rfl⟩), rfl⟩⟩
  exact h1.trans (Path.cons h2 (Path.single h3))

theorem feedsPath_path {cfg : Cfg} {p q : Pipeline} (h : FeedsPath cfg p q) :
    Path (edges cfg) (Node.cap p.id) (Node.cap q.id) := by
  induction h with
  | single hp hq h => exact feeds_path hp hq h
  | cons hp hq h _ ih => exact (feeds_path hp hq h).trans ih

theorem FeedsPath.head_mem {cfg : Cfg} {p q : Pipeline} (h : FeedsPath cfg p q) : p ∈ cfg.pipes := by
  cases h with
  | single hp _ _ => exact hp
  | cons hp _ _ _ => exact hp

/-- **rejection (cycle)**: a configuration whose connector usage forms a cycle is never accepted; when its
connector uses are all supported the error is the cycle error -/
theorem C09_cycle_rejected (cfg : Cfg) (hc : ConnectorCycle cfg) : build cfg ≠ none ∧
    (createNodesOk cfg = true → build cfg = some .cycle) := by
  obtain ⟨p, hp⟩ := hc
  have hpath := feedsPath_path hp
  have hmem := cap_mem_nodes hp.head_mem
  have hns : sortable (succOf (edges cfg)) (nodes cfg) = false := by
    cases hs : sortable (succOf (edges cfg)) (nodes cfg) with
    | false => rfl
    | true => exact absurd hpath (peel_acyclic _ _ (sortable_mem hs hmem))
  constructor
  · simp only [build, hns]
    cases createNodesOk cfg <;> simp
  · intro hok
    simp [build, hok, hns]

/-- an accepted configuration has no closed walk through any node of its graph, hence no connector cycle -/
theorem C09_accepted_acyclic (cfg : Cfg) (hb : build cfg = none) :
    (∀ n, n ∈ nodes cfg → ¬ Path (edges cfg) n n) ∧ ¬ ConnectorCycle cfg ∧ ¬ UnsupportedUse cfg := by
  have hnc : ¬ ConnectorCycle cfg := fun hc => (C09_cycle_rejected cfg hc).1 hb
  have hnu : ¬ UnsupportedUse cfg := fun hu => by
    have := (C09_unsupported cfg).mpr hu
    rw [hb] at this; cases this
  refine ⟨fun n hn => ?_, hnc, hnu⟩
  have hsort : sortable (succOf (edges cfg)) (nodes cfg) = true := by
    simp only [build] at hb
    by_cases h1 : createNodesOk cfg = true
    · by_cases h2 : sortable (succOf (edges cfg)) (nodes cfg) = true
      · exact h2
      · simp [h1, h2] at hb
    · simp [h1] at hb
  exact peel_acyclic _ _ (sortable_mem hsort hn)

/-! ## acceptance of valid configurations

`C09_delivery` assumes the configuration was accepted.  The remaining clause — every well-formed configuration
without unsupported use and without connector cycle *is* accepted — is stated in full below.  Proved part: a
rejection with the cycle error is always justified by a genuine closed walk of the component graph (so
`topo.Sort` had to fail).  Not proved: the projection of that closed walk of nodes to a cycle of pipelines
(`ConnectorCycle`); it is covered by the differential and by the `reject` oracle on every run. -/

def C09_accepts_valid_full : Prop :=
  ∀ cfg : Cfg, cfg.WF → ¬ UnsupportedUse cfg → ¬ ConnectorCycle cfg → build cfg = none

/-- consecutive nodes are edges -/
def ChainFrom (E : List (Node × Node)) : Node → List Node → Prop
  | _, [] => True
  | n, m :: l => (n, m) ∈ E ∧ ChainFrom E m l

theorem chainFrom_path {E : List (Node × Node)} : ∀ (l : List Node) (n x : Node), ChainFrom E n l → x ∈ l → Path E n x := by
  intro l
  induction l with
  | nil => intro n x _ hx; cases hx
  | cons m l ih =>
    intro n x hc hx
    rcases List.mem_cons.mp hx with rfl | hx'
    · exact Path.single hc.1
    · exact Path.cons hc.1 (ih m x hc.2 hx')

theorem chainFrom_dup {E : List (Node × Node)} : ∀ (l : List Node) (n : Node), ChainFrom E n l → ¬ (n :: l).Nodup →
    ∃ x, x ∈ n :: l ∧ Path E x x := by
  intro l
  induction l with
  | nil => intro n _ h; exact absurd (by simp) h
  | cons m l ih =>
    intro n hc hnd
    by_cases hn : n ∈ m :: l
    · exact ⟨n, List.mem_cons_self, chainFrom_path _ n n hc hn⟩
    · have : ¬ (m :: l).Nodup := fun h => hnd (List.nodup_cons.mpr ⟨hn, h⟩)
      obtain ⟨x, hx, hp⟩ := ih m hc.2 this
      exact ⟨x, List.mem_cons_of_mem _ hx, hp⟩

/-- an unmarked node starts a walk of any length through unmarked nodes -/
theorem unmarked_chain {cfg : Cfg} : ∀ (k : Nat) (n : Node), n ∈ nodes cfg →
    n ∉ peel (succ cfg) (nodes cfg) k → ∃ l, l.length = k ∧ ChainFrom (edges cfg) n l ∧ ∀ x, x ∈ l → x ∈ nodes cfg := by
  intro k
  induction k with
  | zero => intro n _ _; exact ⟨[], rfl, trivial, fun x hx => by cases hx⟩
  | succ k ih =>
    intro n hn hnot
    have : ∃ m, m ∈ succ cfg n ∧ m ∉ peel (succ cfg) (nodes cfg) k := by
      apply Classical.byContradiction
      intro hne
      apply hnot
      refine mem_peel_succ.mpr (Or.inr ⟨hn, fun m hm => ?_⟩)
      apply Classical.byContradiction
      intro hm'
      exact hne ⟨m, hm, hm'⟩
    obtain ⟨m, hm, hmnot⟩ := this
    have hE : (n, m) ∈ edges cfg := mem_succOf.mp hm
    obtain ⟨l, hl, hc, hmem⟩ := ih m (edge_target_mem hE) hmnot
    refine ⟨m :: l, by simp [hl], ⟨hE, hc⟩, fun x hx => ?_⟩
    rcases List.mem_cons.mp hx with rfl | hx'
    · exact edge_target_mem hE
    · exact hmem x hx'

/-- proved part of acceptance: the cycle error is only returned when the component graph really has a
directed cycle (pigeonhole on a walk of `|nodes|` edges through unmarked nodes) -/
theorem C09_accepts_valid_partial (cfg : Cfg) (h : build cfg = some .cycle) :
    ∃ n, n ∈ nodes cfg ∧ Path (edges cfg) n n := by
  have hns : sortable (succ cfg) (nodes cfg) = false := by
    simp only [build] at h
    cases h1 : createNodesOk cfg with
    | false => simp [h1] at h
    | true =>
      cases h2 : sortable (succOf (edges cfg)) (nodes cfg) with
      | false => exact h2
      | true => simp [h1, h2] at h
  have : ∃ n, n ∈ nodes cfg ∧ n ∉ peel (succ cfg) (nodes cfg) (nodes cfg).length := by
    apply Classical.byContradiction
    intro hne
    have : sortable (succ cfg) (nodes cfg) = true := by
      simp only [sortable, List.all_eq_true, decide_eq_true_eq]
      intro n hn
      apply Classical.byContradiction
      intro hn'
      exact hne ⟨n, hn, hn'⟩
    rw [this] at hns; cases hns
  obtain ⟨n, hn, hnot⟩ := this
  obtain ⟨l, hl, hc, hmem⟩ := unmarked_chain _ n hn hnot
  have hnd : ¬ (n :: l).Nodup := by
    intro hnd
    have := List.Nodup.length_le_of_subset hnd (fun x hx => by
      rcases List.mem_cons.mp hx with rfl | hx'
      · exact hn
      · exact hmem x hx')
    simp only [List.length_cons, hl] at this
    omega
  obtain ⟨x, hx, hp⟩ := chainFrom_dup l n hc hnd
  refine ⟨x, ?_, hp⟩
  rcases List.mem_cons.mp hx with rfl | hx'
  · exact hn
  · exact hmem x hx'

/-- inside pipeline `p`: its capabilities node, processors, fan-out node -/
def Zone (p : Pipeline) (x : Node) : Prop := x ∈ Node.cap p.id :: procNodes p ∨ x = Node.fanout p.id

/-- a walk of the built graph that ends at the entry of pipeline `p0` projects to a chain of connector hops:
from a node inside pipeline `p`, and from a connector node attached on `p`'s exporter side -/
theorem path_to_feeds {cfg : Cfg} (wf : cfg.WF) {x y : Node} (hp : Path (edges cfg) x y) :
    ∀ p0, p0 ∈ cfg.pipes → y = Node.cap p0.id →
      (∀ p, p ∈ cfg.pipes → Zone p x → FeedsPath cfg p p0) ∧
      (∀ p es rs c, p ∈ cfg.pipes → x = Node.conn es rs c → x ∈ pipeExpNodes cfg p → FeedsPath cfg p p0) := by
  induction hp with
  | @single x y hE =>
    intro p0 hp0 hy
    subst hy
    constructor
    · intro p hpm hz
      exfalso
      rcases hz with hz | rfl
      · rcases chain_tgt_mem (chain_out wf hpm hz hE) with h' | h'
        · simp only [procNodes, List.mem_map] at h'
          obtain ⟨_, _, h''⟩ := h'
          cases h''
        · cases h'
      · rcases mem_pipeExpNodes.mp (fanout_out wf hpm hE) with ⟨_, _, _, h'⟩ | ⟨_, _, _, _, _, _, _, h'⟩ <;> cases h'
    · intro p es rs c hpm hx hxe
      subst hx
      obtain ⟨q, hq, hmem, hcap⟩ := src_out (Or.inr ⟨_, _, _, rfl⟩) hE
      have : q = p0 := pipe_eq_of_id wf hq hp0 (Node.cap.inj hcap).symm
      subst this
      exact FeedsPath.single hpm hq (feeds_of_conn hxe hmem)
  | @cons x b y hE hrest ih =>
    intro p0 hp0 hy
    have ih' := ih p0 hp0 hy
    constructor
    · intro p hpm hz
      rcases hz with hz | rfl
      · have hb : Zone p b := by
          rcases chain_tgt_mem (chain_out wf hpm hz hE) with h' | h'
          · exact Or.inl (List.mem_cons_of_mem _ h')
          · exact Or.inr h'
        exact ih'.1 p hpm hb
      · rcases mem_pipeExpNodes.mp (fanout_out wf hpm hE) with ⟨e, _, _, rfl⟩ | ⟨c, hce, hic, q, hq, hcr, hs, rfl⟩
        · obtain ⟨m, hm⟩ := path_first hrest
          exact absurd hm exp_no_out
        · exact ih'.2 p _ _ _ hpm rfl (fanout_out wf hpm hE)
    · intro p es rs c hpm hx hxe
      subst hx
      obtain ⟨q, hq, hmem, rfl⟩ := src_out (Or.inr ⟨_, _, _, rfl⟩) hE
      exact FeedsPath.cons hpm hq (feeds_of_conn hxe hmem) (ih'.1 q hq (Or.inl List.mem_cons_self))

/-- a closed walk of the built graph projects to a connector cycle of the configuration -/
theorem closed_walk_connectorCycle {cfg : Cfg} (wf : cfg.WF) {x : Node} (hp : Path (edges cfg) x x) : ConnectorCycle cfg := by
  obtain ⟨q, hq, hqq⟩ := closed_to_cap wf hp
  exact ⟨q, (path_to_feeds wf hqq q hq rfl).1 q hq (Or.inl List.mem_cons_self)⟩

/-- **acceptance**: every well-formed configuration without unsupported connector use and without connector
cycle is accepted (`C09_accepts_valid_full` holds) — so the hypothesis `build cfg = none` of `C09_delivery` is
implied by the configuration-level validity the property speaks of -/
theorem C09_accepts_valid : C09_accepts_valid_full := by
  intro cfg wf hu hc
  cases hb : build cfg with
  | none => rfl
  | some e =>
    cases e with
    | connector => exact absurd ((C09_unsupported cfg).mp hb) hu
    | cycle =>
      obtain ⟨n, _, hp⟩ := C09_accepts_valid_partial cfg hb
      exact absurd (closed_walk_connectorCycle wf hp) hc

/-- the cycle error is returned exactly for the configurations whose connector uses are all supported and
form a cycle -/
theorem C09_cycle_iff (cfg : Cfg) (wf : cfg.WF) : build cfg = some .cycle ↔ (¬ UnsupportedUse cfg ∧ ConnectorCycle cfg) := by
  constructor
  · intro hb
    have hu : ¬ UnsupportedUse cfg := fun hu => by
      have := (C09_unsupported cfg).mpr hu
      rw [hb] at this; cases this
    obtain ⟨n, _, hp⟩ := C09_accepts_valid_partial cfg hb
    exact ⟨hu, closed_walk_connectorCycle wf hp⟩
  · rintro ⟨hu, hc⟩
    have hok : createNodesOk cfg = true := by
      cases h : createNodesOk cfg with
      | true => rfl
      | false => exact absurd (createNodesOk_false.mp h) hu
    exact (C09_cycle_rejected cfg hc).2 hok

/-- routing for every valid configuration, with validity stated on the configuration alone -/
theorem C09_delivery_valid (cfg : Cfg) (wf : cfg.WF) (hu : ¬ UnsupportedUse cfg) (hc : ¬ ConnectorCycle cfg)
    (s : Sig) (r : CompId) (hn : Node.recv s r ∈ nodes cfg) :
    ∃ k ws, deliver (succ cfg) k (Node.recv s r) = some ws ∧ ws.Nodup ∧ ∀ w, w ∈ ws ↔ CfgRoute cfg s r w :=
  C09_delivery cfg wf (C09_accepts_valid cfg wf hu hc) s r hn

/-! ## content of the cycle error -/

/-- whatever printed cycle the monitor accepts is a genuine closed walk of the built graph through every listed
processor and connector — hence (by `closed_walk_connectorCycle`) witnesses a connector cycle of the configuration -/
theorem C09_cycle_message_sound (cfg : Cfg) (wf : cfg.WF) (l : List Node) (h : cycleMsgOk cfg l = true) :
    ∃ n rest, l = n :: rest ∧ isConnNode n = true ∧ Path (edges cfg) n n ∧
      (∀ x, x ∈ rest → Path (edges cfg) n x) ∧ ConnectorCycle cfg := by
  cases l with
  | nil => simp [cycleMsgOk] at h
  | cons n rest =>
    simp only [cycleMsgOk, Bool.and_eq_true, Bool.not_eq_true', beq_iff_eq] at h
    obtain ⟨⟨⟨hc, _⟩, hlast⟩, hchain⟩ := h
    have hall := linkedChain_path rest n hchain
    have hmem : n ∈ rest := List.mem_of_getLast? hlast
    exact ⟨n, rest, rfl, hc, hall n hmem, hall, closed_walk_connectorCycle wf (hall n hmem)⟩

/-! ## content of the connector error -/

theorem sameBag_mem {α : Type} [DecidableEq α] {a b : List α} (h : sameBag a b = true) (x : α) : x ∈ a ↔ x ∈ b := by
  simp only [sameBag, Bool.and_eq_true, List.all_eq_true, beq_iff_eq] at h
  constructor
  · intro hx
    have := h.1 x hx
    exact List.count_pos_iff.mp (this ▸ List.count_pos_iff.mpr hx)
  · intro hx
    have := h.2 x hx
    exact List.count_pos_iff.mp (this ▸ List.count_pos_iff.mpr hx)

theorem mem_usesOf {cfg : Cfg} {role : Role} {c : CompId} {s : Sig} {pid : PipeId} :
    pid ∈ usesOf cfg role c s ↔ ∃ p, p ∈ cfg.pipes ∧ p.id = pid ∧ p.id.sig = s ∧ c ∈ role.list p := by
  simp only [usesOf, List.mem_flatMap]
  constructor
  · rintro ⟨p, hp, h⟩
    by_cases hs : p.id.sig = s
    · simp only [hs, if_true, List.mem_map, List.mem_filter, beq_iff_eq] at h
      obtain ⟨x, ⟨hx, rfl⟩, rfl⟩ := h
      exact ⟨p, hp, rfl, hs, hx⟩
    · simp [hs] at h
  · rintro ⟨p, hp, rfl, hs, hc⟩
    refine ⟨p, hp, ?_⟩
    simp only [hs, if_true, List.mem_map, List.mem_filter, beq_iff_eq]
    exact ⟨c, ⟨hc, rfl⟩, trivial⟩

/-- **content of the connector error**: whatever `connector … used as exporter|receiver in [pipelines] pipeline but not used
in any supported …` message the monitor `connMsgOk` accepts names a configured connector, lists exactly the pipelines of the
reported signal that use it on the reported side (at least one), and no pipeline on the other side offers a supported signal
pair for that signal — a genuine `UnsupportedUse` -/
theorem C09_connector_message_sound (cfg : Cfg) (role : Role) (c : CompId) (s : Sig) (l : List PipeId)
    (h : connMsgOk cfg role c s l = true) :
    cfg.isConn c = true ∧ l ≠ [] ∧
    (∀ pid, pid ∈ l ↔ ∃ p, p ∈ cfg.pipes ∧ p.id = pid ∧ p.id.sig = s ∧ c ∈ role.list p) ∧
    (match role with
     | .exp => ∀ q, q ∈ cfg.pipes → c ∈ q.recv → cfg.supp c s q.id.sig = false
     | .recv => ∀ p, p ∈ cfg.pipes → c ∈ p.exps → cfg.supp c p.id.sig s = false) ∧
    UnsupportedUse cfg := by
  simp only [connMsgOk, Bool.and_eq_true, Bool.not_eq_true', List.isEmpty_eq_false_iff] at h
  obtain ⟨⟨⟨hc, hne⟩, hbag⟩, hun⟩ := h
  have hmem : ∀ pid, pid ∈ l ↔ ∃ p, p ∈ cfg.pipes ∧ p.id = pid ∧ p.id.sig = s ∧ c ∈ role.list p :=
    fun pid => (sameBag_mem hbag pid).trans mem_usesOf
  obtain ⟨pid, hpid⟩ := List.exists_mem_of_ne_nil l hne
  obtain ⟨p, hp, _, hs, hcl⟩ := (hmem pid).mp hpid
  cases role with
  | exp =>
    have hno : ∀ q, q ∈ cfg.pipes → c ∈ q.recv → cfg.supp c s q.id.sig = false := by
      intro q hq hcr
      simp only [List.all_eq_true, asRecv, List.mem_filter, decide_eq_true_eq, Bool.not_eq_true', and_imp] at hun
      exact hun q hq hcr
    exact ⟨hc, hne, hmem, hno, c, hc, Or.inl ⟨p, hp, hcl, fun q hq hcr => hs ▸ hno q hq hcr⟩⟩
  | recv =>
    have hno : ∀ p', p' ∈ cfg.pipes → c ∈ p'.exps → cfg.supp c p'.id.sig s = false := by
      intro q hq hce
      simp only [List.all_eq_true, asExp, List.mem_filter, decide_eq_true_eq, Bool.not_eq_true', and_imp] at hun
      exact hun q hq hce
    exact ⟨hc, hne, hmem, hno, c, hc, Or.inr ⟨p, hp, hcl, fun q hq hce => hs ▸ hno q hq hce⟩⟩

theorem sameBag_refl {α : Type} [DecidableEq α] (a : List α) : sameBag a a = true := by
  simp [sameBag]

/-- the monitor is complete: for every configuration with an unsupported connector use, the message `createNodes` would print for that
use — the connector, the side, the signal, all pipelines of that signal using it on that side — is accepted by `connMsgOk`
(so the monitor rejects a message only for a reason) -/
theorem C09_connector_message_complete (cfg : Cfg) (h : UnsupportedUse cfg) :
    ∃ role c s, connMsgOk cfg role c s (usesOf cfg role c s) = true := by
  obtain ⟨c, hc, ⟨p, hp, hce, hno⟩ | ⟨q, hq, hcr, hno⟩⟩ := h
  · refine ⟨.exp, c, p.id.sig, ?_⟩
    have hmem : p.id ∈ usesOf cfg .exp c p.id.sig := mem_usesOf.mpr ⟨p, hp, rfl, rfl, hce⟩
    simp only [connMsgOk, hc, sameBag_refl, Bool.true_and, Bool.and_eq_true, Bool.not_eq_true', List.isEmpty_eq_false_iff,
      List.all_eq_true, asRecv, List.mem_filter, decide_eq_true_eq, and_imp]
    exact ⟨⟨List.ne_nil_of_mem hmem, trivial⟩, fun q hq hcr => hno q hq hcr⟩
  · refine ⟨.recv, c, q.id.sig, ?_⟩
    have hmem : q.id ∈ usesOf cfg .recv c q.id.sig := mem_usesOf.mpr ⟨q, hq, rfl, rfl, hcr⟩
    simp only [connMsgOk, hc, sameBag_refl, Bool.true_and, Bool.and_eq_true, Bool.not_eq_true', List.isEmpty_eq_false_iff,
      List.all_eq_true, asExp, List.mem_filter, decide_eq_true_eq, and_imp]
    exact ⟨⟨List.ne_nil_of_mem hmem, trivial⟩, fun p hp hce => hno p hp hce⟩

/-! ## per-signal(-pair) dispatch: regenerated tables (`Gen/GraphDispatch.lean`, translator `graphdispatch`) -/

/-- **`connectorStability` reads the factory's own cell**: the nested switch has exactly the 16 cells, the cell for
`(expType, recType)` returns the factory's `<expType>To<recType>Stability()`, behind the `xconnector.Factory` assertion exactly
when profiles are involved; hence for a factory with support matrix `M` the model's `Cfg.supp` (= "stability is not
Undefined") IS `M` for an `xconnector` factory, and `M` minus the profiles pairs for a plain `connector` factory -/
theorem C09_stability_dispatch :
    OtelVerif.Gen.GraphDispatch.stabilityTable.length = 16 ∧
    (∀ e r : Sig, stabCell e r = some (e.toNat, r.toNat, decide (e = .profiles ∨ r = .profiles))) ∧
    (∀ (M : Sig → Sig → Bool) (e r : Sig), stabilityDefined M true e r = M e r) ∧
    (∀ (M : Sig → Sig → Bool) (e r : Sig), stabilityDefined M false e r = (M e r && !(decide (e = .profiles ∨ r = .profiles)))) := by
  have h2 : ∀ e r : Sig, stabCell e r = some (e.toNat, r.toNat, decide (e = .profiles ∨ r = .profiles)) := by
    intro e r; cases e <;> cases r <;> decide
  refine ⟨by decide, h2, ?_, ?_⟩
  · intro M e r
    simp only [stabilityDefined, h2 e r]
    cases e <;> cases r <;> simp [Sig.toNat, Sig.ofNat?]
  · intro M e r
    simp only [stabilityDefined, h2 e r]
    cases e <;> cases r <;> simp [Sig.toNat, Sig.ofNat?]

/-- **a connector node is built through its own signal pair**: `connectorNode.buildComponent` has exactly the 16 cells and the node
for (exporter-side `e`, receiver-side `r`) calls `builder.Create<e>To<r>` with the router of signal `r` as next consumer -/
theorem C09_connector_build_dispatch :
    OtelVerif.Gen.GraphDispatch.connBuildTable.length = 16 ∧
    ∀ e r : Sig, connBuildCell r e = some (e.toNat, r.toNat, r.toNat) := by
  refine ⟨by decide, ?_⟩
  intro e r; cases e <;> cases r <;> decide

/-- **every builder / node / glue switch stays within its signal**: each `builders.*Builder.Create…` logs the stability of and
returns the result of the factory method of its own signal (pair), all 4 + 4 + 4 + 16 exist; each per-signal case of
`receiverNode/processorNode/exporterNode.buildComponent`, of the receiver's fan-out, of the capabilities node and of the fan-out
node in `buildComponents` calls the constructor of its own signal, all four signals present -/
theorem C09_component_build_dispatch :
    OtelVerif.Gen.GraphDispatch.builderTable.length = 28 ∧
    OtelVerif.Gen.GraphDispatch.builderTable.all builderRowOk = true ∧
    (∀ e r : Sig, builderHas 3 e.toNat r.toNat = true) ∧
    (∀ s : Sig, builderHas 0 s.toNat 0 = true ∧ builderHas 1 s.toNat 0 = true ∧ builderHas 2 s.toNat 0 = true) ∧
    OtelVerif.Gen.GraphDispatch.nodeTable.length = 24 ∧
    OtelVerif.Gen.GraphDispatch.nodeTable.all nodeRowOk = true ∧
    (∀ s : Sig, ∀ k, k ∈ [0, 1, 2, 4, 5, 6] → nodeHas k s.toNat = true) := by
  refine ⟨by decide, by decide, ?_, ?_, by decide, by decide, ?_⟩
  · intro e r; cases e <;> cases r <;> decide
  · intro s; cases s <;> decide
  · intro s; cases s <;> decide

/-- tie of the two message monitors to the source text: the formats the harness parsers (`vConnErrTokens`, `vCycleTokens`) are written
against are the ones `createNodes` / `cycleErr` have in the current tree (a data check on the regenerated table, not a property
theorem — hence not named `C09_`) -/
theorem graph_message_formats :
    (OtelVerif.Gen.GraphDispatch.formats.filter (fun r => r.1 == "createNodes")).map (·.2) =
      ["connector factory not available for: %q",
       "connector %q used as exporter in %v pipeline but not used in any supported receiver pipeline",
       "connector %q used as receiver in %v pipeline but not used in any supported exporter pipeline"] ∧
    (OtelVerif.Gen.GraphDispatch.formats.filter (fun r => r.1 == "cycleErr")).map (·.2) =
      ["processor %q in pipeline %q", "connector %q (%s to %s)", "cycle detected: %s"] := by decide

/-! ## connectors that route by pipeline id -/

/-- **routing with selective connectors**: on an accepted configuration, with every connector delivering only to
the next pipelines it selects by id (`Conn.sel`), a payload pushed into receiver `(s, r)` terminates with one
delivery per configured route all of whose connector hops are selected — and nothing else.  With no selective
connector this is `C09_delivery` (`flowEdges_eq_edges`). -/
theorem C09_delivery_selective (cfg : Cfg) (wf : cfg.WF) (hb : build cfg = none) (s : Sig) (r : CompId)
    (hn : Node.recv s r ∈ nodes cfg) :
    ∃ k ws, deliver (succOf (flowEdges cfg)) k (Node.recv s r) = some ws ∧ ws.Nodup ∧
      ∀ w, w ∈ ws ↔ (CfgRoute cfg s r w ∧ PairsOk (flowAllowed cfg) (Node.recv s r) w) := by
  have hsort : sortable (succ cfg) (nodes cfg) = true := by
    simp only [build] at hb
    by_cases h1 : createNodesOk cfg = true
    · by_cases h2 : sortable (succOf (edges cfg)) (nodes cfg) = true
      · exact h2
      · simp [h1, h2] at hb
    · simp [h1] at hb
  have hsub : ∀ n m, m ∈ succOf (flowEdges cfg) n → m ∈ succ cfg n := by
    intro n m hm
    have := mem_succOf.mp hm
    simp only [flowEdges, List.mem_filter] at this
    exact mem_succOf.mpr this.1
  obtain ⟨ws, hws⟩ := peel_deliver_sub hsub _ _ (sortable_mem hsort hn)
  have hspec := deliver_spec (flowEdges cfg) _ _ ws hws
  refine ⟨_, ws, hws, hspec.1, fun w => ?_⟩
  rw [hspec.2 w]
  simp only [flowEdges]
  rw [isRouteWalk_filter, C09_routing cfg wf s r w]

/-- when no connector is selective the data flows along all edges of the graph -/
theorem flowEdges_eq_edges (cfg : Cfg) (h : ∀ k, k ∈ cfg.conns → k.sel = none) : flowEdges cfg = edges cfg := by
  simp only [flowEdges, List.filter_eq_self]
  intro e _
  obtain ⟨a, b⟩ := e
  cases a <;> cases b <;> simp only [flowAllowed]
  simp only [Cfg.selects, List.all_eq_true, Bool.or_eq_true]
  intro k hk
  rw [h k hk]
  exact Or.inr rfl

/-! ## the driver's property oracles are sound -/

/-- **check soundness**: the three oracles the driver evaluates on the implementation's observations are computed with
model functions whose meaning is fixed by the theorems above, stated here on the configuration alone:
* routing — whatever `deliver` over `flowEdges` returns, with any fuel, is duplicate-free and consists exactly of the
  configured routes whose connector hops are selected;
* sharing — the component nodes are exactly: receivers / exporters per (signal, non-connector id listed by a pipeline of
  that signal), processors per (pipeline, listed id), connectors per supported signal pair used on both sides;
* rejection — the connector error iff some use is unsupported, the cycle error iff all uses are supported and the
  connector usage is cyclic, acceptance iff neither. -/
theorem C09_check_sound (cfg : Cfg) (wf : cfg.WF) :
    (∀ k s r ws, deliver (succOf (flowEdges cfg)) k (Node.recv s r) = some ws →
      ws.Nodup ∧ ∀ w, w ∈ ws ↔ (CfgRoute cfg s r w ∧ PairsOk (flowAllowed cfg) (Node.recv s r) w)) ∧
    (∀ n, n ∈ (nodes cfg).filter Node.isComp ↔
      ((∃ s r, n = Node.recv s r ∧ ∃ p, p ∈ cfg.pipes ∧ p.id.sig = s ∧ r ∈ p.recv ∧ cfg.isConn r = false) ∨
       (∃ s e, n = Node.exp s e ∧ ∃ p, p ∈ cfg.pipes ∧ p.id.sig = s ∧ e ∈ p.exps ∧ cfg.isConn e = false) ∨
       (∃ pid x, n = Node.proc pid x ∧ ∃ p, p ∈ cfg.pipes ∧ p.id = pid ∧ x ∈ p.procs) ∨
       (∃ es rs c, n = Node.conn es rs c ∧ cfg.isConn c = true ∧ cfg.supp c es rs = true ∧
          (∃ p, p ∈ cfg.pipes ∧ p.id.sig = es ∧ c ∈ p.exps) ∧ (∃ q, q ∈ cfg.pipes ∧ q.id.sig = rs ∧ c ∈ q.recv)))) ∧
    (build cfg = some .connector ↔ UnsupportedUse cfg) ∧
    (build cfg = some .cycle ↔ (¬ UnsupportedUse cfg ∧ ConnectorCycle cfg)) ∧
    (build cfg = none ↔ (¬ UnsupportedUse cfg ∧ ¬ ConnectorCycle cfg)) := by
  refine ⟨?_, ?_, C09_unsupported cfg, C09_cycle_iff cfg wf, ?_⟩
  · intro k s r ws h
    have hspec := deliver_spec (flowEdges cfg) k _ ws h
    refine ⟨hspec.1, fun w => ?_⟩
    rw [hspec.2 w]
    simp only [flowEdges]
    rw [isRouteWalk_filter, C09_routing cfg wf s r w]
  · intro n
    simp only [List.mem_filter]
    cases n with
    | recv s r =>
      rw [C09_sharing_receivers]
      simp only [Node.isComp, and_true, Node.recv.injEq, reduceCtorEq, false_and, exists_false, or_false]
      exact ⟨fun h => ⟨s, r, ⟨rfl, rfl⟩, h⟩, fun ⟨_, _, ⟨h1, h2⟩, h⟩ => by subst h1; subst h2; exact h⟩
    | exp s e =>
      rw [C09_sharing_exporters]
      simp only [Node.isComp, and_true, Node.exp.injEq, reduceCtorEq, false_and, exists_false, or_false, false_or]
      exact ⟨fun h => ⟨s, e, ⟨rfl, rfl⟩, h⟩, fun ⟨_, _, ⟨h1, h2⟩, h⟩ => by subst h1; subst h2; exact h⟩
    | proc pid x =>
      rw [C09_sharing_processors]
      simp only [Node.isComp, and_true, Node.proc.injEq, reduceCtorEq, false_and, exists_false, or_false, false_or]
      exact ⟨fun h => ⟨pid, x, ⟨rfl, rfl⟩, h⟩, fun ⟨_, _, ⟨h1, h2⟩, h⟩ => by subst h1; subst h2; exact h⟩
    | conn es rs c =>
      rw [C09_sharing_connectors]
      simp only [Node.isComp, and_true, Node.conn.injEq, reduceCtorEq, false_and, exists_false, or_false, false_or]
      exact ⟨fun h => ⟨es, rs, c, ⟨rfl, rfl, rfl⟩, h⟩, fun ⟨_, _, _, ⟨h1, h2, h3⟩, h⟩ => by subst h1; subst h2; subst h3; exact h⟩
    | cap p => simp [Node.isComp]
    | fanout p => simp [Node.isComp]
  · constructor
    · intro hb
      obtain ⟨_, hc, hu⟩ := C09_accepted_acyclic cfg hb
      exact ⟨hu, hc⟩
    · rintro ⟨hu, hc⟩
      exact C09_accepts_valid cfg wf hu hc

/-! ## a failing factory -/

/-- the rejections of the configuration take precedence (no factory is called for a rejected configuration); a factory
error is returned exactly when the configuration is accepted and a component of the graph has a failing factory; without
failing factories `buildWith` is `build` -/
theorem C09_build_with_failing_factory (cfg : Cfg) (failCreate : Node → Bool) :
    (∀ e, buildWith cfg failCreate = some (.build e) ↔ build cfg = some e) ∧
    (buildWith cfg failCreate = some .create ↔
      (build cfg = none ∧ ∃ n, n ∈ nodes cfg ∧ n.isComp = true ∧ failCreate n = true)) ∧
    (buildWith cfg (fun _ => false) = (build cfg).map BuildErrW.build) := by
  refine ⟨fun e => ?_, ?_, ?_⟩
  · cases hb : build cfg with
    | some e' => simp [buildWith, hb]
    | none =>
      simp only [buildWith, hb]
      by_cases h : (nodes cfg).any (fun n => n.isComp && failCreate n) = true <;> simp [h]
  · cases hb : build cfg with
    | some e' => simp [buildWith, hb]
    | none =>
      simp only [buildWith, hb, true_and]
      by_cases h : (nodes cfg).any (fun n => n.isComp && failCreate n) = true
      · simp only [h, if_true, true_iff]
        simp only [List.any_eq_true, Bool.and_eq_true] at h
        obtain ⟨n, hn, h1, h2⟩ := h
        exact ⟨n, hn, h1, h2⟩
      · simp only [h]
        constructor
        · intro h'; cases h'
        · rintro ⟨n, hn, h1, h2⟩
          exact absurd (List.any_eq_true.mpr ⟨n, hn, by simp [h1, h2]⟩) h
  · cases hb : build cfg <;> simp [buildWith, hb]

/-! ## validation -/

theorem nodup_of_hasDup_false : ∀ l : List CompId, hasDup l = false → l.Nodup := by
  intro l
  induction l with
  | nil => intro _; simp
  | cons a l ih =>
    intro h
    simp only [hasDup, Bool.or_eq_false_iff, decide_eq_false_iff_not] at h
    exact List.nodup_cons.mpr ⟨h.1, ih h.2⟩

/-- a configuration that passes validation (and whose pipelines have distinct ids — they are keys of a Go map)
meets the well-formedness hypothesis of the routing theorems, and every pipeline has a receiver and an exporter -/
theorem C09_validate_wf (cfg : Cfg) (hids : (cfg.pipes.map (·.id)).Nodup) (hv : validate cfg = []) :
    cfg.WF ∧ ∀ p, p ∈ cfg.pipes → p.recv ≠ [] ∧ p.exps ≠ [] := by
  have hnone : ∀ p, p ∈ cfg.pipes → validatePipe p = none := by
    intro p hp
    cases hvp : validatePipe p with
    | none => rfl
    | some e =>
      have : e ∈ validate cfg := by
        simp only [validate, mem_dedup, List.mem_filterMap]
        exact ⟨p, hp, hvp⟩
      rw [hv] at this
      cases this
  refine ⟨⟨hids, fun p hp => ?_⟩, fun p hp => ?_⟩
  · have := hnone p hp
    simp only [validatePipe] at this
    by_cases h1 : p.recv.isEmpty = true
    · simp [h1] at this
    · by_cases h2 : p.exps.isEmpty = true
      · simp [h1, h2] at this
      · cases h3 : hasDup p.procs with
        | true => simp [h1, h2, h3] at this
        | false => exact nodup_of_hasDup_false _ h3
  · have := hnone p hp
    simp only [validatePipe] at this
    by_cases h1 : p.recv.isEmpty = true
    · simp [h1] at this
    · by_cases h2 : p.exps.isEmpty = true
      · simp [h1, h2] at this
      · exact ⟨by intro h; simp [h] at h1, by intro h; simp [h] at h2⟩

/-- **the whole validation** (`pipelines.Config.Validate` + every `PipelineConfig.Validate`, as `xconfmap.Validate` runs them): a configuration
that passes has at least one pipeline, no profiles pipeline unless the feature gate is on, passes the per-pipeline validation — and therefore
(`C09_validate_wf`) meets the hypothesis `WF` of the routing theorems; with the gate on and a pipeline present it is the per-pipeline validation alone -/
theorem C09_validate_all (gate : Bool) (cfg : Cfg) :
    (validateAll gate cfg = [] →
      cfg.pipes ≠ [] ∧ (gate = false → ∀ p, p ∈ cfg.pipes → p.id.sig ≠ Sig.profiles) ∧ validate cfg = []) ∧
    (cfg.pipes ≠ [] → validateAll true cfg = validate cfg) := by
  constructor
  · intro h
    have hall : ∀ e, e ∉ validateMap gate cfg ++ cfg.pipes.filterMap validatePipe := by
      intro e he
      have : e ∈ validateAll gate cfg := mem_dedup.mpr he
      rw [h] at this; cases this
    refine ⟨?_, ?_, ?_⟩
    · intro hnil
      exact hall .noPipelines (by simp [validateMap, hnil])
    · intro hg p hp hs
      refine hall .profilesGate (List.mem_append.mpr (Or.inl ?_))
      have hany : cfg.pipes.any (fun p => p.id.sig == Sig.profiles) = true :=
        List.any_eq_true.mpr ⟨p, hp, by simp [hs]⟩
      simp [validateMap, hg, hany]
    · cases hv : validate cfg with
      | nil => rfl
      | cons e l =>
        have : e ∈ cfg.pipes.filterMap validatePipe := by
          have : e ∈ validate cfg := by rw [hv]; exact List.mem_cons_self
          exact mem_dedup.mp this
        exact absurd (List.mem_append.mpr (Or.inr this)) (hall e)
  · intro hne
    have : cfg.pipes.isEmpty = false := by
      cases hp : cfg.pipes with
      | nil => exact absurd hp hne
      | cons _ _ => rfl
    simp [validateAll, validate, validateMap, this]


/-! ## non-vacuity -/

/-- traces/0 and traces/1 share receiver 1 and exporter 1; traces/0 also feeds connector 5 into metrics/0 -/
def exCfg : Cfg :=
  { conns := [{ id := 5, supp := [(.traces, .metrics)] }],
    pipes := [{ id := ⟨.traces, 0⟩, recv := [1], procs := [1, 2], exps := [5, 1] },
              { id := ⟨.traces, 1⟩, recv := [1, 2], procs := [2], exps := [1] },
              { id := ⟨.metrics, 0⟩, recv := [5], procs := [1], exps := [2] }] }

example : build exCfg = none := by decide
example : validate exCfg = [] := by decide
example : validate { exCfg with pipes := { id := ⟨.logs, 0⟩, recv := [1], procs := [2, 1, 2], exps := [] } :: exCfg.pipes } = [.noExporters] := by decide
example : exCfg.WF := ⟨by decide, by decide⟩
example : Node.recv .traces 1 ∈ nodes exCfg := by decide
example : (nodes exCfg).filter Node.isComp =
    [Node.proc ⟨.traces, 0⟩ 1, Node.proc ⟨.traces, 0⟩ 2, Node.recv .traces 1, Node.recv .traces 2,
     Node.proc ⟨.traces, 1⟩ 2, Node.exp .traces 1, Node.conn .traces .metrics 5, Node.proc ⟨.metrics, 0⟩ 1,
     Node.exp .metrics 2] := by decide
/-- three deliveries from receiver traces/1: via the connector into metrics/0, and exporter 1 twice (once per pipeline) -/
example : (deliver (succ exCfg) 12 (Node.recv .traces 1)).map (·.map (fun w => (w.getLast?, trailOf w))) =
    some [(some (Node.exp .metrics 2), [Node.proc ⟨.traces, 0⟩ 1, Node.proc ⟨.traces, 0⟩ 2, Node.conn .traces .metrics 5, Node.proc ⟨.metrics, 0⟩ 1]),
          (some (Node.exp .traces 1), [Node.proc ⟨.traces, 0⟩ 1, Node.proc ⟨.traces, 0⟩ 2]),
          (some (Node.exp .traces 1), [Node.proc ⟨.traces, 1⟩ 2])] := by decide

/-- `exCfg` with connector 5 selecting only pipelines named 1: the route through metrics/0 disappears -/
example : (deliver (succOf (flowEdges { exCfg with conns := [{ id := 5, supp := [(.traces, .metrics)], sel := some [1] }] })) 12
      (Node.recv .traces 1)).map (·.map (fun w => (w.getLast?, trailOf w))) =
    some [(some (Node.exp .traces 1), [Node.proc ⟨.traces, 0⟩ 1, Node.proc ⟨.traces, 0⟩ 2]),
          (some (Node.exp .traces 1), [Node.proc ⟨.traces, 1⟩ 2])] := by decide

/-- a two-pipeline connector cycle across signals -/
def exCyc : Cfg :=
  { conns := [{ id := 5, supp := [(.traces, .metrics)] }, { id := 6, supp := [(.metrics, .traces)] }],
    pipes := [{ id := ⟨.traces, 0⟩, recv := [1, 6], procs := [1], exps := [5] },
              { id := ⟨.metrics, 0⟩, recv := [5], procs := [], exps := [6, 1] }] }

example : build exCyc = some .cycle := by decide
/-- the message the real code prints for `exCyc` is accepted by the monitor -/
example : cycleMsgOk exCyc [Node.conn .traces .metrics 5, Node.conn .metrics .traces 6, Node.proc ⟨.traces, 0⟩ 1,
    Node.conn .traces .metrics 5] = true := by decide
example : cycleMsgOk exCyc [Node.conn .traces .metrics 5, Node.proc ⟨.traces, 0⟩ 1, Node.conn .traces .metrics 5] = false := by decide
example : ConnectorCycle exCyc :=
  ⟨exCyc.pipes[0], FeedsPath.cons (q := exCyc.pipes[1]) (by decide) (by decide) (by decide)
    (FeedsPath.single (by decide) (by decide) (by decide))⟩

/-- connector 5 supports only traces→metrics but is also listed as receiver of a logs pipeline and nowhere else: rejected -/
def exUnsup : Cfg :=
  { conns := [{ id := 5, supp := [(.traces, .metrics)] }],
    pipes := [{ id := ⟨.logs, 0⟩, recv := [5], procs := [], exps := [1] },
              { id := ⟨.logs, 1⟩, recv := [1], procs := [], exps := [5] }] }

example : build exUnsup = some .connector := by decide
example : UnsupportedUse exUnsup :=
  ⟨5, by decide, Or.inl ⟨exUnsup.pipes[1], by decide, by decide, by decide⟩⟩

/-- non-vacuity of `C09_connector_message_sound`: the message the real code prints for `exUnsup` ("connector 5 used as exporter in
[logs/1] pipeline …") is accepted; naming the wrong pipeline, a pipeline too many, or the supported side is not -/
example : connMsgOk exUnsup .exp 5 .logs [⟨.logs, 1⟩] = true := by decide
example : connMsgOk exUnsup .recv 5 .logs [⟨.logs, 0⟩] = true := by decide
example : connMsgOk exUnsup .exp 5 .logs [⟨.logs, 0⟩] = false := by decide
example : connMsgOk exUnsup .exp 5 .logs [⟨.logs, 1⟩, ⟨.logs, 0⟩] = false := by decide
example : connMsgOk exCfg .exp 5 .traces [⟨.traces, 0⟩] = false := by decide

end OtelVerif.C09
