import OtelVerif.Model.C09
/-! C09 property theorems (stub) -/
namespace OtelVerif.C09
end OtelVerif.C09
