import OtelVerif.Lemmas.C10
import OtelVerif.Lemmas.C10Exists
import OtelVerif.Model.C10Shape
import OtelVerif.Props.C09
/-!
# C10 — components start downstream-first, stop upstream-first, each exactly once

Model: `Model/C10.lean` (mirror of `Graph.StartAll` — with receivers started last, the repaired code —
`Graph.ShutdownAll`, `Extensions.Start/Shutdown`, `Service.Start/Shutdown`, the collector's
shutdown-after-failed-start, `sharedcomponent`), over the graph model of C09.

Every theorem quantifies over every configuration, every extension list with dependencies, **every** order
`topo.Sort` may return (`Sys.Admissible`: duplicate-free, complete, every edge forward — nothing else is assumed
about gonum) and every choice of failing components (`failS`, `failT` arbitrary predicates).
-/
namespace OtelVerif.C10
open OtelVerif.C09

/-- the three `topo.Sort` results are topological orders of what they sort -/
structure Sys.Admissible (sys : Sys) : Prop where
  topoStart : IsTopo (nodes sys.cfg) (edges sys.cfg) sys.gorderStart
  topoStop : IsTopo (nodes sys.cfg) (edges sys.cfg) sys.gorderStop
  topoExt : IsTopo (sys.exts.map (·.id)) (extEdges sys.exts) sys.eorder

/-- the whole intended start sequence -/
def startPlanAll (sys : Sys) : List Comp := sys.eorder.map Comp.ext ++ startPlan sys.gorderStart

theorem startPlanAll_nodup {sys : Sys} (h : sys.Admissible) : (startPlanAll sys).Nodup :=
  nodup_plan_append h.topoExt.nodup (nodup_startPlan h.topoStart.nodup)
    (fun c hc => by obtain ⟨n, _, _, rfl⟩ := mem_startPlan.mp hc; exact ⟨n, rfl⟩)

theorem starts_prefix (sys : Sys) (failS : Comp → Bool) :
    ∃ suf, (serviceStart sys failS).map (·.1) ++ suf = startPlanAll sys := by
  rw [serviceStart_eq]; exact runStarts_prefix failS _

/-- what was planned to happen earlier did happen earlier, for anything that was started -/
theorem before_starts {sys : Sys} (h : sys.Admissible) (failS : Comp → Bool) {x y : Comp}
    (hy : y ∈ (serviceStart sys failS).map (·.1)) (hb : Before (startPlanAll sys) x y) :
    Before ((serviceStart sys failS).map (·.1)) x y := by
  obtain ⟨suf, hs⟩ := starts_prefix sys failS
  have hnd := startPlanAll_nodup h
  rw [← hs] at hnd hb
  exact before_prefix hnd hy hb

theorem node_started_mem {sys : Sys} (failS : Comp → Bool) {n : Node}
    (hn : Comp.node n ∈ (serviceStart sys failS).map (·.1)) : Comp.node n ∈ startPlan sys.gorderStart := by
  obtain ⟨suf, hs⟩ := starts_prefix sys failS
  have : Comp.node n ∈ startPlanAll sys := by rw [← hs]; exact List.mem_append_left _ hn
  simp only [startPlanAll, List.mem_append, List.mem_map] at this
  rcases this with ⟨e, _, he⟩ | h
  · cases he
  · exact h

/-- in the graph's start plan, whoever `b` sends data to comes before `b` -/
theorem plan_downstream_first {sys : Sys} (h : sys.Admissible) {a b : Node}
    (hb : Comp.node b ∈ startPlan sys.gorderStart) (hab : a ∈ compSucc (edges sys.cfg) b) :
    Before (startPlan sys.gorderStart) (Comp.node a) (Comp.node b) := by
  obtain ⟨b', _, hbc, hb'⟩ := mem_startPlan.mp hb
  injection hb' with hb'
  subst hb'
  have hpath := compSucc_path hab
  have hac := compSucc_isComp hab
  have hanr := path_target_not_recv hpath
  have h1 : Before (sys.gorderStart.reverse.filter Node.isComp) a b :=
    before_filter _ (before_reverse (topo_path h.topoStart hpath)) hac hbc
  simp only [startPlan]
  apply before_map
  cases hbr : isRecvN b with
  | false =>
    exact before_append_left _ (before_filter _ h1 (by simp [hanr]) (by simp [hbr]))
  | true =>
    exact before_append_mid (List.mem_filter.mpr ⟨h1.mem_left, by simp [hanr]⟩) (List.mem_filter.mpr ⟨h1.mem_right, hbr⟩)

/-! ## start order -/

/-- **start order**: a started pipeline component was started after every component it sends data to; every
extension before every pipeline component; every extension after the extensions it depends on -/
theorem C10_start_order (sys : Sys) (h : sys.Admissible) (failS : Comp → Bool) :
    let st := (serviceStart sys failS).map (·.1)
    (∀ b a, Comp.node b ∈ st → a ∈ compSucc (edges sys.cfg) b → Before st (Comp.node a) (Comp.node b)) ∧
    (∀ e n, e ∈ sys.exts → Comp.node n ∈ st → Before st (Comp.ext e.id) (Comp.node n)) ∧
    (∀ e d, e ∈ sys.exts → d ∈ e.deps → Comp.ext e.id ∈ st → Before st (Comp.ext d) (Comp.ext e.id)) := by
  refine ⟨fun b a hb hab => ?_, fun e n he hn => ?_, fun e d he hd hs => ?_⟩
  · exact before_starts h failS hb (before_append_right _ (plan_downstream_first h (node_started_mem failS hb) hab))
  · refine before_starts h failS hn (before_append_mid ?_ (node_started_mem failS hn))
    exact List.mem_map.mpr ⟨e.id, (h.topoExt.mem _).mpr (List.mem_map.mpr ⟨e, he, rfl⟩), rfl⟩
  · refine before_starts h failS hs (before_append_left _ (before_map _ (h.topoExt.fwd d e.id ?_)))
    simp only [extEdges, List.mem_flatMap, List.mem_map]
    exact ⟨e, he, d, hd, rfl⟩

/-- **shared receivers** (repaired `StartAll`): when any receiver instance starts — in particular the first
instance of a receiver shared by several signals, which starts the one underlying component — every
component that *any* receiver instance sends data to has already started -/
theorem C10_receiver_starts_after_all_downstream (sys : Sys) (h : sys.Admissible) (failS : Comp → Bool)
    (r r' a : Node) (hr : isRecvN r = true) (hs : Comp.node r ∈ (serviceStart sys failS).map (·.1))
    (ha : a ∈ compSucc (edges sys.cfg) r') :
    Before ((serviceStart sys failS).map (·.1)) (Comp.node a) (Comp.node r) := by
  refine before_starts h failS hs (before_append_right _ ?_)
  obtain ⟨r0, hr0, hrc, hr0'⟩ := mem_startPlan.mp (node_started_mem failS hs)
  injection hr0' with hr0'
  subst hr0'
  have hpath := compSucc_path ha
  have hamem : a ∈ sys.gorderStart := by
    have : a ∈ nodes sys.cfg := by
      have aux : ∀ {x y : Node}, Path (edges sys.cfg) x y → y ∈ nodes sys.cfg := by
        intro x y hp
        induction hp with
        | single h => exact edge_target_mem h
        | cons _ _ ih => exact ih
      exact aux hpath
    exact (h.topoStart.mem a).mpr this
  simp only [startPlan]
  apply before_map
  refine before_append_mid (List.mem_filter.mpr ⟨List.mem_filter.mpr ⟨List.mem_reverse.mpr hamem, compSucc_isComp ha⟩, ?_⟩)
    (List.mem_filter.mpr ⟨List.mem_filter.mpr ⟨List.mem_reverse.mpr hr0, hrc⟩, hr⟩)
  simp [path_target_not_recv hpath]

/-! ## stop order -/

theorem stops_eq (sys : Sys) (failT : Comp → Bool) :
    (serviceShutdown sys failT).map (·.1) = stopPlan sys.gorderStop ++ sys.eorder.reverse.map Comp.ext := by
  simp [serviceShutdown, runStops, List.map_map, Function.comp_def]

/-- in the graph's stop plan, `b` comes before whoever it sends data to -/
theorem plan_upstream_first {sys : Sys} (h : sys.Admissible) {a b : Node} (hb : b.isComp = true)
    (hab : a ∈ compSucc (edges sys.cfg) b) : Before (stopPlan sys.gorderStop) (Comp.node b) (Comp.node a) := by
  have h1 : Before (sys.gorderStop.filter Node.isComp) b a :=
    before_filter _ (topo_path h.topoStop (compSucc_path hab)) hb (compSucc_isComp hab)
  have hbne := compSucc_src_not_exp hab
  simp only [stopPlan]
  apply before_map
  cases hae : a.isExp with
  | false => exact before_append_left _ (before_filter _ h1 (by simp [hbne]) (by simp [hae]))
  | true =>
    exact before_append_mid (List.mem_filter.mpr ⟨h1.mem_left, by simp [hbne]⟩) (List.mem_filter.mpr ⟨h1.mem_right, hae⟩)

/-- **stop order**: a component is shut down before every component it sends data to; extensions after every
pipeline component; an extension before the extensions it depends on — whatever fails -/
theorem C10_stop_order (sys : Sys) (h : sys.Admissible) (failT : Comp → Bool) :
    let sp := (serviceShutdown sys failT).map (·.1)
    (∀ b a, b.isComp = true → a ∈ compSucc (edges sys.cfg) b → Before sp (Comp.node b) (Comp.node a)) ∧
    (∀ e n, e ∈ sys.exts → n ∈ nodes sys.cfg → n.isComp = true → Before sp (Comp.node n) (Comp.ext e.id)) ∧
    (∀ e d, e ∈ sys.exts → d ∈ e.deps → Before sp (Comp.ext e.id) (Comp.ext d)) := by
  simp only [stops_eq]
  refine ⟨fun b a hb hab => ?_, fun e n he hn hc => ?_, fun e d he hd => ?_⟩
  · exact before_append_left _ (plan_upstream_first h hb hab)
  · refine before_append_mid (mem_stopPlan.mpr ⟨n, (h.topoStop.mem n).mpr hn, hc, rfl⟩) ?_
    exact List.mem_map.mpr ⟨e.id, List.mem_reverse.mpr ((h.topoExt.mem _).mpr (List.mem_map.mpr ⟨e, he, rfl⟩)), rfl⟩
  · refine before_append_right _ (before_map _ (before_reverse (h.topoExt.fwd d e.id ?_)))
    simp only [extEdges, List.mem_flatMap, List.mem_map]
    exact ⟨e, he, d, hd, rfl⟩

/-- **shared exporters** (repaired `ShutdownAll`): an exporter instance — in particular the first instance of an
exporter shared by several signals, whose `Shutdown` stops the one underlying component — is shut down only after
every component that sends data to *any* exporter instance has been shut down -/
theorem C10_exporter_stops_after_all_upstream (sys : Sys) (h : sys.Admissible) (failT : Comp → Bool)
    (e e' b : Node) (he : e.isExp = true) (hen : e ∈ nodes sys.cfg) (hbn : b ∈ nodes sys.cfg) (hbc : b.isComp = true)
    (hb : e' ∈ compSucc (edges sys.cfg) b) :
    Before ((serviceShutdown sys failT).map (·.1)) (Comp.node b) (Comp.node e) := by
  rw [stops_eq]
  apply before_append_left
  simp only [stopPlan]
  apply before_map
  have hec : e.isComp = true := by cases e <;> simp_all [Node.isExp, Node.isComp]
  exact before_append_mid
    (List.mem_filter.mpr ⟨List.mem_filter.mpr ⟨(h.topoStop.mem b).mpr hbn, hbc⟩, by simp [compSucc_src_not_exp hb]⟩)
    (List.mem_filter.mpr ⟨List.mem_filter.mpr ⟨(h.topoStop.mem e).mpr hen, hec⟩, he⟩)

/-! ## exactly once -/

/-- **exactly once**: whatever fails in `Start` or `Shutdown`, no component is started twice and every
component of the service — pipeline components and extensions, started or not — is shut down exactly once -/
theorem C10_exactly_once (sys : Sys) (h : sys.Admissible) (failS failT : Comp → Bool) :
    let o := run sys failS failT
    (o.starts.map (·.1)).Nodup ∧ (o.stops.map (·.1)).Nodup ∧ (∀ c, c ∈ o.stops.map (·.1) ↔ c ∈ allComps sys) ∧
    (∀ c, c ∈ o.starts.map (·.1) → c ∈ allComps sys) := by
  have hmemC : ∀ c, c ∈ stopPlan sys.gorderStop ↔ c ∈ ((nodes sys.cfg).filter Node.isComp).map Comp.node := by
    intro c
    rw [mem_stopPlan]
    simp only [List.mem_map, List.mem_filter]
    constructor
    · rintro ⟨n, h1, h2, rfl⟩; exact ⟨n, ⟨(h.topoStop.mem n).mp h1, h2⟩, rfl⟩
    · rintro ⟨n, ⟨h1, h2⟩, rfl⟩; exact ⟨n, (h.topoStop.mem n).mpr h1, h2, rfl⟩
  have hmemE : ∀ c, c ∈ sys.eorder.reverse.map Comp.ext ↔ c ∈ sys.exts.map (fun e => Comp.ext e.id) := by
    intro c
    simp only [List.mem_map, List.mem_reverse]
    constructor
    · rintro ⟨e, he, rfl⟩
      obtain ⟨x, hx, rfl⟩ := List.mem_map.mp ((h.topoExt.mem e).mp he)
      exact ⟨x, hx, rfl⟩
    · rintro ⟨x, hx, rfl⟩
      exact ⟨x.id, (h.topoExt.mem _).mpr (List.mem_map.mpr ⟨x, hx, rfl⟩), rfl⟩
  refine ⟨?_, ?_, ?_, ?_⟩
  · obtain ⟨suf, hs⟩ := starts_prefix sys failS
    have := startPlanAll_nodup h
    rw [← hs] at this
    exact (List.nodup_append.mp this).1
  · show ((serviceShutdown sys failT).map (·.1)).Nodup
    rw [stops_eq, List.nodup_append]
    refine ⟨nodup_stopPlan h.topoStop.nodup, nodup_map_ext ((List.reverse_perm _).nodup_iff.mpr h.topoExt.nodup), ?_⟩
    intro x hx y hy hxy
    subst hxy
    obtain ⟨n, _, _, rfl⟩ := mem_stopPlan.mp hx
    obtain ⟨e, _, he⟩ := List.mem_map.mp hy
    cases he
  · intro c
    show c ∈ (serviceShutdown sys failT).map (·.1) ↔ _
    rw [stops_eq]
    simp only [allComps, List.mem_append, hmemC, hmemE]
  · intro c hc
    obtain ⟨suf, hs⟩ := starts_prefix sys failS
    have hc' : c ∈ startPlanAll sys := by rw [← hs]; exact List.mem_append_left _ hc
    simp only [startPlanAll, List.mem_append] at hc'
    simp only [allComps, List.mem_append]
    rcases hc' with hc' | hc'
    · right
      obtain ⟨e, he, rfl⟩ := List.mem_map.mp hc'
      obtain ⟨x, hx, rfl⟩ := List.mem_map.mp ((h.topoExt.mem e).mp he)
      exact List.mem_map.mpr ⟨x, hx, rfl⟩
    · left
      obtain ⟨n, h1, h2, rfl⟩ := mem_startPlan.mp hc'
      exact List.mem_map.mpr ⟨n, List.mem_filter.mpr ⟨(h.topoStart.mem n).mp h1, h2⟩, rfl⟩

/-! ## failures -/

/-- **start failure**: nothing is started after the component whose `Start` failed; `Start` reports failure
exactly when some planned component fails; a successful `Start` started every component; each recorded
result is the component's own; (by `C10_exactly_once` the following `Shutdown` still reaches everything) -/
theorem C10_start_failure (sys : Sys) (h : sys.Admissible) (failS failT : Comp → Bool) :
    let o := run sys failS failT
    failedStartIsLast o.starts = true ∧
    (o.startOk = true ↔ ∀ c, c ∈ allComps sys → failS c = false) ∧
    (o.startOk = true → ∀ c, c ∈ allComps sys → c ∈ o.starts.map (·.1)) ∧
    (∀ e, e ∈ o.starts → e.2 = !(failS e.1)) := by
  have hplan : ∀ c, c ∈ startPlanAll sys ↔ c ∈ allComps sys := by
    intro c
    simp only [startPlanAll, allComps, List.mem_append]
    constructor
    · rintro (hc | hc)
      · right
        obtain ⟨e, he, rfl⟩ := List.mem_map.mp hc
        obtain ⟨x, hx, rfl⟩ := List.mem_map.mp ((h.topoExt.mem e).mp he)
        exact List.mem_map.mpr ⟨x, hx, rfl⟩
      · left
        obtain ⟨n, h1, h2, rfl⟩ := mem_startPlan.mp hc
        exact List.mem_map.mpr ⟨n, List.mem_filter.mpr ⟨(h.topoStart.mem n).mp h1, h2⟩, rfl⟩
    · rintro (hc | hc)
      · right
        obtain ⟨n, hn, rfl⟩ := List.mem_map.mp hc
        obtain ⟨h1, h2⟩ := List.mem_filter.mp hn
        exact mem_startPlan.mpr ⟨n, (h.topoStart.mem n).mpr h1, h2, rfl⟩
      · left
        obtain ⟨x, hx, rfl⟩ := List.mem_map.mp hc
        exact List.mem_map.mpr ⟨x.id, (h.topoExt.mem _).mpr (List.mem_map.mpr ⟨x, hx, rfl⟩), rfl⟩
  refine ⟨?_, ?_, ?_, ?_⟩
  · show failedStartIsLast (serviceStart sys failS) = true
    rw [serviceStart_eq]; exact failedStartIsLast_runStarts _ _
  · show allOk (serviceStart sys failS) = true ↔ _
    rw [serviceStart_eq, runStarts_allOk]
    exact ⟨fun hh c hc => hh c ((hplan c).mpr hc), fun hh c hc => hh c ((hplan c).mp hc)⟩
  · intro hok c hc
    show c ∈ (serviceStart sys failS).map (·.1)
    have hok' : allOk (serviceStart sys failS) = true := hok
    rw [serviceStart_eq] at hok' ⊢
    rw [runStarts_ok_all _ _ hok']
    exact (hplan c).mpr hc
  · intro e he
    have he' : e ∈ serviceStart sys failS := he
    rw [serviceStart_eq] at he'
    exact runStarts_flags _ _ e he'

/-- **shutdown failure**: a failing `Shutdown` is recorded for that component only and does not keep any other
component from being shut down (`C10_exactly_once` holds for every `failT`); `Shutdown` reports an error
exactly when some component's `Shutdown` failed -/
theorem C10_stop_failure (sys : Sys) (failS failT : Comp → Bool) :
    let o := run sys failS failT
    (∀ e, e ∈ o.stops → e.2 = !(failT e.1)) ∧ (o.stopOk = true ↔ ∀ e, e ∈ o.stops → failT e.1 = false) := by
  have hflags : ∀ e, e ∈ serviceShutdown sys failT → e.2 = !(failT e.1) := by
    intro e he
    simp only [serviceShutdown, runStops, List.mem_append, List.mem_map] at he
    rcases he with ⟨c, _, rfl⟩ | ⟨c, _, rfl⟩ <;> rfl
  refine ⟨hflags, ?_⟩
  show allOk (serviceShutdown sys failT) = true ↔ _
  simp only [allOk, List.all_eq_true]
  constructor
  · intro hh e he
    have := hh e he
    rw [hflags e he] at this
    simpa using this
  · intro hh e he
    rw [hflags e he, hh e he]; rfl

/-! ## shared components -/

theorem shared_count (s : Shared) (calls : List Call) :
    (s.runCalls calls).count .start = (if s.started = false ∧ Call.start ∈ calls then 1 else 0) ∧
    (s.runCalls calls).count .stop = (if s.stopped = false ∧ Call.stop ∈ calls then 1 else 0) := by
  induction calls generalizing s with
  | nil => simp [Shared.runCalls]
  | cons c rest ih =>
    obtain ⟨st, sp⟩ := s
    cases c <;> cases st <;> cases sp <;>
      simp [Shared.runCalls, Shared.step, ih, List.count_cons]

/-- **shared once**: however many per-signal instances exist and in whatever order they are started and
stopped (any sequence of `Start`/`Shutdown` calls on the instances), the underlying component's `Start`
runs once if any instance is started, its `Shutdown` once if any instance is shut down — never twice -/
theorem C10_shared_once (calls : List Call) :
    ((Shared.runCalls {} calls).count .start = if Call.start ∈ calls then 1 else 0) ∧
    ((Shared.runCalls {} calls).count .stop = if Call.stop ∈ calls then 1 else 0) := by
  have := shared_count {} calls
  simpa using this

/-- the `Start` / `Shutdown` calls the wrapper of a shared component receives during one lifetime: one per instance that was started,
then one per instance that was shut down -/
def instCalls (insts : List Comp) (o : Outcome) : List Call :=
  ((o.starts.map (·.1)).filter (fun c => insts.contains c)).map (fun _ => Call.start) ++
  ((o.stops.map (·.1)).filter (fun c => insts.contains c)).map (fun _ => Call.stop)

/-- **shared once, inside a service lifetime** (`C10_shared_once` composed with `run`): take any non-empty set of component nodes of
the built graph as the instances of one `sharedcomponent`; whatever the `topo.Sort` results and whatever fails, during the lifetime the
inner component's `Shutdown` runs exactly once, its `Start` at most once — exactly once iff `Start` was called on some instance -/
theorem C10_shared_inner_in_run (sys : Sys) (h : sys.Admissible) (failS failT : Comp → Bool) (insts : List Node)
    (hne : insts ≠ []) (hin : ∀ n, n ∈ insts → n ∈ nodes sys.cfg ∧ n.isComp = true) :
    let o := run sys failS failT
    let inner := Shared.runCalls {} (instCalls (insts.map Comp.node) o)
    inner.count .stop = 1 ∧ inner.count .start ≤ 1 ∧
    (inner.count .start = 1 ↔ ∃ n, n ∈ insts ∧ Comp.node n ∈ o.starts.map (·.1)) := by
  intro o inner
  obtain ⟨hs, ht⟩ := C10_shared_once (instCalls (insts.map Comp.node) o)
  have hex := C10_exactly_once sys h failS failT
  have hstop : Call.stop ∈ instCalls (insts.map Comp.node) o := by
    obtain ⟨n, hn⟩ := List.exists_mem_of_ne_nil insts hne
    have hall : Comp.node n ∈ allComps sys := by
      simp only [allComps, List.mem_append, List.mem_map, List.mem_filter]
      exact Or.inl ⟨n, ⟨(hin n hn).1, (hin n hn).2⟩, rfl⟩
    have hmem : Comp.node n ∈ o.stops.map (·.1) := (hex.2.2.1 _).mpr hall
    have hc : (insts.map Comp.node).contains (Comp.node n) = true := by
      simp only [List.contains_eq_mem, decide_eq_true_eq]
      exact List.mem_map.mpr ⟨n, hn, rfl⟩
    exact List.mem_append.mpr (Or.inr (List.mem_map.mpr ⟨Comp.node n, List.mem_filter.mpr ⟨hmem, hc⟩, rfl⟩))
  have hstart : Call.start ∈ instCalls (insts.map Comp.node) o ↔ ∃ n, n ∈ insts ∧ Comp.node n ∈ o.starts.map (·.1) := by
    constructor
    · intro hm
      rcases List.mem_append.mp hm with h1 | h1
      · obtain ⟨c, hc, _⟩ := List.mem_map.mp h1
        obtain ⟨hc1, hc2⟩ := List.mem_filter.mp hc
        have hc3 : c ∈ insts.map Comp.node := by
          simpa only [List.contains_eq_mem, decide_eq_true_eq] using hc2
        obtain ⟨n, hn, rfl⟩ := List.mem_map.mp hc3
        exact ⟨n, hn, hc1⟩
      · obtain ⟨_, _, hbad⟩ := List.mem_map.mp h1
        cases hbad
    · rintro ⟨n, hn, hc⟩
      have hc2 : (insts.map Comp.node).contains (Comp.node n) = true := by
        simp only [List.contains_eq_mem, decide_eq_true_eq]
        exact List.mem_map.mpr ⟨n, hn, rfl⟩
      exact List.mem_append.mpr (Or.inl (List.mem_map.mpr ⟨Comp.node n, List.mem_filter.mpr ⟨hc, hc2⟩, rfl⟩))
  refine ⟨by rw [ht]; simp [hstop], ?_, ?_⟩
  · rw [hs]; split <;> simp
  · rw [hs, ← hstart]
    constructor
    · intro h1
      by_cases hc : Call.start ∈ instCalls (insts.map Comp.node) o
      · exact hc
      · simp [hc] at h1
    · intro hc; simp [hc]

/-! ## several lifetimes in one process -/

theorem after_stopped (s : Shared) (calls : List Call) :
    (s.after calls).stopped = (s.stopped || decide (Call.stop ∈ calls)) ∧
    (s.after calls).started = (s.started || decide (Call.start ∈ calls)) := by
  induction calls generalizing s with
  | nil => simp [Shared.after]
  | cons c rest ih =>
    obtain ⟨st, sp⟩ := s
    have h := ih ((Shared.mk st sp).step c).1
    simp only [Shared.after, List.foldl_cons] at h ⊢
    cases c <;> cases st <;> cases sp <;> simp_all [Shared.step]

/-- **lifetimes are independent**: services built, started and stopped one after the other in one process over a
persistent `sharedcomponent.Map`.  Provided every lifetime either never touches the shared component (`service.New`
failed before any call) or shuts its instances down (which `C10_exactly_once` guarantees for every service that was
built — whatever failed in `Start` or `Shutdown`, and whatever the inner `Shutdown` returned), the inner component of
every lifetime sees exactly what a fresh wrapper produces: `Start` once iff an instance is started, `Shutdown` once —
independently of all earlier lifetimes and their outcomes.  And the model's outcome of each lifetime is `lifetime`
of that lifetime's inputs alone. -/
theorem C10_lifetimes_independent :
    (∀ (callss : List (List Call)), (∀ calls, calls ∈ callss → calls = [] ∨ Call.stop ∈ calls) →
      mapLifetimes none callss = callss.map (Shared.runCalls {})) ∧
    (∀ (pre post : List LifetimeIn) (l : LifetimeIn),
      (lifetimes (pre ++ l :: post))[pre.length]? = some (lifetime l.sys l.failS l.failT)) := by
  constructor
  · have key : ∀ (callss : List (List Call)) (entry : Option Shared), (entry = none ∨ entry = some {}) →
        (∀ calls, calls ∈ callss → calls = [] ∨ Call.stop ∈ calls) →
        mapLifetimes entry callss = callss.map (Shared.runCalls {}) := by
      intro callss
      induction callss with
      | nil => intro _ _ _; rfl
      | cons calls rest ih =>
        intro entry he hall
        have hsh : entry.getD {} = ({} : Shared) := by rcases he with rfl | rfl <;> rfl
        simp only [mapLifetimes, mapLifetime, hsh, List.map_cons]
        congr 1
        apply ih
        · rcases hall calls List.mem_cons_self with rfl | hstop
          · right; simp [Shared.after]
          · left
            have := (after_stopped {} calls).1
            simp [this, hstop]
        · intro c hc; exact hall c (List.mem_cons_of_mem _ hc)
    intro callss h
    exact key callss none (Or.inl rfl) h
  · intro pre post l
    simp [lifetimes]

/-! ## the monitor is sound -/

/-- whatever log the monitor accepts (the implementation's, on every run) satisfies the ordering and
exactly-once clauses, stated without reference to the monitor -/
theorem C10_check_sound (sys : Sys) (o : Outcome) (h : check sys o = true) :
    let st := o.starts.map (·.1)
    let sp := o.stops.map (·.1)
    st.Nodup ∧
    (∀ b a, b ∈ nodes sys.cfg → Comp.node b ∈ st → a ∈ compSucc (edges sys.cfg) b → Before st (Comp.node a) (Comp.node b)) ∧
    (∀ e c, e ∈ sys.exts → c ∈ st → isNodeC c = true → Before st (Comp.ext e.id) c) ∧
    (∀ e d, e ∈ sys.exts → d ∈ e.deps → Comp.ext e.id ∈ st → Before st (Comp.ext d) (Comp.ext e.id)) ∧
    sp.Nodup ∧ (∀ c, c ∈ sp ↔ c ∈ allComps sys) ∧
    (∀ b a, b ∈ nodes sys.cfg → b.isComp = true → a ∈ compSucc (edges sys.cfg) b → Before sp (Comp.node b) (Comp.node a)) ∧
    (∀ e n, e ∈ sys.exts → n ∈ nodes sys.cfg → n.isComp = true → Before sp (Comp.node n) (Comp.ext e.id)) ∧
    (∀ e d, e ∈ sys.exts → d ∈ e.deps → Before sp (Comp.ext e.id) (Comp.ext d)) ∧
    failedStartIsLast o.starts = true := by
  simp only [check, checkStarts, checkStops, checkFailures, Bool.and_eq_true] at h
  obtain ⟨⟨⟨⟨⟨⟨hs1, hs2⟩, hs3⟩, hs4⟩, ⟨⟨⟨ht1, ht2⟩, ht3⟩, ht4⟩⟩, ⟨⟨hf, _⟩, _⟩⟩, _⟩ := h
  simp only [startsOnce, Bool.and_eq_true] at hs1
  simp only [startsDownstreamFirst, List.all_eq_true, Bool.or_eq_true, Bool.not_eq_true', decide_eq_false_iff_not] at hs2
  simp only [startsExtFirst, List.all_eq_true, Bool.or_eq_true, Bool.not_eq_true'] at hs3
  simp only [startsDepFirst, List.all_eq_true, Bool.or_eq_true, Bool.not_eq_true', decide_eq_false_iff_not] at hs4
  simp only [stopsExactlyOnce, Bool.and_eq_true, List.all_eq_true, decide_eq_true_eq] at ht1
  simp only [stopsUpstreamFirst, List.all_eq_true, Bool.or_eq_true, Bool.not_eq_true'] at ht2
  simp only [stopsExtLast, List.all_eq_true, Bool.or_eq_true, Bool.not_eq_true', List.mem_filter, and_imp] at ht3
  simp only [stopsDependentFirst, List.all_eq_true] at ht4
  refine ⟨nodup_of_nodupB hs1.1, ?_, ?_, ?_, nodup_of_nodupB ht1.1.1, ?_, ?_, ?_, ?_, hf⟩
  · intro b a hb hbs hab
    rcases hs2 b hb with h' | h'
    · exact absurd hbs h'
    · exact before_of_beforeB (h' a hab)
  · intro e c he hc hn
    rcases hs3 c hc with h' | h'
    · rw [hn] at h'; cases h'
    · exact before_of_beforeB (h' e he)
  · intro e d he hd hes
    rcases hs4 e he with h' | h'
    · exact absurd hes h'
    · exact before_of_beforeB (h' d hd)
  · intro c
    exact ⟨fun hc => ht1.2 c hc, fun hc => ht1.1.2 c hc⟩
  · intro b a hb hbc hab
    rcases ht2 b hb with h' | h'
    · rw [hbc] at h'; cases h'
    · exact before_of_beforeB (h' a hab)
  · intro e n he hn hnc
    have hmem : Comp.ext e.id ∈ o.stops.map (·.1) := ht1.1.2 _ (by
      simp only [allComps, List.mem_append, List.mem_map]
      exact Or.inr ⟨e, he, rfl⟩)
    rcases ht3 _ hmem with h' | h'
    · cases h'
    · exact before_of_beforeB (h' n hn hnc)
  · intro e d he hd
    exact before_of_beforeB (ht4 e he d hd)

/-! ## `Service.Start`'s notification hooks -/

theorem runUntil_allOk (fail : Nat → Bool) : ∀ l : List Nat, (runUntil fail l).all (·.2) = true ↔ ∀ e, e ∈ l → fail e = false := by
  intro l
  induction l with
  | nil => simp [runUntil]
  | cons a l ih =>
    cases h : fail a with
    | true => simp [runUntil, h]
    | false =>
      simp only [runUntil, h, List.all_cons, Bool.true_and, List.mem_cons, forall_eq_or_imp, true_and]
      simpa using ih

/-- **hooks**: with `NotifyConfig` / `Ready` able to fail, the component start log is still `serviceStart`'s log — or,
when a `NotifyConfig` fails, only its all-successful extension part (no pipeline component is started) — so every
ordering / once theorem above applies to it; `Start` succeeds only if every component started and no hook failed -/
theorem C10_start_hooks (sys : Sys) (failS : Comp → Bool) (failN failR : Nat → Bool) :
    let t := serviceStartH sys failS failN failR
    (t.exts ++ t.graph = serviceStart sys failS ∨
      (t.exts ++ t.graph = extStart sys failS ∧ allOk (extStart sys failS) = true ∧ ∃ e, e ∈ sys.eorder ∧ failN e = true)) ∧
    ((∀ e, e ∈ sys.eorder → failN e = false) → t.exts ++ t.graph = serviceStart sys failS) ∧
    (t.ok = true → t.exts ++ t.graph = serviceStart sys failS ∧ allOk (serviceStart sys failS) = true ∧
      ∀ e, e ∈ sys.eorder → failN e = false ∧ failR e = false) := by
  have hN : (sys.eorder.map (fun e => (e, !(failN e)))).all (·.2) = true ↔ ∀ e, e ∈ sys.eorder → failN e = false := by
    simp [List.all_eq_true]
  cases h1 : allOk (extStart sys failS) with
  | false =>
    simp only [serviceStartH, serviceStart, h1]
    refine ⟨Or.inl (by simp), fun _ => by simp, fun h => by simp at h⟩
  | true =>
    by_cases h2 : (sys.eorder.map (fun e => (e, !(failN e)))).all (·.2) = true
    · have hN' := hN.mp h2
      cases h3 : allOk (graphStart sys failS) with
      | false =>
        simp only [serviceStartH, serviceStart, h1, h2, h3]
        refine ⟨Or.inl (by simp), fun _ => by simp, fun h => by simp at h⟩
      | true =>
        simp only [serviceStartH, serviceStart, h1, h2, h3]
        refine ⟨Or.inl (by simp), fun _ => by simp, fun h => ?_⟩
        simp only [Bool.not_true, Bool.false_eq_true, if_false] at h ⊢
        refine ⟨by simp, ?_, fun e he => ⟨hN' e he, (runUntil_allOk failR _).mp h e he⟩⟩
        have h1' : (extStart sys failS).all (·.2) = true := h1
        have h3' : (graphStart sys failS).all (·.2) = true := h3
        simp [allOk, List.all_append, h1', h3']
    · have : ∃ e, e ∈ sys.eorder ∧ failN e = true := by
        apply Classical.byContradiction
        intro hne
        apply h2
        apply hN.mpr
        intro e he
        cases hf : failN e with
        | false => rfl
        | true => exact absurd ⟨e, he, hf⟩ hne
      simp only [serviceStartH, serviceStart, h1, h2]
      refine ⟨Or.inr (by simpa using this), fun hall => absurd (hN.mpr hall) h2, fun h => by simp at h⟩

/-- **`Service.Shutdown` with the `NotReady` hook**: whatever the `NotReady` calls return, every extension is notified (in
start order) and the component stop log is exactly `run`'s — a failing notification is reported (`Shutdown` succeeds iff
no notification and no component `Shutdown` failed) but does not stop the remaining shutdowns, so `C10_stop_order` /
`C10_exactly_once` apply to it unchanged -/
theorem C10_shutdown_hooks (sys : Sys) (failS failT : Comp → Bool) (failQ : Nat → Bool) :
    let tr := serviceShutdownH sys failT failQ
    tr.stops = (run sys failS failT).stops ∧
    tr.notreadies.map (·.1) = sys.eorder ∧
    (∀ e ok, (e, ok) ∈ tr.notreadies → ok = !(failQ e)) ∧
    (tr.ok = true ↔ (∀ e, e ∈ sys.eorder → failQ e = false) ∧ (run sys failS failT).stopOk = true) := by
  refine ⟨rfl, ?_, ?_, ?_⟩
  · simp [serviceShutdownH, List.map_map, Function.comp_def]
  · intro e ok h
    simp only [serviceShutdownH, List.mem_map, Prod.mk.injEq] at h
    obtain ⟨a, _, rfl, rfl⟩ := h
    rfl
  · simp only [serviceShutdownH, run, Bool.and_eq_true, List.all_eq_true, List.mem_map, forall_exists_index, and_imp]
    constructor
    · rintro ⟨h1, h2⟩
      refine ⟨fun e he => ?_, h2⟩
      have := h1 (e, !(failQ e)) e he rfl
      simpa using this
    · rintro ⟨h1, h2⟩
      refine ⟨?_, h2⟩
      rintro x e he rfl
      simp [h1 e he]

/-! ## the loops as they are in the current tree (regenerated shape, `Gen/LifecycleShape.lean`) -/

theorem nodeOfType_recv : nodeOfType 0 = isRecvN := by funext n; cases n <;> rfl
theorem nodeOfType_exp : nodeOfType 2 = Node.isExp := by funext n; cases n <;> rfl

theorem planOfShape_start (order : List Node) :
    planOfShape OtelVerif.Gen.LifecycleShape.startAllReverse OtelVerif.Gen.LifecycleShape.startAllDeferred order = startPlan order := by
  simp [planOfShape, OtelVerif.Gen.LifecycleShape.startAllReverse, OtelVerif.Gen.LifecycleShape.startAllDeferred, nodeOfType_recv, startPlan]

theorem planOfShape_stop (order : List Node) :
    planOfShape OtelVerif.Gen.LifecycleShape.shutdownAllReverse OtelVerif.Gen.LifecycleShape.shutdownAllDeferred order = stopPlan order := by
  simp [planOfShape, OtelVerif.Gen.LifecycleShape.shutdownAllReverse, OtelVerif.Gen.LifecycleShape.shutdownAllDeferred, nodeOfType_exp, stopPlan]

open OtelVerif.Gen in
/-- **the model is the code's shape**: the start / stop loops interpreted from the shape the translator `lifecycleshape` reads off
`Graph.StartAll/ShutdownAll`, `Extensions.Start/Shutdown/Notify*` and `Service.Start/Shutdown` of the current tree (directions, the
node type moved last, return-vs-collect at every error branch, the call sequences) ARE the model the theorems of this file speak about:
`serviceStartShape = serviceStartH`, `serviceShutdownShape = serviceShutdownH`, and the two plans are `startPlan` / `stopPlan`.  A source
change that alters any of these shapes (a loop that breaks at the first failing `Shutdown`, extensions stopped before pipelines, receivers
no longer last, …) regenerates a table for which this theorem no longer checks.  The driver executes the interpreted versions. -/
theorem C10_loops_as_regenerated (sys : Sys) (failS failT : Comp → Bool) (failN failR failQ : Nat → Bool) :
    serviceStartShape sys failS failN failR = serviceStartH sys failS failN failR ∧
    serviceShutdownShape sys failT failQ = serviceShutdownH sys failT failQ ∧
    (∀ order, planOfShape LifecycleShape.startAllReverse LifecycleShape.startAllDeferred order = startPlan order) ∧
    (∀ order, planOfShape LifecycleShape.shutdownAllReverse LifecycleShape.shutdownAllDeferred order = stopPlan order) := by
  refine ⟨?_, ?_, planOfShape_start, planOfShape_stop⟩
  · simp only [serviceStartShape, LifecycleShape.serviceStart, serviceStartH, startSteps, startCall, planOfShape_start, runLoopShape,
      hookLoopShape, extPlanShape, LifecycleShape.extStartStopsAtError, LifecycleShape.extStartReverse,
      LifecycleShape.notifyConfigStopsAtError, LifecycleShape.startAllStopsAtError, LifecycleShape.readyStopsAtError, extStart, graphStart]
    by_cases h1 : allOk (runStarts failS (sys.eorder.map Comp.ext)) = true
    · by_cases h2 : (sys.eorder.map (fun e => (e, !(failN e)))).all (·.2) = true
      · by_cases h3 : allOk (runStarts failS (startPlan sys.gorderStart)) = true
        · by_cases h4 : (runUntil failR sys.eorder).all (·.2) = true
          · simp [h1, h2, h3, h4]
          · simp [h1, h2, h3, h4]
        · simp [h1, h2, h3]
      · simp [h1, h2]
    · simp [h1]
  · simp [serviceShutdownShape, stopSteps, stopCall, LifecycleShape.serviceShutdown, planOfShape_stop, runLoopShape, hookLoopShape,
      extPlanShape, LifecycleShape.notReadyStopsAtError, LifecycleShape.shutdownAllStopsAtError, LifecycleShape.extShutdownStopsAtError,
      LifecycleShape.extShutdownReverse, serviceShutdownH, serviceShutdown, allOk, List.all_append, Bool.and_assoc]

/-! ## an extension listed more than once -/

theorem mem_dedupExts {l : List Ext} {e : Ext} (h : e ∈ dedupExts l) : e ∈ l := by
  induction l with
  | nil => cases h
  | cons x xs ih =>
    simp only [dedupExts, List.mem_cons, List.mem_filter] at h
    rcases h with rfl | ⟨h, _⟩
    · exact List.mem_cons_self
    · exact List.mem_cons_of_mem _ (ih h)

/-- **one extension per id**: however often an id is listed in `service::extensions`, the service has one extension
with that id (so by `C10_exactly_once` it is started at most once and shut down exactly once), and every listed id is there -/
theorem C10_extensions_one_per_id (l : List Ext) :
    ((dedupExts l).map (·.id)).Nodup ∧ (∀ e, e ∈ l → ∃ x, x ∈ dedupExts l ∧ x.id = e.id) ∧ (∀ e, e ∈ dedupExts l → e ∈ l) := by
  refine ⟨?_, ?_, fun e => mem_dedupExts⟩
  · induction l with
    | nil => simp [dedupExts]
    | cons x xs ih =>
      simp only [dedupExts, List.map_cons, List.nodup_cons, List.mem_map, List.mem_filter]
      refine ⟨?_, ?_⟩
      · rintro ⟨y, ⟨_, hy⟩, hid⟩
        simp [hid] at hy
      · exact (List.Nodup.sublist (List.Sublist.map _ List.filter_sublist) ih)
  · induction l with
    | nil => intro e he; cases he
    | cons x xs ih =>
      intro e he
      rcases List.mem_cons.mp he with rfl | he'
      · exact ⟨e, by simp [dedupExts], rfl⟩
      · obtain ⟨y, hy, hid⟩ := ih e he'
        by_cases hx : y.id = x.id
        · exact ⟨x, by simp [dedupExts], by rw [← hid, hx]⟩
        · refine ⟨y, ?_, hid⟩
          simp only [dedupExts, List.mem_cons, List.mem_filter]
          exact Or.inr ⟨hy, by simpa using hx⟩

/-! ## rejected configurations -/

/-- **nothing is started on rejection**: when `service.New` fails — `graph.Build` rejects the pipelines
(connector error or cycle) or the extension dependencies cannot be ordered — no `Start` and no `Shutdown` of any
component ever happens, whatever the orders and failure switches -/
theorem C10_rejected_starts_nothing (sys : Sys) (failS failT : Comp → Bool)
    (h : newService sys.cfg sys.exts ≠ none) :
    (lifetime sys failS failT).starts = [] ∧ (lifetime sys failS failT).stops = [] := by
  simp only [lifetime]
  cases hn : newService sys.cfg sys.exts with
  | none => exact absurd hn h
  | some e => exact ⟨rfl, rfl⟩

/-- in the property's own terms (C09): a configuration with an unsupported connector use or a connector
cycle is rejected by `service.New` with the corresponding error and nothing is started or shut down -/
theorem C10_invalid_pipelines_start_nothing (sys : Sys) (failS failT : Comp → Bool)
    (h : UnsupportedUse sys.cfg ∨ ConnectorCycle sys.cfg) :
    (newService sys.cfg sys.exts = some .connector ∨ newService sys.cfg sys.exts = some .cycle) ∧
    (lifetime sys failS failT).starts = [] ∧ (lifetime sys failS failT).stops = [] := by
  have hb : build sys.cfg = some .connector ∨ build sys.cfg = some .cycle := by
    rcases h with hu | hc
    · exact Or.inl ((C09_unsupported sys.cfg).mpr hu)
    · have := (C09_cycle_rejected sys.cfg hc).1
      cases hbc : build sys.cfg with
      | none => exact absurd hbc this
      | some e => cases e with
        | connector => exact Or.inl rfl
        | cycle => exact Or.inr rfl
  have hn : newService sys.cfg sys.exts = some .connector ∨ newService sys.cfg sys.exts = some .cycle := by
    rcases hb with hb | hb
    · exact Or.inl (by simp [newService, hb])
    · exact Or.inr (by simp [newService, hb])
  refine ⟨hn, C10_rejected_starts_nothing sys failS failT ?_⟩
  rcases hn with hn | hn <;> rw [hn] <;> exact fun h => by cases h

/-- with factories that may fail: without a failing factory `newServiceWith` is `newService`; a factory error is returned
exactly when the pipelines are accepted and some component's factory fails (before the extensions are looked at) -/
theorem C10_new_with_failing_factory (cfg : Cfg) (exts : List Ext) (failCreate : Node → Bool) :
    (newServiceWith cfg exts (fun _ => false) = (newService cfg exts).map NewErrW.new) ∧
    (newServiceWith cfg exts failCreate = some .create ↔
      (build cfg = none ∧ ∃ n, n ∈ nodes cfg ∧ n.isComp = true ∧ failCreate n = true)) := by
  obtain ⟨h1, h2, h3⟩ := C09_build_with_failing_factory cfg failCreate
  constructor
  · have := (C09_build_with_failing_factory cfg (fun _ => false)).2.2
    simp only [newServiceWith, newService, this]
    cases hb : build cfg with
    | none =>
      simp only [Option.map]
      by_cases hm : extMissing exts = true
      · simp [hm]
      · by_cases hs : extSortable exts = true <;> simp [hm, hs]
    | some e => cases e <;> simp [Option.map]
  · rw [← h2]
    simp only [newServiceWith]
    cases hbw : buildWith cfg failCreate with
    | none =>
      by_cases hm : extMissing exts = true
      · simp [hm]
      · by_cases hs : extSortable exts = true <;> simp [hm, hs]
    | some e =>
      cases e with
      | create => simp
      | build e' => cases e' <;> simp

/-- … and with extension factories that may fail too (`extensions.New` after `graph.Build`): without a failing extension factory
`newServiceWithX` is `newServiceWith`; a factory error is returned exactly when the pipelines are accepted and either a pipeline component's
or a listed extension's factory fails — in the second case before the dependencies are looked at (no `extMissing` / `extCycle` error) -/
theorem C10_new_with_failing_ext_factory (cfg : Cfg) (exts : List Ext) (failCreate : Node → Bool) (failExt : Nat → Bool) :
    (newServiceWithX cfg exts failCreate (fun _ => false) = newServiceWith cfg exts failCreate) ∧
    (newServiceWithX cfg exts failCreate failExt = some .create ↔
      (build cfg = none ∧ ((∃ n, n ∈ nodes cfg ∧ n.isComp = true ∧ failCreate n = true) ∨ ∃ e, e ∈ exts ∧ failExt e.id = true))) := by
  obtain ⟨_, h2, _⟩ := C09_build_with_failing_factory cfg failCreate
  constructor
  · simp [newServiceWithX, newServiceWith]
  · simp only [newServiceWithX]
    cases hbw : buildWith cfg failCreate with
    | none =>
      have hb : build cfg = none := by
        simp only [buildWith] at hbw
        cases hb : build cfg with
        | none => rfl
        | some e => simp [hb] at hbw
      have hnf : ¬ ∃ n, n ∈ nodes cfg ∧ n.isComp = true ∧ failCreate n = true := by
        intro hex
        have := h2.mpr ⟨hb, hex⟩
        rw [hbw] at this; cases this
      by_cases hx : exts.any (fun e => failExt e.id) = true
      · simp only [hx, if_true, true_iff]
        simp only [List.any_eq_true] at hx
        exact ⟨hb, Or.inr hx⟩
      · have hx' : ¬ ∃ e, e ∈ exts ∧ failExt e.id = true := by simpa [List.any_eq_true] using hx
        by_cases hm : extMissing exts = true
        · simp [hx, hm, hnf, hx']
        · by_cases hs : extSortable exts = true <;> simp [hx, hm, hs, hnf, hx']
    | some e =>
      cases e with
      | create =>
        have := h2.mp hbw
        simp only [true_iff]
        exact ⟨this.1, Or.inl this.2⟩
      | build e' =>
        have hb : build cfg = some e' := by
          simp only [buildWith] at hbw
          cases hb : build cfg with
          | none => simp only [hb] at hbw; split at hbw <;> cases hbw
          | some e'' => simp only [hb, Option.some.injEq, BuildErrW.build.injEq] at hbw; rw [hbw]
        cases e' <;> simp [hb]

/-- an accepted service runs the full life cycle of `run` -/
theorem C10_accepted_lifetime (sys : Sys) (failS failT : Comp → Bool) (h : newService sys.cfg sys.exts = none) :
    lifetime sys failS failT = run sys failS failT := by
  simp [lifetime, h]

/-! ## the hypothesis `Admissible` is satisfiable exactly on the accepted services

Every ordering / exactly-once theorem above takes the three `topo.Sort` results as inputs constrained by
`Sys.Admissible`.  The next theorems discharge the question "is there such an order at all?" from the model of
`service.New` alone: the peeling that models gonum's success condition is itself a topological sort
(`Lemmas/C10Exists.lean`), and conversely a component graph that has a topological order is never rejected with
the cycle error. -/

/-- **an accepted service has admissible orders**: whenever `service.New` succeeds (model `newService`) on a list of
extensions with distinct ids (what `extensions.New` keeps, `C10_extensions_one_per_id`), there are `topo.Sort`
results satisfying `Admissible` — so the theorems of this file are never vacuous on a service that was built -/
theorem C10_accepted_admissible (cfg : Cfg) (exts : List Ext) (hnd : (exts.map (·.id)).Nodup)
    (h : newService cfg exts = none) :
    ∃ go ge, Sys.Admissible { cfg := cfg, exts := exts, gorderStart := go, gorderStop := go, eorder := ge } := by
  obtain ⟨hb, _, hs⟩ := extSortable_of_newService h
  exact ⟨_, _, ⟨isTopo_of_build hb, isTopo_of_build hb, isTopo_of_extSortable exts hnd hs⟩⟩

/-- **`service.New` rejects exactly the unorderable extension lists**: with the pipelines accepted, `service.New` succeeds iff the
extensions (distinct ids) have a dependency-respecting order at all — `computeOrder`'s two errors (`unable to find extension …`, `unable to
order extensions by dependencies, cycle found …`) are returned exactly when no order exists (a dependency is not in the list, or the
declared dependencies are cyclic) -/
theorem C10_new_iff_orderable (cfg : Cfg) (exts : List Ext) (hnd : (exts.map (·.id)).Nodup) :
    newService cfg exts = none ↔ (build cfg = none ∧ ∃ ge, IsTopo (exts.map (·.id)) (extEdges exts) ge) := by
  constructor
  · intro h
    obtain ⟨hb, _, hs⟩ := extSortable_of_newService h
    exact ⟨hb, _, isTopo_of_extSortable exts hnd hs⟩
  · rintro ⟨hb, ge, ht⟩
    obtain ⟨hm, hs⟩ := extSortable_of_isTopo exts ge ht
    simp [newService, hb, hm, hs]

/-- **`service.New` accepts exactly the valid services, in the property's own terms**: for a validated pipeline configuration (`WF`) and
extensions with distinct ids, `service.New` succeeds iff no connector use lacks a supported counterpart, the connector usage is acyclic,
and the extension dependencies can be ordered at all (`C09_unsupported`, `C09_cycle_iff`, `C10_new_iff_orderable`) -/
theorem C10_new_iff_valid (cfg : Cfg) (wf : cfg.WF) (exts : List Ext) (hnd : (exts.map (·.id)).Nodup) :
    newService cfg exts = none ↔
      (¬ UnsupportedUse cfg ∧ ¬ ConnectorCycle cfg ∧ ∃ ge, IsTopo (exts.map (·.id)) (extEdges exts) ge) := by
  rw [C10_new_iff_orderable cfg exts hnd]
  have hb : build cfg = none ↔ (¬ UnsupportedUse cfg ∧ ¬ ConnectorCycle cfg) := by
    constructor
    · intro h
      refine ⟨fun hu => ?_, fun hc => ?_⟩
      · have := (C09_unsupported cfg).mpr hu
        rw [h] at this; cases this
      · by_cases hu : UnsupportedUse cfg
        · have := (C09_unsupported cfg).mpr hu
          rw [h] at this; cases this
        · have := (C09_cycle_iff cfg wf).mpr ⟨hu, hc⟩
          rw [h] at this; cases this
    · rintro ⟨hu, hc⟩
      cases hbd : build cfg with
      | none => rfl
      | some e =>
        cases e with
        | connector => exact absurd ((C09_unsupported cfg).mp hbd) hu
        | cycle => exact absurd ((C09_cycle_iff cfg wf).mp hbd).2 hc
  constructor
  · rintro ⟨h1, h2⟩; exact ⟨(hb.mp h1).1, (hb.mp h1).2, h2⟩
  · rintro ⟨h1, h2, h3⟩; exact ⟨hb.mpr ⟨h1, h2⟩, h3⟩

theorem extChain_before {E : List (Nat × Nat)} {ns order : List Nat} (ht : IsTopo ns E order) :
    ∀ (l : List Nat) (a : Nat), extChainOk E a l = true → ∀ x, x ∈ l → Before order a x := by
  intro l
  induction l with
  | nil => intro a _ x hx; cases hx
  | cons b l ih =>
    intro a h x hx
    simp only [extChainOk, Bool.and_eq_true, List.contains_eq_mem, decide_eq_true_eq] at h
    have hab : Before order a b := ht.fwd a b h.1
    rcases List.mem_cons.mp hx with rfl | hx'
    · exact hab
    · exact before_trans ht.nodup hab (ih b h.2 x hx')

/-- **content of the extension-cycle error**: whatever cycle `a -> b -> … -> a` the monitor accepts consists of declared dependencies
only and is closed, hence NO order of the extensions respects the declared dependencies — and (`C10_new_iff_orderable`) `service.New` fails -/
theorem C10_ext_cycle_message_sound (cfg : Cfg) (exts : List Ext) (hnd : (exts.map (·.id)).Nodup) (l : List Nat)
    (h : extCycleMsgOk exts l = true) :
    (¬ ∃ ge, IsTopo (exts.map (·.id)) (extEdges exts) ge) ∧ newService cfg exts ≠ none := by
  have hno : ¬ ∃ ge, IsTopo (exts.map (·.id)) (extEdges exts) ge := by
    rintro ⟨ge, ht⟩
    cases l with
    | nil => simp [extCycleMsgOk] at h
    | cons a rest =>
      simp only [extCycleMsgOk, Bool.and_eq_true, Bool.not_eq_true', beq_iff_eq] at h
      obtain ⟨⟨_, hlast⟩, hchain⟩ := h
      have hmem : a ∈ rest := List.mem_of_getLast? hlast
      exact before_irrefl ht.nodup (extChain_before ht rest a hchain a hmem)
  exact ⟨hno, fun hn => hno ((C10_new_iff_orderable cfg exts hnd).mp hn).2⟩

/-- **content of the missing-dependency error**: the message names an extension of the list, one of its declared dependencies, and that
dependency is not in the list — so `computeOrder` cannot order the list and `service.New` fails -/
theorem C10_ext_missing_message_sound (cfg : Cfg) (exts : List Ext) (d e : Nat) (h : extMissingMsgOk exts d e = true) :
    (∃ x, x ∈ exts ∧ x.id = e ∧ d ∈ x.deps) ∧ (∀ x, x ∈ exts → x.id ≠ d) ∧ extMissing exts = true ∧ newService cfg exts ≠ none := by
  simp only [extMissingMsgOk, Bool.and_eq_true, List.any_eq_true, beq_iff_eq, List.contains_eq_mem, decide_eq_true_eq,
    Bool.not_eq_true', ← Bool.not_eq_true, not_exists, not_and] at h
  obtain ⟨⟨x, hx, hxe, hxd⟩, hno⟩ := h
  have hm : extMissing exts = true := by
    simp only [extMissing, List.any_eq_true, Bool.not_eq_true', ← Bool.not_eq_true, beq_iff_eq, not_exists, not_and]
    exact ⟨x, hx, d, hxd, hno⟩
  refine ⟨⟨x, hx, hxe, hxd⟩, hno, hm, ?_⟩
  intro hn
  have := (extSortable_of_newService hn).2.1
  rw [hm] at this; cases this

/-- conversely: a component graph for which a topological order exists is never rejected with the cycle error
(the model of gonum's failure condition fails only on graphs that have no topological order) -/
theorem C10_admissible_not_cycle (sys : Sys) (h : sys.Admissible) : build sys.cfg ≠ some .cycle := by
  intro hc
  obtain ⟨n, _, hp⟩ := C09_accepts_valid_partial sys.cfg hc
  exact before_irrefl h.topoStart.nodup (topo_path h.topoStart hp)

/-! ## a connector whose instances share one component: recorded limitation

`sharedcomponent` starts the one underlying component with the first instance that is started and stops it with
the first instance that is stopped.  For receivers (no upstream) and exporters (no downstream) the repaired
`StartAll` / `ShutdownAll` make that safe for every order (`C10_receiver_starts_after_all_downstream`,
`C10_exporter_stops_after_all_upstream`).  A *connector* has both sides; its instances (one per signal pair) sit
in the middle of different pipelines and the graph does not know that they share a component.  The full
statement below is false for the code: kernel-checked witness.  No connector of this repository is built on
`sharedcomponent`; the harness stream that reproduces it on the real code is off by default
(`VERIF_C10_SHARED_CONN=1`). -/

/-- instance nodes of connector `id` -/
def connInsts (cfg : Cfg) (id : CompId) : List Node :=
  (nodes cfg).filter (fun n => match n with | .conn _ _ j => j == id | _ => false)

/-- the instance whose `Start` starts the shared inner component: the first one started -/
def firstStarted (st : List Comp) (insts : List Node) : Option Comp :=
  st.find? (fun c => insts.any (fun n => Comp.node n == c))

/-- full statement for shared connectors (start side): the inner component starts only after every component
that any of its instances sends data to -/
def C10_shared_connector_full : Prop :=
  ∀ (sys : Sys), sys.Admissible → ∀ (id : CompId) (f : Comp),
    firstStarted ((serviceStart sys (fun _ => false)).map (·.1)) (connInsts sys.cfg id) = some f →
    ∀ i, i ∈ connInsts sys.cfg id → ∀ a, a ∈ compSucc (edges sys.cfg) i →
      Before ((serviceStart sys (fun _ => false)).map (·.1)) (Comp.node a) f

/-- connector 5 takes traces/0 into metrics/0 and into logs/0: two instances, `conn traces metrics 5` and `conn traces logs 5` -/
def exConnCfg : Cfg :=
  { conns := [{ id := 5, supp := [(.traces, .metrics), (.traces, .logs)] }],
    pipes := [{ id := ⟨.traces, 0⟩, recv := [1], procs := [], exps := [5] },
              { id := ⟨.metrics, 0⟩, recv := [5], procs := [1], exps := [1] },
              { id := ⟨.logs, 0⟩, recv := [5], procs := [2], exps := [2] }] }

/-- an admissible order in which the metrics-side instance is started before the logs pipeline's processor -/
def exConnSys : Sys :=
  { cfg := exConnCfg, exts := [],
    gorderStart := [Node.recv .traces 1, Node.cap ⟨.traces, 0⟩, Node.fanout ⟨.traces, 0⟩,
      Node.conn .traces .logs 5, Node.cap ⟨.logs, 0⟩, Node.proc ⟨.logs, 0⟩ 2, Node.fanout ⟨.logs, 0⟩, Node.exp .logs 2,
      Node.conn .traces .metrics 5, Node.cap ⟨.metrics, 0⟩, Node.proc ⟨.metrics, 0⟩ 1, Node.fanout ⟨.metrics, 0⟩, Node.exp .metrics 1],
    gorderStop := [Node.recv .traces 1, Node.cap ⟨.traces, 0⟩, Node.fanout ⟨.traces, 0⟩,
      Node.conn .traces .logs 5, Node.cap ⟨.logs, 0⟩, Node.proc ⟨.logs, 0⟩ 2, Node.fanout ⟨.logs, 0⟩, Node.exp .logs 2,
      Node.conn .traces .metrics 5, Node.cap ⟨.metrics, 0⟩, Node.proc ⟨.metrics, 0⟩ 1, Node.fanout ⟨.metrics, 0⟩, Node.exp .metrics 1],
    eorder := [] }

theorem exConnSys_admissible : exConnSys.Admissible :=
  ⟨isTopo_of_isTopoB (by decide), isTopo_of_isTopoB (by decide), isTopo_of_isTopoB (by decide)⟩

/-- the full statement fails: the inner component starts with `conn traces metrics 5`, before the logs
pipeline's processor to which the sibling instance `conn traces logs 5` sends -/
theorem C10_shared_connector_full_fails : ¬ C10_shared_connector_full := by
  intro h
  have hb := h exConnSys exConnSys_admissible 5 (Comp.node (Node.conn .traces .metrics 5)) (by decide)
    (Node.conn .traces .logs 5) (by decide) (Node.proc ⟨.logs, 0⟩ 2) (by decide)
  have hnd := (C10_exactly_once exConnSys exConnSys_admissible (fun _ => false) (fun _ => false)).1
  exact not_before_of_beforeB_false hnd (by decide) hb

/-- proved part: every instance on its own obeys the order (this is `C10_start_order`); what fails is only the
coupling of sibling instances through the shared inner component -/
theorem C10_shared_connector_partial (sys : Sys) (h : sys.Admissible) (failS : Comp → Bool) (i a : Node)
    (hi : Comp.node i ∈ (serviceStart sys failS).map (·.1)) (ha : a ∈ compSucc (edges sys.cfg) i) :
    Before ((serviceStart sys failS).map (·.1)) (Comp.node a) (Comp.node i) :=
  (C10_start_order sys h failS).1 i a hi ha

/-! ## the model's own outcome passes the monitor -/

/-- **bridging**: for every configuration, admissible orders and failure choice, the outcome the model computes
is accepted by the monitor that judges the implementation's logs — model, monitor and the theorems above speak
about the same thing -/
theorem C10_run_passes_check (sys : Sys) (h : sys.Admissible) (failS failT : Comp → Bool) :
    check sys (run sys failS failT) = true := by
  obtain ⟨so1, so2, so3⟩ := C10_start_order sys h failS
  obtain ⟨to1, to2, to3⟩ := C10_stop_order sys h failT
  obtain ⟨e1, e2, e3, e4⟩ := C10_exactly_once sys h failS failT
  obtain ⟨f1, _, f3, _⟩ := C10_start_failure sys h failS failT
  have hst : (run sys failS failT).starts = serviceStart sys failS := rfl
  have hsp : (run sys failS failT).stops = serviceShutdown sys failT := rfl
  simp only [hst, hsp] at e1 e2 e3 e4 f1 f3
  simp only [check, Bool.and_eq_true]
  refine ⟨⟨⟨?_, ?_⟩, ?_⟩, ?_⟩
  · -- start clauses
    simp only [hst, checkStarts, Bool.and_eq_true]
    refine ⟨⟨⟨?_, ?_⟩, ?_⟩, ?_⟩
    · simp only [startsOnce, Bool.and_eq_true, List.all_eq_true, decide_eq_true_eq]
      exact ⟨nodupB_of_nodup e1, e4⟩
    · simp only [startsDownstreamFirst, List.all_eq_true, Bool.or_eq_true, Bool.not_eq_true', decide_eq_false_iff_not]
      intro b _
      by_cases hb : Comp.node b ∈ (serviceStart sys failS).map (·.1)
      · exact Or.inr (fun a ha => beforeB_of_before e1 (so1 b a hb ha))
      · exact Or.inl hb
    · simp only [startsExtFirst, List.all_eq_true, Bool.or_eq_true, Bool.not_eq_true']
      intro c hc
      cases c with
      | node n => exact Or.inr (fun e he => beforeB_of_before e1 (so2 e n he hc))
      | ext _ => exact Or.inl rfl
      | inner _ => exact Or.inl rfl
      | innerExp _ => exact Or.inl rfl
      | innerConn _ => exact Or.inl rfl
    · simp only [startsDepFirst, List.all_eq_true, Bool.or_eq_true, Bool.not_eq_true', decide_eq_false_iff_not]
      intro e he
      by_cases hs : Comp.ext e.id ∈ (serviceStart sys failS).map (·.1)
      · exact Or.inr (fun d hd => beforeB_of_before e1 (so3 e d he hd hs))
      · exact Or.inl hs
  · -- stop clauses
    simp only [hsp, checkStops, Bool.and_eq_true]
    refine ⟨⟨⟨?_, ?_⟩, ?_⟩, ?_⟩
    · simp only [stopsExactlyOnce, Bool.and_eq_true, List.all_eq_true, decide_eq_true_eq]
      exact ⟨⟨nodupB_of_nodup e2, fun c hc => (e3 c).mpr hc⟩, fun c hc => (e3 c).mp hc⟩
    · simp only [stopsUpstreamFirst, List.all_eq_true, Bool.or_eq_true, Bool.not_eq_true']
      intro b _
      cases hbc : b.isComp with
      | false => exact Or.inl rfl
      | true => exact Or.inr (fun a ha => beforeB_of_before e2 (to1 b a hbc ha))
    · simp only [stopsExtLast, List.all_eq_true, Bool.or_eq_true, Bool.not_eq_true', List.mem_filter, and_imp]
      intro c hc
      cases c with
      | node _ => exact Or.inl rfl
      | inner _ => exact Or.inl rfl
      | innerExp _ => exact Or.inl rfl
      | innerConn _ => exact Or.inl rfl
      | ext x =>
        refine Or.inr (fun n hn hnc => ?_)
        have hmem := (e3 _).mp hc
        simp only [allComps, List.mem_append, List.mem_map] at hmem
        rcases hmem with ⟨_, _, h'⟩ | ⟨e, he, h'⟩
        · cases h'
        · injection h' with h'
          subst h'
          exact beforeB_of_before e2 (to2 e n he hn hnc)
    · simp only [stopsDependentFirst, List.all_eq_true]
      intro e he d hd
      exact beforeB_of_before e2 (to3 e d he hd)
  · simp only [checkFailures, Bool.and_eq_true, hst]
    exact ⟨⟨f1, by simp [run]⟩, by simp [run]⟩
  · simp only [startedAll, Bool.or_eq_true, Bool.not_eq_true', List.all_eq_true, decide_eq_true_eq, hst]
    cases hok : (run sys failS failT).startOk with
    | false => exact Or.inl rfl
    | true => exact Or.inr (fun c hc => f3 hok c hc)

/-! ## non-vacuity -/

/-- **end to end, no order hypothesis**: for every configuration and every `service::extensions` list (ids may be
repeated) that `service.New` accepts there are `topo.Sort` results for which — whatever components fail in `Start`
or `Shutdown` — the whole lifetime (`New`, `Start`, `Shutdown` once) satisfies every clause of the monitor
(`C10_check_sound`: downstream-first starts, upstream-first stops, extensions first/last in dependency order, at most
one start and exactly one shutdown per component, nothing started after a failed start) -/
theorem C10_accepted_lifetime_passes (cfg : Cfg) (l : List Ext) (h : newService cfg (dedupExts l) = none) :
    ∃ go ge, ∀ failS failT : Comp → Bool,
      check { cfg := cfg, exts := dedupExts l, gorderStart := go, gorderStop := go, eorder := ge }
        (lifetime { cfg := cfg, exts := dedupExts l, gorderStart := go, gorderStop := go, eorder := ge } failS failT) = true := by
  obtain ⟨go, ge, hadm⟩ := C10_accepted_admissible cfg (dedupExts l) (C10_extensions_one_per_id l).1 h
  refine ⟨go, ge, fun failS failT => ?_⟩
  rw [C10_accepted_lifetime _ failS failT h]
  exact C10_run_passes_check _ hadm failS failT

/-- traces/0 and traces/1 share receiver 1 and exporter 1; traces/0 also feeds connector 5 into metrics/0 -/
def exCfg : Cfg :=
  { conns := [{ id := 5, supp := [(.traces, .metrics)] }],
    pipes := [{ id := ⟨.traces, 0⟩, recv := [1], procs := [1, 2], exps := [5, 1] },
              { id := ⟨.traces, 1⟩, recv := [1, 2], procs := [2], exps := [1] },
              { id := ⟨.metrics, 0⟩, recv := [5], procs := [1], exps := [2] }] }

/-- that service with two extensions (2 depends on 1); orders = one admissible choice -/
def exSys : Sys :=
  { cfg := exCfg, exts := [{ id := 2, deps := [1] }, { id := 1, deps := [] }],
    gorderStart := [Node.recv .traces 2, Node.recv .traces 1, Node.cap ⟨.traces, 1⟩, Node.proc ⟨.traces, 1⟩ 2, Node.fanout ⟨.traces, 1⟩,
      Node.cap ⟨.traces, 0⟩, Node.proc ⟨.traces, 0⟩ 1, Node.proc ⟨.traces, 0⟩ 2, Node.fanout ⟨.traces, 0⟩, Node.exp .traces 1,
      Node.conn .traces .metrics 5, Node.cap ⟨.metrics, 0⟩, Node.proc ⟨.metrics, 0⟩ 1, Node.fanout ⟨.metrics, 0⟩, Node.exp .metrics 2],
    gorderStop := [Node.recv .traces 1, Node.cap ⟨.traces, 0⟩, Node.proc ⟨.traces, 0⟩ 1, Node.proc ⟨.traces, 0⟩ 2, Node.fanout ⟨.traces, 0⟩,
      Node.conn .traces .metrics 5, Node.cap ⟨.metrics, 0⟩, Node.proc ⟨.metrics, 0⟩ 1, Node.fanout ⟨.metrics, 0⟩, Node.exp .metrics 2,
      Node.recv .traces 2, Node.cap ⟨.traces, 1⟩, Node.proc ⟨.traces, 1⟩ 2, Node.fanout ⟨.traces, 1⟩, Node.exp .traces 1],
    eorder := [1, 2] }

/-- the hypotheses of the theorems are met by this system -/
example : exSys.Admissible :=
  ⟨isTopo_of_isTopoB (by decide), isTopo_of_isTopoB (by decide), isTopo_of_isTopoB (by decide)⟩

/-- three lifetimes over one map: inner Shutdown happens in each, whatever the earlier lifetimes did; a lifetime whose
`service.New` failed leaves the (unused) wrapper behind and the next one uses it -/
example : mapLifetimes none [[.start, .start, .stop, .stop], [], [.start, .stop, .stop], [.stop]] =
    [[.start, .stop], [], [.start, .stop], [.stop]] := by decide

/-- the monitor accepts the model's own run, with a start failure at the connector and a stop failure at extension 1 -/
example : check exSys (run exSys (fun c => c == Comp.node (Node.conn .traces .metrics 5)) (fun c => c == Comp.ext 1)) = true := by decide
example : (run exSys (fun c => c == Comp.node (Node.conn .traces .metrics 5)) (fun _ => false)).starts.map (·.1) =
    [Comp.ext 1, Comp.ext 2, Comp.node (Node.exp .metrics 2), Comp.node (Node.proc ⟨.metrics, 0⟩ 1), Comp.node (Node.conn .traces .metrics 5)] := by decide
example : check exSys (run exSys (fun _ => false) (fun _ => false)) = true := by decide
/-- the monitor rejects a log in which a receiver was started before its pipeline's exporter -/
example : check exSys { (run exSys (fun _ => false) (fun _ => false)) with
    starts := [(Comp.ext 1, true), (Comp.ext 2, true), (Comp.node (Node.recv .traces 2), true)] } = false := by decide

/-- non-vacuity of `C10_accepted_admissible` / `C10_accepted_lifetime_passes`: the example service (extension 2 listed twice) is
accepted by `newService`; a dependency cycle between the extensions is not (hypothesis false, `extCycle`) -/
example : newService exCfg (dedupExts [{ id := 2, deps := [1] }, { id := 1, deps := [] }, { id := 2, deps := [1] }]) = none := by decide
example : newService exCfg [{ id := 2, deps := [1] }, { id := 1, deps := [2] }] = some .extCycle := by decide
/-- the order the peeling yields for the example's extensions: dependency first -/
example : extPeel exSys.exts exSys.exts.length = [1, 2] := by decide

/-- non-vacuity of `C10_shared_inner_in_run`: two receiver nodes of the example service as the instances of one shared component; with
the connector's `Start` failing no receiver is ever started, so the inner component sees no `Start` and exactly one `Shutdown` -/
example : ∀ n, n ∈ [Node.recv .traces 1, Node.recv .traces 2] → n ∈ nodes exSys.cfg ∧ n.isComp = true := by decide
example : Shared.runCalls {} (instCalls ([Node.recv .traces 1, Node.recv .traces 2].map Comp.node)
    (run exSys (fun c => c == Comp.node (Node.conn .traces .metrics 5)) (fun _ => false))) = [.stop] := by decide
example : Shared.runCalls {} (instCalls ([Node.recv .traces 1, Node.recv .traces 2].map Comp.node)
    (run exSys (fun _ => false) (fun _ => false))) = [.start, .stop] := by decide

/-- non-vacuity of the two extension-message theorems: the messages the real code prints for a two-extension dependency cycle and for a
dependency on the unlisted extension 5 are accepted; a chain that is not closed, a hop that is no declared dependency, a present dependency are not -/
example : extCycleMsgOk [{ id := 2, deps := [1] }, { id := 1, deps := [2] }] [1, 2, 1] = true := by decide
example : extCycleMsgOk [{ id := 2, deps := [1] }, { id := 1, deps := [2] }] [1, 2] = false := by decide
example : extCycleMsgOk [{ id := 2, deps := [1] }, { id := 1, deps := [] }] [1, 2, 1] = false := by decide
example : extMissingMsgOk [{ id := 2, deps := [5] }, { id := 1, deps := [] }] 5 2 = true := by decide
example : extMissingMsgOk [{ id := 2, deps := [1] }, { id := 1, deps := [] }] 1 2 = false := by decide

end OtelVerif.C10
