import OtelVerif.Model.C10
/-! C10 property theorems (stub) -/
namespace OtelVerif.C10
end OtelVerif.C10
