import OtelVerif.Lemmas.C10
/-!
# C10 — components start downstream-first, stop upstream-first, each exactly once

Model: `Model/C10.lean` (mirror of `Graph.StartAll` — with receivers started last, the repaired code —
`Graph.ShutdownAll`, `Extensions.Start/Shutdown`, `Service.Start/Shutdown`, the collector's
shutdown-after-failed-start, `sharedcomponent`), over the graph model of C09.

Every theorem quantifies over every configuration, every extension list with dependencies, **every** order
`topo.Sort` may return (`Sys.Admissible`: duplicate-free, complete, every edge forward — nothing else is assumed
about gonum) and every choice of failing components (`failS`, `failT` arbitrary predicates).
-/
namespace OtelVerif.C10
open OtelVerif.C09

/-- the three `topo.Sort` results are topological orders of what they sort -/
structure Sys.Admissible (sys : Sys) : Prop where
  topoStart : IsTopo (nodes sys.cfg) (edges sys.cfg) sys.gorderStart
  topoStop : IsTopo (nodes sys.cfg) (edges sys.cfg) sys.gorderStop
  topoExt : IsTopo (sys.exts.map (·.id)) (extEdges sys.exts) sys.eorder

/-- the whole intended start sequence -/
def startPlanAll (sys : Sys) : List Comp := sys.eorder.map Comp.ext ++ startPlan sys.gorderStart

theorem startPlanAll_nodup {sys : Sys} (h : sys.Admissible) : (startPlanAll sys).Nodup :=
  nodup_plan_append h.topoExt.nodup (nodup_startPlan h.topoStart.nodup)
    (fun c hc => by obtain ⟨n, _, _, rfl⟩ := mem_startPlan.mp hc; exact ⟨n, rfl⟩)

theorem starts_prefix (sys : Sys) (failS : Comp → Bool) :
    ∃ suf, (serviceStart sys failS).map (·.1) ++ suf = startPlanAll sys := by
  rw [serviceStart_eq]; exact runStarts_prefix failS _

/-- what was planned to happen earlier did happen earlier, for anything that was started -/
theorem before_starts {sys : Sys} (h : sys.Admissible) (failS : Comp → Bool) {x y : Comp}
    (hy : y ∈ (serviceStart sys failS).map (·.1)) (hb : Before (startPlanAll sys) x y) :
    Before ((serviceStart sys failS).map (·.1)) x y := by
  obtain ⟨suf, hs⟩ := starts_prefix sys failS
  have hnd := startPlanAll_nodup h
  rw [← hs] at hnd hb
  exact before_prefix hnd hy hb

theorem node_started_mem {sys : Sys} (failS : Comp → Bool) {n : Node}
    (hn : Comp.node n ∈ (serviceStart sys failS).map (·.1)) : Comp.node n ∈ startPlan sys.gorderStart := by
  obtain ⟨suf, hs⟩ := starts_prefix sys failS
  have : Comp.node n ∈ startPlanAll sys := by rw [← hs]; exact List.mem_append_left _ hn
  simp only [startPlanAll, List.mem_append, List.mem_map] at this
  rcases this with ⟨e, _, he⟩ | h
  · cases he
  · exact h

/-- in the graph's start plan, whoever `b` sends data to comes before `b` -/
theorem plan_downstream_first {sys : Sys} (h : sys.Admissible) {a b : Node}
    (hb : Comp.node b ∈ startPlan sys.gorderStart) (hab : a ∈ compSucc (edges sys.cfg) b) :
    Before (startPlan sys.gorderStart) (Comp.node a) (Comp.node b) := by
  obtain ⟨b', _, hbc, hb'⟩ := mem_startPlan.mp hb
  injection hb' with hb'
  subst hb'
  have hpath := compSucc_path hab
  have hac := compSucc_isComp hab
  have hanr := path_target_not_recv hpath
  have h1 : Before (sys.gorderStart.reverse.filter Node.isComp) a b :=
    before_filter _ (before_reverse (topo_path h.topoStart hpath)) hac hbc
  simp only [startPlan]
  apply before_map
  cases hbr : isRecvN b with
  | false =>
    exact before_append_left _ (before_filter _ h1 (by simp [hanr]) (by simp [hbr]))
  | true =>
    exact before_append_mid (List.mem_filter.mpr ⟨h1.mem_left, by simp [hanr]⟩) (List.mem_filter.mpr ⟨h1.mem_right, hbr⟩)

/-! ## start order -/

/-- **start order**: a started pipeline component was started after every component it sends data to; every
extension before every pipeline component; every extension after the extensions it depends on -/
theorem C10_start_order (sys : Sys) (h : sys.Admissible) (failS : Comp → Bool) :
    let st := (serviceStart sys failS).map (·.1)
    (∀ b a, Comp.node b ∈ st → a ∈ compSucc (edges sys.cfg) b → Before st (Comp.node a) (Comp.node b)) ∧
    (∀ e n, e ∈ sys.exts → Comp.node n ∈ st → Before st (Comp.ext e.id) (Comp.node n)) ∧
    (∀ e d, e ∈ sys.exts → d ∈ e.deps → Comp.ext e.id ∈ st → Before st (Comp.ext d) (Comp.ext e.id)) := by
  refine ⟨fun b a hb hab => ?_, fun e n he hn => ?_, fun e d he hd hs => ?_⟩
  · exact before_starts h failS hb (before_append_right _ (plan_downstream_first h (node_started_mem failS hb) hab))
  · refine before_starts h failS hn (before_append_mid ?_ (node_started_mem failS hn))
    exact List.mem_map.mpr ⟨e.id, (h.topoExt.mem _).mpr (List.mem_map.mpr ⟨e, he, rfl⟩), rfl⟩
  · refine before_starts h failS hs (before_append_left _ (before_map _ (h.topoExt.fwd d e.id ?_)))
    simp only [extEdges, List.mem_flatMap, List.mem_map]
    exact ⟨e, he, d, hd, rfl⟩

/-- **shared receivers** (repaired `StartAll`): when any receiver instance starts — in particular the first
instance of a receiver shared by several signals, which starts the one underlying component — every
component that *any* receiver instance sends data to has already started -/
theorem C10_receiver_starts_after_all_downstream (sys : Sys) (h : sys.Admissible) (failS : Comp → Bool)
    (r r' a : Node) (hr : isRecvN r = true) (hs : Comp.node r ∈ (serviceStart sys failS).map (·.1))
    (ha : a ∈ compSucc (edges sys.cfg) r') :
    Before ((serviceStart sys failS).map (·.1)) (Comp.node a) (Comp.node r) := by
  refine before_starts h failS hs (before_append_right _ ?_)
  obtain ⟨r0, hr0, hrc, hr0'⟩ := mem_startPlan.mp (node_started_mem failS hs)
  injection hr0' with hr0'
  subst hr0'
  have hpath := compSucc_path ha
  have hamem : a ∈ sys.gorderStart := by
    have : a ∈ nodes sys.cfg := by
      have aux : ∀ {x y : Node}, Path (edges sys.cfg) x y → y ∈ nodes sys.cfg := by
        intro x y hp
        induction hp with
        | single h => exact edge_target_mem h
        | cons _ _ ih => exact ih
      exact aux hpath
    exact (h.topoStart.mem a).mpr this
  simp only [startPlan]
  apply before_map
  refine before_append_mid (List.mem_filter.mpr ⟨List.mem_filter.mpr ⟨List.mem_reverse.mpr hamem, compSucc_isComp ha⟩, ?_⟩)
    (List.mem_filter.mpr ⟨List.mem_filter.mpr ⟨List.mem_reverse.mpr hr0, hrc⟩, hr⟩)
  simp [path_target_not_recv hpath]

/-! ## stop order -/

theorem stops_eq (sys : Sys) (failT : Comp → Bool) :
    (serviceShutdown sys failT).map (·.1) = compsOf sys.gorderStop ++ sys.eorder.reverse.map Comp.ext := by
  simp [serviceShutdown, runStops, List.map_map, Function.comp_def]

/-- **stop order**: a component is shut down before every component it sends data to; extensions after every
pipeline component; an extension before the extensions it depends on — whatever fails -/
theorem C10_stop_order (sys : Sys) (h : sys.Admissible) (failT : Comp → Bool) :
    let sp := (serviceShutdown sys failT).map (·.1)
    (∀ b a, b.isComp = true → a ∈ compSucc (edges sys.cfg) b → Before sp (Comp.node b) (Comp.node a)) ∧
    (∀ e n, e ∈ sys.exts → n ∈ nodes sys.cfg → n.isComp = true → Before sp (Comp.node n) (Comp.ext e.id)) ∧
    (∀ e d, e ∈ sys.exts → d ∈ e.deps → Before sp (Comp.ext e.id) (Comp.ext d)) := by
  simp only [stops_eq]
  refine ⟨fun b a hb hab => ?_, fun e n he hn hc => ?_, fun e d he hd => ?_⟩
  · exact before_append_left _ (before_map _ (before_filter _ (topo_path h.topoStop (compSucc_path hab)) hb (compSucc_isComp hab)))
  · refine before_append_mid (mem_compsOf.mpr ⟨n, (h.topoStop.mem n).mpr hn, hc, rfl⟩) ?_
    exact List.mem_map.mpr ⟨e.id, List.mem_reverse.mpr ((h.topoExt.mem _).mpr (List.mem_map.mpr ⟨e, he, rfl⟩)), rfl⟩
  · refine before_append_right _ (before_map _ (before_reverse (h.topoExt.fwd d e.id ?_)))
    simp only [extEdges, List.mem_flatMap, List.mem_map]
    exact ⟨e, he, d, hd, rfl⟩

/-! ## exactly once -/

/-- **exactly once**: whatever fails in `Start` or `Shutdown`, no component is started twice and every
component of the service — pipeline components and extensions, started or not — is shut down exactly once -/
theorem C10_exactly_once (sys : Sys) (h : sys.Admissible) (failS failT : Comp → Bool) :
    let o := run sys failS failT
    (o.starts.map (·.1)).Nodup ∧ (o.stops.map (·.1)).Nodup ∧ (∀ c, c ∈ o.stops.map (·.1) ↔ c ∈ allComps sys) ∧
    (∀ c, c ∈ o.starts.map (·.1) → c ∈ allComps sys) := by
  have hmemC : ∀ c, c ∈ compsOf sys.gorderStop ↔ c ∈ ((nodes sys.cfg).filter Node.isComp).map Comp.node := by
    intro c
    rw [mem_compsOf]
    simp only [List.mem_map, List.mem_filter]
    constructor
    · rintro ⟨n, h1, h2, rfl⟩; exact ⟨n, ⟨(h.topoStop.mem n).mp h1, h2⟩, rfl⟩
    · rintro ⟨n, ⟨h1, h2⟩, rfl⟩; exact ⟨n, (h.topoStop.mem n).mpr h1, h2, rfl⟩
  have hmemE : ∀ c, c ∈ sys.eorder.reverse.map Comp.ext ↔ c ∈ sys.exts.map (fun e => Comp.ext e.id) := by
    intro c
    simp only [List.mem_map, List.mem_reverse]
    constructor
    · rintro ⟨e, he, rfl⟩
      obtain ⟨x, hx, rfl⟩ := List.mem_map.mp ((h.topoExt.mem e).mp he)
      exact ⟨x, hx, rfl⟩
    · rintro ⟨x, hx, rfl⟩
      exact ⟨x.id, (h.topoExt.mem _).mpr (List.mem_map.mpr ⟨x, hx, rfl⟩), rfl⟩
  refine ⟨?_, ?_, ?_, ?_⟩
  · obtain ⟨suf, hs⟩ := starts_prefix sys failS
    have := startPlanAll_nodup h
    rw [← hs] at this
    exact (List.nodup_append.mp this).1
  · show ((serviceShutdown sys failT).map (·.1)).Nodup
    rw [stops_eq, List.nodup_append]
    refine ⟨nodup_compsOf h.topoStop.nodup, nodup_map_ext ((List.reverse_perm _).nodup_iff.mpr h.topoExt.nodup), ?_⟩
    intro x hx y hy hxy
    subst hxy
    obtain ⟨n, _, _, rfl⟩ := mem_compsOf.mp hx
    obtain ⟨e, _, he⟩ := List.mem_map.mp hy
    cases he
  · intro c
    show c ∈ (serviceShutdown sys failT).map (·.1) ↔ _
    rw [stops_eq]
    simp only [allComps, List.mem_append, hmemC, hmemE]
  · intro c hc
    obtain ⟨suf, hs⟩ := starts_prefix sys failS
    have hc' : c ∈ startPlanAll sys := by rw [← hs]; exact List.mem_append_left _ hc
    simp only [startPlanAll, List.mem_append] at hc'
    simp only [allComps, List.mem_append]
    rcases hc' with hc' | hc'
    · right
      obtain ⟨e, he, rfl⟩ := List.mem_map.mp hc'
      obtain ⟨x, hx, rfl⟩ := List.mem_map.mp ((h.topoExt.mem e).mp he)
      exact List.mem_map.mpr ⟨x, hx, rfl⟩
    · left
      obtain ⟨n, h1, h2, rfl⟩ := mem_startPlan.mp hc'
      exact List.mem_map.mpr ⟨n, List.mem_filter.mpr ⟨(h.topoStart.mem n).mp h1, h2⟩, rfl⟩

/-! ## failures -/

/-- **start failure**: nothing is started after the component whose `Start` failed; `Start` reports failure
exactly when some planned component fails; a successful `Start` started every component; each recorded
result is the component's own; (by `C10_exactly_once` the following `Shutdown` still reaches everything) -/
theorem C10_start_failure (sys : Sys) (h : sys.Admissible) (failS failT : Comp → Bool) :
    let o := run sys failS failT
    failedStartIsLast o.starts = true ∧
    (o.startOk = true ↔ ∀ c, c ∈ allComps sys → failS c = false) ∧
    (o.startOk = true → ∀ c, c ∈ allComps sys → c ∈ o.starts.map (·.1)) ∧
    (∀ e, e ∈ o.starts → e.2 = !(failS e.1)) := by
  have hplan : ∀ c, c ∈ startPlanAll sys ↔ c ∈ allComps sys := by
    intro c
    simp only [startPlanAll, allComps, List.mem_append]
    constructor
    · rintro (hc | hc)
      · right
        obtain ⟨e, he, rfl⟩ := List.mem_map.mp hc
        obtain ⟨x, hx, rfl⟩ := List.mem_map.mp ((h.topoExt.mem e).mp he)
        exact List.mem_map.mpr ⟨x, hx, rfl⟩
      · left
        obtain ⟨n, h1, h2, rfl⟩ := mem_startPlan.mp hc
        exact List.mem_map.mpr ⟨n, List.mem_filter.mpr ⟨(h.topoStart.mem n).mp h1, h2⟩, rfl⟩
    · rintro (hc | hc)
      · right
        obtain ⟨n, hn, rfl⟩ := List.mem_map.mp hc
        obtain ⟨h1, h2⟩ := List.mem_filter.mp hn
        exact mem_startPlan.mpr ⟨n, (h.topoStart.mem n).mpr h1, h2, rfl⟩
      · left
        obtain ⟨x, hx, rfl⟩ := List.mem_map.mp hc
        exact List.mem_map.mpr ⟨x.id, (h.topoExt.mem _).mpr (List.mem_map.mpr ⟨x, hx, rfl⟩), rfl⟩
  refine ⟨?_, ?_, ?_, ?_⟩
  · show failedStartIsLast (serviceStart sys failS) = true
    rw [serviceStart_eq]; exact failedStartIsLast_runStarts _ _
  · show allOk (serviceStart sys failS) = true ↔ _
    rw [serviceStart_eq, runStarts_allOk]
    exact ⟨fun hh c hc => hh c ((hplan c).mpr hc), fun hh c hc => hh c ((hplan c).mp hc)⟩
  · intro hok c hc
    show c ∈ (serviceStart sys failS).map (·.1)
    have hok' : allOk (serviceStart sys failS) = true := hok
    rw [serviceStart_eq] at hok' ⊢
    rw [runStarts_ok_all _ _ hok']
    exact (hplan c).mpr hc
  · intro e he
    have he' : e ∈ serviceStart sys failS := he
    rw [serviceStart_eq] at he'
    exact runStarts_flags _ _ e he'

/-- **shutdown failure**: a failing `Shutdown` is recorded for that component only and does not keep any other
component from being shut down (`C10_exactly_once` holds for every `failT`); `Shutdown` reports an error
exactly when some component's `Shutdown` failed -/
theorem C10_stop_failure (sys : Sys) (failS failT : Comp → Bool) :
    let o := run sys failS failT
    (∀ e, e ∈ o.stops → e.2 = !(failT e.1)) ∧ (o.stopOk = true ↔ ∀ e, e ∈ o.stops → failT e.1 = false) := by
  have hflags : ∀ e, e ∈ serviceShutdown sys failT → e.2 = !(failT e.1) := by
    intro e he
    simp only [serviceShutdown, runStops, List.mem_append, List.mem_map] at he
    rcases he with ⟨c, _, rfl⟩ | ⟨c, _, rfl⟩ <;> rfl
  refine ⟨hflags, ?_⟩
  show allOk (serviceShutdown sys failT) = true ↔ _
  simp only [allOk, List.all_eq_true]
  constructor
  · intro hh e he
    have := hh e he
    rw [hflags e he] at this
    simpa using this
  · intro hh e he
    rw [hflags e he, hh e he]; rfl

/-! ## shared components -/

theorem shared_count (s : Shared) (calls : List Call) :
    (s.runCalls calls).count .start = (if s.started = false ∧ Call.start ∈ calls then 1 else 0) ∧
    (s.runCalls calls).count .stop = (if s.stopped = false ∧ Call.stop ∈ calls then 1 else 0) := by
  induction calls generalizing s with
  | nil => simp [Shared.runCalls]
  | cons c rest ih =>
    obtain ⟨st, sp⟩ := s
    cases c <;> cases st <;> cases sp <;>
      simp [Shared.runCalls, Shared.step, ih, List.count_cons]

/-- **shared once**: however many per-signal instances exist and in whatever order they are started and
stopped (any sequence of `Start`/`Shutdown` calls on the instances), the underlying component's `Start`
runs once if any instance is started, its `Shutdown` once if any instance is shut down — never twice -/
theorem C10_shared_once (calls : List Call) :
    ((Shared.runCalls {} calls).count .start = if Call.start ∈ calls then 1 else 0) ∧
    ((Shared.runCalls {} calls).count .stop = if Call.stop ∈ calls then 1 else 0) := by
  have := shared_count {} calls
  simpa using this

/-! ## the monitor is sound -/

/-- whatever log the monitor accepts (the implementation's, on every run) satisfies the ordering and
exactly-once clauses, stated without reference to the monitor -/
theorem C10_check_sound (sys : Sys) (o : Outcome) (h : check sys o = true) :
    let st := o.starts.map (·.1)
    let sp := o.stops.map (·.1)
    st.Nodup ∧
    (∀ b a, b ∈ nodes sys.cfg → Comp.node b ∈ st → a ∈ compSucc (edges sys.cfg) b → Before st (Comp.node a) (Comp.node b)) ∧
    (∀ e c, e ∈ sys.exts → c ∈ st → isNodeC c = true → Before st (Comp.ext e.id) c) ∧
    (∀ e d, e ∈ sys.exts → d ∈ e.deps → Comp.ext e.id ∈ st → Before st (Comp.ext d) (Comp.ext e.id)) ∧
    sp.Nodup ∧ (∀ c, c ∈ sp ↔ c ∈ allComps sys) ∧
    (∀ b a, b ∈ nodes sys.cfg → b.isComp = true → a ∈ compSucc (edges sys.cfg) b → Before sp (Comp.node b) (Comp.node a)) ∧
    (∀ e n, e ∈ sys.exts → n ∈ nodes sys.cfg → n.isComp = true → Before sp (Comp.node n) (Comp.ext e.id)) ∧
    (∀ e d, e ∈ sys.exts → d ∈ e.deps → Before sp (Comp.ext e.id) (Comp.ext d)) ∧
    failedStartIsLast o.starts = true := by
  simp only [check, checkStarts, checkStops, checkFailures, Bool.and_eq_true] at h
  obtain ⟨⟨⟨⟨⟨⟨hs1, hs2⟩, hs3⟩, hs4⟩, ⟨⟨⟨ht1, ht2⟩, ht3⟩, ht4⟩⟩, ⟨⟨hf, _⟩, _⟩⟩, _⟩ := h
  simp only [startsOnce, Bool.and_eq_true] at hs1
  simp only [startsDownstreamFirst, List.all_eq_true, Bool.or_eq_true, Bool.not_eq_true', decide_eq_false_iff_not] at hs2
  simp only [startsExtFirst, List.all_eq_true, Bool.or_eq_true, Bool.not_eq_true'] at hs3
  simp only [startsDepFirst, List.all_eq_true, Bool.or_eq_true, Bool.not_eq_true', decide_eq_false_iff_not] at hs4
  simp only [stopsExactlyOnce, Bool.and_eq_true, List.all_eq_true, decide_eq_true_eq] at ht1
  simp only [stopsUpstreamFirst, List.all_eq_true, Bool.or_eq_true, Bool.not_eq_true'] at ht2
  simp only [stopsExtLast, List.all_eq_true, Bool.or_eq_true, Bool.not_eq_true', List.mem_filter, and_imp] at ht3
  simp only [stopsDependentFirst, List.all_eq_true] at ht4
  refine ⟨nodup_of_nodupB hs1.1, ?_, ?_, ?_, nodup_of_nodupB ht1.1.1, ?_, ?_, ?_, ?_, hf⟩
  · intro b a hb hbs hab
    rcases hs2 b hb with h' | h'
    · exact absurd hbs h'
    · exact before_of_beforeB (h' a hab)
  · intro e c he hc hn
    rcases hs3 c hc with h' | h'
    · rw [hn] at h'; cases h'
    · exact before_of_beforeB (h' e he)
  · intro e d he hd hes
    rcases hs4 e he with h' | h'
    · exact absurd hes h'
    · exact before_of_beforeB (h' d hd)
  · intro c
    exact ⟨fun hc => ht1.2 c hc, fun hc => ht1.1.2 c hc⟩
  · intro b a hb hbc hab
    rcases ht2 b hb with h' | h'
    · rw [hbc] at h'; cases h'
    · exact before_of_beforeB (h' a hab)
  · intro e n he hn hnc
    have hmem : Comp.ext e.id ∈ o.stops.map (·.1) := ht1.1.2 _ (by
      simp only [allComps, List.mem_append, List.mem_map]
      exact Or.inr ⟨e, he, rfl⟩)
    rcases ht3 _ hmem with h' | h'
    · cases h'
    · exact before_of_beforeB (h' n hn hnc)
  · intro e d he hd
    exact before_of_beforeB (ht4 e he d hd)

/-! ## non-vacuity -/

/-- traces/0 and traces/1 share receiver 1 and exporter 1; traces/0 also feeds connector 5 into metrics/0 -/
def exCfg : Cfg :=
  { conns := [{ id := 5, supp := [(.traces, .metrics)] }],
    pipes := [{ id := ⟨.traces, 0⟩, recv := [1], procs := [1, 2], exps := [5, 1] },
              { id := ⟨.traces, 1⟩, recv := [1, 2], procs := [2], exps := [1] },
              { id := ⟨.metrics, 0⟩, recv := [5], procs := [1], exps := [2] }] }

/-- that service with two extensions (2 depends on 1); orders = one admissible choice -/
def exSys : Sys :=
  { cfg := exCfg, exts := [{ id := 2, deps := [1] }, { id := 1, deps := [] }],
    gorderStart := [Node.recv .traces 2, Node.recv .traces 1, Node.cap ⟨.traces, 1⟩, Node.proc ⟨.traces, 1⟩ 2, Node.fanout ⟨.traces, 1⟩,
      Node.cap ⟨.traces, 0⟩, Node.proc ⟨.traces, 0⟩ 1, Node.proc ⟨.traces, 0⟩ 2, Node.fanout ⟨.traces, 0⟩, Node.exp .traces 1,
      Node.conn .traces .metrics 5, Node.cap ⟨.metrics, 0⟩, Node.proc ⟨.metrics, 0⟩ 1, Node.fanout ⟨.metrics, 0⟩, Node.exp .metrics 2],
    gorderStop := [Node.recv .traces 1, Node.cap ⟨.traces, 0⟩, Node.proc ⟨.traces, 0⟩ 1, Node.proc ⟨.traces, 0⟩ 2, Node.fanout ⟨.traces, 0⟩,
      Node.conn .traces .metrics 5, Node.cap ⟨.metrics, 0⟩, Node.proc ⟨.metrics, 0⟩ 1, Node.fanout ⟨.metrics, 0⟩, Node.exp .metrics 2,
      Node.recv .traces 2, Node.cap ⟨.traces, 1⟩, Node.proc ⟨.traces, 1⟩ 2, Node.fanout ⟨.traces, 1⟩, Node.exp .traces 1],
    eorder := [1, 2] }

/-- the hypotheses of the theorems are met by this system -/
example : exSys.Admissible :=
  ⟨isTopo_of_isTopoB (by decide), isTopo_of_isTopoB (by decide), isTopo_of_isTopoB (by decide)⟩

/-- the monitor accepts the model's own run, with a start failure at the connector and a stop failure at extension 1 -/
example : check exSys (run exSys (fun c => c == Comp.node (Node.conn .traces .metrics 5)) (fun c => c == Comp.ext 1)) = true := by decide
example : (run exSys (fun c => c == Comp.node (Node.conn .traces .metrics 5)) (fun _ => false)).starts.map (·.1) =
    [Comp.ext 1, Comp.ext 2, Comp.node (Node.exp .metrics 2), Comp.node (Node.proc ⟨.metrics, 0⟩ 1), Comp.node (Node.conn .traces .metrics 5)] := by decide
example : check exSys (run exSys (fun _ => false) (fun _ => false)) = true := by decide
/-- the monitor rejects a log in which a receiver was started before its pipeline's exporter -/
example : check exSys { (run exSys (fun _ => false) (fun _ => false)) with
    starts := [(Comp.ext 1, true), (Comp.ext 2, true), (Comp.node (Node.recv .traces 2), true)] } = false := by decide

end OtelVerif.C10
